(* Characterising lemmas for the CPython sequence primitives of Prelude/PySeq.v (sorted, enumerate, integer indexing)
   against the hand-written stable sorts and index functions of Model/GetNBest.v.  Nothing here mentions generated
   code: Props/GenTie_Core.v uses these lemmas to tie Gen/Core.v (the translated util.sorted_votes / core.get_n_best)
   to the model.

   Main results
     stable_unique      two descending-sorted lists with the same members level by level, in the same order, are equal
     py_sorted_desc     sorted(l, key=value, reverse=True)  = sort_desc l   (Model/GetNBest.v), any total preorder
     py_sorted_asc      sorted(l, key=value, reverse=False) = sort_asc l
     fold_enum_char     the loop `for i, x in enumerate(l): if p(x): acc.append(f(x)); first = i if first is None`
                        computes (map f (filter p l), index of the first x with p x)
     find_index_first_eq  that index is first_eq_index of the model when some item is level with the threshold *)
From Coq Require Import List Arith Bool Lia Permutation Sorted ZArith ZifyBool.
From VL Require Import Prelude.PyList Prelude.PySeq Model.GetNBest Proofs.GetNBest_proofs.
Import ListNotations.

Lemma filter_rev' {X} (f : X -> bool) l : filter f (rev l) = rev (filter f l).
Proof.
  induction l as [|a l IH]; [reflexivity|]. cbn [rev filter]. rewrite filter_app, IH. cbn [filter].
  destruct (f a); [reflexivity | apply app_nil_r].
Qed.

Section Sort.
  Context {C V : Type}.
  Variable leb : V -> V -> bool.
  Hypothesis leb_total : forall a b, leb a b = true \/ leb b a = true.
  Hypothesis leb_trans : forall a b c, leb a b = true -> leb b c = true -> leb a c = true.

  Notation eqv := (@eqv V leb).
  Notation level := (@f_level C V leb).
  Notation sdesc := (@sorted_desc C V leb).
  Notation sasc := (@sorted_asc C V leb).
  Notation place := (@py_place (C * V) V (@snd C V) leb).
  Notation stable := (@py_sort_stable (C * V) V (@snd C V) leb).
  Notation fplace := (fold_left (fun placed x => place x placed)).

  Lemma level_refl (x : C * V) : level (snd x) x = true.
  Proof. unfold f_level. apply (eqv_refl leb leb_total). Qed.

  (* ---- the placing step *)
  Lemma place_perm x l : Permutation (place x l) (x :: l).
  Proof.
    induction l as [|y t IH]; cbn [py_place]; [reflexivity|].
    destruct (leb (snd y) (snd x)); [|reflexivity]. rewrite IH. apply perm_swap.
  Qed.

  Lemma place_sorted x l : sasc l -> sasc (place x l).
  Proof.
    induction l as [|y t IH]; intros H; cbn [py_place].
    - constructor; constructor.
    - inversion H as [|? ? Ht Hy]; subst. destruct (leb (snd y) (snd x)) eqn:E.
      + constructor; [apply IH; exact Ht|]. apply Forall_forall. intros z Hz.
        apply (Permutation_in _ (place_perm x t)) in Hz. destruct Hz as [<-|Hz]; [exact E|].
        rewrite Forall_forall in Hy. exact (Hy z Hz).
      + assert (Exy : leb (snd x) (snd y) = true) by (destruct (leb_total (snd x) (snd y)) as [T|T]; [exact T | congruence]).
        constructor; [exact H|]. constructor; [exact Exy|].
        apply Forall_forall. intros z Hz. rewrite Forall_forall in Hy. unfold le_item. eapply leb_trans; [exact Exy | exact (Hy z Hz)].
  Qed.

  Lemma place_filter_level thr x l : sasc l ->
    filter (level thr) (place x l) = filter (level thr) l ++ filter (level thr) [x].
  Proof.
    induction l as [|y t IH]; intros H; cbn [py_place]; [reflexivity|].
    inversion H as [|? ? Ht Hy]; subst. destruct (leb (snd y) (snd x)) eqn:E.
    - cbn [filter]. rewrite (IH Ht). cbn [filter]. destruct (level thr y); reflexivity.
    - destruct (level thr x) eqn:Fx.
      + assert (N : filter (level thr) (y :: t) = []).
        { apply filter_none. apply Forall_forall. intros z Hz.
          destruct (level thr z) eqn:Fz; [exfalso | reflexivity].
          assert (Lzx : leb (snd z) (snd x) = true) by exact (eqv_leb_l leb leb_trans _ _ _ Fz Fx).
          assert (Lyz : leb (snd y) (snd z) = true).
          { destruct Hz as [<-|Hz]; [apply (leb_refl leb leb_total)|]. rewrite Forall_forall in Hy. exact (Hy z Hz). }
          rewrite (leb_trans _ _ _ Lyz Lzx) in E. discriminate. }
        change (filter (level thr) (x :: y :: t)) with (if level thr x then x :: filter (level thr) (y :: t) else filter (level thr) (y :: t)).
        rewrite Fx, N. cbn [filter]. rewrite Fx. reflexivity.
      + change (filter (level thr) (x :: y :: t)) with (if level thr x then x :: filter (level thr) (y :: t) else filter (level thr) (y :: t)).
        cbn [filter]. rewrite Fx. rewrite app_nil_r. reflexivity.
  Qed.

  (* ---- the stable ascending sort *)
  Lemma fplace_perm l acc : Permutation (fplace l acc) (acc ++ l).
  Proof.
    revert acc. induction l as [|a l IH]; intros acc; cbn [fold_left]; [rewrite app_nil_r; reflexivity|].
    rewrite IH. rewrite (place_perm a acc). cbn [app]. apply Permutation_middle.
  Qed.

  Lemma fplace_sorted l acc : sasc acc -> sasc (fplace l acc).
  Proof.
    revert acc. induction l as [|a l IH]; intros acc H; cbn [fold_left]; [exact H|]. apply IH, place_sorted, H.
  Qed.

  Lemma fplace_filter_level thr l acc : sasc acc ->
    filter (level thr) (fplace l acc) = filter (level thr) acc ++ filter (level thr) l.
  Proof.
    revert acc. induction l as [|a l IH]; intros acc H; cbn [fold_left]; [cbn [filter]; rewrite app_nil_r; reflexivity|].
    rewrite (IH _ (place_sorted a acc H)), (place_filter_level thr a acc H), <- app_assoc. f_equal.
    cbn [filter]. destruct (level thr a); reflexivity.
  Qed.

  Lemma stable_perm l : Permutation (stable l) l.
  Proof. unfold py_sort_stable. rewrite fplace_perm. reflexivity. Qed.
  Lemma stable_sorted l : sasc (stable l).
  Proof. unfold py_sort_stable. apply fplace_sorted. constructor. Qed.
  Lemma stable_filter_level thr l : filter (level thr) (stable l) = filter (level thr) l.
  Proof. unfold py_sort_stable. rewrite fplace_filter_level by constructor. reflexivity. Qed.

  (* ---- reversal turns ascending into descending *)
  Lemma sdesc_snoc l a : sdesc l -> Forall (fun z => ge_item leb z a) l -> sdesc (l ++ [a]).
  Proof.
    induction l as [|y t IH]; intros H F; cbn [app].
    - constructor; constructor.
    - inversion H as [|? ? Ht Hy]; subst. inversion F as [|? ? Fy Ft]; subst.
      constructor; [apply IH; assumption|]. apply Forall_app. split; [exact Hy|]. constructor; [exact Fy | constructor].
  Qed.

  Lemma sasc_rev l : sasc l -> sdesc (rev l).
  Proof.
    induction 1 as [|a l Hl IH Ha]; cbn [rev]; [constructor|].
    apply sdesc_snoc; [exact IH|]. apply Forall_forall. intros z Hz. apply in_rev in Hz.
    rewrite Forall_forall in Ha. exact (Ha z Hz).
  Qed.

  Lemma sasc_snoc l a : sasc l -> Forall (fun z => le_item leb z a) l -> sasc (l ++ [a]).
  Proof.
    induction l as [|y t IH]; intros H F; cbn [app].
    - constructor; constructor.
    - inversion H as [|? ? Ht Hy]; subst. inversion F as [|? ? Fy Ft]; subst.
      constructor; [apply IH; assumption|]. apply Forall_app. split; [exact Hy|]. constructor; [exact Fy | constructor].
  Qed.

  (* ---- a stable sorted arrangement is unique *)
  Lemma level_split thr (x : C * V) t :
    filter (level thr) (x :: t) = if level thr x then x :: filter (level thr) t else filter (level thr) t.
  Proof. reflexivity. Qed.

  Lemma head_of_levels (x y : C * V) t t' :
    sdesc (x :: t) -> sdesc (y :: t') ->
    (forall thr, filter (level thr) (x :: t) = filter (level thr) (y :: t')) -> x = y.
  Proof.
    intros Hs Hs' Hf.
    assert (Iy : In y (x :: t)).
    { pose proof (Hf (snd y)) as E. rewrite (level_split _ y), level_refl in E.
      assert (I : In y (filter (level (snd y)) (x :: t))) by (rewrite E; left; reflexivity).
      apply filter_In in I. exact (proj1 I). }
    assert (Ix : In x (y :: t')).
    { pose proof (Hf (snd x)) as E. rewrite (level_split _ x), level_refl in E.
      assert (I : In x (filter (level (snd x)) (y :: t'))) by (rewrite <- E; left; reflexivity).
      apply filter_In in I. exact (proj1 I). }
    inversion Hs as [|? ? _ Hx]; subst. inversion Hs' as [|? ? _ Hy]; subst.
    assert (Lyx : leb (snd y) (snd x) = true).
    { destruct Iy as [<-|Iy]; [apply (leb_refl leb leb_total)|]. rewrite Forall_forall in Hx. exact (Hx y Iy). }
    assert (Lxy : leb (snd x) (snd y) = true).
    { destruct Ix as [<-|Ix]; [apply (leb_refl leb leb_total)|]. rewrite Forall_forall in Hy. exact (Hy x Ix). }
    pose proof (Hf (snd x)) as E. rewrite !level_split, level_refl in E.
    assert (Fy : level (snd x) y = true) by (unfold f_level, GetNBest.eqv; rewrite Lyx, Lxy; reflexivity).
    rewrite Fy in E. congruence.
  Qed.

  Theorem stable_unique s : forall s', sdesc s -> sdesc s' ->
    (forall thr, filter (level thr) s = filter (level thr) s') -> s = s'.
  Proof.
    induction s as [|x t IH]; intros s' Hs Hs' Hf.
    - destruct s' as [|y t']; [reflexivity|]. specialize (Hf (snd y)). rewrite level_split, level_refl in Hf. discriminate.
    - destruct s' as [|y t'].
      + specialize (Hf (snd x)). rewrite level_split, level_refl in Hf. discriminate.
      + assert (x = y) by exact (head_of_levels x y t t' Hs Hs' Hf). subst y. f_equal.
        inversion Hs; subst. inversion Hs'; subst. apply IH; [assumption | assumption|].
        intros thr. specialize (Hf thr). rewrite !level_split in Hf. destruct (level thr x); congruence.
  Qed.

  (* ---- sorted(l, key=value, reverse=..) is the model's stable sort *)
  Theorem py_sorted_desc l : py_sorted (@snd C V) leb l true = sort_desc leb l.
  Proof.
    unfold py_sorted. apply stable_unique.
    - apply sasc_rev, stable_sorted.
    - apply (sort_desc_sorted leb leb_total leb_trans).
    - intros thr. rewrite filter_rev', stable_filter_level, filter_rev', rev_involutive.
      symmetry. apply (sort_desc_filter_level leb leb_trans).
  Qed.

  (* the ascending direction: the same uniqueness argument on the reversed lists *)
  Lemma insert_asc_filter_level thr x l :
    filter (level thr) (@insert_asc C V leb x l) = filter (level thr) (x :: l).
  Proof.
    induction l as [|y t IH]; [reflexivity|].
    cbn [insert_asc]. destruct (leb (snd x) (snd y)) eqn:E; [reflexivity|].
    rewrite (level_split thr y), IH, !level_split.
    destruct (level thr x) eqn:Fx, (level thr y) eqn:Fy; try reflexivity.
    unfold f_level in *. rewrite (eqv_leb_l leb leb_trans _ _ _ Fx Fy) in E. discriminate.
  Qed.

  Lemma sort_asc_filter_level thr l : filter (level thr) (@sort_asc C V leb l) = filter (level thr) l.
  Proof.
    induction l as [|x t IH]; [reflexivity|].
    cbn [sort_asc]. rewrite insert_asc_filter_level, !level_split, IH. reflexivity.
  Qed.

  Theorem py_sorted_asc l : py_sorted (@snd C V) leb l false = sort_asc leb l.
  Proof.
    unfold py_sorted. rewrite <- (rev_involutive (stable l)), <- (rev_involutive (sort_asc leb l)). f_equal.
    apply stable_unique.
    - apply sasc_rev, stable_sorted.
    - apply sasc_rev, (sort_asc_sorted leb leb_total leb_trans).
    - intros thr. rewrite !filter_rev', stable_filter_level, sort_asc_filter_level. reflexivity.
  Qed.
End Sort.

(* ---------------------------------------------------------------- indexing, slicing, repetition *)
Lemma py_index_nonneg {A} (l : list A) i : (0 <= i)%Z -> py_index l i = nth_error l (Z.to_nat i).
Proof. intros H. unfold py_index. destruct (0 <=? i)%Z eqn:E; [reflexivity | lia]. Qed.

(* l[-1]: the last item (IndexError exactly on the empty list) *)
Lemma py_index_last {A} (l : list A) : py_index l (-1) = nth_error l (length l - 1).
Proof.
  unfold py_index, py_len. change (0 <=? -1)%Z with false. cbv iota.
  destruct l as [|a t]; [reflexivity|].
  assert (E : (0 <=? Z.of_nat (length (a :: t)) + -1)%Z = true) by (apply Z.leb_le; cbn [length]; lia).
  rewrite E. f_equal. cbn [length]. lia.
Qed.

Lemma py_slice_to_nat {A} (l : list A) (j : nat) : py_slice_to l (Z.of_nat j) = firstn j l.
Proof. unfold py_slice_to. destruct (0 <=? Z.of_nat j)%Z eqn:E; [rewrite Nat2Z.id; reflexivity | lia]. Qed.

Lemma py_slice_to_nonneg {A} (l : list A) n : (0 <= n)%Z -> py_slice_to l n = firstn (Z.to_nat n) l.
Proof. intros H. unfold py_slice_to. destruct (0 <=? n)%Z eqn:E; [reflexivity | lia]. Qed.

Lemma py_list_mul_single {A} (x : A) k : py_list_mul [x] k = repeat x (Z.to_nat k).
Proof. unfold py_list_mul. induction (Z.to_nat k) as [|m IH]; [reflexivity|]. cbn [repeat concat app]. rewrite IH. reflexivity. Qed.

(* [x for _ in range(k)] *)
Lemma map_const_range {A} (x : A) k : map (fun _ => x) (py_range k) = repeat x (Z.to_nat k).
Proof.
  unfold py_range. rewrite map_map. generalize 0. induction (Z.to_nat k) as [|m IH]; intros s; [reflexivity|].
  cbn [seq map repeat]. rewrite IH. reflexivity.
Qed.

Lemma py_len_lt_nat {A} (l : list A) n : (0 <= n)%Z -> (n <? py_len l)%Z = Nat.ltb (Z.to_nat n) (length l).
Proof.
  intros H. unfold py_len. destruct (Nat.ltb_spec (Z.to_nat n) (length l)); [apply Z.ltb_lt | apply Z.ltb_ge]; lia.
Qed.

(* ---------------------------------------------------------------- the enumerate loop that collects a group *)
Fixpoint find_index {A} (p : A -> bool) (l : list A) : option nat :=
  match l with
  | [] => None
  | x :: t => if p x then Some 0 else option_map S (find_index p t)
  end.

Lemma find_index_ext {A} (p q : A -> bool) l : (forall x, p x = q x) -> find_index p l = find_index q l.
Proof. intros H. induction l as [|x t IH]; [reflexivity|]. cbn [find_index]. rewrite H, IH. reflexivity. Qed.

Lemma find_index_some {A} (p : A -> bool) l : (exists x, In x l /\ p x = true) -> exists j, find_index p l = Some j.
Proof.
  induction l as [|x t IH]; intros [z [Hz Pz]]; [destruct Hz|].
  cbn [find_index]. destruct (p x) eqn:E; [eexists; reflexivity|].
  destruct Hz as [->|Hz]; [congruence|]. destruct (IH (ex_intro _ z (conj Hz Pz))) as [j Hj]. rewrite Hj. eexists; reflexivity.
Qed.

Section Enum.
  Context {A B : Type}.
  Variable p : A -> bool.
  Variable f : A -> B.
  Variable step : list B * option Z -> Z * A -> list B * option Z.
  (* one iteration, pointwise: an item with p is appended (as f item) and its index is kept if it is the first *)
  Hypothesis step_char : forall st it,
    step st it = if p (snd it) then (fst st ++ [f (snd it)], Some (match snd st with None => fst it | Some v => v end)) else st.

  Lemma fold_enum_from l : forall k t0 nu0,
    fold_left step (combine (map Z.of_nat (seq k (length l))) l) (t0, nu0) =
    (t0 ++ map f (filter p l),
     match nu0 with Some v => Some v | None => option_map (fun j => Z.of_nat (k + j)) (find_index p l) end).
  Proof.
    induction l as [|x t IH]; intros k t0 nu0.
    - cbn. rewrite app_nil_r. destruct nu0; reflexivity.
    - cbn [length seq map combine fold_left filter find_index]. rewrite step_char. cbn [fst snd].
      destruct (p x) eqn:E.
      + rewrite IH. cbn [map]. rewrite <- app_assoc. cbn [app]. f_equal.
        destruct nu0; [reflexivity|]. cbn [option_map]. rewrite Nat.add_0_r. reflexivity.
      + rewrite IH. f_equal. destruct nu0; [reflexivity|].
        destruct (find_index p t) as [j|]; cbn [option_map]; [|reflexivity]. f_equal. f_equal. lia.
  Qed.

  Theorem fold_enum_char l :
    fold_left step (py_enumerate l) ([], None) = (map f (filter p l), option_map Z.of_nat (find_index p l)).
  Proof.
    unfold py_enumerate, py_range, py_len. rewrite Nat2Z.id, fold_enum_from. cbn [app].
    destruct (find_index p l); reflexivity.
  Qed.
End Enum.

(* the first index level with thr, as the model computes it *)
Lemma find_index_first_eq {C V} (leb : V -> V -> bool) (thr : V) (l : list (C * V)) :
  (exists it, In it l /\ eqv leb (snd it) thr = true) ->
  find_index (fun it => eqv leb (snd it) thr) l = Some (first_eq_index leb thr l).
Proof.
  induction l as [|y t IH]; intros [z [Hz Pz]]; [destruct Hz|].
  cbn [find_index first_eq_index]. destruct (eqv leb (snd y) thr) eqn:E; [reflexivity|].
  destruct Hz as [->|Hz]; [congruence|]. rewrite (IH (ex_intro _ z (conj Hz Pz))). reflexivity.
Qed.
