(* From ONE moved ballot to the pairwise-count relation (C17): through the model of RankedToCondorcetVotes
   (Model/Hybrids.v [pairwise] = RANKED_TO_CONDORCET, the per-ballot image Model/Convert.v [img_condorcet true]; lemmas
   Proofs/Hybrids_proofs.v), moving w up past the items p2 on one ballot changes the pairwise dictionary exactly by
     count(w, c) += x * (number of times c was jumped),   count(c, w) -= the same,   nothing else
   ([pairwise_move_exact]), and the set of candidates of the dictionary stays the same ([pairwise_move_cands]).
   The ORDER of first appearance of the candidates in the dictionary can change (the pairs of the moved ballot are inserted
   in a different order), so the relation [raises] of Proofs/CopelandMono_proofs.v, which asks for equal candidate LISTS, is
   weakened to [raises_s] (equal candidate SETS) and Copeland / minimax monotonicity are re-proved for it
   ([copeland_monotone_s], [minimax_monotone_s]; the proofs only ever used membership and the length). *)
From Coq Require Import ZArith QArith List Bool Lia Arith Permutation.
From VL Require Import Prelude.Sx Prelude.PyDict Prelude.GDict Model.GetNBest Model.Convert Model.STV Model.Condorcet Model.Hybrids
     Proofs.Dict_proofs Proofs.GetNBest_proofs Proofs.Condorcet_proofs Proofs.CopelandMono_proofs Proofs.Minimax_proofs
     Proofs.Hybrids_proofs.
Import ListNotations.
Open Scope Z_scope.

Definition raises_s (v v' : pvotes) (w : C) : Prop :=
  (forall c, In c (candidates v') <-> In c (candidates v)) /\
  (forall x, pget0 v (w, x) <= pget0 v' (w, x) /\ pget0 v' (x, w) <= pget0 v (x, w)) /\
  (forall a b, a <> w -> b <> w -> pget0 v' (a, b) = pget0 v (a, b)).

Lemma raises_raises_s v v' w : raises v v' w -> raises_s v v' w.
Proof. intros (H1 & H2 & H3). split; [intros c; rewrite H1; reflexivity|]. split; assumption. Qed.

(* ------------------------------------------------------------------ Copeland under raises_s *)
Section CMS.
  Variables v v' : pvotes.
  Variable w : C.
  Hypothesis Hnd : NoDup (map fst v).
  Hypothesis Hnd' : NoDup (map fst v').
  Hypothesis Hnn : forall p n, In (p, n) v -> 0 <= n.
  Hypothesis Hnn' : forall p n, In (p, n) v' -> 0 <= n.
  Hypothesis Hr : raises_s v v' w.

  Lemma s_beats_w_up x : beats v w x -> beats v' w x.
  Proof. destruct Hr as (_ & Hup & _). unfold beats. destruct (Hup x). lia. Qed.
  Lemma s_beats_w_down x : beats v' x w -> beats v x w.
  Proof. destruct Hr as (_ & Hup & _). unfold beats. destruct (Hup x). lia. Qed.
  Lemma s_beats_same a b : a <> w -> b <> w -> (beats v' a b <-> beats v a b).
  Proof. destruct Hr as (_ & _ & Hs). intros Ha Hb. unfold beats. rewrite (Hs a b Ha Hb), (Hs b a Hb Ha). reflexivity. Qed.

  Lemma s_len_incl (f : pair -> bool) (A B : list pair) : NoDup A -> (forall p, In p A -> f p = true -> In p B) ->
    (length (filter f A) <= length (filter f B))%nat.
  Proof.
    intros Ha H. apply NoDup_incl_length; [apply NoDup_filter, Ha|].
    intros p Hp. apply filter_In in Hp. destruct Hp as [Hp Hf]. apply filter_In. split; [apply H; assumption|exact Hf].
  Qed.

  Lemma s_wins_nodup (u : pvotes) : NoDup (map fst u) -> NoDup (pairwise_wins u false).
  Proof. intros H. unfold pairwise_wins. apply NoDup_map_filter, H. Qed.

  Lemma s_nwins_w : nwins v w <= nwins v' w.
  Proof.
    unfold nwins. apply inj_le. apply s_len_incl; [apply s_wins_nodup, Hnd|].
    intros [a b] Hin Hf. simpl in Hf. apply Pos.eqb_eq in Hf. subst a.
    apply (wins_iff v' Hnd' Hnn'). apply s_beats_w_up. apply (wins_iff v Hnd Hnn). exact Hin.
  Qed.
  Lemma s_nlosses_w : nlosses v' w <= nlosses v w.
  Proof.
    unfold nlosses. apply inj_le. apply s_len_incl; [apply s_wins_nodup, Hnd'|].
    intros [a b] Hin Hf. simpl in Hf. apply Pos.eqb_eq in Hf. subst b.
    apply (wins_iff v Hnd Hnn). apply s_beats_w_down. apply (wins_iff v' Hnd' Hnn'). exact Hin.
  Qed.
  Lemma s_nwins_other x : x <> w -> nwins v' x <= nwins v x.
  Proof.
    intros Hx. unfold nwins. apply inj_le. apply s_len_incl; [apply s_wins_nodup, Hnd'|].
    intros [a b] Hin Hf. simpl in Hf. apply Pos.eqb_eq in Hf. subst a.
    apply (wins_iff v Hnd Hnn). apply (wins_iff v' Hnd' Hnn') in Hin.
    destruct (Pos.eq_dec b w) as [->|Hb]; [apply s_beats_w_down, Hin|apply (s_beats_same x b Hx Hb), Hin].
  Qed.
  Lemma s_nlosses_other x : x <> w -> nlosses v x <= nlosses v' x.
  Proof.
    intros Hx. unfold nlosses. apply inj_le. apply s_len_incl; [apply s_wins_nodup, Hnd|].
    intros [a b] Hin Hf. simpl in Hf. apply Pos.eqb_eq in Hf. subst b.
    apply (wins_iff v' Hnd' Hnn'). apply (wins_iff v Hnd Hnn) in Hin.
    destruct (Pos.eq_dec a w) as [->|Ha]; [apply s_beats_w_up, Hin|apply (s_beats_same a x Ha Hx), Hin].
  Qed.

  Theorem copeland_first_order_monotone_s :
    get_n_best zle_bool (cscores v) 1 = [Cand w] -> get_n_best zle_bool (cscores v') 1 = [Cand w].
  Proof.
    intros Hwin.
    destruct (cscores_facts v Hnd Hnn) as (Sn & Sv & Sc).
    destruct (cscores_facts v' Hnd' Hnn') as (Sn' & Sv' & Sc').
    destruct (get_n_best_1_cand zle_bool zle_total zle_trans (cscores v) w [] Sn Hwin) as (_ & sw & Hin & Hmax).
    destruct (Sv w sw Hin) as [Hsw Hcw].
    assert (Hcand : forall c, In c (candidates v') <-> In c (candidates v)) by (destruct Hr; assumption).
    assert (Hkw : In w (map fst (cscores v'))) by (apply Sc'; apply Hcand; exact Hcw).
    apply in_map_iff in Hkw. destruct Hkw as ([w0 sw'] & Hf & Hin'). simpl in Hf. subst w0.
    destruct (Sv' w sw' Hin') as [Hsw' _].
    apply (get_n_best_unique_max zle_bool zle_total zle_trans Pos.eq_dec (cscores v') w sw' Sn' Hin').
    intros x s' Hx' Hne. destruct (Sv' x s' Hx') as [Hs' Hcx]. apply Hcand in Hcx.
    assert (Hkx : In x (map fst (cscores v))) by (apply Sc, Hcx).
    apply in_map_iff in Hkx. destruct Hkx as ([x0 s] & Hf & Hx). simpl in Hf. subst x0.
    destruct (Sv x s Hx) as [Hs _].
    pose proof (Hmax x s Hx Hne) as Hlt. unfold GetNBest.ltb, zle_bool in Hlt |- *.
    apply negb_true_iff, Z.leb_gt in Hlt. apply negb_true_iff, Z.leb_gt.
    pose proof s_nwins_w. pose proof s_nlosses_w. pose proof (s_nwins_other x Hne). pose proof (s_nlosses_other x Hne). lia.
  Qed.

  Theorem copeland_monotone_s so : copeland false v 1 = [Cand w] -> copeland so v' 1 = [Cand w].
  Proof.
    intros H. rewrite copeland_raw_is_first_order in H. apply copeland_unfold, copeland_first_order_monotone_s, H.
  Qed.
End CMS.

(* ------------------------------------------------------------------ minimax under raises_s *)
Section MMS.
  Variables v v' : pvotes.
  Variable w : C.
  Hypothesis Hnn : forall p n, In (p, n) v -> 0 <= n.
  Hypothesis Hnn' : forall p n, In (p, n) v' -> 0 <= n.
  Hypothesis H2 : (2 <= length (candidates v))%nat.
  Hypothesis Hr : raises_s v v' w.

  Lemma s_cands c : In c (candidates v') <-> In c (candidates v).
  Proof. destruct Hr as [H _]. apply H. Qed.

  Lemma s_cands_two : (2 <= length (candidates v'))%nat.
  Proof.
    eapply Nat.le_trans; [exact H2|]. apply NoDup_incl_length; [apply candidates_NoDup|].
    intros c Hc. apply s_cands, Hc.
  Qed.

  Lemma s_sc_loser_w s a : sc v' s a w <= sc v s a w.
  Proof.
    destruct Hr as (_ & Hup & _). destruct (Hup a) as [U1 U2]. pose proof (pget0_nn v Hnn (a, w)). pose proof (pget0_nn v Hnn (w, a)).
    unfold sc. destruct s; [|lia|lia].
    destruct (pget0 v' (w, a) <? pget0 v' (a, w)) eqn:E1; destruct (pget0 v (w, a) <? pget0 v (a, w)) eqn:E2;
      try apply Z.ltb_lt in E1; try apply Z.ltb_ge in E1; try apply Z.ltb_lt in E2; try apply Z.ltb_ge in E2; lia.
  Qed.

  Lemma s_sc_winner_w s x : sc v s w x <= sc v' s w x.
  Proof.
    destruct Hr as (_ & Hup & _). destruct (Hup x) as [U1 U2]. pose proof (pget0_nn v' Hnn' (w, x)). pose proof (pget0_nn v' Hnn' (x, w)).
    unfold sc. destruct s; [|lia|lia].
    destruct (pget0 v' (x, w) <? pget0 v' (w, x)) eqn:E1; destruct (pget0 v (x, w) <? pget0 v (w, x)) eqn:E2;
      try apply Z.ltb_lt in E1; try apply Z.ltb_ge in E1; try apply Z.ltb_lt in E2; try apply Z.ltb_ge in E2; lia.
  Qed.

  Lemma s_sc_others s a x : a <> w -> x <> w -> sc v' s a x = sc v s a x.
  Proof.
    destruct Hr as (_ & _ & Hs). intros Ha Hx. unfold sc. rewrite (Hs a x Ha Hx), (Hs x a Hx Ha). reflexivity.
  Qed.

  Theorem minimax_monotone_s s : minimax s v 1 = [Cand w] -> minimax s v' 1 = [Cand w].
  Proof.
    intros Hwin. rewrite minimax_unfold in *.
    pose proof s_cands_two as H2'.
    destruct (mc_keys v H2 s) as [Kn Kk]. destruct (mc_keys v' H2' s) as [Kn' Kk'].
    set (nd := map (fun cs0 : C * Z => (fst cs0, - snd cs0)) (mc_of (score_pairs s (complete v)))) in *.
    set (nd' := map (fun cs0 : C * Z => (fst cs0, - snd cs0)) (mc_of (score_pairs s (complete v')))).
    assert (Nn : NoDup (map fst nd)) by (unfold nd; rewrite map_map; simpl; exact Kn).
    assert (Nn' : NoDup (map fst nd')) by (unfold nd'; rewrite map_map; simpl; exact Kn').
    destruct (get_n_best_1_cand zle_bool zle_total zle_trans nd w [] Nn Hwin) as (_ & uw & Hinw & Hmax).
    assert (Hwc : In w (candidates v)).
    { apply Kk. unfold nd in Hinw. apply in_map_iff in Hinw. destruct Hinw as ([w' mw] & Hf & Hin). simpl in Hf. injection Hf as Hf1 _. subst w'.
      apply in_map_iff. exists (w, mw). split; [reflexivity|exact Hin]. }
    destruct (mc_value v H2 s w Hwc) as (mw & Hmw & Hubw & _).
    assert (Hwc' : In w (candidates v')) by (apply s_cands; exact Hwc).
    destruct (mc_value v' H2' s w Hwc') as (mw' & Hmw' & _ & (a0 & Ha0 & Ha0w & Ea0)).
    assert (Huw : uw = - mw).
    { unfold nd in Hinw. apply in_map_iff in Hinw. destruct Hinw as ([w' m0] & Hf & Hin). simpl in Hf. injection Hf as Hf1 Hf2. subst w'.
      assert (m0 = mw); [|lia]. pose proof (In_dget _ w m0 Kn Hin) as G1. pose proof (In_dget _ w mw Kn Hmw) as G2. congruence. }
    assert (Hle_w : mw' <= mw).
    { rewrite <- Ea0. etransitivity; [apply s_sc_loser_w|]. apply Hubw; [apply s_cands; exact Ha0|exact Ha0w]. }
    apply (get_n_best_unique_max zle_bool zle_total zle_trans (Pos.eq_dec : forall a b : C, {a = b} + {a <> b}) nd' w (- mw') Nn').
    - unfold nd'. apply in_map_iff. exists (w, mw'). split; [reflexivity|exact Hmw'].
    - intros x u Hin' Hne. unfold nd' in Hin'. apply in_map_iff in Hin'. destruct Hin' as ([x' mx'] & Hf & Hxin'). simpl in Hf. injection Hf as -> <-.
      assert (Hxc' : In x (candidates v')) by (apply Kk'; apply in_map_iff; exists (x, mx'); split; [reflexivity|exact Hxin']).
      assert (Hxc : In x (candidates v)) by (apply s_cands; exact Hxc').
      destruct (mc_value v H2 s x Hxc) as (mx & Hmx & _ & (a1 & Ha1 & Ha1x & Ea1)).
      destruct (mc_value v' H2' s x Hxc') as (mx2 & Hmx2 & Hubx' & _).
      assert (mx2 = mx') by (pose proof (In_dget _ x mx2 Kn' Hmx2) as G1; pose proof (In_dget _ x mx' Kn' Hxin') as G2; congruence). subst mx2.
      assert (Hge_x : mx <= mx').
      { rewrite <- Ea1. etransitivity; [|apply (Hubx' a1); [apply s_cands; exact Ha1|exact Ha1x]].
        destruct (Pos.eq_dec a1 w) as [->|Hn]; [apply s_sc_winner_w|rewrite s_sc_others by assumption; lia]. }
      assert (Hlt : - mx < uw).
      { assert (Hinx : In (x, - mx) nd) by (unfold nd; apply in_map_iff; exists (x, mx); split; [reflexivity|exact Hmx]).
        pose proof (Hmax x (- mx) Hinx Hne) as H. unfold GetNBest.ltb, zle_bool in H. apply negb_true_iff, Z.leb_gt in H. exact H. }
      unfold GetNBest.ltb, zle_bool. apply negb_true_iff, Z.leb_gt. lia.
  Qed.
End MMS.

(* ------------------------------------------------------------------ one ballot: the per-ballot coefficients *)
Lemma above_app r1 : forall r2 a b,
  above (r1 ++ r2) a b = above r1 a b + cnt a (flatten r1) * cnt b (flatten r2) + above r2 a b.
Proof.
  induction r1 as [|i r1 IH]; intros r2 a b; [cbn; lia|].
  cbn [app above]. rewrite IH, flatten_cons, flatten_app, !cnt_app. ring.
Qed.

Lemma cnt_single a w : cnt a [w] = if ceqb a w then 1 else 0.
Proof. cbn. destruct (ceqb a w); reflexivity. Qed.

(* what the move adds to the coefficient of the pair (a, c) *)
Definition jump (p2 : ranked) (w a c : C) : Z := cnt a [w] * cnt c (flatten p2) - cnt a (flatten p2) * cnt c [w].

Lemma above_move p1 p2 p3 w a c :
  above (p1 ++ IP w :: p2 ++ p3) a c = above (p1 ++ p2 ++ IP w :: p3) a c + jump p2 w a c.
Proof.
  unfold jump. rewrite !above_app. cbn [above members]. rewrite !above_app.
  rewrite !flatten_app, !flatten_cons, !flatten_app, !cnt_app. cbn [members]. ring.
Qed.

Lemma flatten_move_perm p1 p2 p3 w : Permutation (flatten (p1 ++ p2 ++ IP w :: p3)) (flatten (p1 ++ IP w :: p2 ++ p3)).
Proof.
  rewrite !flatten_app, !flatten_cons, !flatten_app. cbn [members app]. apply Permutation_app_head.
  apply Permutation_sym, Permutation_middle.
Qed.

Lemma cnt_move p1 p2 p3 w a : cnt a (flatten (p1 ++ IP w :: p2 ++ p3)) = cnt a (flatten (p1 ++ p2 ++ IP w :: p3)).
Proof. rewrite !flatten_app, !flatten_cons, !flatten_app, !cnt_app. cbn [members]. ring. Qed.

Lemma cmem_cnt c X : cmem c X = (0 <? cnt c X).
Proof.
  destruct (cmem c X) eqn:E.
  - apply cmem_iff, cnt_pos in E. symmetry. apply Z.ltb_lt. exact E.
  - symmetry. apply Z.ltb_ge. apply cmem_false in E. rewrite (cnt_notin c X E). lia.
Qed.

Lemma cnt_set_diff c cs X : cnt c (set_diff cs X) = if cmem c X then 0 else cnt c cs.
Proof. unfold set_diff. rewrite cnt_filter. destruct (cmem c X); reflexivity. Qed.

Lemma coef_move cs p1 p2 p3 w a c :
  Hybrids_proofs.coef cs (p1 ++ IP w :: p2 ++ p3) a c = Hybrids_proofs.coef cs (p1 ++ p2 ++ IP w :: p3) a c + jump p2 w a c.
Proof.
  unfold Hybrids_proofs.coef. rewrite above_move, !cnt_set_diff, !cmem_cnt, !cnt_move. ring.
Qed.

Lemma coef_nonneg cs r a b : 0 <= Hybrids_proofs.coef cs r a b.
Proof.
  unfold Hybrids_proofs.coef. pose proof (above_nonneg r a b). pose proof (cnt_nonneg a (flatten r)).
  pose proof (cnt_nonneg b (set_diff cs (flatten r))). nia.
Qed.

(* the coefficient depends on the candidate list only through membership *)
Lemma coef_cs_ext cs cs' r a b : NoDup cs -> NoDup cs' -> (forall x, In x cs <-> In x cs') ->
  Hybrids_proofs.coef cs r a b = Hybrids_proofs.coef cs' r a b.
Proof.
  intros Hn Hn' He. unfold Hybrids_proofs.coef. rewrite !cnt_set_diff, (cnt_nodup b cs Hn), (cnt_nodup b cs' Hn').
  assert (E : cmem b cs = cmem b cs').
  { destruct (cmem b cs) eqn:E1, (cmem b cs') eqn:E2; try reflexivity.
    - apply cmem_iff, He, cmem_iff in E1. congruence.
    - apply cmem_iff, He, cmem_iff in E2. congruence. }
  rewrite E. reflexivity.
Qed.

Lemma jump_anti p2 w a c : jump p2 w c a = - jump p2 w a c.
Proof. unfold jump. ring. Qed.

Lemma jump_w_out p2 w c : ~ In w (flatten p2) -> jump p2 w w c = cnt c (flatten p2).
Proof. intros H. unfold jump. rewrite cnt_single, ceqb_refl, (cnt_notin w _ H). ring. Qed.

Lemma jump_others p2 w a c : a <> w -> c <> w -> jump p2 w a c = 0.
Proof.
  intros Ha Hc. unfold jump. rewrite !cnt_single.
  destruct (ceqb a w) eqn:E1; [apply ceqb_eq in E1; congruence|].
  destruct (ceqb c w) eqn:E2; [apply ceqb_eq in E2; congruence|]. ring.
Qed.

(* ------------------------------------------------------------------ the profile *)
Lemma wsum_app f (l1 l2 : rvotes) : Hybrids_proofs.wsum f (l1 ++ l2) = Hybrids_proofs.wsum f l1 + Hybrids_proofs.wsum f l2.
Proof. induction l1 as [|[r w] l1 IH]; [reflexivity|]. cbn [app]. rewrite !wsum_cons, IH. ring. Qed.

Section MOVE.
  Variables pre post : rvotes.
  Variables p1 p2 p3 : ranked.
  Variable x : Z.
  Variable w : C.
  Notation b := (p1 ++ p2 ++ IP w :: p3).
  Notation b' := (p1 ++ IP w :: p2 ++ p3).
  Notation L1 := (pre ++ (b, x) :: post).
  Notation L2 := (pre ++ (b', x) :: post).

  Lemma move_cands_of c : In c (cands_of L2) <-> In c (cands_of L1).
  Proof.
    rewrite !cands_of_spec. split; intros (r & y & Hin & Hc); apply in_app_iff in Hin.
    - destruct Hin as [Hin|[Hin|Hin]].
      + exists r, y. split; [apply in_app_iff; left; exact Hin|exact Hc].
      + injection Hin as <- <-. exists b, x. split; [apply in_app_iff; right; left; reflexivity|].
        eapply Permutation_in; [apply Permutation_sym, flatten_move_perm|exact Hc].
      + exists r, y. split; [apply in_app_iff; right; right; exact Hin|exact Hc].
    - destruct Hin as [Hin|[Hin|Hin]].
      + exists r, y. split; [apply in_app_iff; left; exact Hin|exact Hc].
      + injection Hin as <- <-. exists b', x. split; [apply in_app_iff; right; left; reflexivity|].
        eapply Permutation_in; [apply flatten_move_perm|exact Hc].
      + exists r, y. split; [apply in_app_iff; right; right; exact Hin|exact Hc].
  Qed.

  Lemma move_coef r a c : Hybrids_proofs.coef (cands_of L2) r a c = Hybrids_proofs.coef (cands_of L1) r a c.
  Proof. apply coef_cs_ext; [apply cands_of_nodup|apply cands_of_nodup|apply move_cands_of]. Qed.

  (* the pairwise dictionary of the new profile, entry by entry *)
  Theorem pairwise_move_exact a c : pget0 (pairwise L2) (a, c) = pget0 (pairwise L1) (a, c) + x * jump p2 w a c.
  Proof.
    rewrite !pairwise_get.
    rewrite (wsum_ext (fun r => Hybrids_proofs.coef (cands_of L2) r a c) (fun r => Hybrids_proofs.coef (cands_of L1) r a c) L2)
      by (intros; apply move_coef).
    rewrite !wsum_app, !wsum_cons, coef_move. ring.
  Qed.

  (* a candidate occurs in some pair of a ballot *)
  Definition in_pairs (cs : list C) (r : ranked) (c : C) : Prop :=
    exists u l, 0 < Hybrids_proofs.coef cs r u l /\ (c = u \/ c = l).

  Lemma candidates_pairwise votes c :
    In c (candidates (pairwise votes)) <-> exists r y, In (r, y) votes /\ in_pairs (cands_of votes) r c.
  Proof.
    rewrite candidates_spec. split.
    - intros ([u l] & n & Hin & Hc). cbn [fst snd] in Hc.
      assert (Hk : In (u, l) (map fst (pairwise votes))) by (apply in_map_iff; exists ((u, l), n); auto).
      apply pairwise_keys in Hk. destruct Hk as (r & y & Hr & Hp). exists r, y. split; [exact Hr|].
      exists u, l. split; [|exact Hc]. rewrite <- pcount_ballot. apply pcount_pos, Hp.
    - intros (r & y & Hr & (u & l & Hpos & Hc)). rewrite <- pcount_ballot in Hpos. apply pcount_pos in Hpos.
      assert (Hk : In (u, l) (map fst (pairwise votes))) by (apply pairwise_keys; exists r, y; auto).
      apply in_map_iff in Hk. destruct Hk as ([q n] & E & Hk). cbn [fst] in E. subst q.
      exists (u, l), n. split; [exact Hk|exact Hc].
  Qed.

  Lemma in_pairs_move cs c : in_pairs cs b' c <-> in_pairs cs b c.
  Proof.
    split; intros (u & l & Hpos & Hc).
    - rewrite coef_move in Hpos. destruct (Z_le_gt_dec (jump p2 w u l) 0) as [Hj|Hj].
      + exists u, l. split; [lia|exact Hc].
      + exists l, u. split; [|tauto]. pose proof (coef_nonneg cs b' l u) as Hn. rewrite coef_move, jump_anti in Hn. lia.
    - destruct (Z_le_gt_dec 0 (jump p2 w u l)) as [Hj|Hj].
      + exists u, l. split; [rewrite coef_move; lia|exact Hc].
      + exists l, u. split; [|tauto]. rewrite coef_move, jump_anti. pose proof (coef_nonneg cs b l u). lia.
  Qed.

  Lemma in_pairs_cs r c : in_pairs (cands_of L2) r c <-> in_pairs (cands_of L1) r c.
  Proof. unfold in_pairs. split; intros (u & l & H & Hc); exists u, l; (split; [|exact Hc]); [rewrite <- move_coef|rewrite move_coef]; exact H. Qed.

  Theorem pairwise_move_cands c : In c (candidates (pairwise L2)) <-> In c (candidates (pairwise L1)).
  Proof.
    rewrite !candidates_pairwise. split; intros (r & y & Hin & Hp); apply in_app_iff in Hin.
    - apply in_pairs_cs in Hp. destruct Hin as [Hin|[Hin|Hin]].
      + exists r, y. split; [apply in_app_iff; left; exact Hin|exact Hp].
      + injection Hin as <- <-. exists b, x. split; [apply in_app_iff; right; left; reflexivity|apply in_pairs_move, Hp].
      + exists r, y. split; [apply in_app_iff; right; right; exact Hin|exact Hp].
    - destruct Hin as [Hin|[Hin|Hin]].
      + exists r, y. split; [apply in_app_iff; left; exact Hin|apply in_pairs_cs, Hp].
      + injection Hin as <- <-. exists b', x. split; [apply in_app_iff; right; left; reflexivity|apply in_pairs_cs, in_pairs_move, Hp].
      + exists r, y. split; [apply in_app_iff; right; right; exact Hin|apply in_pairs_cs, Hp].
  Qed.

  Hypothesis Hx : 0 <= x.
  Hypothesis Hw : ~ In w (flatten p2).

  Theorem pairwise_move_raises : raises_s (pairwise L1) (pairwise L2) w.
  Proof.
    split; [exact pairwise_move_cands|]. split.
    - intros c. rewrite !pairwise_move_exact. rewrite (jump_anti p2 w w c), (jump_w_out p2 w c Hw).
      pose proof (cnt_nonneg c (flatten p2)). nia.
    - intros a c Ha Hc. rewrite pairwise_move_exact, (jump_others p2 w a c Ha Hc). ring.
  Qed.
End MOVE.

(* ------------------------------------------------------------------ well-formedness is kept; packaged statements *)
Lemma weights_nonneg_pairwise votes : (forall r y, In (r, y) votes -> 0 <= y) -> forall q m, In (q, m) (pairwise votes) -> 0 <= m.
Proof. intros H. rewrite pairwise_unfold. apply pw_from_nonneg; [exact H|intros q m []]. Qed.

Lemma wf_move pre post p1 p2 p3 x w :
  wf_votes (pre ++ (p1 ++ p2 ++ IP w :: p3, x) :: post) = true -> wf_votes (pre ++ (p1 ++ IP w :: p2 ++ p3, x) :: post) = true.
Proof.
  rewrite !wf_votes_spec. intros H r y Hin. apply in_app_iff in Hin. destruct Hin as [Hin|[Hin|Hin]].
  - apply (H r y). apply in_app_iff. left. exact Hin.
  - injection Hin as <- <-. destruct (H (p1 ++ p2 ++ IP w :: p3) x) as [Hn Hy]; [apply in_app_iff; right; left; reflexivity|].
    split; [|exact Hy]. eapply Permutation_NoDup; [apply flatten_move_perm|exact Hn].
  - apply (H r y). apply in_app_iff. right. right. exact Hin.
Qed.

Theorem copeland_ballot_monotone pre post p1 p2 p3 x w so :
  (forall r y, In (r, y) (pre ++ post) -> 0 <= y) -> 0 <= x -> ~ In w (flatten p2) ->
  copeland false (pairwise (pre ++ (p1 ++ p2 ++ IP w :: p3, x) :: post)) 1 = [Cand w] ->
  copeland so (pairwise (pre ++ (p1 ++ IP w :: p2 ++ p3, x) :: post)) 1 = [Cand w].
Proof.
  intros Hnn Hx Hw.
  assert (Hall : forall bb r y, In (r, y) (pre ++ (bb, x) :: post) -> 0 <= y).
  { intros bb r y Hin. apply in_app_iff in Hin. destruct Hin as [Hin|[Hin|Hin]].
    - apply (Hnn r y). apply in_app_iff. left. exact Hin.
    - injection Hin as _ <-. exact Hx.
    - apply (Hnn r y). apply in_app_iff. right. exact Hin. }
  apply copeland_monotone_s; [apply pairwise_nodup|apply pairwise_nodup| | |apply pairwise_move_raises; assumption].
  - apply weights_nonneg_pairwise. apply Hall.
  - apply weights_nonneg_pairwise. apply Hall.
Qed.

Theorem minimax_ballot_monotone pre post p1 p2 p3 x w s :
  wf_votes (pre ++ (p1 ++ p2 ++ IP w :: p3, x) :: post) = true -> ~ In w (flatten p2) ->
  minimax s (pairwise (pre ++ (p1 ++ p2 ++ IP w :: p3, x) :: post)) 1 = [Cand w] ->
  minimax s (pairwise (pre ++ (p1 ++ IP w :: p2 ++ p3, x) :: post)) 1 = [Cand w].
Proof.
  intros Hwf Hw Hwin. pose proof (wf_move _ _ _ _ _ _ _ Hwf) as Hwf'.
  assert (Hx : 0 <= x).
  { apply (proj1 (wf_votes_spec _) Hwf (p1 ++ p2 ++ IP w :: p3) x). apply in_app_iff. right. left. reflexivity. }
  assert (H2 : (2 <= length (candidates (pairwise (pre ++ (p1 ++ p2 ++ IP w :: p3, x) :: post))))%nat).
  { apply pairwise_two; [exact Hwf|]. intros E. rewrite E in Hwin. destruct s; vm_compute in Hwin; discriminate. }
  apply (minimax_monotone_s _ _ w (pairwise_nonneg _ Hwf) (pairwise_nonneg _ Hwf') H2); [|exact Hwin].
  apply pairwise_move_raises; assumption.
Qed.

(* ------------------------------------------------------------------ w LEAVES a shared rank for a place of its own above the rest of it *)
Section LEAVE.
  Variables pre post : rvotes.
  Variables q p3 : ranked.
  Variables la lb : list C.
  Variable x : Z.
  Variable w : C.
  Notation b := (q ++ IS (la ++ w :: lb) :: p3).
  Notation b' := (q ++ IP w :: IS (la ++ lb) :: p3).
  Notation L1 := (pre ++ (b, x) :: post).
  Notation L2 := (pre ++ (b', x) :: post).

  Lemma flatten_leave_perm : Permutation (flatten b) (flatten b').
  Proof.
    rewrite !flatten_app, !flatten_cons. cbn [members]. apply Permutation_app_head.
    change (w :: la ++ lb) with ((w :: la ++ lb)). rewrite <- !app_assoc. cbn [app].
    apply Permutation_sym. apply (Permutation_middle la (lb ++ flatten p3) w).
  Qed.

  Lemma cnt_leave a : cnt a (flatten b') = cnt a (flatten b).
  Proof. rewrite !flatten_app, !flatten_cons, !cnt_app. cbn [members]. rewrite !cnt_app, !cnt_cons. cbn [cnt fold_right]. ring. Qed.

  Lemma above_leave a c : above b' a c = above b a c + cnt a [w] * cnt c (la ++ lb).
  Proof.
    rewrite !above_app. cbn [above members]. rewrite !flatten_cons. cbn [members]. rewrite !cnt_app, !cnt_cons. cbn [cnt fold_right]. ring.
  Qed.

  Lemma coef_leave cs a c : Hybrids_proofs.coef cs b' a c = Hybrids_proofs.coef cs b a c + cnt a [w] * cnt c (la ++ lb).
  Proof. unfold Hybrids_proofs.coef. rewrite above_leave, !cnt_set_diff, !cmem_cnt, !cnt_leave. ring. Qed.

  Lemma leave_cands_of c : In c (cands_of L2) <-> In c (cands_of L1).
  Proof.
    rewrite !cands_of_spec. split; intros (r & y & Hin & Hc); apply in_app_iff in Hin.
    - destruct Hin as [Hin|[Hin|Hin]].
      + exists r, y. split; [apply in_app_iff; left; exact Hin|exact Hc].
      + injection Hin as <- <-. exists b, x. split; [apply in_app_iff; right; left; reflexivity|].
        eapply Permutation_in; [apply Permutation_sym, flatten_leave_perm|exact Hc].
      + exists r, y. split; [apply in_app_iff; right; right; exact Hin|exact Hc].
    - destruct Hin as [Hin|[Hin|Hin]].
      + exists r, y. split; [apply in_app_iff; left; exact Hin|exact Hc].
      + injection Hin as <- <-. exists b', x. split; [apply in_app_iff; right; left; reflexivity|].
        eapply Permutation_in; [apply flatten_leave_perm|exact Hc].
      + exists r, y. split; [apply in_app_iff; right; right; exact Hin|exact Hc].
  Qed.

  Lemma leave_coef r a c : Hybrids_proofs.coef (cands_of L2) r a c = Hybrids_proofs.coef (cands_of L1) r a c.
  Proof. apply coef_cs_ext; [apply cands_of_nodup|apply cands_of_nodup|apply leave_cands_of]. Qed.

  (* count(w, c) rises by x for every member c of the rest of the shared rank; nothing else changes *)
  Theorem pairwise_leave_exact a c :
    pget0 (pairwise L2) (a, c) = pget0 (pairwise L1) (a, c) + x * (cnt a [w] * cnt c (la ++ lb)).
  Proof.
    rewrite !pairwise_get.
    rewrite (wsum_ext (fun r => Hybrids_proofs.coef (cands_of L2) r a c) (fun r => Hybrids_proofs.coef (cands_of L1) r a c) L2)
      by (intros; apply leave_coef).
    rewrite !wsum_app, !wsum_cons, coef_leave. ring.
  Qed.

  Lemma leave_cands_incl c : In c (candidates (pairwise L1)) -> In c (candidates (pairwise L2)).
  Proof.
    rewrite !candidates_pairwise. intros (r & y & Hin & (u & l & Hpos & Hc)). apply in_app_iff in Hin.
    destruct Hin as [Hin|[Hin|Hin]].
    - exists r, y. split; [apply in_app_iff; left; exact Hin|]. exists u, l. split; [rewrite leave_coef; exact Hpos|exact Hc].
    - injection Hin as <- <-. exists b', x. split; [apply in_app_iff; right; left; reflexivity|]. exists u, l. split; [|exact Hc].
      rewrite leave_coef, coef_leave. pose proof (cnt_nonneg u [w]). pose proof (cnt_nonneg l (la ++ lb)). nia.
    - exists r, y. split; [apply in_app_iff; right; right; exact Hin|]. exists u, l. split; [rewrite leave_coef; exact Hpos|exact Hc].
  Qed.

  Hypothesis Hwf : wf_votes L1 = true.
  Hypothesis Hne : pairwise L1 <> [].

  Lemma leave_nw : ~ In w (la ++ lb).
  Proof.
    destruct (proj1 (wf_votes_spec L1) Hwf b x) as [Hn _]; [apply in_app_iff; right; left; reflexivity|].
    rewrite flatten_app, flatten_cons in Hn. cbn [members] in Hn. apply Hybrids_proofs.nodup_app_r in Hn.
    apply Hybrids_proofs.nodup_app_l in Hn. apply NoDup_remove_2 in Hn. exact Hn.
  Qed.

  Lemma wf_leave : wf_votes L2 = true.
  Proof.
    revert Hwf. rewrite !wf_votes_spec. intros H r y Hin. apply in_app_iff in Hin. destruct Hin as [Hin|[Hin|Hin]].
    - apply (H r y). apply in_app_iff. left. exact Hin.
    - injection Hin as <- <-. destruct (H b x) as [Hn Hy]; [apply in_app_iff; right; left; reflexivity|].
      split; [|exact Hy]. eapply Permutation_NoDup; [apply flatten_leave_perm|exact Hn].
    - apply (H r y). apply in_app_iff. right. right. exact Hin.
  Qed.

  Lemma leave_ne : pairwise L2 <> [].
  Proof.
    destruct (pairwise L1) as [|[[u l] n] t] eqn:E; [congruence|].
    assert (Hu : In u (candidates (pairwise L1))).
    { apply candidates_spec. exists (u, l), n. rewrite E. split; [left; reflexivity|left; reflexivity]. }
    apply leave_cands_incl in Hu. intros E2. rewrite E2 in Hu. exact Hu.
  Qed.

  Theorem pairwise_leave_cands c : In c (candidates (pairwise L2)) <-> In c (candidates (pairwise L1)).
  Proof.
    split; [|apply leave_cands_incl]. intros H. apply candidates_pairwise_in, leave_cands_of in H.
    apply cands_in_pairwise; assumption.
  Qed.

  Theorem pairwise_leave_raises : raises_s (pairwise L1) (pairwise L2) w.
  Proof.
    assert (Hx : 0 <= x).
    { apply (proj1 (wf_votes_spec L1) Hwf b x). apply in_app_iff. right. left. reflexivity. }
    split; [exact pairwise_leave_cands|]. split.
    - intros c. rewrite !pairwise_leave_exact. rewrite (cnt_notin w _ leave_nw).
      pose proof (cnt_nonneg c (la ++ lb)). pose proof (cnt_nonneg w [w]). split; nia.
    - intros a c Ha Hc. rewrite pairwise_leave_exact, cnt_single.
      destruct (ceqb a w) eqn:E; [apply ceqb_eq in E; congruence|]. ring.
  Qed.
End LEAVE.

Theorem copeland_ballot_leave pre post q p3 la lb x w so :
  wf_votes (pre ++ (q ++ IS (la ++ w :: lb) :: p3, x) :: post) = true ->
  copeland false (pairwise (pre ++ (q ++ IS (la ++ w :: lb) :: p3, x) :: post)) 1 = [Cand w] ->
  copeland so (pairwise (pre ++ (q ++ IP w :: IS (la ++ lb) :: p3, x) :: post)) 1 = [Cand w].
Proof.
  intros Hwf Hwin.
  assert (Hne : pairwise (pre ++ (q ++ IS (la ++ w :: lb) :: p3, x) :: post) <> []).
  { intros E. rewrite E in Hwin. vm_compute in Hwin. discriminate Hwin. }
  pose proof (wf_leave pre post q p3 la lb x w Hwf) as Hwf'.
  apply (copeland_monotone_s _ _ w (pairwise_nodup _) (pairwise_nodup _) (pairwise_nonneg _ Hwf) (pairwise_nonneg _ Hwf')); [|exact Hwin].
  apply pairwise_leave_raises; assumption.
Qed.

Theorem minimax_ballot_leave pre post q p3 la lb x w s :
  wf_votes (pre ++ (q ++ IS (la ++ w :: lb) :: p3, x) :: post) = true ->
  minimax s (pairwise (pre ++ (q ++ IS (la ++ w :: lb) :: p3, x) :: post)) 1 = [Cand w] ->
  minimax s (pairwise (pre ++ (q ++ IP w :: IS (la ++ lb) :: p3, x) :: post)) 1 = [Cand w].
Proof.
  intros Hwf Hwin.
  assert (Hne : pairwise (pre ++ (q ++ IS (la ++ w :: lb) :: p3, x) :: post) <> []).
  { intros E. rewrite E in Hwin. destruct s; vm_compute in Hwin; discriminate Hwin. }
  pose proof (wf_leave pre post q p3 la lb x w Hwf) as Hwf'.
  apply (minimax_monotone_s _ _ w (pairwise_nonneg _ Hwf) (pairwise_nonneg _ Hwf') (pairwise_two _ Hwf Hne)); [|exact Hwin].
  apply pairwise_leave_raises; assumption.
Qed.
