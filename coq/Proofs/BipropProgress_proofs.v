(* Lemmas for property C07, part 5: a progress measure of tie-and-transfer.  The flaw count (sum over the districts of
   |seats held - seats due|) never grows; every seat transfer lowers it by exactly 2 and leaves the multipliers alone; a
   multiplier update leaves the seat matrix (hence the flaw count) alone.  So at most flaw/2 transfers happen.  This is
   NOT a termination proof: the number of consecutive multiplier updates is not bounded here. *)
From Coq Require Import ZArith QArith List Bool Lia Lqa.
From VL Require Import Prelude.PyDict Model.Divisor Model.HighestAverages Model.Biprop Model.BipropLoop
     Proofs.Dict_proofs Proofs.Divisor_proofs Proofs.Biprop_proofs Proofs.Biprop_steps Proofs.BipropLoop_proofs.
Import ListNotations.
Open Scope Z_scope.

Definition flaw (tgt : list (C * Z)) (dorder : list C) (res : mat) : Z :=
  zsum (map (fun i => Z.abs (cur_seats res i - dget_or tgt i 0)) dorder).

Lemma walk_end LD LP over : forall fuel cur sD sP hops,
  walk fuel LD LP over cur sD sP = WalkDone hops -> cmem (path_end cur hops) over = true.
Proof.
  induction fuel as [|f IH]; intros cur sD sP hops H; simpl in H; [discriminate|].
  destruct (cmem cur over) eqn:Eo; [injection H as <-; exact Eo|].
  destruct (cmem cur sD); [discriminate|].
  destruct (dget LD cur) as [[p|]|]; try discriminate.
  destruct (cmem p sP); [discriminate|].
  destruct (dget LP p) as [i'|]; [|discriminate].
  destruct (walk f LD LP over i' (cur :: sD) (p :: sP)) as [hops'| |] eqn:Ew; try discriminate.
  injection H as <-. unfold path_end. simpl map. rewrite last_cons. apply (IH _ _ _ _ Ew).
Qed.

Lemma zsum_two_points (f g : C -> Z) a b l : NoDup l -> In a l -> In b l -> a <> b ->
  (forall x, x <> a -> x <> b -> g x = f x) -> g a = f a - 1 -> g b = f b - 1 ->
  zsum (map g l) = zsum (map f l) - 2.
Proof.
  intros Hnd Ha Hb Hab Hoth Hga Hgb.
  rewrite (zsum_map_ext g (fun x => f x + ((if ceqb x a then -1 else 0) + (if ceqb x b then -1 else 0))) l).
  - rewrite zsum_map_plus, zsum_map_plus.
    rewrite (zsum_map_point (fun _ => 0) (fun x => if ceqb x a then -1 else 0) a (-1) l) by (intros x; destruct (ceqb x a); reflexivity).
    rewrite (zsum_map_point (fun _ => 0) (fun x => if ceqb x b then -1 else 0) b (-1) l) by (intros x; destruct (ceqb x b); reflexivity).
    rewrite zsum_map_zero, (count_nodup a l Hnd Ha), (count_nodup b l Hnd Hb). lia.
  - intros x _. destruct (ceqb x a) eqn:E1; [apply ceqb_eq in E1; subst x|].
    + assert (ceqb a b = false) as -> by (apply ceqb_neq; exact Hab). lia.
    + destruct (ceqb x b) eqn:E2; [apply ceqb_eq in E2; subst x; lia|].
      rewrite Hoth; [lia|apply ceqb_neq, E1|apply ceqb_neq, E2].
Qed.

Section Progress.
  Variable q : Q.
  Hypothesis Hq0 : (0 <= q)%Q.
  Hypothesis Hq1 : (q < 1)%Q.
  Variable votes : mat.
  Hypothesis Hwf : wf_votes votes.
  Variable pseats : list (C * Z).
  Variable tgt : list (C * Z).
  Variable dorder : list C.
  Hypothesis Hdo : NoDup dorder.
  Notation ds := (districts votes).
  Notation ps := (parties votes).

  (* what an iteration that goes on is: a seat transfer (flaw - 2, multipliers untouched) or an accepted multiplier update
     (the labelling found no under-represented district; seat matrix untouched) *)
  Definition is_update (s s' : bstate) : Prop :=
    let under := fst (unsat dorder (b_res s) tgt) in
    let over := snd (unsat dorder (b_res s) tgt) in
    exists LD LP a,
      labeled q ps ds (calc_quots votes (b_rho s) (b_gamma s)) (b_res s) under over = Lab LD LP /\
      sort_pos (filter (fun i => dmem LD i) under) = [] /\
      adj_coef q (calc_quots votes (b_rho s) (b_gamma s)) (b_res s) (map fst LD) (map fst LP) = Adj a /\
      Qeq_bool a 0 || Qle_bool 1 a = false /\
      s' = mk_bstate (b_res s) (scale_rho_r (map fst LD) a (b_rho s)) (scale_gamma_r (map fst LP) a (b_gamma s)).

  Theorem bstep_cases s s' : BInv q votes pseats s -> bstep q votes tgt dorder s = Next s' ->
    (flaw tgt dorder (b_res s') = flaw tgt dorder (b_res s) - 2 /\ b_rho s' = b_rho s /\ b_gamma s' = b_gamma s) \/
    is_update s s'.
  Proof.
    intros HI. unfold bstep, is_update. cbv zeta.
    set (under := fst (unsat dorder (b_res s) tgt)). set (over := snd (unsat dorder (b_res s) tgt)).
    assert (Hbody : bstep_body q votes s under over = Next s' ->
      (flaw tgt dorder (b_res s') = flaw tgt dorder (b_res s) - 2 /\ b_rho s' = b_rho s /\ b_gamma s' = b_gamma s) \/
      exists LD LP a,
        labeled q ps ds (calc_quots votes (b_rho s) (b_gamma s)) (b_res s) under over = Lab LD LP /\
        sort_pos (filter (fun i => dmem LD i) under) = [] /\
        adj_coef q (calc_quots votes (b_rho s) (b_gamma s)) (b_res s) (map fst LD) (map fst LP) = Adj a /\
        Qeq_bool a 0 || Qle_bool 1 a = false /\
        s' = mk_bstate (b_res s) (scale_rho_r (map fst LD) a (b_rho s)) (scale_gamma_r (map fst LP) a (b_gamma s))).
    { unfold bstep_body.
      destruct (labeled q ps ds (calc_quots votes (b_rho s) (b_gamma s)) (b_res s) under over) as [LD LP| |] eqn:El; try discriminate.
      pose proof El as El0.
      unfold labeled in El. apply (lab_loop_ok q _ _ (sort_pos ps)) in El.
      2:{ intros i p H. apply in_map_iff in H. destruct H as (x & Hx & _). discriminate. }
      2:{ intros p i []. }
      destruct El as [HD HP].
      destruct (sort_pos (filter (fun i => dmem LD i) under)) as [|start rest] eqn:Es.
      - destruct (adj_coef q _ (b_res s) (map fst LD) (map fst LP)) as [a|] eqn:Ea; [|discriminate].
        destruct (Qeq_bool a 0 || Qle_bool 1 a) eqn:Ec; [discriminate|]. intros [= <-]. right.
        exists LD, LP, a. repeat split; try assumption; reflexivity.
      - destruct (walk (S (length LD)) LD LP over start [] []) as [hops| |] eqn:Ew; try discriminate.
        destruct (augment (b_res s) start hops) as [res'|] eqn:Eg; [|discriminate]. intros [= <-]. left. cbn [b_res b_rho b_gamma].
        split; [|split; reflexivity].
        (* the start is under-represented, the end over-represented *)
        assert (Hst : In start (filter (fun i => dmem LD i) under)) by (apply sort_pos_in; rewrite Es; left; reflexivity).
        apply filter_In in Hst. destruct Hst as [Hsu _].
        unfold under, unsat in Hsu. cbn [fst] in Hsu. apply filter_In in Hsu. destruct Hsu as [Hsd Hslt]. apply Z.ltb_lt in Hslt.
        pose proof (walk_end _ _ _ _ _ _ _ _ Ew) as Hend. apply cmem_In in Hend.
        unfold over, unsat in Hend. cbn [snd] in Hend. apply filter_In in Hend. destruct Hend as [Hed Hegt]. apply Z.ltb_lt in Hegt.
        set (fin := path_end start hops) in *.
        assert (Hne : start <> fin) by (intros E; rewrite <- E in Hegt; lia).
        (* the row sums after the transfer *)
        pose proof (augment_inv q Hq1 votes Hwf pseats s LD LP over start hops res' HI HD HP Ew Eg) as HI'.
        destruct (walk_delta q _ (b_res s) (sort_pos ps) LD LP over HD HP _ start [] [] hops (fun x (H : In x []) => match H with end) Ew)
          as (A & B & _).
        assert (Hhops : forall p i', In (p, i') hops -> In p ps /\ In i' ds).
        { intros p i' H. destruct (A p i' H) as [H1 (p' & H2)]. split; [apply sort_pos_in, H1|].
          apply (proj1 (down_sem q votes _ _ _ _ _ H2)). }
        destruct B as [->|(p & Hup)]; [exfalso; apply Hne; reflexivity|].
        destruct (augment_totals _ _ _ _ ds ps Eg (proj1 Hwf) (parties_nodup votes) (proj1 (up_sem q votes _ _ _ _ _ Hup)) Hhops) as [_ Hr].
        assert (Hcur : forall i, cur_seats res' i = cur_seats (b_res s) i + (if ceqb i start then 1 else 0) - (if ceqb i fin then 1 else 0)).
        { intros i. rewrite (cur_seats_rowsum votes res' i (bi_wf _ _ _ _ HI')), (cur_seats_rowsum votes (b_res s) i (bi_wf _ _ _ _ HI)).
          apply Hr. }
        unfold flaw.
        apply (zsum_two_points (fun i => Z.abs (cur_seats (b_res s) i - dget_or tgt i 0))
                               (fun i => Z.abs (cur_seats res' i - dget_or tgt i 0)) start fin dorder Hdo Hsd Hed Hne).
        + intros x H1 H2. rewrite Hcur.
          assert (ceqb x start = false) as -> by (apply ceqb_neq; exact H1).
          assert (ceqb x fin = false) as -> by (apply ceqb_neq; exact H2). f_equal. lia.
        + rewrite Hcur, ceqb_refl. assert (ceqb start fin = false) as -> by (apply ceqb_neq; exact Hne). lia.
        + rewrite Hcur, ceqb_refl. assert (ceqb fin start = false) as -> by (apply ceqb_neq; intros E; apply Hne; symmetry; exact E). lia. }
    destruct under as [|u0 ul] eqn:Eu; [destruct over as [|o0 ol] eqn:Eo; [discriminate|]|]; exact Hbody.
  Qed.

  Theorem bstep_progress s s' : BInv q votes pseats s -> bstep q votes tgt dorder s = Next s' ->
    (flaw tgt dorder (b_res s') = flaw tgt dorder (b_res s) - 2 /\ b_rho s' = b_rho s /\ b_gamma s' = b_gamma s) \/
    b_res s' = b_res s.
  Proof.
    intros HI H. destruct (bstep_cases s s' HI H) as [L|(LD & LP & a & _ & _ & _ & _ & ->)]; [left; exact L|right; reflexivity].
  Qed.
End Progress.
