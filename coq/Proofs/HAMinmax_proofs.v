(* The min-max characterisation of what the HighestAverages model (C01) ends with, WITHOUT strictness or positive
   votes, and including a reported tie: any way of handing the tied seats to members of the tie (at most one each)
   gives an allocation s with  v_c / d(s c) <= v_c' / d(s c' - 1)  for every c' holding a seat.  Used by C07: the
   initial column-wise solution of the biproportional evaluator is such an allocation, which makes the initial party
   multipliers consistent.  Also: the seats handed out add up to n. *)
From Coq Require Import ZArith QArith List Bool Lia Lqa Permutation.
From VL Require Import Prelude.PyDict Model.HighestAverages Proofs.Dict_proofs Proofs.HA_proofs Proofs.Mono_proofs
     Proofs.HAUnique_proofs.
Import ListNotations.
Open Scope Z_scope.

Lemma firstn_incl {X} (k : nat) (l : list X) x : In x (firstn k l) -> In x l.
Proof.
  revert l. induction k as [|k IH]; intros l H; [destruct H|]. destruct l as [|y l]; [destruct H|].
  simpl in H. destruct H as [H|H]; [left; exact H|right; apply IH, H].
Qed.
Lemma firstn_nodup {X} (k : nat) (l : list X) : NoDup l -> NoDup (firstn k l).
Proof.
  revert l. induction k as [|k IH]; intros l H; [constructor|]. destruct l as [|y l]; [constructor|].
  simpl. inversion H as [|? ? Hy Hl]; subst. constructor; [|apply IH, Hl]. intros Hi. apply Hy. apply (firstn_incl _ _ _ Hi).
Qed.

Lemma nonempty_has {X} (l : list X) : l <> [] -> exists x, In x l.
Proof. destruct l as [|x l]; [congruence|]. intros _. exists x. left. reflexivity. Qed.

Section LastAward.
  Variable d : Z -> Q.
  Variable votes : list (C * Q).
  Variable caps : list (C * Z).
  Variable prev : list (C * Z).
  Variable n : Z.
  Hypothesis Hpos : forall k, 0 <= k -> (0 < d k)%Q.
  Hypothesis Hmono : forall k, 0 <= k -> (d k <= d (k + 1))%Q.
  Hypothesis Hvotes : forall c v, In (c, v) votes -> (0 <= v)%Q.
  Hypothesis Hnd : NoDup (map fst votes).
  Hypothesis Hprev : forall c, 0 <= dget_or prev c 0.

  Notation Inv1 := (Inv d votes caps prev n).

  (* the last seat of every party was awarded at its exact quotient *)
  Definition Inv3 (s : state) : Prop :=
    forall c, dget_or prev c 0 < tot s c ->
      exists v, dget votes c = Some v /\ In (c, (v / d (tot s c - 1))%Q) (st_awards s).

  Lemma step_inv3 s : Inv1 s -> Inv3 s -> Inv3 (step d votes caps n s).
  Proof.
    intros I S3. unfold step. destruct (st_qs s) as [|[c0 m] qs'] eqn:Eqs; [exact S3|]. cbv zeta.
    remember (@cons qitem (c0, m) qs') as qs eqn:Eq0 in *.
    remember (run_length m qs) as k eqn:Ek0 in *. remember (@firstn qitem k qs) as batch eqn:Eb0 in *.
    assert (Hitb : forall b, In b batch -> item_ok d votes caps n (st_totals s) b).
    { intros b Hb. pose proof (inv_items _ _ _ _ _ _ I) as Hit. rewrite Eqs in Hit. rewrite Forall_forall in Hit.
      apply Hit. rewrite Eb0 in Hb. apply (firstn_incl _ _ _ Hb). }
    assert (Hndb : NoDup (map fst batch)).
    { rewrite Eb0. rewrite <- firstn_map. apply firstn_nodup. pose proof (inv_nodup _ _ _ _ _ _ I) as H. rewrite Eqs in H. exact H. }
    destruct (Z.of_nat k <=? st_rem s).
    - intros c Hc. unfold tot in Hc |- *. cbn [st_totals st_awards] in Hc |- *.
      assert (Htot' : dget_or (fold_left incr (map fst (rev batch)) (st_totals s)) c 0
                      = dget_or (st_totals s) c 0 + count c (map fst batch)).
      { unfold incr. rewrite dget_or_fold_incr, map_rev, count_rev. reflexivity. }
      rewrite Htot' in Hc |- *.
      destruct (in_dec Pos.eq_dec c (map fst batch)) as [Hin|Hnin].
      + rewrite (count_nodup _ _ Hndb Hin). apply in_map_iff in Hin. destruct Hin as ([c' x] & Hfst & Hb). simpl in Hfst. subst c'.
        destruct (Hitb _ Hb) as (v & Hv & Hsnd & _). simpl in Hv, Hsnd. exists v. split; [exact Hv|].
        apply in_or_app. right. apply -> in_rev.
        replace (dget_or (st_totals s) c 0 + 1 - 1) with (dget_or (st_totals s) c 0) by lia.
        unfold tot_of in Hsnd. rewrite <- Hsnd. exact Hb.
      + rewrite (count_notin _ _ Hnin) in Hc |- *. rewrite Z.add_0_r in Hc |- *.
        destruct (S3 c Hc) as (v & Hv & Hin). exists v. split; [exact Hv|]. apply in_or_app. left. exact Hin.
    - exact S3.
  Qed.

  Lemma init_inv3 : Inv3 (init_state d votes n prev caps).
  Proof. intros c Hc. unfold tot, init_state in Hc. cbn [st_totals] in Hc. lia. Qed.

  Lemma loop_inv3 fuel : forall s, Inv1 s -> Inv3 s -> Inv3 (loop d votes caps n fuel s).
  Proof.
    induction fuel as [|f IH]; intros s I S3; simpl; [exact S3|].
    destruct (0 <? st_rem s) eqn:E1; simpl; [|exact S3].
    destruct (st_qs s) eqn:E2; simpl; [exact S3|].
    assert (Hne : st_qs s <> []) by (rewrite E2; discriminate). apply Z.ltb_lt in E1.
    apply IH.
    - apply (step_inv d votes caps prev n Hpos Hmono Hvotes); assumption.
    - apply step_inv3; assumption.
  Qed.

  Lemma final_inv3 : Inv3 (final_state d votes n prev caps).
  Proof. unfold final_state. apply loop_inv3; [apply init_inv; assumption|apply init_inv3]. Qed.
End LastAward.

Section Minmax.
  Variable d : Z -> Q.
  Variable votes : list (C * Q).
  Variable n : Z.
  Hypothesis Hpos : forall k, 0 <= k -> (0 < d k)%Q.
  Hypothesis Hmono : forall k, 0 <= k -> (d k <= d (k + 1))%Q.
  Hypothesis Hvotes : forall c v, In (c, v) votes -> (0 <= v)%Q.
  Hypothesis Hnd : NoDup (map fst votes).
  Hypothesis Hn : 0 <= n.

  Notation fin := (final_state d votes n [] []).
  Notation keys := (map fst votes).
  Notation t := (tot fin).

  Let Hprev : forall c, 0 <= dget_or (@nil (C * Z)) c 0.
  Proof. intros c. unfold dget_or. simpl. lia. Qed.
  Let I : Inv d votes [] [] n fin := final_inv d votes [] [] n Hpos Hmono Hvotes Hnd Hprev.
  Let I3 : Inv3 d votes [] fin := final_inv3 d votes [] [] n Hpos Hmono Hvotes Hnd Hprev.

  Lemma mm_t_count c : t c = count c (map fst (st_awards fin)).
  Proof. rewrite (inv_account _ _ _ _ _ _ I c). reflexivity. Qed.
  Lemma mm_t_nonneg c : 0 <= t c.
  Proof. apply (inv_nonneg _ _ _ _ _ _ I). Qed.

  Lemma mm_awards_keys x : In x (map fst (st_awards fin)) -> In x keys.
  Proof.
    intros Hx. apply in_map_iff in Hx. destruct Hx as (a & <- & Ha).
    pose proof (inv_awards _ _ _ _ _ _ I) as H. rewrite Forall_forall in H.
    destruct (H a Ha) as (v & j & Hv & _). apply dget_In in Hv. apply in_map_iff. exists (fst a, v). split; [reflexivity|exact Hv].
  Qed.

  Lemma mm_sum_t : ksum t keys = Z.of_nat (length (st_awards fin)).
  Proof.
    rewrite <- (map_length fst (st_awards fin)). rewrite <- (ksum_count _ keys Hnd mm_awards_keys).
    unfold ksum. f_equal. apply map_ext. intros c. apply mm_t_count.
  Qed.

  Lemma mm_t_outside c : ~ In c keys -> t c = 0.
  Proof. intros H. rewrite mm_t_count. apply count_notin. intros Hi. apply H, mm_awards_keys, Hi. Qed.

  Lemma mm_rem_nonneg : 0 <= st_rem fin.
  Proof.
    pose proof (inv_remacc _ _ _ _ _ _ I) as Hacc. simpl (zsum (map snd [])) in Hacc.
    destruct (inv_rem _ _ _ _ _ _ I) as [H|H]; [exact H|].
    rewrite H in Hacc. simpl in Hacc.
    destruct (st_tie fin) as [[T r]|] eqn:Et; [destruct (inv_tie _ _ _ _ _ _ I T r Et); lia|].
    change (zsum []) with 0 in Hacc. lia.
  Qed.

  Lemma mm_tie_r_nonneg : 0 <= match st_tie fin with Some (_, r) => r | None => 0 end.
  Proof. destruct (st_tie fin) as [[T r]|] eqn:Et; [destruct (inv_tie _ _ _ _ _ _ I T r Et); lia|lia]. Qed.

  Lemma mm_awards_le_n : Z.of_nat (length (st_awards fin)) <= n.
  Proof.
    pose proof (inv_remacc _ _ _ _ _ _ I) as Hacc. change (zsum (map snd [])) with 0 in Hacc.
    pose proof mm_rem_nonneg. pose proof mm_tie_r_nonneg. lia.
  Qed.

  Lemma mm_t_le_awards c : t c <= Z.of_nat (length (st_awards fin)).
  Proof. rewrite mm_t_count. pose proof (count_le_length c (map fst (st_awards fin))) as H. rewrite map_length in H. exact H. Qed.

  (* an eligible party's current quotient is in the queue *)
  Lemma mm_in_queue c v : In (c, v) votes -> t c < n -> In (c, (v / d (t c))%Q) (st_qs fin).
  Proof.
    intros Hc Hlt. pose proof (inv_complete _ _ _ _ _ _ I c v Hc) as Hk. change (cap_of [] n c) with n in Hk.
    specialize (Hk Hlt). apply in_map_iff in Hk. destruct Hk as ([c0 x] & Hc0 & Hy). simpl in Hc0. subst c0.
    pose proof (inv_items _ _ _ _ _ _ I) as Hit. rewrite Forall_forall in Hit. destruct (Hit _ Hy) as (v0 & Hv0 & Hx & _).
    simpl in Hv0, Hx. rewrite (In_dget _ _ _ Hnd Hc) in Hv0. injection Hv0 as <-. unfold tot. unfold tot_of in Hx. rewrite <- Hx. exact Hy.
  Qed.

  (* a member of the reported tie is eligible and sits at the maximal quotient *)
  Lemma mm_tie_member T r c v : st_tie fin = Some (T, r) -> In c T -> In (c, v) votes ->
    t c < n /\ forall y, In y (st_qs fin) -> (snd y <= v / d (t c))%Q.
  Proof.
    intros Et HcT Hc. destruct (inv_tie _ _ _ _ _ _ I T r Et) as (Hr0 & Hr & m & _ & Hmax & Hperm).
    assert (Hlt : t c < n).
    { pose proof (inv_remacc _ _ _ _ _ _ I) as Hacc. change (zsum (map snd [])) with 0 in Hacc. rewrite Et in Hacc.
      pose proof (mm_t_le_awards c). lia. }
    split; [exact Hlt|].
    apply (Permutation_in _ Hperm) in HcT. apply in_map_iff in HcT. destruct HcT as ([c0 x] & Hc0 & Hy). simpl in Hc0. subst c0.
    apply filter_In in Hy. destruct Hy as [Hy Hxm]. simpl in Hxm. apply Qeq_bool_iff in Hxm.
    pose proof (inv_items _ _ _ _ _ _ I) as Hit. rewrite Forall_forall in Hit. destruct (Hit _ Hy) as (v0 & Hv0 & Hx & _).
    simpl in Hv0, Hx. rewrite (In_dget _ _ _ Hnd Hc) in Hv0. injection Hv0 as <-.
    intros y Hyq. rewrite Forall_forall in Hmax. specialize (Hmax y Hyq). unfold tot. unfold tot_of in Hx. rewrite <- Hx. lra.
  Qed.

  Lemma mm_tie_nodup T r : st_tie fin = Some (T, r) -> NoDup T /\ (forall c, In c T -> In c keys) /\ 0 < r < Z.of_nat (length T).
  Proof.
    intros Et. destruct (inv_tie _ _ _ _ _ _ I T r Et) as (Hr0 & Hr & m & _ & Hmax & Hperm).
    split; [|split; [|exact Hr]].
    - apply (Permutation_NoDup (Permutation_sym Hperm)).
      pose proof (inv_nodup _ _ _ _ _ _ I) as Hq. clear -Hq.
      induction (st_qs fin) as [|y q IH]; simpl; [constructor|].
      simpl in Hq. inversion Hq as [|? ? Hy Hq']; subst.
      destruct (Qeq_bool (snd y) m); [|apply IH, Hq'].
      simpl. constructor; [|apply IH, Hq'].
      intros Hin. apply Hy. apply in_map_iff in Hin. destruct Hin as (z & Hz & Hf). apply filter_In in Hf.
      apply in_map_iff. exists z. split; [exact Hz|apply Hf].
    - intros c HcT. apply (Permutation_in _ Hperm) in HcT. apply in_map_iff in HcT. destruct HcT as ([c0 x] & Hc0 & Hy). simpl in Hc0. subst c0.
      apply filter_In in Hy. destruct Hy as [Hy _].
      pose proof (inv_items _ _ _ _ _ _ I) as Hit. rewrite Forall_forall in Hit. destruct (Hit _ Hy) as (v0 & Hv0 & _).
      simpl in Hv0. apply dget_In in Hv0. apply in_map_iff. exists (c, v0). split; [reflexivity|exact Hv0].
  Qed.

  (* the min-max inequality for the totals extended by one seat for some members of the tie *)
  Theorem ha_minmax_ext (e : C -> Z) :
    (forall c, e c = 0 \/ e c = 1) ->
    (forall c, e c = 1 -> exists T r, st_tie fin = Some (T, r) /\ In c T) ->
    forall c v c' v', In (c, v) votes -> In (c', v') votes -> 0 < t c' + e c' ->
      (v / d (t c + e c) <= v' / d (t c' + e c' - 1))%Q.
  Proof.
    intros He01 HeT c v c' v' Hc Hc' Hs.
    pose proof (mm_t_nonneg c) as Htc. pose proof (mm_t_nonneg c') as Htc'.
    pose proof (Hvotes c v Hc) as Hv0.
    (* one more seat never raises the quotient *)
    assert (Hstep : (v / d (t c + e c) <= v / d (t c))%Q).
    { destruct (He01 c) as [E|E]; rewrite E; [rewrite Z.add_0_r; lra|].
      apply quot_mono; [exact Hv0|apply Hpos, Htc|apply Hmono, Htc]. }
    destruct (He01 c') as [E'|E'].
    - (* c' keeps its total: its last seat was awarded at v' / d (t c' - 1) *)
      rewrite E' in Hs |- *. rewrite Z.add_0_r in Hs |- *.
      destruct (I3 c') as (v0 & Hv0' & Hlast); [change (dget_or [] c' 0) with 0; exact Hs|].
      rewrite (In_dget _ _ _ Hnd Hc') in Hv0'. injection Hv0' as <-.
      destruct (Z.lt_ge_cases (t c) n) as [Hlt|Hge].
      + pose proof (mm_in_queue c v Hc Hlt) as Hq.
        pose proof (inv_optimal _ _ _ _ _ _ I _ Hlast) as Ho. rewrite Forall_forall in Ho. specialize (Ho _ Hq). simpl in Ho. lra.
      + (* c holds all n seats: then c' = c and there is no tie seat on c *)
        assert (Hec : e c = 0).
        { destruct (He01 c) as [E|E]; [exact E|]. destruct (HeT c E) as (T & r & Et & HcT).
          destruct (mm_tie_member T r c v Et HcT Hc) as [Hlt _]. lia. }
        assert (Hcc : c' = c).
        { destruct (Pos.eq_dec c' c) as [E|E]; [exact E|exfalso].
          pose proof (count_two c c' (map fst (st_awards fin)) E) as H2. rewrite map_length in H2.
          rewrite <- !mm_t_count in H2. pose proof mm_awards_le_n. lia. }
        subst c'. assert (v' = v).
        { pose proof (In_dget _ _ _ Hnd Hc) as H1. pose proof (In_dget _ _ _ Hnd Hc') as H2. congruence. }
        subst v'. rewrite Hec, Z.add_0_r.
        replace (t c) with (t c - 1 + 1) at 1 by lia. apply quot_mono; [exact Hv0|apply Hpos; lia|apply Hmono; lia].
    - (* c' receives a tie seat: its quotient is the maximal one of the queue *)
      rewrite E'. replace (t c' + 1 - 1) with (t c') by lia.
      destruct (HeT c' E') as (T & r & Et & HcT). destruct (mm_tie_member T r c' v' Et HcT Hc') as [_ Hmax].
      assert (Hlt : t c < n).
      { pose proof (inv_remacc _ _ _ _ _ _ I) as Hacc. change (zsum (map snd [])) with 0 in Hacc. rewrite Et in Hacc.
        destruct (inv_tie _ _ _ _ _ _ I T r Et) as (Hr0 & Hr & _). pose proof (mm_t_le_awards c). lia. }
      pose proof (Hmax _ (mm_in_queue c v Hc Hlt)) as H. simpl in H. lra.
  Qed.

  (* all n seats are handed out (definite seats + tie seats) unless nobody stands *)
  Theorem ha_all_seats : votes <> [] ->
    ksum t keys + (match st_tie fin with Some (_, r) => r | None => 0 end) = n.
  Proof.
    intros Hne. pose proof (inv_remacc _ _ _ _ _ _ I) as Hacc. change (zsum (map snd [])) with 0 in Hacc.
    rewrite mm_sum_t.
    assert (Hrem : st_rem fin = 0); [|lia].
    assert (Hn' : 0 <= n - zsum (map snd (@nil (C * Z)))) by (change (zsum (map snd (@nil (C * Z)))) with 0; lia).
    destruct (ha_total d votes [] [] n Hpos Hmono Hvotes Hnd Hprev Hn') as [_ [H|(_ & Hr & Hcap)]]; [exact H|].
    destruct (nonempty_has _ Hne) as ([c v] & Hin).
    specialize (Hcap c v Hin). change (cap_of [] n c) with n in Hcap.
    pose proof (mm_t_le_awards c). pose proof mm_tie_r_nonneg. pose proof mm_rem_nonneg. lia.
  Qed.
End Minmax.
