(* Condorcet family (Model/Condorcet.v): the Smith/Schwartz prefix loop. *)
From Coq Require Import ZArith List Bool Arith Lia Permutation Sorted.
From VL Require Import Prelude.PyDict Model.GetNBest Model.Condorcet Proofs.GetNBest_proofs Proofs.Dict_proofs.
From VL Require Proofs.Threshold_proofs.
Import ListNotations.

Lemma natleb_total a b : Nat.leb a b = true \/ Nat.leb b a = true.
Proof. destruct (Nat.leb a b) eqn:E; [left; reflexivity|right]. apply Nat.leb_le. apply Nat.leb_gt in E. lia. Qed.
Lemma natleb_trans a b c : Nat.leb a b = true -> Nat.leb b c = true -> Nat.leb a c = true.
Proof. rewrite !Nat.leb_le. lia. Qed.

Section SS.
  Variable order : list C.
  Notation idx c := (index_of c order).

  Lemma ss_loop_ge wins : forall e, (e <= ss_loop order wins e)%nat.
  Proof.
    induction wins as [|[w l] t IH]; intros e; simpl; [lia|].
    destruct (Nat.leb e (idx w) && Nat.ltb (idx l) e) eqn:E.
    - destruct (Nat.eqb (length order) (S (idx w))).
      + apply andb_true_iff in E. destruct E as [E _]. apply Nat.leb_le in E. lia.
      + specialize (IH (S (idx w))). apply andb_true_iff in E. destruct E as [E _]. apply Nat.leb_le in E. lia.
    - apply IH.
  Qed.

  (* once the loser index reaches end_i the loop can never fire again *)
  Lemma ss_loop_stuck wins : forall e,
    (forall w l, In (w, l) wins -> (e <= idx l)%nat) -> ss_loop order wins e = e.
  Proof.
    induction wins as [|[w l] t IH]; intros e H; simpl; [reflexivity|].
    assert (Hl : (e <= idx l)%nat) by (apply (H w l); left; reflexivity).
    assert (Nat.ltb (idx l) e = false) as -> by (apply Nat.ltb_ge; exact Hl).
    rewrite andb_false_r. apply IH. intros w' l' Hin. apply (H w' l'). right. exact Hin.
  Qed.

  (* the single pass is complete: with the wins sorted by the loser's rank, the final
     prefix is closed - whoever beats (or ties) a member is a member *)
  Theorem ss_loop_closed wins :
    StronglySorted (fun p q : pair => (idx (snd p) <= idx (snd q))%nat) wins ->
    forall e, let E := ss_loop order wins e in
    E = length order \/ (forall w l, In (w, l) wins -> (idx l < E)%nat -> (idx w < E)%nat).
  Proof.
    induction 1 as [|[w l] t Hs IH Hall]; intros e E; subst E; simpl.
    - right. intros w l [].
    - destruct (Nat.leb e (idx w) && Nat.ltb (idx l) e) eqn:Ec.
      + destruct (Nat.eqb (length order) (S (idx w))) eqn:Ee.
        * left. apply Nat.eqb_eq in Ee. symmetry. exact Ee.
        * destruct (IH (S (idx w))) as [Hl|Hc]; [left; exact Hl|right].
          intros w' l' [Hin|Hin] Hlt.
          -- injection Hin as <- <-. pose proof (ss_loop_ge t (S (idx w))). lia.
          -- apply (Hc w' l' Hin Hlt).
      + destruct (IH e) as [Hl|Hc]; [left; exact Hl|right].
        intros w' l' [Hin|Hin] Hlt; [|apply (Hc w' l' Hin Hlt)].
        injection Hin as <- <-.
        apply andb_false_iff in Ec. destruct Ec as [Ec|Ec].
        * apply Nat.leb_gt in Ec. pose proof (ss_loop_ge t e). lia.
        * apply Nat.ltb_ge in Ec. exfalso.
          rewrite ss_loop_stuck in Hlt; [lia|].
          intros w' l' Hin'. rewrite Forall_forall in Hall. specialize (Hall (w', l') Hin'). simpl in Hall. lia.
  Qed.
End SS.

(* the wins handed to the loop by smith_schwartz are sorted by the loser's rank *)
Lemma sorted_tagged (order : list C) (tagged : list (pair * nat)) :
  (forall x, In x tagged -> snd x = index_of (snd (fst x)) order) ->
  Permutation (map fst (@sort_asc pair nat Nat.leb tagged)) (map fst tagged) /\
  StronglySorted (fun p q : pair => (index_of (snd p) order <= index_of (snd q) order)%nat)
                 (map fst (@sort_asc pair nat Nat.leb tagged)).
Proof.
  intros Htag0.
  pose proof (sort_asc_perm Nat.leb tagged) as Hp.
  pose proof (sort_asc_sorted Nat.leb natleb_total natleb_trans tagged) as Hs.
  assert (Htag : forall x, In x (sort_asc Nat.leb tagged) -> snd x = index_of (snd (fst x)) order).
  { intros x Hx. apply Htag0. apply (Permutation_in _ Hp). exact Hx. }
  split; [apply Permutation_map; exact Hp|].
  revert Hs Htag. generalize (sort_asc Nat.leb tagged). intros s Hs Htag.
  induction Hs as [|x t Hs IH Hall]; simpl; [constructor|].
  constructor.
  - apply IH. intros y Hy. apply Htag. right. exact Hy.
  - apply Forall_forall. intros p Hp'. apply in_map_iff in Hp'. destruct Hp' as (y & <- & Hy).
    rewrite Forall_forall in Hall. specialize (Hall y Hy). unfold le_item in Hall. apply Nat.leb_le in Hall.
    rewrite <- (Htag x (or_introl eq_refl)), <- (Htag y (or_intror Hy)). exact Hall.
Qed.

Lemma sorted_wins (order : list C) (wins : list pair) :
  let ws := map fst (@sort_asc pair nat Nat.leb (map (fun p => (p, index_of (snd p) order)) wins)) in
  Permutation ws wins /\
  StronglySorted (fun p q : pair => (index_of (snd p) order <= index_of (snd q) order)%nat) ws.
Proof.
  cbv zeta.
  destruct (sorted_tagged order (map (fun p => (p, index_of (snd p) order)) wins)) as [Hp Hs].
  { intros x Hx. apply in_map_iff in Hx. destruct Hx as (p & <- & _). reflexivity. }
  split; [|exact Hs]. rewrite map_map in Hp. simpl in Hp. rewrite map_id in Hp. exact Hp.
Qed.

Theorem smith_schwartz_closed v ties :
  let cv := complete v in
  let wins := pairwise_wins cv ties in
  let order := map fst (sort_desc zle_bool (copeland_scores wins)) in
  let ws := map fst (@sort_asc pair nat Nat.leb (map (fun p => (p, Condorcet.index_of (snd p) order)) wins)) in
  let E := ss_loop order ws 1 in
  smith_schwartz v ties = firstn E order /\
  (1 <= E)%nat /\
  (E = length order \/
   forall w l, In (w, l) wins -> (Condorcet.index_of l order < E)%nat -> (Condorcet.index_of w order < E)%nat).
Proof.
  intros cv wins order ws E. split; [reflexivity|]. split; [apply ss_loop_ge|].
  destruct (sorted_wins order wins) as [Hp Hs]. fold ws in Hp, Hs.
  destruct (ss_loop_closed order ws Hs 1) as [H|H]; [left; exact H|right].
  intros w l Hin. apply H. eapply Permutation_in; [apply Permutation_sym, Hp|exact Hin].
Qed.

(* ================================================================ Condorcet winner *)
Open Scope Z_scope.

Lemma peqb_eq p q : peqb p q = true <-> p = q.
Proof.
  unfold peqb. rewrite andb_true_iff. destruct p, q. simpl. rewrite !Pos.eqb_eq. split; [intros [-> ->]; reflexivity|intros [= -> ->]; tauto].
Qed.

Lemma pget_In (v : pvotes) p n : pget v p = Some n -> In (p, n) v.
Proof.
  induction v as [|[p' n'] t IH]; simpl; [discriminate|].
  destruct (peqb p p') eqn:E; [apply peqb_eq in E; subst; intros [= ->]; left; reflexivity|].
  intros H. right. apply IH, H.
Qed.

Lemma In_pget (v : pvotes) p n : NoDup (map fst v) -> In (p, n) v -> pget v p = Some n.
Proof.
  induction v as [|[p' n'] t IH]; simpl; [tauto|]. intros Hnd [H|H].
  - injection H as -> ->. assert (peqb p p = true) as -> by (apply peqb_eq; reflexivity). reflexivity.
  - inversion Hnd as [|? ? Hp Hnd']; subst. destruct (peqb p p') eqn:E.
    + apply peqb_eq in E. subst. exfalso. apply Hp. apply in_map_iff. exists (p', n). auto.
    + apply IH; assumption.
Qed.

Lemma filter_fst_NoDup {X Y} (f : X * Y -> bool) (u : list (X * Y)) :
  NoDup (map fst u) -> NoDup (map fst (filter f u)).
Proof.
  induction u as [|x t IH]; simpl; intros H; [constructor|]. inversion H as [|? ? Hx Hn]; subst.
  destruct (f x); simpl; [|apply IH, Hn]. constructor; [|apply IH, Hn].
  intros Hin. apply Hx. apply in_map_iff in Hin. destruct Hin as (y & Hy & Hin). apply filter_In in Hin.
  apply in_map_iff. exists y. tauto.
Qed.

Definition beats (v : pvotes) (a b : C) : Prop := pget0 v (b, a) < pget0 v (a, b).

Lemma dset_keys_in {X} (d : list (C * X)) k x c : In c (map fst (dset d k x)) <-> c = k \/ In c (map fst d).
Proof.
  induction d as [|[k0 x0] d IH]; simpl.
  - split; [intros [<-|[]]; auto|intros [->|[]]; auto].
  - destruct (ceqb k k0) eqn:E; simpl.
    + apply Pos.eqb_eq in E. subst. split; [intros [<-|H]; auto|intros [->|[<-|H]]; auto].
    + rewrite IH. tauto.
Qed.

Section CW.
  Variable v : pvotes.
  Hypothesis Hnd : NoDup (map fst v).
  Hypothesis Hnn : forall p n, In (p, n) v -> 0 <= n.

  Lemma pget0_nonneg p : 0 <= pget0 v p.
  Proof. unfold pget0. destruct (pget v p) eqn:E; [apply (Hnn p), pget_In, E|lia]. Qed.

  Lemma wins_iff a b : In (a, b) (pairwise_wins v false) <-> beats v a b.
  Proof.
    unfold pairwise_wins, beats. rewrite in_map_iff. split.
    - intros ([p n] & Hp & Hin). simpl in Hp. subst p. apply filter_In in Hin. destruct Hin as [Hin Hf].
      simpl in Hf. rewrite orb_false_r in Hf. apply Z.ltb_lt in Hf. unfold swap in Hf. simpl in Hf.
      unfold pget0 at 2. rewrite (In_pget v (a, b) n Hnd Hin). exact Hf.
    - intros H. pose proof (pget0_nonneg (b, a)) as H0.
      unfold pget0 at 2 in H. destruct (pget v (a, b)) as [n|] eqn:E; [|lia].
      exists ((a, b), n). split; [reflexivity|]. apply filter_In. split; [apply pget_In, E|].
      simpl. rewrite orb_false_r. apply Z.ltb_lt. unfold swap. simpl. exact H.
  Qed.

  Lemma wins_NoDup : NoDup (pairwise_wins v false).
  Proof. unfold pairwise_wins. apply filter_fst_NoDup. exact Hnd. Qed.

  (* beat_counts counts the wins of each candidate *)
  Definition opponents (c : C) : list C := map snd (filter (fun p => ceqb (fst p) c) (pairwise_wins v false)).

  Lemma dadd_get d c k c' : dget_or (dadd d c k) c' 0 = dget_or d c' 0 + (if ceqb c' c then k else 0).
  Proof.
    unfold dadd. rewrite dget_or_dset. destruct (ceqb c' c) eqn:E; [|lia].
    apply Pos.eqb_eq in E. subst. reflexivity.
  Qed.

  Lemma beat_counts_get c : dget_or (beat_counts v) c 0 = Z.of_nat (length (opponents c)).
  Proof.
    unfold beat_counts, opponents.
    assert (H : forall ws d, dget_or (fold_left (fun d p => dadd d (fst p) 1) ws d) c 0 =
                dget_or d c 0 + Z.of_nat (length (map snd (filter (fun p : pair => ceqb (fst p) c) ws)))).
    { induction ws as [|p ws IH]; intros d; simpl; [lia|]. rewrite IH, dadd_get.
      assert (Hs : ceqb c (fst p) = ceqb (fst p) c) by apply Pos.eqb_sym. rewrite Hs.
      destruct (ceqb (fst p) c); simpl length; lia. }
    rewrite H. reflexivity.
  Qed.


  (* ---- candidates *)
  Lemma add_new_In c l x : In x (add_new c l) <-> x = c \/ In x l.
  Proof.
    unfold add_new. destruct (cmem c l) eqn:E.
    - split; [tauto|]. intros [->|H]; [|exact H]. apply Threshold_proofs.cmem_In. exact E.
    - rewrite in_app_iff. simpl. split; [intros [H|[H|[]]]; auto|intros [H|H]; auto].
  Qed.
  Lemma add_new_NoDup c l : NoDup l -> NoDup (add_new c l).
  Proof.
    unfold add_new. destruct (cmem c l) eqn:E; [tauto|]. intros H.
    apply Threshold_proofs.nodup_app_intro; [exact H|constructor; [intros []|constructor]|].
    intros x Hx [<-|[]]. apply Threshold_proofs.cmem_In in Hx. congruence.
  Qed.

  Lemma candidates_spec c : In c (candidates v) <-> exists (p : pair) (n : Z), In (p, n) v /\ (c = fst p \/ c = snd p).
  Proof.
    unfold candidates.
    assert (H : forall (u : pvotes) acc, In c (fold_left (fun acc (pn : pair * Z) => add_new (snd (fst pn)) (add_new (fst (fst pn)) acc)) u acc)
               <-> In c acc \/ exists (p : pair) (n : Z), In (p, n) u /\ (c = fst p \/ c = snd p)).
    { induction u as [|[p n] u IH]; intros acc; simpl.
      - split; [tauto|]. intros [H|(p & n & [] & _)]. exact H.
      - rewrite IH, !add_new_In. split.
        + intros [[H|[H|H]]|(p' & n' & Hin & H)]; auto.
          * right. exists p, n. split; [left; reflexivity|right; exact H].
          * right. exists p, n. split; [left; reflexivity|left; exact H].
          * right. exists p', n'. split; [right; exact Hin|exact H].
        + intros [H|(p' & n' & [Hin|Hin] & H)]; auto.
          * injection Hin as <- <-. left. destruct H as [H|H]; auto.
          * right. exists p', n'. split; assumption. }
    rewrite H. split; [intros [[]|H']; exact H'|intros H'; right; exact H'].
  Qed.

  Lemma candidates_NoDup : NoDup (candidates v).
  Proof.
    unfold candidates.
    assert (H : forall (u : pvotes) acc, NoDup acc -> NoDup (fold_left (fun acc (pn : pair * Z) => add_new (snd (fst pn)) (add_new (fst (fst pn)) acc)) u acc)).
    { induction u as [|x u IH]; intros acc Ha; simpl; [exact Ha|]. apply IH. apply add_new_NoDup, add_new_NoDup, Ha. }
    apply H. constructor.
  Qed.

  (* ---- opponents *)
  Lemma opponents_spec c x : In x (opponents c) <-> beats v c x.
  Proof.
    unfold opponents. rewrite in_map_iff. split.
    - intros ([a b] & Hb & Hin). simpl in Hb. subst b. apply filter_In in Hin. destruct Hin as [Hin Hf].
      simpl in Hf. apply Pos.eqb_eq in Hf. subst a. apply wins_iff. exact Hin.
    - intros H. exists (c, x). split; [reflexivity|]. apply filter_In. split; [apply wins_iff; exact H|].
      simpl. apply Pos.eqb_refl.
  Qed.

  Lemma opponents_NoDup c : NoDup (opponents c).
  Proof.
    unfold opponents. pose proof wins_NoDup as Hw. revert Hw. generalize (pairwise_wins v false). intros ws Hw.
    induction ws as [|[a b] ws IH]; simpl; [constructor|]. inversion Hw as [|? ? Hx Hn]; subst.
    destruct (ceqb a c) eqn:E; simpl; [|apply IH, Hn]. constructor; [|apply IH, Hn].
    intros Hin. apply in_map_iff in Hin. destruct Hin as ([a' b'] & Hb & Hin). simpl in Hb. subst b'.
    apply filter_In in Hin. destruct Hin as [Hin Hf]. simpl in Hf. apply Pos.eqb_eq in Hf. apply Pos.eqb_eq in E.
    subst. exact (Hx Hin).
  Qed.

  Lemma opponents_incl c x : In x (opponents c) -> In x (candidates v) /\ x <> c /\ In c (candidates v).
  Proof.
    intros H. apply opponents_spec in H. pose proof H as Hb. apply wins_iff in H.
    unfold pairwise_wins in H. apply in_map_iff in H. destruct H as ([p n] & Hp & Hin). simpl in Hp. subst p.
    apply filter_In in Hin. destruct Hin as [Hin _].
    split; [apply candidates_spec; exists (c, x), n; split; [exact Hin|right; reflexivity]|].
    split; [|apply candidates_spec; exists (c, x), n; split; [exact Hin|left; reflexivity]].
    intros ->. unfold beats in Hb. lia.
  Qed.

  (* ---- beat_counts as a dictionary *)
  Lemma dset_keys {X} (d : list (C * X)) k x : NoDup (map fst d) -> NoDup (map fst (dset d k x)) /\
    (forall c, In c (map fst (dset d k x)) <-> c = k \/ In c (map fst d)).
  Proof.
    induction d as [|[k0 x0] d IH]; simpl; intros H.
    - split; [constructor; [intros []|constructor]|]. intros c. split; [intros [<-|[]]; auto|intros [->|[]]; auto].
    - inversion H as [|? ? Hk Hn]; subst. destruct (ceqb k k0) eqn:E; simpl.
      + apply Pos.eqb_eq in E. subst. split; [exact H|]. intros c. split; [intros [<-|H']; auto|intros [->|[<-|H']]; auto].
      + destruct (IH Hn) as [IH1 IH2]. split.
        * constructor; [|exact IH1]. intros Hin. apply IH2 in Hin. destruct Hin as [->|Hin]; [|exact (Hk Hin)].
          rewrite Pos.eqb_refl in E. discriminate.
        * intros c. rewrite IH2. tauto.
  Qed.

  Lemma beat_counts_dict :
    NoDup (map fst (beat_counts v)) /\
    (forall c, In c (map fst (beat_counts v)) -> exists x, In (c, x) (pairwise_wins v false)).
  Proof.
    unfold beat_counts.
    assert (H : forall (ws : list pair) (d : list (C * Z)), NoDup (map fst d) ->
      NoDup (map fst (fold_left (fun d (p : pair) => dadd d (fst p) 1) ws d)) /\
      (forall c, In c (map fst (fold_left (fun d (p : pair) => dadd d (fst p) 1) ws d)) ->
                 In c (map fst d) \/ exists x, In (c, x) ws)).
    { induction ws as [|[a b] ws IH]; intros d Hd; simpl; [split; [exact Hd|tauto]|].
      destruct (dset_keys d a (dget_or d a 0 + 1) Hd) as [H1 H2].
      destruct (IH (dadd d a 1) H1) as [IH1 IH2]. split; [exact IH1|].
      intros c Hc. destruct (IH2 c Hc) as [H|(x & H)].
      - unfold dadd in H. apply H2 in H. destruct H as [->|H]; [right; exists b; left; reflexivity|left; exact H].
      - right. exists x. right. exact H. }
    destruct (H (pairwise_wins v false) [] (NoDup_nil _)) as [H1 H2]. split; [exact H1|].
    intros c Hc. destruct (H2 c Hc) as [[]|H']. exact H'.
  Qed.

  Lemma In_dget_or (d : list (C * Z)) c n : NoDup (map fst d) -> In (c, n) d -> dget_or d c 0 = n.
  Proof. intros Hd Hin. unfold dget_or. rewrite (In_dget d c n Hd Hin). reflexivity. Qed.

  (* ---- the specification of CondorcetWinner.evaluate *)
  Definition is_cw (c : C) : Prop :=
    In c (candidates v) /\ forall x, In x (candidates v) -> x <> c -> beats v c x.

  Lemma count_is_cw c : In c (map fst (beat_counts v)) ->
    dget_or (beat_counts v) c 0 = Z.of_nat (length (candidates v)) - 1 -> is_cw c.
  Proof.
    intros Hk Hn. rewrite beat_counts_get in Hn.
    destruct beat_counts_dict as [_ Hw]. destruct (Hw c Hk) as [x0 Hx0].
    assert (Hc : In c (candidates v)).
    { apply wins_iff in Hx0. apply opponents_spec in Hx0. apply opponents_incl in Hx0. tauto. }
    split; [exact Hc|]. intros x Hx Hne.
    apply opponents_spec.
    assert (Hincl : incl (candidates v) (c :: opponents c)).
    { apply NoDup_length_incl.
      - constructor; [|apply opponents_NoDup]. intros H. apply opponents_incl in H. destruct H as (_ & H & _). exact (H eq_refl).
      - simpl. lia.
      - intros y [<-|Hy]; [exact Hc|]. apply opponents_incl in Hy. tauto. }
    destruct (Hincl x Hx) as [<-|H]; [congruence|exact H].
  Qed.

  Lemma is_cw_count c : is_cw c -> (2 <= length (candidates v))%nat ->
    In c (map fst (beat_counts v)) /\ dget_or (beat_counts v) c 0 = Z.of_nat (length (candidates v)) - 1.
  Proof.
    intros [Hc Hall] H2. rewrite beat_counts_get.
    assert (Hlen : length (c :: opponents c) = length (candidates v)).
    { apply Nat.le_antisymm.
      - apply NoDup_incl_length.
        + constructor; [|apply opponents_NoDup]. intros H. apply opponents_incl in H. destruct H as (_ & H & _). exact (H eq_refl).
        + intros y [<-|Hy]; [exact Hc|]. apply opponents_incl in Hy. tauto.
      - apply NoDup_incl_length; [apply candidates_NoDup|].
        intros y Hy. destruct (Pos.eq_dec y c) as [->|Hne]; [left; reflexivity|right].
        apply opponents_spec. apply Hall; assumption. }
    simpl in Hlen. split; [|lia].
    (* c has at least one opponent, hence an entry *)
    destruct (opponents c) as [|x0 t] eqn:Eo; [simpl in Hlen; lia|].
    assert (Hx0 : In x0 (opponents c)) by (rewrite Eo; left; reflexivity).
    apply opponents_spec, wins_iff in Hx0.
    unfold beat_counts.
    assert (H : forall (ws : list pair) (d : list (C * Z)), (In c (map fst d) \/ exists x, In (c, x) ws) ->
               In c (map fst (fold_left (fun d (p : pair) => dadd d (fst p) 1) ws d))).
    { induction ws as [|[a b] ws IH]; intros d [Hd|(x & Hx)]; simpl; try exact Hd; try destruct Hx.
      - apply IH. left. unfold dadd. apply (proj2 (dset_keys_in d a (dget_or d a 0 + 1) c)). right. exact Hd.
      - apply IH. left. injection H as -> ->. unfold dadd. apply (proj2 (dset_keys_in d c (dget_or d c 0 + 1) c)). left. reflexivity.
      - apply IH. right. exists x. exact H. }
    apply H. right. exists x0. exact Hx0.
  Qed.

  Lemma is_cw_unique c c' : is_cw c -> is_cw c' -> c = c'.
  Proof.
    intros [Hc H1] [Hc' H2]. destruct (Pos.eq_dec c c') as [E|E]; [exact E|exfalso].
    assert (B1 : beats v c c') by (apply H1; [exact Hc'|intros ->; exact (E eq_refl)]).
    assert (B2 : beats v c' c) by (apply H2; [exact Hc|exact E]).
    unfold beats in *. lia.
  Qed.

  Theorem cw_spec : (2 <= length (candidates v))%nat ->
    (forall c, condorcet_winner v = [c] <-> is_cw c) /\
    (condorcet_winner v = [] \/ exists c, condorcet_winner v = [c]).
  Proof.
    intros H2. destruct beat_counts_dict as [Hbn _].
    set (need := Z.of_nat (length (candidates v)) - 1).
    assert (Hsound : forall c n, find (fun cn : C * Z => snd cn =? need) (beat_counts v) = Some (c, n) -> is_cw c).
    { intros c n Hf. apply find_some in Hf. destruct Hf as [Hin Hn]. simpl in Hn. apply Z.eqb_eq in Hn.
      apply count_is_cw.
      - apply in_map_iff. exists (c, n). split; [reflexivity|exact Hin].
      - rewrite (In_dget_or _ c n Hbn Hin). exact Hn. }
    split.
    - intros c. unfold condorcet_winner. fold need. split.
      + case_eq (find (fun cn : C * Z => snd cn =? need) (beat_counts v)); [intros [c' n'] Ef|intros Ef; discriminate].
        intros [= ->]. apply (Hsound c n' Ef).
      + intros Hcw. destruct (is_cw_count c Hcw H2) as [Hk Hn]. fold need in Hn.
        apply in_map_iff in Hk. destruct Hk as ([c0 n0] & Hc0 & Hin). simpl in Hc0. subst c0.
        rewrite (In_dget_or _ c n0 Hbn Hin) in Hn.
        case_eq (find (fun cn : C * Z => snd cn =? need) (beat_counts v)); [intros [c' n'] Ef|intros Ef].
        * f_equal. apply is_cw_unique; [apply (Hsound c' n' Ef)|exact Hcw].
        * exfalso. apply (find_none _ _ Ef) in Hin. simpl in Hin. apply Z.eqb_neq in Hin. exact (Hin Hn).
    - unfold condorcet_winner. destruct (find _ _) as [[c' n']|]; [right; exists c'; reflexivity|left; reflexivity].
  Qed.
End CW.

(* ================================================================ Copeland elects the Condorcet winner *)
Lemma zle_total a b : zle_bool a b = true \/ zle_bool b a = true.
Proof. unfold zle_bool. destruct (a <=? b) eqn:E; [left; reflexivity|right]. apply Z.leb_le. apply Z.leb_gt in E. lia. Qed.
Lemma zle_trans a b c : zle_bool a b = true -> zle_bool b c = true -> zle_bool a c = true.
Proof. unfold zle_bool. rewrite !Z.leb_le. lia. Qed.

Section COPE.
  Variable v : pvotes.
  Hypothesis Hnd : NoDup (map fst v).
  Hypothesis Hnn : forall p n, In (p, n) v -> 0 <= n.

  Notation W := (pairwise_wins v false).
  Definition nwins (x : C) : Z := Z.of_nat (length (filter (fun p : pair => ceqb (fst p) x) W)).
  Definition nlosses (x : C) : Z := Z.of_nat (length (filter (fun p : pair => ceqb (snd p) x) W)).

  Lemma copeland_scores_get x : dget_or (copeland_scores W) x 0 = nwins x - nlosses x.
  Proof.
    unfold copeland_scores, nwins, nlosses.
    assert (H : forall (ws : list pair) d,
      dget_or (fold_left (fun d (p : pair) => dadd (dadd d (fst p) 1) (snd p) (-1)) ws d) x 0 =
      dget_or d x 0 + Z.of_nat (length (filter (fun p : pair => ceqb (fst p) x) ws))
                    - Z.of_nat (length (filter (fun p : pair => ceqb (snd p) x) ws))).
    { induction ws as [|p ws IH]; intros d; simpl; [lia|]. rewrite IH, !dadd_get.
      assert (H1 : ceqb x (fst p) = ceqb (fst p) x) by apply Pos.eqb_sym.
      assert (H2 : ceqb x (snd p) = ceqb (snd p) x) by apply Pos.eqb_sym. rewrite H1, H2.
      destruct (ceqb (fst p) x), (ceqb (snd p) x); simpl length; lia. }
    rewrite H. simpl. lia.
  Qed.

  Definition seed (d : list (C * Z)) (c : C) : list (C * Z) := if dmem d c then d else d ++ [(c, 0)].

  Lemma dget_or_app_new (d : list (C * Z)) c x : dmem d c = false -> dget_or (d ++ [(c, 0)]) x 0 = dget_or d x 0.
  Proof.
    unfold dmem, dget_or. intros H. induction d as [|[k u] d IH]; simpl in *.
    - destruct (ceqb x c); reflexivity.
    - destruct (ceqb c k) eqn:E; [discriminate|]. destruct (ceqb x k); [reflexivity|]. apply IH. exact H.
  Qed.

  Lemma dmem_In (d : list (C * Z)) c : dmem d c = true <-> In c (map fst d).
  Proof.
    unfold dmem. induction d as [|[k u] d IH]; simpl; [split; [discriminate|tauto]|].
    destruct (ceqb c k) eqn:E.
    - apply Pos.eqb_eq in E. subst. split; [left; reflexivity|reflexivity].
    - rewrite IH. split; [right; assumption|]. intros [->|H]; [rewrite Pos.eqb_refl in E; discriminate|exact H].
  Qed.

  Lemma seed_fold cs : forall d, NoDup (map fst d) ->
    let d' := fold_left seed cs d in
    NoDup (map fst d') /\ (forall x, dget_or d' x 0 = dget_or d x 0) /\
    (forall x, In x (map fst d') <-> In x (map fst d) \/ In x cs).
  Proof.
    induction cs as [|c cs IH]; intros d Hd; simpl.
    - split; [exact Hd|]. split; [reflexivity|]. intros x. tauto.
    - assert (Hs : seed d c = if dmem d c then d else d ++ [(c, 0)]) by reflexivity.
      rewrite Hs. clear Hs. destruct (dmem d c) eqn:E.
      + destruct (IH d Hd) as (H1 & H2 & H3). split; [exact H1|]. split; [exact H2|].
        intros x. rewrite H3. apply dmem_In in E. split; [tauto|]. intros [H|[Hx|H]]; [left; exact H|subst x; left; exact E|right; exact H].
      + assert (Hd' : NoDup (map fst (d ++ [(c, 0)]))).
        { rewrite map_app. simpl. apply Threshold_proofs.nodup_app_intro; [exact Hd|constructor; [intros []|constructor]|].
          intros x Hx [<-|[]]. apply dmem_In in Hx. congruence. }
        destruct (IH _ Hd') as (H1 & H2 & H3). split; [exact H1|]. split.
        * intros x. rewrite H2. apply dget_or_app_new. exact E.
        * intros x. rewrite H3, map_app, in_app_iff. simpl. tauto.
  Qed.

  Lemma copeland_scores_keys : NoDup (map fst (copeland_scores W)) /\
    forall x, In x (map fst (copeland_scores W)) -> In x (candidates v).
  Proof.
    unfold copeland_scores.
    assert (H : forall (ws : list pair) d, NoDup (map fst d) -> (forall p, In p ws -> In p W) ->
      (forall x, In x (map fst d) -> In x (candidates v)) ->
      let d' := fold_left (fun d (p : pair) => dadd (dadd d (fst p) 1) (snd p) (-1)) ws d in
      NoDup (map fst d') /\ forall x, In x (map fst d') -> In x (candidates v)).
    { induction ws as [|[a b] ws IH]; intros d Hd Hsub Hk; simpl; [split; assumption|].
      assert (Hab : In (a, b) W) by (apply Hsub; left; reflexivity).
      apply (wins_iff v Hnd Hnn), (opponents_spec v Hnd Hnn), (opponents_incl v Hnd Hnn) in Hab.
      destruct Hab as (Hb & _ & Ha).
      destruct (dset_keys d a (dget_or d a 0 + 1) Hd) as [N1 K1].
      destruct (dset_keys (dadd d a 1) b (dget_or (dadd d a 1) b 0 + -1) N1) as [N2 K2].
      apply IH; [exact N2|intros p Hp; apply Hsub; right; exact Hp|].
      intros x Hx. unfold dadd in Hx. apply K2 in Hx. destruct Hx as [->|Hx]; [exact Hb|].
      apply K1 in Hx. destruct Hx as [->|Hx]; [exact Ha|apply Hk, Hx]. }
    apply (H W []); [constructor|tauto|intros x []].
  Qed.

  Theorem copeland_elects_cw so c : (2 <= length (candidates v))%nat -> is_cw v c ->
    copeland so v 1 = [Cand c].
  Proof.
    intros H2 Hcw. unfold copeland.
    destruct copeland_scores_keys as [Hkn Hks].
    destruct (seed_fold (candidates v) (copeland_scores W) Hkn) as (Sn & Sg & Sk).
    fold seed. set (scores := fold_left seed (candidates v) (copeland_scores W)) in *.
    pose proof Hcw as [Hc Hall].
    set (m := Z.of_nat (length (candidates v))).
    (* the winner's score *)
    destruct (is_cw_count v Hnd Hnn c Hcw H2) as [_ Hcnt]. rewrite beat_counts_get in Hcnt.
    assert (Hwc : nwins c = m - 1) by (unfold nwins; unfold opponents in Hcnt; rewrite map_length in Hcnt; exact Hcnt).
    assert (Hlc : nlosses c = 0).
    { unfold nlosses. destruct (filter _ W) as [|[a b] t] eqn:Ef; [reflexivity|exfalso].
      assert (Hin : In (a, b) (filter (fun p : pair => ceqb (snd p) c) W)) by (rewrite Ef; left; reflexivity).
      apply filter_In in Hin. destruct Hin as [Hin Hb]. simpl in Hb. apply Pos.eqb_eq in Hb. subst b.
      apply (wins_iff v Hnd Hnn) in Hin. pose proof Hin as Hin'.
      apply (opponents_spec v Hnd Hnn), (opponents_incl v Hnd Hnn) in Hin'. destruct Hin' as (_ & Hne & Ha).
      assert (Hb : beats v c a) by (apply Hall; [exact Ha|intros ->; exact (Hne eq_refl)]).
      unfold beats in *. lia. }
    assert (Hbest : get_n_best zle_bool scores 1 = [Cand c]).
    { apply (get_n_best_unique_max zle_bool zle_total zle_trans Pos.eq_dec scores c (m - 1) Sn).
      - assert (Hk : In c (map fst scores)) by (apply Sk; right; exact Hc).
        apply in_map_iff in Hk. destruct Hk as ([c0 u] & Hc0 & Hin). simpl in Hc0. subst c0.
        pose proof (In_dget_or scores c u Sn Hin) as Hu. rewrite Sg, copeland_scores_get, Hwc, Hlc in Hu.
        replace (m - 1) with u by lia. exact Hin.
      - intros x u Hin Hne. pose proof (In_dget_or scores x u Sn Hin) as Hu.
        rewrite Sg, copeland_scores_get in Hu.
        assert (Hx : In x (candidates v)).
        { assert (Hk : In x (map fst scores)) by (apply in_map_iff; exists (x, u); split; [reflexivity|exact Hin]).
          apply Sk in Hk. destruct Hk as [Hk|Hk]; [apply Hks, Hk|exact Hk]. }
        assert (Hbx : beats v c x) by (apply Hall; assumption).
        assert (Hl1 : 1 <= nlosses x).
        { unfold nlosses.
          assert (Hin2 : In (c, x) (filter (fun p : pair => ceqb (snd p) x) W)).
          { apply filter_In. split; [apply (wins_iff v Hnd Hnn); exact Hbx|simpl; apply Pos.eqb_refl]. }
          destruct (filter _ W); [destruct Hin2|simpl; lia]. }
        assert (Hw1 : nwins x <= m - 2).
        { unfold nwins.
          assert (Hlen : (length (c :: x :: opponents v x) <= length (candidates v))%nat).
          { apply NoDup_incl_length.
            - constructor.
              + intros [H|H]; [exact (Hne H)|]. apply (opponents_spec v Hnd Hnn) in H. unfold beats in *. lia.
              + constructor; [|apply (opponents_NoDup v Hnd)].
                intros H. apply (opponents_incl v Hnd Hnn) in H. destruct H as (_ & H & _). exact (H eq_refl).
            - intros y [<-|[<-|Hy]]; [exact Hc|exact Hx|]. apply (opponents_incl v Hnd Hnn) in Hy. tauto. }
          assert (Hopp : length (opponents v x) = length (filter (fun p : pair => ceqb (fst p) x) W))
            by (unfold opponents; apply map_length).
          simpl in Hlen. rewrite Hopp in Hlen. unfold m. lia. }
        unfold GetNBest.ltb, zle_bool. apply negb_true_iff. apply Z.leb_gt. lia. }
    rewrite Hbest. simpl. rewrite andb_false_r. reflexivity.
  Qed.
End COPE.
