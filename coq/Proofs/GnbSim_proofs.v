(* get_n_best on two permutations of the same score dictionary, position by position (C10):
   the two results have the same shape - a plain winner faces a plain winner WITH AN EQUIVALENT SCORE
   (hence the same candidate whenever that score is unique), a tie faces a tie with the same members
   (as a permutation) - for ANY total preorder on the values.  The specialisation to integer scores
   (zle_bool: the Condorcet family) adds: the same candidates are elected, the same candidates are tied. *)
From Coq Require Import ZArith QArith List Bool Lia Permutation Arith Sorted.
From VL Require Import Prelude.PyDict Model.GetNBest Model.Condorcet Proofs.Dict_proofs Proofs.GetNBest_proofs Proofs.QOrd
     Proofs.Scale_proofs Proofs.Order_proofs Proofs.Condorcet_proofs.
Import ListNotations.
Close Scope Q_scope.
Close Scope Z_scope.
Open Scope nat_scope.

Section SIM.
  Context {K V : Type}.
  Variable leb : V -> V -> bool.
  Hypothesis leb_total : forall a b, leb a b = true \/ leb b a = true.
  Hypothesis leb_trans : forall a b c, leb a b = true -> leb b c = true -> leb a c = true.
  Notation eqv := (@eqv V leb).
  Notation ltb := (@ltb V leb).
  Notation sorted := (@sorted_desc K V leb).
  Notation gnb := (@get_n_best K V leb).

  Definition cge (l : list (K * V)) (x : V) : nat := length (filter (fun it => leb x (snd it)) l).

  Lemma filter_length_perm' {X} (f : X -> bool) l l' : Permutation l l' -> length (filter f l) = length (filter f l').
  Proof.
    induction 1 as [|x l l' _ IH|x y l|l l' l'' _ IH1 _ IH2]; simpl; try lia.
    - destruct (f x); simpl; lia.
    - destruct (f x), (f y); simpl; lia.
  Qed.
  Lemma cge_perm l l' x : Permutation l l' -> cge l x = cge l' x.
  Proof. apply filter_length_perm'. Qed.

  Lemma eqv_sym a b : eqv a b = true -> eqv b a = true.
  Proof. unfold GetNBest.eqv. rewrite andb_comm. tauto. Qed.
  Lemma eqv_trans a b c : eqv a b = true -> eqv b c = true -> eqv a c = true.
  Proof.
    unfold GetNBest.eqv. rewrite !andb_true_iff. intros [A1 A2] [B1 B2]. split; eapply leb_trans; eassumption.
  Qed.
  Lemma eqv_leb_same a b x : eqv a b = true -> leb x a = leb x b.
  Proof.
    unfold GetNBest.eqv. rewrite andb_true_iff. intros [A1 A2].
    destruct (leb x a) eqn:E1, (leb x b) eqn:E2; try reflexivity.
    - rewrite (leb_trans _ _ _ E1 A1) in E2. discriminate.
    - rewrite (leb_trans _ _ _ E2 A2) in E1. discriminate.
  Qed.
  Lemma eqv_eqv_same a b x : eqv a b = true -> eqv x a = eqv x b.
  Proof.
    intros H. destruct (eqv x a) eqn:E1, (eqv x b) eqn:E2; try reflexivity.
    - rewrite (eqv_trans _ _ _ E1 H) in E2. discriminate.
    - rewrite (eqv_trans _ _ _ E2 (eqv_sym _ _ H)) in E1. discriminate.
  Qed.
  Lemma eqv_eqv_same_l a b x : eqv a b = true -> eqv a x = eqv b x.
  Proof.
    intros H. destruct (eqv a x) eqn:E1, (eqv b x) eqn:E2; try reflexivity.
    - rewrite (eqv_trans _ _ _ (eqv_sym _ _ H) E1) in E2. discriminate.
    - rewrite (eqv_trans _ _ _ H E2) in E1. discriminate.
  Qed.

  Lemma cge_pos l x : 1 <= cge l x -> exists z, In z l /\ leb x (snd z) = true.
  Proof.
    unfold cge. intros H. destruct (filter (fun it => leb x (snd it)) l) as [|z t] eqn:E; [simpl in H; lia|].
    assert (Hz : In z (filter (fun it => leb x (snd it)) l)) by (rewrite E; left; reflexivity).
    apply filter_In in Hz. exists z. exact Hz.
  Qed.

  (* two descending lists with the same counts above every value agree value-wise, position by position *)
  Lemma sorted_cnt_eqv : forall s s' : list (K * V), sorted s -> sorted s' -> (forall x, cge s x = cge s' x) ->
    Forall2 (fun a b => eqv (snd a) (snd b) = true) s s'.
  Proof.
    induction s as [|x t IH]; intros s' Hs Hs' Hc.
    - destruct s' as [|y t']; [constructor|]. exfalso. specialize (Hc (snd y)). unfold cge in Hc. simpl in Hc.
      rewrite (leb_refl leb leb_total) in Hc. simpl in Hc. lia.
    - destruct s' as [|y t'].
      { exfalso. specialize (Hc (snd x)). unfold cge in Hc. simpl in Hc. rewrite (leb_refl leb leb_total) in Hc. simpl in Hc. lia. }
      inversion Hs as [|? ? Hst Hxa]; subst. inversion Hs' as [|? ? Hst' Hya]; subst.
      assert (Hhead : forall (a : K * V) (l l' : list (K * V)) b, Forall (ge_item leb b) l' -> cge (a :: l) (snd a) = cge (b :: l') (snd a) -> leb (snd a) (snd b) = true).
      { intros a l l' b Hb Hcc.
        destruct (cge_pos (b :: l') (snd a)) as (z & Hz & Hlz).
        - rewrite <- Hcc. unfold cge. simpl. rewrite (leb_refl leb leb_total). simpl. lia.
        - destruct Hz as [<-|Hz]; [exact Hlz|]. rewrite Forall_forall in Hb. specialize (Hb z Hz). unfold ge_item in Hb.
          eapply leb_trans; eassumption. }
      assert (Exy : eqv (snd x) (snd y) = true).
      { unfold GetNBest.eqv. apply andb_true_iff. split.
        - apply (Hhead x t t' y Hya). apply Hc.
        - apply (Hhead y t' t x Hxa). symmetry. apply Hc. }
      constructor; [exact Exy|]. apply IH; try assumption. intros z. specialize (Hc z). unfold cge in *. simpl in Hc.
      rewrite (eqv_leb_same _ _ z Exy) in Hc. destruct (leb z (snd y)); simpl in Hc; lia.
  Qed.

  Lemma sort_desc_pos_eqv (votes votes' : list (K * V)) : Permutation votes votes' ->
    Forall2 (fun a b => eqv (snd a) (snd b) = true) (sort_desc leb votes) (sort_desc leb votes').
  Proof.
    intros Hp. apply sorted_cnt_eqv; try apply (sort_desc_sorted leb leb_total leb_trans).
    intros x. apply cge_perm. eapply Permutation_trans; [apply sort_desc_perm|].
    eapply Permutation_trans; [exact Hp|]. apply Permutation_sym, sort_desc_perm.
  Qed.

  Lemma F2_impl {X Y} (P Q : X -> Y -> Prop) l l' : (forall x y, P x y -> Q x y) -> Forall2 P l l' -> Forall2 Q l l'.
  Proof. intros H. induction 1; constructor; auto. Qed.
  Lemma F2_length {X Y} (P : X -> Y -> Prop) l l' : Forall2 P l l' -> length l = length l'.
  Proof. induction 1; simpl; congruence. Qed.
  Lemma Forall2_with_in {X Y} (P : X -> Y -> Prop) l l' : Forall2 P l l' ->
    Forall2 (fun x y => In x l /\ In y l' /\ P x y) l l'.
  Proof.
    induction 1 as [|x y l l' H _ IH]; [constructor|]. constructor; [simpl; tauto|].
    eapply F2_impl; [|exact IH]. simpl. intros a b (A & B & D). tauto.
  Qed.
  Lemma Forall2_firstn {X Y} (P : X -> Y -> Prop) k : forall l l', Forall2 P l l' -> Forall2 P (firstn k l) (firstn k l').
  Proof. induction k as [|k IH]; intros l l' H; [constructor|]. destruct H; simpl; constructor; auto. Qed.
  Lemma Forall2_nth {X Y} (P : X -> Y -> Prop) : forall l l' k, Forall2 P l l' ->
    match nth_error l k, nth_error l' k with Some x, Some y => P x y | None, None => True | _, _ => False end.
  Proof.
    induction l as [|x l IH]; intros l' k H; inversion H; subst; destruct k; simpl; auto.
    apply IH. assumption.
  Qed.
  Lemma Forall2_repeat {X Y} (P : X -> Y -> Prop) x y k : P x y -> Forall2 P (repeat x k) (repeat y k).
  Proof. intros H. induction k; simpl; constructor; auto. Qed.
  Lemma Forall2_map2 {X Y X' Y'} (P : X' -> Y' -> Prop) (f : X -> X') (g : Y -> Y') l l' :
    Forall2 (fun x y => P (f x) (g y)) l l' -> Forall2 P (map f l) (map g l').
  Proof. induction 1; simpl; constructor; auto. Qed.

  (* the relation between the two results *)
  Definition res_rel (votes votes' : list (K * V)) (x y : res K) : Prop :=
    match x, y with
    | Cand a, Cand b => exists va vb, In (a, va) votes /\ In (b, vb) votes' /\ eqv va vb = true
    | TieR T, TieR T' => Permutation T T'
    | _, _ => False
    end.

  Lemma first_eq_index_sim thr thr' : eqv thr thr' = true -> forall s s' : list (K * V),
    Forall2 (fun a b => eqv (snd a) (snd b) = true) s s' -> first_eq_index leb thr s = first_eq_index leb thr' s'.
  Proof.
    intros Ht. induction 1 as [|x y s s' E _ IH]; simpl; [reflexivity|].
    rewrite (eqv_eqv_same _ _ (snd x) Ht), (eqv_eqv_same_l _ _ thr' E), IH. reflexivity.
  Qed.

  Lemma filter_perm_ext {X} (f g : X -> bool) l l' : Permutation l l' -> (forall x, f x = g x) ->
    Permutation (filter f l) (filter g l').
  Proof.
    intros Hp He. rewrite (filter_ext f g He). clear He f.
    induction Hp as [|x l l' _ IH|x y l|l l' l'' _ IH1 _ IH2]; simpl.
    - constructor.
    - destruct (g x); [constructor|]; exact IH.
    - destruct (g x), (g y); try apply Permutation_refl. apply perm_swap.
    - eapply Permutation_trans; eassumption.
  Qed.

  Theorem gnb_sim (votes votes' : list (K * V)) n : Permutation votes votes' ->
    Forall2 (res_rel votes votes') (gnb votes n) (gnb votes' n).
  Proof.
    intros Hp. unfold get_n_best.
    pose proof (sort_desc_pos_eqv votes votes' Hp) as F0.
    pose proof (sort_desc_perm leb votes) as P1. pose proof (sort_desc_perm leb votes') as P2.
    set (s := sort_desc leb votes) in *. set (s' := sort_desc leb votes') in *.
    assert (Pss : Permutation s s').
    { eapply Permutation_trans; [exact P1|]. eapply Permutation_trans; [exact Hp|]. apply Permutation_sym, P2. }
    pose proof (Forall2_with_in _ _ _ F0) as F.
    assert (Hcands : forall a b : list (K * V), Forall2 (fun x y => In x s /\ In y s' /\ eqv (snd x) (snd y) = true) a b ->
              Forall2 (res_rel votes votes') (map (fun it => Cand (fst it)) a) (map (fun it => Cand (fst it)) b)).
    { intros a b H. apply Forall2_map2. eapply F2_impl; [|exact H]. intros [c vc] [c' vc'] (I1 & I2 & E). simpl.
      exists vc, vc'. split; [apply (Permutation_in _ P1 I1)|]. split; [apply (Permutation_in _ P2 I2)|exact E]. }
    rewrite <- (F2_length _ _ _ F0).
    destruct (Nat.ltb n (length s)); [|apply Hcands, F].
    pose proof (Forall2_nth _ s s' (n - 1) F0) as N1. pose proof (Forall2_nth _ s s' n F0) as N2.
    destruct (nth_error s (n - 1)) as [[c1 thr]|], (nth_error s' (n - 1)) as [[c1' thr']|]; try contradiction; [|constructor].
    destruct (nth_error s n) as [[c2 nxt]|], (nth_error s' n) as [[c2' nxt']|]; try contradiction; [|constructor].
    simpl in N1, N2.
    rewrite (eqv_eqv_same _ _ nxt N1), (eqv_eqv_same_l _ _ thr' N2).
    destruct (eqv nxt' thr').
    - rewrite (first_eq_index_sim thr thr' N1 s s' F0).
      apply Forall2_app; [apply Hcands, Forall2_firstn, F|]. apply Forall2_repeat. simpl.
      apply Permutation_map. apply filter_perm_ext; [exact Pss|]. intros x. apply eqv_eqv_same. exact N1.
    - apply Hcands, Forall2_firstn, F.
  Qed.

  Lemma gnb_cand_key (votes : list (K * V)) n c : In (Cand c) (gnb votes n) -> In c (map fst votes).
  Proof.
    assert (Hs : forall l, incl l (sort_desc leb votes) -> In (Cand c) (map (fun it : K * V => Cand (fst it)) l) -> In c (map fst votes)).
    { intros l Hl H. apply in_map_iff in H. destruct H as (x & Hx & Hi). injection Hx as <-.
      apply in_map. apply (Permutation_in _ (sort_desc_perm leb votes)). apply Hl, Hi. }
    assert (Hf : forall k, incl (firstn k (sort_desc leb votes)) (sort_desc leb votes)).
    { intros k x Hx. rewrite <- (firstn_skipn k (sort_desc leb votes)). apply in_or_app. left. exact Hx. }
    unfold get_n_best. destruct (Nat.ltb n _); [|apply Hs, incl_refl].
    destruct (nth_error _ (n - 1)) as [[c1 thr]|]; [|intros []].
    destruct (nth_error _ n) as [[c2 nxt]|]; [|intros []].
    destruct (eqv nxt thr); [|apply Hs, Hf].
    intros H. apply in_app_or in H. destruct H as [H|H]; [exact (Hs _ (Hf _) H)|]. apply repeat_spec in H. discriminate.
  Qed.

  Lemma gnb_zero (votes : list (K * V)) : gnb votes 0 = [].
  Proof.
    unfold get_n_best. destruct (sort_desc leb votes) as [|[c v] t]; [reflexivity|]. simpl.
    unfold GetNBest.eqv. rewrite (leb_refl leb leb_total). reflexivity.
  Qed.
End SIM.

(* ---------------------------------------------------------------- integer scores (zle_bool) *)
Open Scope Z_scope.

Definition score_of (d : list (C * Z)) (c : C) : Z := dget_or d c 0.

(* same shape; plain winner against plain winner with the same score; tie against tie with the same members *)
Definition res_relz (d d' : list (C * Z)) (x y : res C) : Prop :=
  match x, y with
  | Cand a, Cand b => In a (map fst d) /\ In b (map fst d) /\ score_of d a = score_of d b
  | TieR T, TieR T' => Permutation T T'
  | _, _ => False
  end.

Lemma zeqv_eq a b : eqv zle_bool a b = true <-> a = b.
Proof. unfold eqv, zle_bool. rewrite andb_true_iff, !Z.leb_le. lia. Qed.

Lemma In_score_of (d : list (C * Z)) c n : NoDup (map fst d) -> In (c, n) d -> score_of d c = n.
Proof. apply In_dget_or. Qed.

Lemma qle_inject a b : Qle_bool (inject_Z a) (inject_Z b) = zle_bool a b.
Proof.
  unfold zle_bool. destruct (a <=? b) eqn:E.
  - apply Qle_bool_iff. rewrite <- Zle_Qle. apply Z.leb_le. exact E.
  - apply not_true_iff_false. intros H. apply Qle_bool_iff in H. rewrite <- Zle_Qle in H. apply Z.leb_le in H. congruence.
Qed.

Section ZSIM.
  Variables d d' : list (C * Z).
  Hypothesis Hnd : NoDup (map fst d).
  Hypothesis Hp : Permutation d d'.

  Lemma perm_keys : forall c, In c (map fst d) <-> In c (map fst d').
  Proof. intros c. split; apply Permutation_in; [|apply Permutation_sym]; apply Permutation_map, Hp. Qed.
  Lemma perm_nodup' : NoDup (map fst d').
  Proof. eapply Permutation_NoDup; [apply Permutation_map, Hp|exact Hnd]. Qed.
  Lemma perm_score c : score_of d' c = score_of d c.
  Proof.
    unfold score_of, dget_or. destruct (dget d c) as [n|] eqn:E.
    - apply dget_In in E. apply (Permutation_in _ Hp) in E. rewrite (In_dget _ _ _ perm_nodup' E). reflexivity.
    - destruct (dget d' c) as [m|] eqn:E'; [|reflexivity]. apply dget_In in E'. apply (Permutation_in _ (Permutation_sym Hp)) in E'.
      rewrite (In_dget _ _ _ Hnd E') in E. discriminate.
  Qed.

  Theorem gnbz_sim n : Forall2 (res_relz d d') (get_n_best zle_bool d n) (get_n_best zle_bool d' n).
  Proof.
    eapply F2_impl; [|apply (gnb_sim zle_bool zle_total zle_trans d d' n Hp)].
    intros [a|T] [b|T']; simpl; try tauto. intros (va & vb & Ia & Ib & E). apply zeqv_eq in E. subst vb.
    apply (Permutation_in _ (Permutation_sym Hp)) in Ib.
    split; [apply in_map_iff; exists (a, va); auto|]. split; [apply in_map_iff; exists (b, va); auto|].
    rewrite (In_score_of d a va Hnd Ia), (In_score_of d b va Hnd Ib). reflexivity.
  Qed.

  Theorem gnbz_sets n c :
    (In (Cand c) (get_n_best zle_bool d n) <-> In (Cand c) (get_n_best zle_bool d' n)) /\
    ((exists T, In (TieR T) (get_n_best zle_bool d n) /\ In c T) <-> (exists T, In (TieR T) (get_n_best zle_bool d' n) /\ In c T)).
  Proof.
    destruct n as [|n]; [rewrite !(gnb_zero zle_bool zle_total); simpl; split; split; try tauto; intros (T & [] & _)|].
    destruct (in_dec Pos.eq_dec c (map fst d)) as [Hin|Hout].
    - apply in_map_iff in Hin. destruct Hin as ([c0 v] & Hc & Hin). simpl in Hc. subst c0.
      rewrite <- !(get_n_best_map zle_bool Qle_bool inject_Z qle_inject).
      apply (gnb_perm (mapv inject_Z d) (mapv inject_Z d') (S n) c (inject_Z v)).
      + lia.
      + unfold mapv. rewrite map_map. simpl. exact Hnd.
      + apply Permutation_map, Hp.
      + unfold mapv. apply in_map_iff. exists (c, v). auto.
    - assert (Hout' : ~ In c (map fst d')) by (rewrite <- perm_keys; exact Hout).
      assert (Hno : forall (l : list (C * Z)) m, ~ In c (map fst l) -> ~ In (Cand c) (get_n_best zle_bool l m) /\
                      ~ (exists T, In (TieR T) (get_n_best zle_bool l m) /\ In c T)).
      { intros l m Hl. split.
        - intros H. apply Hl. exact (gnb_cand_key zle_bool l m c H).
        - intros (T & HT & HcT). apply (get_n_best_tie_members zle_bool zle_trans) in HT.
          destruct HT as (thr & -> & _). apply Hl. apply in_map_iff in HcT. destruct HcT as (x & Hx & Hi).
          apply filter_In in Hi. apply in_map_iff. exists x. tauto. }
      destruct (Hno d (S n) Hout) as [A1 A2]. destruct (Hno d' (S n) Hout') as [B1 B2]. tauto.
  Qed.
End ZSIM.
