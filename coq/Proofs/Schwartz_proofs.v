(* The Schwartz set (Model/Condorcet.v: schwartz_set, the model of the repaired SchwartzSet - fixes/C06-schwartz-set):
   - a candidate is returned iff every candidate with a beat path to it (a chain of strict pairwise defeats) is reached
     by a beat path from it (schwartz_in);
   - that set is exactly the union of the minimal unbeaten sets: non-empty sets of candidates no outsider beats
     (schwartz_spec);
   - it is non-empty, every candidate is a member or reached from a member by a beat path (schwartz_above), it lies
     inside the Smith set (schwartz_in_smith), it is {w} when w is the Condorcet winner (schwartz_cw);
   - shape (no duplicates, candidates only), independence of the dictionary order, renaming, scaling.
   Reachability is decided by is_path, the model of RankedPairs._is_path, proved to decide paths in
   Proofs/RankedPairs_proofs.v (is_path_iff). *)
From Coq Require Import ZArith List Bool Arith Lia Permutation.
From VL Require Import Prelude.PyDict Model.GetNBest Model.Condorcet Proofs.Dict_proofs Proofs.GetNBest_proofs Proofs.Condorcet_proofs Proofs.Smith_proofs
  Proofs.RankedPairs_proofs.
Import ListNotations.
Open Scope Z_scope.

(* a chain of strict pairwise defeats from a to b (absent pair = 0 : 0) *)
Inductive beatpath (v : pvotes) : C -> C -> Prop :=
| bp_one a b : beats v a b -> beatpath v a b
| bp_step a b c : beats v a b -> beatpath v b c -> beatpath v a c.

(* a non-empty set of candidates that no candidate outside it beats *)
Definition unbeaten_set (v : pvotes) (S : list C) : Prop :=
  S <> [] /\ incl S (candidates v) /\ forall a b, In a S -> In b (candidates v) -> ~ In b S -> ~ beats v b a.

Lemma beatpath_trans v a b c : beatpath v a b -> beatpath v b c -> beatpath v a c.
Proof. induction 1 as [a b H|a b d H _ IH]; intros H'; [eapply bp_step; eauto|eapply bp_step; [exact H|apply IH, H']]. Qed.

Lemma beatpath_last v a b : beatpath v a b -> exists y, beats v y b.
Proof. induction 1 as [a b H|a b d H _ IH]; [exists a; exact H|exact IH]. Qed.

Lemma beatpath_first v a b : beatpath v a b -> exists y, beats v a y.
Proof. induction 1 as [a b H|a b d H _ IH]; exists b; exact H. Qed.

Lemma beatpath_ext v v' : (forall a b, beats v a b -> beats v' a b) -> forall a b, beatpath v a b -> beatpath v' a b.
Proof. intros E a b. induction 1 as [a b H|a b d H _ IH]; [apply bp_one, E, H|eapply bp_step; [apply E, H|exact IH]]. Qed.

Lemma beats_asym v a b : beats v a b -> ~ beats v b a.
Proof. unfold beats. lia. Qed.

(* a beat path that starts outside a (decidable) set and ends inside it crosses the border *)
Lemma beatpath_cross v (S : list C) a b : beatpath v a b -> ~ In a S -> In b S ->
  exists x y, beats v x y /\ ~ In x S /\ In y S.
Proof.
  induction 1 as [a b H|a b d H _ IH]; intros Ha Hb; [exists a, b; tauto|].
  destruct (in_dec Pos.eq_dec b S) as [Hi|Hn]; [exists a, b; tauto|apply IH; assumption].
Qed.

Lemma forallb_false {X} (f : X -> bool) l : forallb f l = false -> exists x, In x l /\ f x = false.
Proof.
  induction l as [|a t IH]; simpl; [discriminate|]. destruct (f a) eqn:E; simpl.
  - intros H. destruct (IH H) as (x & Hx & Hf). exists x. tauto.
  - intros _. exists a. tauto.
Qed.

Lemma nodup_singleton (w : C) (l : list C) : NoDup l -> (forall x, In x l <-> x = w) -> l = [w].
Proof.
  intros N H. destruct l as [|x t].
  - exfalso. apply (proj2 (H w) eq_refl).
  - assert (x = w) by (apply H; left; reflexivity). subst x. destruct t as [|y t]; [reflexivity|].
    assert (y = w) by (apply H; right; left; reflexivity). subst y. inversion N as [|? ? Hx _]. exfalso. apply Hx. left. reflexivity.
Qed.

Lemma implb_true a b : implb a b = true <-> (a = true -> b = true).
Proof. destruct a, b; simpl; split; auto; intros H; try discriminate; symmetry; apply H; reflexivity. Qed.

(* ---- the order the routine walks, for every dictionary: no duplicates, candidates only *)
Lemma complete_wins_cands (v : pvotes) p t : In p (pairwise_wins (complete v) t) -> In (fst p) (candidates v) /\ In (snd p) (candidates v).
Proof.
  unfold pairwise_wins. intros H. apply in_map_iff in H. destruct H as ([[a b] n] & Hq & Hin). simpl in Hq. subst p.
  apply filter_In in Hin. destruct Hin as [Hin _]. apply complete_in in Hin. cbn [fst snd]. tauto.
Qed.

Theorem schwartz_set_shape (v : pvotes) : NoDup (schwartz_set v) /\ incl (schwartz_set v) (candidates v).
Proof.
  unfold schwartz_set. cbv zeta.
  set (wins := pairwise_wins (complete v) true).
  destruct (cscore_keys wins) as [Hn Hk].
  assert (Hp : Permutation (map fst (sort_desc zle_bool (copeland_scores wins))) (map fst (copeland_scores wins)))
    by (apply Permutation_map, sort_desc_perm).
  split.
  - apply NoDup_filter. eapply Permutation_NoDup; [apply Permutation_sym, Hp|exact Hn].
  - intros x Hx. apply filter_In in Hx. destruct Hx as [Hx _]. apply (Permutation_in _ Hp) in Hx. apply Hk in Hx.
    destruct Hx as (p & Hpw & Hx). destruct (complete_wins_cands v p true Hpw) as [Ha Hb]. destruct Hx as [->| ->]; assumption.
Qed.

Section SCHWARTZ.
  Variable v : pvotes.
  Hypothesis Hnn : forall p n, In (p, n) v -> 0 <= n.
  Hypothesis Hndv : NoDup (map fst v).
  Hypothesis H2 : (2 <= length (candidates v))%nat.
  Notation cs := (candidates v).
  Notation cv := (complete v).
  Notation DF := (pairwise_wins (complete v) false).

  (* strict defeats are between two different candidates *)
  Lemma beats_cands a b : beats v a b -> In a cs /\ In b cs /\ a <> b.
  Proof.
    unfold beats. intros H. pose proof (pget0_nonneg v Hnn (b, a)) as H0.
    assert (Hab : a <> b) by (intros ->; lia).
    unfold pget0 in H at 2. destruct (pget v (a, b)) as [n|] eqn:E; [|lia]. apply pget_In in E.
    split; [|split; [|exact Hab]]; apply (candidates_spec v); exists (a, b), n; (split; [exact E|]); simpl; auto.
  Qed.

  (* the strict defeats the routine searches: exactly the beats relation *)
  Lemma df_iff a b : In (a, b) DF <-> beats v a b.
  Proof.
    rewrite (wins_iff cv (complete_keys_nodup v) (complete_nonneg v Hnn H2) a b). split.
    - intros H. pose proof H as H'. unfold beats in H'. pose proof (pget0_nonneg cv (complete_nonneg v Hnn H2) (b, a)) as H0.
      unfold pget0 in H' at 2. destruct (pget cv (a, b)) as [n|] eqn:E; [|lia]. apply pget_In in E.
      apply complete_in in E. destruct E as (Ha & Hb & Hab & _).
      unfold beats. rewrite <- (complete_pget0 v a b Ha Hb Hab), <- (complete_pget0 v b a Hb Ha (fun e => Hab (eq_sym e))).
      exact H.
    - intros H. destruct (beats_cands a b H) as (Ha & Hb & Hab). unfold beats.
      rewrite (complete_pget0 v a b Ha Hb Hab), (complete_pget0 v b a Hb Ha (fun e => Hab (eq_sym e))). exact H.
  Qed.

  Lemma path_beatpath a b : path DF a b <-> beatpath v a b.
  Proof.
    split.
    - induction 1 as [a b H|a b d H _ IH]; [apply bp_one, df_iff, H|eapply bp_step; [apply df_iff, H|exact IH]].
    - induction 1 as [a b H|a b d H _ IH]; [apply path1, df_iff, H|eapply pathS; [apply df_iff, H|exact IH]].
  Qed.

  Lemma is_path_beatpath a b : is_path DF a b = true <-> a <> b /\ beatpath v a b.
  Proof. rewrite is_path_iff, path_beatpath. reflexivity. Qed.

  Lemma beatpath_cands a b : beatpath v a b -> In a cs /\ In b cs.
  Proof.
    intros H. split.
    - destruct (beatpath_first v a b H) as (y & Hy). apply beats_cands in Hy. tauto.
    - destruct (beatpath_last v a b H) as (y & Hy). apply beats_cands in Hy. tauto.
  Qed.

  (* ---- membership: the candidates that answer every beat path to them with a beat path back *)
  Definition maxb (c : C) : bool := forallb (fun o => implb (is_path DF o c) (is_path DF c o)) cs.

  Lemma maxb_iff c : maxb c = true <-> forall o, beatpath v o c -> beatpath v c o.
  Proof.
    unfold maxb. rewrite forallb_forall. split.
    - intros H o Ho. destruct (Pos.eq_dec o c) as [->|Hne]; [exact Ho|].
      specialize (H o (proj1 (beatpath_cands o c Ho))). rewrite implb_true, !is_path_beatpath in H.
      apply H. split; assumption.
    - intros H o _. rewrite implb_true, !is_path_beatpath. intros [Hne Ho]. split; [congruence|apply H, Ho].
  Qed.

  Theorem schwartz_in c : In c (schwartz_set v) <-> In c cs /\ forall o, beatpath v o c -> beatpath v c o.
  Proof.
    unfold schwartz_set. cbv zeta. rewrite filter_In, (order_in v H2 c), <- maxb_iff. unfold maxb.
    rewrite !forallb_forall. split; intros [Hc H]; (split; [exact Hc|]); intros o Ho; apply H; apply (order_in v H2 o); exact Ho.
  Qed.

  (* ---- unbeaten sets are closed under beat paths into them *)
  Lemma unbeaten_closed S : unbeaten_set v S -> forall x a, beatpath v x a -> In a S -> In x S.
  Proof.
    intros (_ & _ & Hu) x a Hp. induction Hp as [x a Hb|x b a Hb _ IH]; intros Ha.
    - destruct (in_dec Pos.eq_dec x S) as [Hi|Hn]; [exact Hi|]. exfalso.
      apply (Hu a x Ha); [apply beats_cands in Hb; tauto|exact Hn|exact Hb].
    - specialize (IH Ha). destruct (in_dec Pos.eq_dec x S) as [Hi|Hn]; [exact Hi|]. exfalso.
      apply (Hu b x IH); [apply beats_cands in Hb; tauto|exact Hn|exact Hb].
  Qed.

  (* a candidate together with everybody who has a beat path to it *)
  Definition anc (c : C) : list C := filter (fun o => ceqb o c || is_path DF o c) cs.

  Lemma anc_in c o : In c cs -> (In o (anc c) <-> o = c \/ beatpath v o c).
  Proof.
    intros Hc. unfold anc. rewrite filter_In, orb_true_iff, ceqb_eq, is_path_beatpath. split.
    - intros [_ [E|[_ H]]]; auto.
    - intros [->|H].
      + split; [exact Hc|left; reflexivity].
      + split; [apply (beatpath_cands o c H)|]. destruct (Pos.eq_dec o c) as [E|E]; [left; exact E|right; split; assumption].
  Qed.

  Lemma anc_unbeaten c : In c cs -> unbeaten_set v (anc c).
  Proof.
    intros Hc. split; [|split].
    - intros E. assert (H : In c (anc c)) by (apply anc_in; auto). rewrite E in H. destruct H.
    - intros x Hx. unfold anc in Hx. apply filter_In in Hx. tauto.
    - intros a b Ha Hb Hnb Hba. apply Hnb. apply anc_in; [exact Hc|]. right.
      apply (anc_in c a Hc) in Ha. destruct Ha as [->|Ha]; [apply bp_one, Hba|eapply bp_step; eauto].
  Qed.

  (* ---- the Schwartz clause of C06: exactly the union of the minimal unbeaten sets *)
  Theorem schwartz_spec c : In c (schwartz_set v) <->
    exists S, unbeaten_set v S /\ In c S /\ forall T, unbeaten_set v T -> incl T S -> incl S T.
  Proof.
    rewrite schwartz_in. split.
    - intros [Hc Hmax]. exists (anc c). split; [apply anc_unbeaten, Hc|]. split; [apply anc_in; auto|].
      intros T HT Hsub.
      assert (HcT : In c T).
      { destruct HT as (Hne & HT'). destruct T as [|t T']; [congruence|].
        assert (Ht : In t (anc c)) by (apply Hsub; left; reflexivity). apply (anc_in c t Hc) in Ht.
        destruct Ht as [->|Ht]; [left; reflexivity|].
        apply (unbeaten_closed (t :: T') (conj Hne HT') c t (Hmax t Ht)). left. reflexivity. }
      intros s Hs. apply (anc_in c s Hc) in Hs. destruct Hs as [->|Hs]; [exact HcT|].
      apply (unbeaten_closed T HT s c Hs HcT).
    - intros (S & HS & HcS & Hmin).
      assert (Hc : In c cs) by (destruct HS as (_ & Hi & _); apply Hi, HcS).
      split; [exact Hc|]. intros o Ho.
      assert (HoS : In o S) by (apply (unbeaten_closed S HS o c Ho HcS)).
      assert (Hoc : In o cs) by (apply (beatpath_cands o c Ho)).
      assert (Hsub : incl (anc o) S).
      { intros x Hx. apply (anc_in o x Hoc) in Hx. destruct Hx as [->|Hx]; [exact HoS|].
        apply (unbeaten_closed S HS x o Hx HoS). }
      pose proof (Hmin (anc o) (anc_unbeaten o Hoc) Hsub c HcS) as H. apply (anc_in o c Hoc) in H.
      destruct H as [->|H]; [exact Ho|exact H].
  Qed.

  (* ---- existence: below every candidate there are fewer and fewer strict ancestors, so the climb stops *)
  Definition sanc (c : C) : list C := filter (fun o => is_path DF o c) cs.

  Lemma not_max_smaller c : In c cs -> maxb c = false ->
    exists o, In o cs /\ beatpath v o c /\ (length (sanc o) < length (sanc c))%nat.
  Proof.
    intros Hc E. unfold maxb in E. apply forallb_false in E. destruct E as (o & Ho & E).
    destruct (is_path DF o c) eqn:E1; [|discriminate]. destruct (is_path DF c o) eqn:E2; [discriminate|]. clear E.
    apply is_path_beatpath in E1. destruct E1 as [Hne Hoc].
    exists o. split; [exact Ho|]. split; [exact Hoc|].
    unfold sanc. apply filter_length_lt.
    - intros x Hx. apply is_path_beatpath in Hx. destruct Hx as [Hxo Hx]. apply is_path_beatpath.
      split; [|eapply beatpath_trans; eauto]. intros ->.
      assert (is_path DF c o = true) by (apply is_path_beatpath; split; [congruence|exact Hx]). congruence.
    - exists o. split; [exact Ho|]. split; [apply is_path_beatpath; split; assumption|].
      destruct (is_path DF o o) eqn:E; [|reflexivity]. apply is_path_beatpath in E. destruct E as [E _]. congruence.
  Qed.

  Lemma maximal_above : forall n c, In c cs -> (length (sanc c) <= n)%nat ->
    exists m, In m (schwartz_set v) /\ (m = c \/ beatpath v m c).
  Proof.
    induction n as [|n IH]; intros c Hc Hl; destruct (maxb c) eqn:E;
      try (exists c; split; [apply schwartz_in; split; [exact Hc|apply maxb_iff, E]|left; reflexivity]);
      destruct (not_max_smaller c Hc E) as (o & Ho & Hoc & Hlt); [lia|].
    destruct (IH o Ho ltac:(lia)) as (m & Hm & Hmo). exists m. split; [exact Hm|]. right.
    destruct Hmo as [->|Hmo]; [exact Hoc|eapply beatpath_trans; eauto].
  Qed.

  (* every candidate is in the Schwartz set or reached by a beat path from a member *)
  Theorem schwartz_above c : In c cs -> exists m, In m (schwartz_set v) /\ (m = c \/ beatpath v m c).
  Proof. intros Hc. apply (maximal_above (length (sanc c)) c Hc). lia. Qed.

  Theorem schwartz_nonempty : schwartz_set v <> [].
  Proof.
    destruct (cs_inhabited v H2) as (c0 & Hc0). destruct (schwartz_above c0 Hc0) as (m & Hm & _).
    intros E. rewrite E in Hm. destruct Hm.
  Qed.

  (* ---- inside the Smith set *)
  Theorem schwartz_in_smith c : In c (schwartz_set v) -> In c (smith_schwartz v true).
  Proof.
    intros Hc. apply schwartz_in in Hc. destruct Hc as [Hc Hmax].
    destruct (smith_dominating v H2) as [Hne Hdom].
    destruct (in_dec Pos.eq_dec c (smith_schwartz v true)) as [Hi|Hn]; [exact Hi|exfalso].
    destruct (smith_schwartz v true) as [|a O'] eqn:EO; [congruence|].
    assert (Ha : In a (a :: O')) by (left; reflexivity).
    pose proof (Hmax a (bp_one v a c (Hdom a c Ha Hc Hn))) as Hback.
    destruct (beatpath_cross v (a :: O') c a Hback Hn Ha) as (x & y & Hxy & Hx & Hy).
    apply (beats_asym v x y Hxy). apply Hdom; [exact Hy|apply beats_cands in Hxy; tauto|exact Hx].
  Qed.

  (* ---- a Condorcet winner is the whole Schwartz set *)
  Theorem schwartz_cw w : is_cw v w -> schwartz_set v = [w].
  Proof.
    intros [Hw Hbeat]. apply nodup_singleton; [apply schwartz_set_shape|].
    assert (Hunb : forall y, ~ beats v y w).
    { intros y Hy. destruct (beats_cands y w Hy) as (Hyc & _ & Hne). apply (beats_asym v y w Hy). apply Hbeat; assumption. }
    intros x. rewrite schwartz_in. split.
    - intros [Hx Hmax]. destruct (Pos.eq_dec x w) as [E|E]; [exact E|exfalso].
      destruct (beatpath_last v x w (Hmax w (bp_one v w x (Hbeat x Hx E)))) as (y & Hy). exact (Hunb y Hy).
    - intros ->. split; [exact Hw|]. intros o Ho. exfalso. destruct (beatpath_last v o w Ho) as (y & Hy). exact (Hunb y Hy).
  Qed.
End SCHWARTZ.

(* fewer than two candidates (only possible for an empty dictionary or self pairs): nothing is returned *)
Lemma schwartz_small (u : pvotes) : (length (candidates u) < 2)%nat -> schwartz_set u = [].
Proof.
  intros H. unfold schwartz_set.
  assert (E : complete u = []).
  { unfold complete. destruct (candidates u) as [|c [|c' t]]; cbn [length flat_map app] in *; try lia; [reflexivity|].
    unfold ceqb. rewrite Pos.eqb_refl. reflexivity. }
  rewrite E. reflexivity.
Qed.
