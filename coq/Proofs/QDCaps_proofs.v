(* C02, the capped clause for every input: QuotaDistributor.evaluate holds every party at the whole quotas contained
   in its votes, cut at its cap (its previous gains if these are more), never above a cap, whatever on_overaward
   does afterwards; LargestRemainder.evaluate adds at most one further seat, only to parties still below their caps,
   and fills the house whenever the open seats do not outnumber these parties
   (Model/QuotaDistributor.v with fixes/C02-capbranch.diff and fixes/C02-lr-caps.diff). *)
From Coq Require Import ZArith QArith Qround List Bool Lia Permutation Arith.
From VL Require Import Prelude.PyDict Model.GetNBest Model.Quota Model.QuotaDistributor
     Proofs.Dict_proofs Proofs.GetNBest_proofs Proofs.QOrd Proofs.QD_proofs Proofs.QD2_proofs Proofs.Order_proofs
     Proofs.QDOrder_proofs Proofs.LRMono_proofs.
Import ListNotations.
Open Scope Z_scope.

(* ---------------------------------------------------------------- the declarative reading *)
(* whole quotas contained in the votes: int(v / q) when the quota is reached (equality counting iff accept_equal) *)
Definition whole_q (ae : bool) (q v : Q) : Z := if fulfills ae v q then py_trunc (v / q)%Q else 0.
(* seats held after the whole-quota stage, previous gains included: the whole quotas cut at the cap, or the previous
   gains if these are more *)
Definition held (ae : bool) (q : Q) (prev caps : list (C * Z)) (c : C) (v : Q) : Z :=
  Z.max (dget_or prev c 0) (cap_whole caps c (whole_q ae q v)).
Definition held_total (ae : bool) (q : Q) (prev caps : list (C * Z)) (votes : list (C * Q)) : Z :=
  lsumZ (map (fun cv : C * Q => held ae q prev caps (fst cv) (snd cv) - dget_or prev (fst cv) 0) votes) + zsumv prev.
(* parties that may still take a seat *)
Definition below_cap (ae : bool) (q : Q) (prev caps : list (C * Z)) (cv : C * Q) : bool :=
  match dget caps (fst cv) with Some m => held ae q prev caps (fst cv) (snd cv) <? m | None => true end.

Lemma prev_nonneg (prev : list (C * Z)) : Forall (fun cs : C * Z => 0 <= snd cs) prev -> forall c, 0 <= dget_or prev c 0.
Proof.
  intros H c. unfold dget_or. induction H as [|[k s] t Hs _ IH]; simpl; [lia|].
  destruct (ceqb c k); [exact Hs|exact IH].
Qed.

Lemma cap_add_le_held ae q prev caps c v : cap_add ae q prev caps c v + dget_or prev c 0 <= held ae q prev caps c v.
Proof.
  unfold cap_add, held, whole_q. destruct (fulfills ae v q); [|lia].
  destruct (0 <? _) eqn:E; [apply Z.ltb_lt in E|]; lia.
Qed.

Lemma cap_add_held ae q prev caps c v : 0 <= dget_or prev c 0 ->
  cap_add ae q prev caps c v + dget_or prev c 0 = held ae q prev caps c v.
Proof.
  intros Hp. unfold cap_add, held, whole_q. destruct (fulfills ae v q).
  - destruct (0 <? _) eqn:E; [apply Z.ltb_lt in E|apply Z.ltb_ge in E]; lia.
  - unfold cap_whole. destruct (dget caps c); lia.
Qed.

Lemma cap_add_cap ae q prev caps c v m : dget caps c = Some m -> dget_or prev c 0 <= m ->
  cap_add ae q prev caps c v + dget_or prev c 0 <= m.
Proof.
  intros Hc Hp. unfold cap_add, cap_whole. rewrite Hc. destruct (fulfills ae v q); [|lia].
  destruct (0 <? _) eqn:E; [apply Z.ltb_lt in E|]; lia.
Qed.

(* ---------------------------------------------------------------- reading a result dictionary *)
Lemma kdget_acc (d : list (key * Z)) c : forall a,
  fold_left (fun (acc : Z) (kv : key * Z) => match fst kv with K c' => if ceqb c c' then snd kv else acc | KT _ => acc end) d a
  = match dget (plain_of d) c with Some _ => kdget d c | None => a end.
Proof.
  unfold kdget. induction d as [|[[c'|l] z] t IH]; intros a; cbn [fold_left fst snd plain_of flat_map app dget]; [reflexivity| |apply IH].
  fold (plain_of t). rewrite (IH (if ceqb c c' then z else a)), (IH (if ceqb c c' then z else 0)).
  destruct (dget (plain_of t) c); [destruct (ceqb c c'); reflexivity|]. destruct (ceqb c c'); reflexivity.
Qed.

Lemma kdget_notin d c : ~ In (K c) (keys d) -> kdget d c = 0.
Proof.
  intros H. unfold kdget. rewrite kdget_acc.
  assert (Hn : dget (plain_of d) c = None).
  { apply dget_none_notin. intros Hin. apply H. apply in_map_iff in Hin. destruct Hin as ([c0 s] & Hc & Hin). simpl in Hc. subst c0.
    unfold plain_of in Hin. apply in_flat_map in Hin. destruct Hin as ([[c1|l] z] & Hd & Hx); simpl in Hx; [|destruct Hx].
    destruct Hx as [Hx|[]]. injection Hx as -> ->. unfold keys. apply in_map_iff. exists (K c, s). split; [reflexivity|exact Hd]. }
  rewrite Hn. reflexivity.
Qed.

Lemma keys_plain_of_nodup d : NoDup (keys d) -> keysnd (plain_of d).
Proof.
  unfold keys, keysnd, plain_of. induction d as [|[[c|l] z] t IH]; simpl; intros H; [constructor| |].
  - inversion H as [|? ? Hk Hn]; subst. constructor; [|apply IH, Hn].
    intros Hin. apply Hk. apply in_map_iff in Hin. destruct Hin as ([c0 s] & Hc & Hin). simpl in Hc. subst c0.
    apply in_flat_map in Hin. destruct Hin as ([[c1|l] z1] & Hd & Hx); simpl in Hx; [|destruct Hx].
    destruct Hx as [Hx|[]]. injection Hx as -> ->. apply in_map_iff. exists (K c, s). split; [reflexivity|exact Hd].
  - inversion H as [|? ? Hk Hn]; subst. apply IH, Hn.
Qed.

Lemma kdget_in d c s : NoDup (keys d) -> In (K c, s) d -> kdget d c = s.
Proof.
  intros Hn Hin. rewrite (kdget_plain_of d c (keys_plain_of_nodup d Hn)).
  unfold dget_or. rewrite (In_dget (plain_of d) c s (keys_plain_of_nodup d Hn)); [reflexivity|].
  unfold plain_of. apply in_flat_map. exists (K c, s). split; [exact Hin|left; reflexivity].
Qed.

Lemma keys_plain sel : NoDup (map fst sel) -> NoDup (keys (plain sel)).
Proof.
  intros Hnd. unfold keys, plain. rewrite map_map. simpl.
  induction sel as [|[c s] sel IH]; simpl in *; [constructor|].
  inversion Hnd as [|? ? Hc Hn]; subst. constructor; [|apply IH, Hn].
  intros Hin. apply Hc. apply in_map_iff in Hin. destruct Hin as ([c' s'] & [= ->] & Hin). apply in_map_iff. exists (c, s'). auto.
Qed.

Lemma kdget_plain sel c : NoDup (map fst sel) -> kdget (plain sel) c = dget_or sel c 0.
Proof.
  intros Hn. rewrite kdget_plain_of; change (plain sel) with (kplain sel); rewrite plain_of_kplain; [reflexivity|exact Hn].
Qed.

(* ---------------------------------------------------------------- on_overaward = 'subtract' never adds a seat *)
Lemma kdec_in_K_le d k c s : In (K c, s) (kdec d k) -> exists s0, In (K c, s0) d /\ s <= s0.
Proof.
  induction d as [|[k' s'] t IH]; cbn [kdec]; [intros []|].
  destruct (key_eqb k k').
  - destruct (s' =? 1).
    + intros H. exists s. split; [right; exact H|lia].
    + intros [H|H]; [injection H as <- <-; exists s'; split; [left; reflexivity|lia]|exists s; split; [right; exact H|lia]].
  - intros [H|H]; [exists s; split; [left; exact H|lia]|].
    destruct (IH H) as (s0 & H0 & Hle). exists s0. split; [right; exact H0|exact Hle].
Qed.

Lemma fold_kdec_in_K_le l c s : forall d, In (K c, s) (fold_left kdec (map K l) d) -> exists s0, In (K c, s0) d /\ s <= s0.
Proof.
  induction l as [|x l IH]; intros d; cbn [map fold_left]; [intros H; exists s; split; [exact H|lia]|].
  intros H. destruct (IH _ H) as (s1 & H1 & L1). destruct (kdec_in_K_le _ _ _ _ H1) as (s0 & H0 & L0).
  exists s0. split; [exact H0|lia].
Qed.

Theorem ksubtract_bound votes q prev : forall fuel sel over res, NoDup (keys sel) ->
  ksubtract fuel votes q prev sel over = QD_ok res ->
  NoDup (keys res) /\ forall c s, In (K c, s) res -> exists s0, In (K c, s0) sel /\ s <= s0.
Proof.
  induction fuel as [|f IH]; intros sel over res Hnd; cbn [ksubtract].
  - destruct (over <=? 0); [|discriminate]. intros [= <-]. split; [exact Hnd|]. intros c s H. exists s. split; [exact H|lia].
  - destruct (over <=? 0); [intros [= <-]; split; [exact Hnd|]; intros c s H; exists s; split; [exact H|lia]|].
    destruct (get_n_best Qle_bool _ 1) as [|[k|ks] rest]; [discriminate| |].
    + intros Hr. destruct (IH _ _ _ (kdec_keys_nodup sel k Hnd) Hr) as [Hn Hb]. split; [exact Hn|].
      intros c s H. destruct (Hb c s H) as (s1 & H1 & L1). destruct (kdec_in_K_le _ _ _ _ H1) as (s0 & H0 & L0).
      exists s0. split; [exact H0|lia].
    + destruct (all_plain ks) as [l|]; [|discriminate].
      destruct (kmem sel (KT l)) eqn:Ekm; intros Hr.
      * destruct (IH _ _ _ (kdec_keys_nodup sel (KT l) Hnd) Hr) as [Hn Hb]. split; [exact Hn|].
        intros c s H. destruct (Hb c s H) as (s1 & H1 & L1). destruct (kdec_in_K_le _ _ _ _ H1) as (s0 & H0 & L0).
        exists s0. split; [exact H0|lia].
      * assert (Hnd' : NoDup (keys (fold_left kdec (map K l) sel ++ [(KT l, Z.of_nat (length l) - 1)]))).
        { unfold keys. rewrite map_app. apply Threshold_proofs.nodup_app_intro.
          - apply fold_kdec_nodup, Hnd.
          - constructor; [intros []|constructor].
          - intros x Hx [<-|[]]. apply (fold_kdec_keys l sel) in Hx.
            rewrite (kmem_in sel (KT l) Hx) in Ekm. discriminate. }
        destruct (IH _ _ _ Hnd' Hr) as [Hn Hb]. split; [exact Hn|].
        intros c s H. destruct (Hb c s H) as (s1 & H1 & L1).
        apply in_app_or in H1. destruct H1 as [H1|[H1|[]]]; [|discriminate].
        destruct (fold_kdec_in_K_le _ _ _ _ H1) as (s0 & H0 & L0). exists s0. split; [exact H0|lia].
Qed.

Lemma subtract_bound votes q prev fuel (sel : list (C * Z)) over res : NoDup (map fst sel) ->
  (forall c s, In (c, s) sel -> 0 < s) ->
  subtract fuel votes q prev sel over = QD_ok res ->
  NoDup (keys res) /\ forall c, kdget res c <= dget_or sel c 0.
Proof.
  intros Hnd Hpos. rewrite subtract_is_ksubtract. intros Hr.
  destruct (ksubtract_bound votes q prev fuel (plain sel) over res (keys_plain sel Hnd) Hr) as [Hn Hb].
  split; [exact Hn|]. intros c.
  destruct (in_dec key_eq_dec_aux (K c) (keys res)) as [Hin|Hnin].
  - unfold keys in Hin. apply in_map_iff in Hin. destruct Hin as ([k s] & Hk & Hin). simpl in Hk. subst k.
    rewrite (kdget_in res c s Hn Hin). destruct (Hb c s Hin) as (s0 & H0 & L0).
    unfold plain in H0. apply in_map_iff in H0. destruct H0 as ([c' s'] & [= -> ->] & H0).
    unfold dget_or. rewrite (In_dget sel c s0 Hnd H0). exact L0.
  - rewrite (kdget_notin res c Hnin). unfold dget_or. destruct (dget sel c) as [s|] eqn:E; [|lia].
    apply dget_In in E. specialize (Hpos c s E). lia.
Qed.

(* ---------------------------------------------------------------- QuotaDistributor with caps, every input *)
Lemma scan_item_cap_add ae q prev caps c v :
  cap_add ae q prev caps c v = match scan_item ae q prev caps (c, v) with Some s => s | None => 0 end.
Proof.
  unfold cap_add, scan_item. cbn [fst snd]. destruct (fulfills ae v q); [|reflexivity].
  destruct (0 <? _); reflexivity.
Qed.

Lemma zsumv_lsumZ (l : list (C * Z)) : zsumv l = lsumZ (map snd l).
Proof. unfold zsumv. rewrite fold_add_acc. lia. Qed.

Lemma zsumv_scan ae votes q prev caps : NoDup (map fst votes) ->
  zsumv (scan ae votes q prev caps []) = lsumZ (map (fun cv : C * Q => cap_add ae q prev caps (fst cv) (snd cv)) votes).
Proof.
  intros Hnd. rewrite scan_char; [|exact Hnd|intros c _ []]. cbn [app]. rewrite zsumv_lsumZ.
  clear Hnd. induction votes as [|[c v] t IH]; [reflexivity|].
  cbn [flat_map map fst snd]. rewrite map_app, lsumZ_app, IH, scan_item_cap_add. unfold isel.
  destruct (scan_item ae q prev caps (c, v)); cbn [map snd fst lsumZ fold_right]; unfold lsumZ; lia.
Qed.

Lemma held_total_cap_add ae q prev caps votes : (forall c, 0 <= dget_or prev c 0) ->
  lsumZ (map (fun cv : C * Q => cap_add ae q prev caps (fst cv) (snd cv)) votes) + zsumv prev = held_total ae q prev caps votes.
Proof.
  intros Hp. unfold held_total. f_equal. induction votes as [|[c v] t IH]; [reflexivity|].
  cbn [map fst snd lsumZ fold_right]. unfold lsumZ in IH. rewrite IH, <- (cap_add_held ae q prev caps c v (Hp c)). lia.
Qed.

Section QDC.
  Variable quota : Q -> Z -> Q.
  Variable ae : bool.
  Variable pol : policy.

  (* the result against the loop over the votes: never more than the loop awarded; exactly that unless seats are withdrawn *)
  Lemma qd_result_vs_scan votes n prev caps sel : NoDup (map fst votes) ->
    qd_evaluate quota ae pol votes n prev caps = QD_ok sel ->
    let q := quota (qsumv votes) n in
    let S := scan ae votes q prev caps [] in
    NoDup (keys sel) /\
    (forall c, kdget sel c <= dget_or S c 0) /\
    ((pol = PSubtract -> zsumv S + zsumv prev <= n) -> sel = plain S).
  Proof.
    intros Hnd. unfold qd_evaluate. cbv zeta. set (q := quota (qsumv votes) n).
    destruct (Qeq_bool q 0 && _); [discriminate|].
    destruct (scan_spec ae votes q prev caps [] Hnd) as (Hv & Hn & Hin); [intros; reflexivity|].
    pose proof (scan_nodup ae votes q prev caps [] (NoDup_nil _)) as Hnds.
    set (S := scan ae votes q prev caps []) in *.
    assert (Hpos : forall c s, In (c, s) S -> 0 < s).
    { intros c s H. destruct (Hin c s H) as [[]|[H0 _]]. exact H0. }
    assert (Hplain : NoDup (keys (plain S)) /\ (forall c, kdget (plain S) c <= dget_or S c 0)).
    { split; [apply keys_plain, Hnds|]. intros c. rewrite (kdget_plain S c Hnds). lia. }
    destruct (n <? zsumv S + zsumv prev) eqn:E.
    - apply Z.ltb_lt in E. destruct pol.
      + intros [= <-]. destruct Hplain as [A B]. split; [exact A|]. split; [exact B|reflexivity].
      + discriminate.
      + intros Hr. destruct (subtract_bound votes q prev _ S _ sel Hnds Hpos Hr) as [A B].
        split; [exact A|]. split; [exact B|]. intros H. specialize (H eq_refl). lia.
    - intros [= <-]. destruct Hplain as [A B]. split; [exact A|]. split; [exact B|reflexivity].
  Qed.

  Theorem qd_caps votes n prev caps sel :
    NoDup (map fst votes) -> Forall (fun cs : C * Z => 0 <= snd cs) prev ->
    qd_evaluate quota ae pol votes n prev caps = QD_ok sel ->
    let q := quota (qsumv votes) n in
    (forall c m, dget caps c = Some m -> dget_or prev c 0 <= m -> kdget sel c + dget_or prev c 0 <= m) /\
    (forall c v, In (c, v) votes -> kdget sel c + dget_or prev c 0 <= held ae q prev caps c v) /\
    (forall c, ~ In c (map fst votes) -> kdget sel c = 0) /\
    ((pol = PSubtract -> held_total ae q prev caps votes <= n) ->
       forall c v, In (c, v) votes -> kdget sel c + dget_or prev c 0 = held ae q prev caps c v).
  Proof.
    intros Hnd Hprev Hr q. pose proof (prev_nonneg prev Hprev) as Hp.
    destruct (qd_result_vs_scan votes n prev caps sel Hnd Hr) as (Hks & Hle & Heq). fold q in Hle, Heq.
    destruct (scan_spec ae votes q prev caps [] Hnd) as (Hv & Hn & Hin); [intros; reflexivity|].
    pose proof (scan_nodup ae votes q prev caps [] (NoDup_nil _)) as Hnds.
    set (S := scan ae votes q prev caps []) in *.
    split; [|split; [|split]].
    - intros c m Hc Hpm. specialize (Hle c).
      destruct (in_dec Pos.eq_dec c (map fst votes)) as [Hi|Hni].
      + apply in_map_iff in Hi. destruct Hi as ([c0 v] & Hc0 & Hi). simpl in Hc0. subst c0.
        rewrite (Hv c v Hi) in Hle. pose proof (cap_add_cap ae q prev caps c v m Hc Hpm). lia.
      + rewrite (Hn c Hni) in Hle. unfold dget_or in Hle at 1. simpl in Hle. lia.
    - intros c v Hi. specialize (Hle c). rewrite (Hv c v Hi) in Hle.
      pose proof (cap_add_le_held ae q prev caps c v). lia.
    - intros c Hni. specialize (Hle c). rewrite (Hn c Hni) in Hle. unfold dget_or in Hle. simpl in Hle.
      destruct (in_dec key_eq_dec_aux (K c) (keys sel)) as [Hk|Hk]; [|apply kdget_notin, Hk].
      (* a listed party holds at least... the bound: entries of sel come from S *)
      exfalso. unfold keys in Hk. apply in_map_iff in Hk. destruct Hk as ([k s] & Hkk & Hk). simpl in Hkk. subst k.
      revert Hr. unfold qd_evaluate. cbv zeta. fold q. destruct (Qeq_bool q 0 && _); [discriminate|]. fold S.
      assert (HS : forall s0, ~ In (K c, s0) (plain S)).
      { intros s0 H0. unfold plain in H0. apply in_map_iff in H0. destruct H0 as ([c' s'] & [= -> ->] & H0).
        destruct (Hin c s0 H0) as [[]|[_ (v & Hcv)]]. apply Hni. apply in_map_iff. exists (c, v). split; [reflexivity|exact Hcv]. }
      destruct (n <? _).
      + destruct pol; [intros [= <-]; exact (HS s Hk)|discriminate|].
        rewrite subtract_is_ksubtract. intros Hr.
        destruct (ksubtract_bound votes q prev _ (plain S) _ sel (keys_plain S Hnds) Hr) as [_ Hb].
        destruct (Hb c s Hk) as (s0 & H0 & _). exact (HS s0 H0).
      + intros [= <-]. exact (HS s Hk).
    - intros Hcond c v Hi.
      assert (Hsel : sel = plain S).
      { apply Heq. intros Hpol. specialize (Hcond Hpol).
        unfold S. rewrite (zsumv_scan ae votes q prev caps Hnd), (held_total_cap_add ae q prev caps votes Hp). exact Hcond. }
      rewrite Hsel, (kdget_plain S c Hnds), (Hv c v Hi). apply cap_add_held, Hp.
  Qed.
End QDC.

(* ---------------------------------------------------------------- LargestRemainder with caps, every input *)
Lemma gnb_members (rems : list (C * Q)) k : (1 <= k)%nat -> forall c,
  In (Cand c) (get_n_best Qle_bool rems k) \/ in_tie c (get_n_best Qle_bool rems k) -> In c (map fst rems).
Proof.
  intros Hk c H.
  assert (Hfrom : forall l : list (C * Q), In (Cand c) (map (@cand_of C Q) l) -> In c (map fst l)).
  { intros l Hl. apply in_cand_of in Hl. destruct Hl as (v & Hv). apply in_map_iff. exists (c, v). split; [reflexivity|exact Hv]. }
  assert (Hnot : forall (l : list (C * Q)) T, ~ In (TieR T) (map (@cand_of C Q) l)).
  { intros l T HT. apply in_map_iff in HT. destruct HT as (? & HT & _). discriminate. }
  destruct (get_n_best_spec Qle_bool Qle_bool_total Qle_bool_trans rems k Hk) as [Hsmall Hbig].
  destruct (Nat.le_gt_cases (length rems) k) as [Hle|Hgt].
  - destruct (Hsmall Hle) as (s & Hp & _ & Hr). rewrite Hr in H. destruct H as [H|(T & HT & _)]; [|exfalso; exact (Hnot s T HT)].
    apply (Permutation_in _ (Permutation_map fst Hp)), Hfrom, H.
  - destruct (Hbig Hgt) as (above & level & below & thr & Hp & _ & _ & _ & _ & Hpos & Heq & Htie).
    assert (Hsub : forall l, incl l (above ++ level ++ below) -> In c (map fst l) -> In c (map fst rems)).
    { intros l Hl Hc. apply (Permutation_in _ (Permutation_map fst Hp)). apply in_map_iff in Hc. destruct Hc as (y & Hy & Hc).
      apply in_map_iff. exists y. split; [exact Hy|apply Hl, Hc]. }
    destruct (Nat.eq_dec (length above + length level) k) as [He|Hne].
    + rewrite (Heq He) in H. destruct H as [H|(T & HT & _)]; [|exfalso; exact (Hnot _ T HT)].
      apply (Hsub (above ++ level)); [|apply Hfrom, H]. rewrite app_assoc. apply incl_appl, incl_refl.
    + rewrite Htie in H by lia. destruct H as [H|(T & HT & HcT)].
      * apply in_app_or in H. destruct H as [H|H]; [|apply repeat_spec in H; discriminate].
        apply (Hsub above); [apply incl_appl, incl_refl|apply Hfrom, H].
      * apply in_app_or in HT. destruct HT as [HT|HT]; [exfalso; exact (Hnot _ T HT)|].
        apply repeat_spec in HT. injection HT as ->.
        apply (Hsub level); [apply incl_appr, incl_appl, incl_refl|exact HcT].
Qed.

Lemma gnb_length (rems : list (C * Q)) k : (1 <= k)%nat -> NoDup (map fst rems) ->
  length (get_n_best Qle_bool rems k) = Nat.min k (length rems).
Proof.
  intros Hk Hnd. destruct (gnb_shape rems k Hk Hnd) as (cs & T & j & E & _ & _ & Hlen).
  rewrite E, app_length, map_length, repeat_length. exact Hlen.
Qed.

Lemma remainders_in votes q gained caps c x : In (c, x) (remainders votes q gained caps) ->
  exists v, In (c, v) votes /\ forall m, dget caps c = Some m -> dget_or gained c 0 < m.
Proof.
  unfold remainders. intros H. apply in_flat_map in H. destruct H as ([c0 v] & Hin & H).
  destruct (dget caps c0) as [m|] eqn:Ec.
  - destruct (dget_or gained c0 0 <? m) eqn:El; [|destruct H]. destruct H as [H|[]]. injection H as -> _.
    exists v. split; [exact Hin|]. intros m' Hm'. rewrite Ec in Hm'. injection Hm' as <-. apply Z.ltb_lt, El.
  - destruct H as [H|[]]. injection H as -> _. exists v. split; [exact Hin|]. intros m' Hm'. rewrite Ec in Hm'. discriminate.
Qed.

Lemma remainders_length votes q gained caps (f : C * Q -> bool) :
  (forall c v, In (c, v) votes ->
     f (c, v) = match dget caps c with Some m => dget_or gained c 0 <? m | None => true end) ->
  length (remainders votes q gained caps) = length (filter f votes).
Proof.
  unfold remainders. induction votes as [|[c v] t IH]; intros Hf; [reflexivity|].
  cbn [flat_map filter]. rewrite app_length, IH by (intros c' v' Hi; apply Hf; right; exact Hi).
  rewrite (Hf c v (or_introl eq_refl)). destruct (dget caps c) as [m|]; [destruct (_ <? m)|]; reflexivity.
Qed.

Lemma tmem_no_tie qe c : has_tie qe = false -> tmem qe c = false.
Proof.
  unfold has_tie, tmem. induction qe as [|[[c'|l] z] t IH]; cbn [existsb fst]; [reflexivity|exact IH|discriminate].
Qed.

Lemma ksum_no_tie qe : has_tie qe = false -> ksum qe = zsumv (plain_of qe).
Proof.
  intros H. rewrite <- (ksum_plain (plain_of qe)). f_equal.
  unfold has_tie in H. unfold plain, plain_of. induction qe as [|[[c'|l] z] t IH]; cbn [existsb fst] in *; [reflexivity| |discriminate].
  cbn [flat_map fst snd app map]. rewrite <- (IH H). reflexivity.
Qed.

Lemma lsumZ_cons a l : lsumZ (a :: l) = a + lsumZ l.
Proof. reflexivity. Qed.

Lemma zsumv_dset_nodup (d : list (C * Z)) c x : NoDup (map fst d) -> zsumv (dset d c x) = zsumv d - dget_or d c 0 + x.
Proof.
  rewrite !zsumv_lsumZ. unfold dget_or. induction d as [|[k s] t IH]; intros H.
  - cbn [dset map snd dget]. rewrite lsumZ_cons. unfold lsumZ. simpl. lia.
  - inversion H as [|? ? Hk Hn]; subst. cbn [dset dget]. destruct (ceqb c k) eqn:E.
    + cbn [map snd]. rewrite !lsumZ_cons. lia.
    + cbn [map snd]. rewrite !lsumZ_cons, (IH Hn). lia.
Qed.

Lemma zsumv_add_dict (d2 : list (C * Z)) : forall d1, NoDup (map fst d1) -> zsumv (add_dict d1 d2) = zsumv d1 + zsumv d2.
Proof.
  unfold add_dict. induction d2 as [|[k x] t IH]; intros d1 H; cbn [fold_left fst snd].
  - rewrite (zsumv_lsumZ []). unfold lsumZ. simpl. lia.
  - rewrite IH by (apply dset_nodup_z, H). rewrite (zsumv_dset_nodup d1 k _ H), (zsumv_lsumZ ((k, x) :: t)), (zsumv_lsumZ t).
    cbn [map snd]. rewrite lsumZ_cons. lia.
Qed.

Lemma dget_or_add_dict (d1 d2 : list (C * Z)) c : NoDup (map fst d2) ->
  dget_or (add_dict d1 d2) c 0 = dget_or d1 c 0 + dget_or d2 c 0.
Proof.
  intros H. unfold dget_or at 1 3. rewrite (dget_add_dict d2 d1 c H). destruct (dget d2 c); [reflexivity|]. unfold dget_or. lia.
Qed.

Section LRC.
  Variable quota : Q -> Z -> Q.
  Variable ae : bool.
  Variable pol : policy.

  Theorem lr_caps votes n prev caps sel :
    NoDup (map fst votes) -> NoDup (map fst prev) -> Forall (fun cs : C * Z => 0 <= snd cs) prev ->
    lr_evaluate quota ae pol votes n prev caps = LR_ok sel ->
    let q := quota (qsumv votes) n in
    (forall c m, dget caps c = Some m -> dget_or prev c 0 <= m -> kposs sel c + dget_or prev c 0 <= m) /\
    (forall c, ~ In c (map fst votes) -> kposs sel c = 0) /\
    ((pol = PSubtract -> held_total ae q prev caps votes <= n) ->
       forall c v, In (c, v) votes ->
         held ae q prev caps c v <= kdget sel c + dget_or prev c 0 /\
         kposs sel c + dget_or prev c 0 <= held ae q prev caps c v + 1) /\
    (held_total ae q prev caps votes <= n ->
       ksum sel + zsumv prev =
         held_total ae q prev caps votes
         + Z.min (n - held_total ae q prev caps votes) (Z.of_nat (length (filter (below_cap ae q prev caps) votes)))).
  Proof.
    intros Hnd Hpnd Hprev Hr q. pose proof (prev_nonneg prev Hprev) as Hp.
    unfold lr_evaluate in Hr. destruct (qd_evaluate quota ae pol votes n prev caps) as [qe| | | | |] eqn:Hqd; try discriminate.
    fold (has_tie qe) (plain_of qe) in Hr. destruct (has_tie qe) eqn:Ht; [discriminate|]. cbv zeta in Hr. fold q in Hr.
    destruct (qd_caps quota ae pol votes n prev caps qe Hnd Hprev Hqd) as (Q1 & Q2 & Q3 & Q4). fold q in Q1, Q2, Q3, Q4.
    destruct (qd_result_vs_scan quota ae pol votes n prev caps qe Hnd Hqd) as (Hks & _ & Heq). fold q in Heq.
    pose proof (scan_nodup ae votes q prev caps [] (NoDup_nil _)) as Hnds.
    set (S := scan ae votes q prev caps []) in *.
    pose proof (keys_plain_of_nodup qe Hks) as Hqc.
    set (gained := add_dict (plain_of qe) prev) in *.
    assert (Hg : forall c, dget_or gained c 0 = kdget qe c + dget_or prev c 0).
    { intros c. unfold gained. rewrite (dget_or_add_dict _ _ c Hpnd), (kdget_plain_of qe c Hqc). reflexivity. }
    assert (Hzg : zsumv gained = ksum qe + zsumv prev).
    { unfold gained. rewrite (zsumv_add_dict prev _ Hqc), (ksum_no_tie qe Ht). reflexivity. }
    assert (Hexact : (pol = PSubtract -> held_total ae q prev caps votes <= n) ->
                     qe = plain S /\ ksum qe + zsumv prev = held_total ae q prev caps votes).
    { intros Hc. assert (E : qe = plain S).
      { apply Heq. intros Hpol. specialize (Hc Hpol).
        unfold S. rewrite (zsumv_scan ae votes q prev caps Hnd), (held_total_cap_add ae q prev caps votes Hp). exact Hc. }
      split; [exact E|]. rewrite E, ksum_plain. unfold S.
      rewrite (zsumv_scan ae votes q prev caps Hnd). apply held_total_cap_add, Hp. }
    destruct (Qeq_bool q 0); [discriminate|].
    destruct (n - zsumv gained <=? 0) eqn:En.
    - (* nothing left for the remainder stage *)
      injection Hr as <-. apply Z.leb_le in En.
      assert (Hkp : forall c, kposs qe c = kdget qe c) by (intros c; unfold kposs; rewrite (tmem_no_tie qe c Ht); lia).
      split; [intros c m Hc Hpm; rewrite Hkp; apply (Q1 c m Hc Hpm)|].
      split; [intros c Hni; rewrite Hkp; apply Q3, Hni|].
      split.
      + intros Hc c v Hi. rewrite Hkp, (Q4 Hc c v Hi). lia.
      + intros Hle. destruct (Hexact (fun _ => Hle)) as [_ E]. rewrite E. rewrite Hzg, E in En.
        pose proof (Nat2Z.is_nonneg (length (filter (below_cap ae q prev caps) votes))). lia.
    - (* remainder seats *)
      apply Z.leb_gt in En. injection Hr as <-.
      fold (remainders votes q gained caps).
      set (rems := remainders votes q gained caps).
      set (k := Z.to_nat (n - zsumv gained)).
      assert (Hk : (1 <= k)%nat) by (unfold k; lia).
      set (best := get_n_best Qle_bool rems k).
      fold (seat_best qe best).
      pose proof (remainders_nodup votes q gained caps Hnd) as Hrnd. fold rems in Hrnd.
      assert (Hcn : NoDup (cands best)) by (apply lr_at_most_one; assumption).
      assert (Hsp : keysnd (plain_of (seat_best qe best))).
      { rewrite plain_of_seat_best. apply fold_op_nodup; [apply incr_t_nodup|exact Hqc]. }
      assert (Hkd : forall c, kdget (seat_best qe best) c = kdget qe c + count c (cands best)).
      { intros c. rewrite (kdget_plain_of _ c Hsp), plain_of_seat_best, dget_or_fold_incr, (kdget_plain_of qe c Hqc). reflexivity. }
      assert (Htm : forall c, tmem (seat_best qe best) c = tie_has c best).
      { intros c. rewrite tmem_seat_best, (tmem_no_tie qe c Ht). reflexivity. }
      (* the further seat: at most one, only for a party of the remainder table *)
      assert (He : forall c,
                  0 <= count c (cands best) + (if tie_has c best then 1 else 0) <= 1 /\
                  (1 <= count c (cands best) + (if tie_has c best then 1 else 0) -> exists x, In (c, x) rems)).
      { intros c. pose proof (count_nonneg c (cands best)) as H0.
        assert (Hmem : In c (cands best) \/ tie_has c best = true -> exists x, In (c, x) rems).
        { intros H. assert (Hm : In c (map fst rems)).
          { apply (gnb_members rems k Hk c). destruct H as [H|H]; [left; apply in_cands, H|right; apply tie_has_in, H]. }
          apply in_map_iff in Hm. destruct Hm as ([c0 x] & Hc0 & Hm). simpl in Hc0. subst c0. exists x. exact Hm. }
        destruct (in_dec Pos.eq_dec c (cands best)) as [Hi|Hni].
        - assert (Hc1 : count c (cands best) = 1) by (apply count_nodup; assumption).
          destruct (tie_has c best) eqn:Eth.
          + exfalso. destruct (Hmem (or_introl Hi)) as (x & Hx).
            apply (gnb_not_both rems k Hk Hrnd c x Hx); [apply in_cands, Hi|apply tie_has_in, Eth].
          + rewrite Hc1. split; [lia|]. intros _. apply Hmem. left. exact Hi.
        - assert (Hc0 : count c (cands best) = 0) by (apply count_notin, Hni).
          rewrite Hc0. destruct (tie_has c best) eqn:Eth; [|split; [lia|intros; lia]].
          split; [lia|]. intros _. apply Hmem. right. reflexivity. }
      assert (Hkp : forall c, kposs (seat_best qe best) c = kdget qe c + (count c (cands best) + (if tie_has c best then 1 else 0))).
      { intros c. unfold kposs. rewrite Hkd, Htm. lia. }
      split; [|split; [|split]].
      + intros c m Hc Hpm. rewrite Hkp. destruct (He c) as [[E0 E1] Hx].
        destruct (Z.eq_dec (count c (cands best) + (if tie_has c best then 1 else 0)) 0) as [Ez|Ez].
        * rewrite Ez. specialize (Q1 c m Hc Hpm). lia.
        * destruct Hx as (x & Hx); [lia|]. destruct (remainders_in _ _ _ _ _ _ Hx) as (v & _ & Hlt).
          specialize (Hlt m Hc). rewrite Hg in Hlt. lia.
      + intros c Hni. rewrite Hkp, (Q3 c Hni). destruct (He c) as [[E0 E1] Hx].
        destruct (Z.eq_dec (count c (cands best) + (if tie_has c best then 1 else 0)) 0) as [Ez|Ez]; [lia|].
        exfalso. destruct Hx as (x & Hx); [lia|]. destruct (remainders_in _ _ _ _ _ _ Hx) as (v & Hv & _).
        apply Hni. apply in_map_iff. exists (c, v). split; [reflexivity|exact Hv].
      + intros Hc c v Hi. rewrite Hkp, Hkd. pose proof (Q4 Hc c v Hi) as E. destruct (He c) as [[E0 E1] _].
        pose proof (count_nonneg c (cands best)). lia.
      + intros Hle. destruct (Hexact (fun _ => Hle)) as [Eqe E].
        rewrite ksum_seat_best. unfold best. rewrite (gnb_length rems k Hk Hrnd).
        assert (Hlen : length rems = length (filter (below_cap ae q prev caps) votes)).
        { unfold rems. apply remainders_length. intros c v Hi. unfold below_cap. cbn [fst snd].
          rewrite Hg, (Q4 (fun _ => Hle) c v Hi). reflexivity. }
        rewrite Hlen. unfold k. rewrite Hzg, E. rewrite Hzg, E in En. lia.
  Qed.
End LRC.
