(* Facts about the list / dictionary primitives of Prelude/PyList.v used by the Props/GenTie_*.v files.
   Nothing here mentions a model of the library or generated code. *)
From Coq Require Import ZArith QArith List Bool Lia.
From VL Require Import Prelude.PyDict Prelude.PyList.
Import ListNotations.

Lemma concat_repeat_singleton {A} (x : A) k : concat (repeat [x] k) = repeat x k.
Proof. induction k as [|k IH]; [reflexivity|]. cbn. rewrite IH. reflexivity. Qed.

Lemma dset_fresh {X} (d : list (C * X)) k v : ~ In k (map fst d) -> dset d k v = d ++ [(k, v)].
Proof.
  induction d as [|[k' v'] t IH]; intros H; [reflexivity|]. cbn [dset].
  destruct (ceqb k k') eqn:E.
  - exfalso. apply H. left. symmetry. apply Pos.eqb_eq. exact E.
  - cbn [app]. f_equal. apply IH. intros Hin. apply H. right. exact Hin.
Qed.

Lemma py_dict_c_nodup {X} (l : list (C * X)) : NoDup (map fst l) -> py_dict_c l = l.
Proof.
  unfold py_dict_c. intros H.
  assert (G : forall acc, NoDup (map fst (acc ++ l)) -> fold_left (fun d kv => dset d (fst kv) (snd kv)) l acc = acc ++ l).
  { clear H. induction l as [|[k v] t IH]; intros acc H; [rewrite app_nil_r; reflexivity|].
    cbn [fold_left fst snd]. rewrite dset_fresh.
    - rewrite IH; rewrite <- app_assoc; [reflexivity|exact H].
    - rewrite map_app in H. apply NoDup_remove_2 in H. intros Hin. apply H. apply in_or_app. left. exact Hin. }
  apply (G []). exact H.
Qed.

Lemma py_get_z_zset {X} (d : list (Z * X)) k' v k dflt :
  py_get_z (zset d k' v) k dflt = if Z.eqb k' k then v else py_get_z d k dflt.
Proof.
  unfold py_get_z. induction d as [|[k0 v0] t IH]; cbn [zset find fst snd].
  - destruct (Z.eqb_spec k' k); reflexivity.
  - destruct (Z.eqb_spec k' k0) as [->|Hn]; cbn [find fst snd].
    + destruct (Z.eqb_spec k0 k); reflexivity.
    + destruct (Z.eqb_spec k0 k) as [->|Hk].
      * destruct (Z.eqb_spec k' k); [contradiction|reflexivity].
      * exact IH.
Qed.

Lemma py_dict_z_tabulate {X A} (F : Z -> X) (h : A -> Z) (l : list A) k dflt :
  py_get_z (py_dict_z (map (fun x => (h x, F (h x))) l)) k dflt = if existsb (fun x => Z.eqb (h x) k) l then F k else dflt.
Proof.
  unfold py_dict_z.
  assert (G : forall acc, py_get_z (fold_left (fun d kv => zset d (fst kv) (snd kv)) (map (fun x => (h x, F (h x))) l) acc) k dflt =
                          if existsb (fun x => Z.eqb (h x) k) l then F k else py_get_z acc k dflt).
  { induction l as [|n t IH]; intros acc; [reflexivity|]. cbn [map fold_left fst snd existsb].
    rewrite IH, py_get_z_zset. destruct (Z.eqb_spec (h n) k) as [->|Hn]; cbn [orb]; [|reflexivity].
    match goal with |- context [existsb ?f t] => destruct (existsb f t) end; reflexivity. }
  rewrite G. reflexivity.
Qed.

Lemma filter_map_swap {A B} (g : A -> B) (p : B -> bool) l : filter p (map g l) = map g (filter (fun x => p (g x)) l).
Proof. induction l as [|x t IH]; [reflexivity|]. cbn [map filter]. destruct (p (g x)); cbn [map]; rewrite IH; reflexivity. Qed.

