(* Tie replacement (core.py TieBreaking._replace_sel_ties / _replace_distr_ties), the votes handed
   to the tiebreaker, and closed party lists: what the routines of Model/Wrappers.v compute. *)
From Coq Require Import ZArith List Bool Lia.
From VL Require Import Model.Wrappers.
Import ListNotations.
Open Scope Z_scope.

Lemma pos_list_eqb_eq : forall a b, pos_list_eqb a b = true <-> a = b.
Proof.
  induction a as [|x a IH]; destruct b as [|y b]; simpl; split; intro H; try reflexivity; try discriminate H.
  - apply andb_true_iff in H. destruct H as [H1 H2]. apply Pos.eqb_eq in H1. apply IH in H2. subst. reflexivity.
  - inversion H; subst. rewrite Pos.eqb_refl. simpl. apply IH. reflexivity.
Qed.
Lemma key_eqb_eq : forall a b, key_eqb a b = true <-> a = b.
Proof.
  intros [x|x] [y|y]; simpl; split; intro H; try discriminate H.
  - apply Pos.eqb_eq in H. subst. reflexivity.
  - inversion H. apply Pos.eqb_refl.
  - apply pos_list_eqb_eq in H. subst. reflexivity.
  - inversion H. apply pos_list_eqb_eq. reflexivity.
Qed.
Lemma key_eqb_refl : forall a, key_eqb a a = true.
Proof. intro a. apply key_eqb_eq. reflexivity. Qed.

(* ------------------------------------------------------------------ selection results *)
Definition is_key (x : val) (t : key) : bool := match x with VKey k => key_eqb k t | _ => false end.

(* the declarative rule: the i-th occurrence of the tie becomes the i-th choice; nothing else changes *)
Fixpoint subst_occ (l : list val) (t : key) (repl : list val) : list val :=
  match l with
  | [] => []
  | x :: r => if is_key x t
              then match repl with c :: rest => c :: subst_occ r t rest | [] => x :: r end
              else x :: subst_occ r t repl
  end.
Definition count_tie (l : list val) (t : key) : nat := length (filter (fun x => is_key x t) l).

Lemma subst_occ_nil : forall l t, subst_occ l t [] = l.
Proof. induction l as [|x r IH]; intro t; simpl; [reflexivity|]. destruct (is_key x t); [reflexivity|]. rewrite IH. reflexivity. Qed.

Lemma replace_first_spec : forall l t c,
  replace_first l t c = match count_tie l t with O => None | S _ => Some (subst_occ l t [c]) end.
Proof.
  induction l as [|x r IH]; intros t c; [reflexivity|].
  unfold count_tie in *. simpl.
  destruct x as [| |k| | |]; simpl; try (rewrite IH; destruct (length _); reflexivity).
  destruct (key_eqb k t); simpl.
  - rewrite subst_occ_nil. reflexivity.
  - rewrite IH. destruct (length _); reflexivity.
Qed.


Lemma subst_occ_step : forall l t c rest, is_key c t = false ->
  subst_occ (subst_occ l t [c]) t rest = subst_occ l t (c :: rest).
Proof.
  induction l as [|x r IH]; intros t c rest Hc; [reflexivity|]. simpl.
  destruct (is_key x t) eqn:Hx; simpl.
  - rewrite Hc. rewrite subst_occ_nil. reflexivity.
  - rewrite Hx. rewrite IH by exact Hc. reflexivity.
Qed.

Lemma count_after_one : forall l t c, is_key c t = false ->
  count_tie (subst_occ l t [c]) t = pred (count_tie l t).
Proof.
  unfold count_tie. induction l as [|x r IH]; intros t c Hc; [reflexivity|]. simpl.
  destruct (is_key x t) eqn:Hx; simpl.
  - rewrite Hc. rewrite subst_occ_nil. reflexivity.
  - rewrite Hx. apply IH. exact Hc.
Qed.

(* _replace_sel_ties computes the declarative rule, and raises ValueError exactly when the
   tiebreaker answers with more candidates than there are tied places *)
Lemma replace_sel_spec : forall repl l t,
  (forall c, In c repl -> is_key c t = false) ->
  replace_sel l t repl =
  if Nat.leb (length repl) (count_tie l t) then Ok (subst_occ l t repl) else raise E_VALUE.
Proof.
  induction repl as [|c rest IH]; intros l t Hr.
  - simpl. rewrite subst_occ_nil. reflexivity.
  - assert (Hc : is_key c t = false) by (apply Hr; left; reflexivity).
    cbn [replace_sel length]. rewrite replace_first_spec.
    destruct (count_tie l t) eqn:Hn; [reflexivity|].
    rewrite IH by (intros x Hx; apply Hr; right; exact Hx).
    rewrite count_after_one by exact Hc. rewrite Hn. simpl.
    destruct (Nat.leb (length rest) n); [|reflexivity].
    rewrite subst_occ_step by exact Hc. reflexivity.
Qed.

Lemma subst_occ_length : forall l t repl, length (subst_occ l t repl) = length l.
Proof.
  induction l as [|x r IH]; intros t repl; [reflexivity|]. simpl.
  destruct (is_key x t); [destruct repl; simpl; [reflexivity|rewrite IH; reflexivity]|simpl; rewrite IH; reflexivity].
Qed.

(* everything that is not the tie stays where it was *)
Lemma subst_occ_others : forall l t repl i x,
  nth_error l i = Some x -> is_key x t = false -> nth_error (subst_occ l t repl) i = Some x.
Proof.
  induction l as [|y r IH]; intros t repl i x Hi Hx; [destruct i; discriminate Hi|].
  simpl. destruct i as [|i]; simpl in Hi.
  - inversion Hi; subst y. rewrite Hx. reflexivity.
  - destruct (is_key y t); [destruct repl; simpl; [exact Hi|apply IH; assumption]|simpl; apply IH; assumption].
Qed.

(* every place of the tie receives a choice of the tiebreaker (or keeps the tie when the answer is short) *)
Definition placed (l out : list val) (t : key) : list val :=
  flat_map (fun xy => if is_key (fst xy) t then [snd xy] else []) (combine l out).
Lemma subst_occ_placed : forall l t repl, (length repl <= count_tie l t)%nat ->
  placed l (subst_occ l t repl) t = repl ++ repeat (VKey t) (count_tie l t - length repl).
Proof.
  unfold placed, count_tie. induction l as [|x r IH]; intros t repl Hle.
  - simpl in *. destruct repl; [reflexivity|simpl in Hle; lia].
  - simpl. destruct (is_key x t) eqn:Hx; simpl.
    + destruct repl as [|c rest]; simpl.
      * rewrite Hx. simpl. f_equal.
        { destruct x as [| |k| | |]; try discriminate Hx. simpl in Hx. apply key_eqb_eq in Hx. subst. reflexivity. }
        specialize (IH t [] (Nat.le_0_l _)). rewrite subst_occ_nil in IH. simpl in IH. rewrite Nat.sub_0_r in IH. exact IH.
      * rewrite Hx. simpl. f_equal. apply IH. simpl in Hle. rewrite Hx in Hle. simpl in Hle. lia.
    + rewrite Hx. simpl. apply IH. simpl in Hle. rewrite Hx in Hle. exact Hle.
Qed.

(* ------------------------------------------------------------------ distribution results *)
Definition seats (d : dict) (k : key) : Z := match dget d k with Some (VInt z) => z | _ => 0 end.
Definition count_key (repl : list val) (k : key) : Z :=
  Z.of_nat (length (filter (fun x => is_key x k) repl)).
Definition int_valued (d : dict) : Prop := Forall (fun kv : key * val => exists z, snd kv = VInt z) d.

Lemma dget_dset : forall d k v k', dget (dset d k v) k' = if key_eqb k k' then Some v else dget d k'.
Proof.
  induction d as [|[k0 v0] d IH]; intros k v k'; simpl.
  - destruct (key_eqb k k'); reflexivity.
  - destruct (key_eqb k0 k) eqn:H0; simpl.
    + apply key_eqb_eq in H0. subst k0. destruct (key_eqb k k'); reflexivity.
    + rewrite IH. destruct (key_eqb k0 k') eqn:H1; [|reflexivity].
      apply key_eqb_eq in H1. subst k'. destruct (key_eqb k k0) eqn:H2; [|reflexivity].
      apply key_eqb_eq in H2. subst k0. rewrite key_eqb_refl in H0. discriminate H0.
Qed.
Lemma dget_ddel_other : forall d t k, key_eqb t k = false -> dget (ddel d t) k = dget d k.
Proof.
  induction d as [|[k0 v0] d IH]; intros t k Ht; simpl; [reflexivity|].
  destruct (key_eqb k0 t) eqn:H0; simpl.
  - apply key_eqb_eq in H0. subst k0. rewrite Ht. reflexivity.
  - rewrite IH by exact Ht. reflexivity.
Qed.
Lemma int_valued_dget : forall d k v, int_valued d -> dget d k = Some v -> exists z, v = VInt z.
Proof.
  induction d as [|[k0 v0] d IH]; intros k v H Hg; simpl in Hg; [discriminate Hg|].
  inversion H as [|? ? Hh Ht]; subst.
  destruct (key_eqb k0 k); [inversion Hg; subst; exact Hh|eapply IH; eauto].
Qed.
Lemma int_valued_dset : forall d k z, int_valued d -> int_valued (dset d k (VInt z)).
Proof.
  induction d as [|[k0 v0] d IH]; intros k z H; simpl.
  - constructor; [exists z; reflexivity|constructor].
  - inversion H as [|? ? Hh Ht]; subst. destruct (key_eqb k0 k).
    + constructor; [exists z; reflexivity|exact Ht].
    + constructor; [exact Hh|apply IH; exact Ht].
Qed.
Lemma int_valued_ddel : forall d t, int_valued d -> int_valued (ddel d t).
Proof.
  induction d as [|[k0 v0] d IH]; intros t H; simpl; [constructor|].
  inversion H as [|? ? Hh Ht]; subst. destruct (key_eqb k0 t); [exact Ht|constructor; [exact Hh|apply IH; exact Ht]].
Qed.

Definition add_one (acc : res dict) (c : val) : res dict :=
  acc >>= fun d =>
  match c with
  | VKey k => add_val (dget_or d k (VInt 0)) (VInt 1) >>= fun s => Ok (dset d k s)
  | VList _ | VDict _ => raise E_TYPE
  | _ => raise E_UNMODELLED
  end.

Lemma add_choices_spec : forall repl d, int_valued d -> (forall c, In c repl -> exists k, c = VKey k) ->
  exists out, fold_left add_one repl (Ok d) = Ok out /\ int_valued out /\
              forall k, seats out k = seats d k + count_key repl k.
Proof.
  induction repl as [|c rest IH]; intros d Hd Hr.
  - exists d. split; [reflexivity|]. split; [exact Hd|]. intro k. unfold count_key. simpl. lia.
  - destruct (Hr c (or_introl eq_refl)) as [kc Hc]. subst c.
    assert (Hz : exists z, dget_or d kc (VInt 0) = VInt z).
    { unfold dget_or. destruct (dget d kc) as [v|] eqn:Hg; [eapply int_valued_dget; eauto|exists 0; reflexivity]. }
    destruct Hz as [z Hz]. cbn [fold_left add_one rbind]. rewrite Hz. cbn [add_val rbind].
    destruct (IH (dset d kc (VInt (z + 1))) (int_valued_dset d kc (z + 1) Hd)
                 (fun c Hc => Hr c (or_intror Hc))) as [out [H1 [H2 H3]]].
    exists out. split; [exact H1|]. split; [exact H2|]. intro k. rewrite H3.
    unfold seats at 1. rewrite dget_dset. unfold count_key. cbn [filter is_key].
    destruct (key_eqb kc k) eqn:Hk.
    + apply key_eqb_eq in Hk. subst k. cbv iota. cbn [length]. unfold seats. unfold dget_or in Hz.
      destruct (dget d kc) as [v|]; [subst v|inversion Hz; subst z]; lia.
    + cbv iota. unfold seats. reflexivity.
Qed.

(* _replace_distr_ties: the tie entry disappears, every choice of the tiebreaker gains one seat,
   every other candidate keeps its seats *)
Lemma replace_distr_spec : forall r t repl, int_valued r -> (forall c, In c repl -> exists k, c = VKey k) ->
  exists out, replace_distr r t repl = Ok out /\
              (forall k, key_eqb t k = false -> seats out k = seats r k + count_key repl k) /\
              (forall k, seats out k = seats (ddel r t) k + count_key repl k).
Proof.
  intros r t repl Hr Hc.
  destruct (add_choices_spec repl (ddel r t) (int_valued_ddel r t Hr) Hc) as [out [H1 [_ H3]]].
  exists out. split; [exact H1|]. split; [|exact H3].
  intros k Hk. rewrite H3. unfold seats. rewrite dget_ddel_other by exact Hk. reflexivity.
Qed.

(* ------------------------------------------------------------------ the votes the tiebreaker sees *)
Definition subset_step (subset : val) (acc : res dict) (kv : key * val) : res dict :=
  acc >>= fun a =>
  mem_subset subset (fst kv) >>= fun b =>
  if b then add_val (dget_or a (fst kv) (VInt 0)) (snd kv) >>= fun s => Ok (dset a (fst kv) s) else Ok a.

Lemma fold_err : forall {A B} (f : res A -> B -> res A) l e,
  (forall e' b, f (Err e') b = Err e') -> fold_left f l (Err e) = Err e.
Proof. intros A B f l. induction l as [|x t IH]; intros e H; simpl; [reflexivity|]. rewrite H. apply IH. exact H. Qed.

Lemma dset_keys : forall d k v k', In k' (map fst (dset d k v)) -> k' = k \/ In k' (map fst d).
Proof.
  induction d as [|[k0 v0] d IH]; intros k v k' H; simpl in *.
  - destruct H as [H|[]]; left; symmetry; exact H.
  - destruct (key_eqb k0 k) eqn:H0; simpl in H.
    + right. exact H.
    + destruct H as [H|H]; [right; left; exact H|]. destruct (IH k v k' H); [left; assumption|right; right; assumption].
Qed.

(* only tied candidates reach the tiebreaker *)
Lemma subset_keys_in_tie : forall votes t acc out,
  fold_left (subset_step (VKey (KT t))) votes (Ok acc) = Ok out ->
  (forall k, In k (map fst acc) -> exists c, k = KC c /\ In c t) ->
  forall k, In k (map fst out) -> exists c, k = KC c /\ In c t.
Proof.
  induction votes as [|[k0 v0] votes IH]; intros t acc out H Hacc k Hk.
  - simpl in H. inversion H; subst. apply Hacc. exact Hk.
  - cbn [fold_left] in H. unfold subset_step at 2 in H. cbn [rbind mem_subset fst snd] in H.
    destruct k0 as [c0|t0]; cbn [rbind] in H.
    + destruct (existsb (Pos.eqb c0) t) eqn:Hm.
      * destruct (add_val (dget_or acc (KC c0) (VInt 0)) v0) as [s|e] eqn:Ha; cbn [rbind] in H.
        -- eapply (IH t _ out H); [|exact Hk]. intros k' Hk'. apply dset_keys in Hk'. destruct Hk' as [Hk'|Hk'].
           ++ subst k'. exists c0. split; [reflexivity|]. apply existsb_exists in Hm. destruct Hm as [x [Hx Hx']].
              apply Pos.eqb_eq in Hx'. subst x. exact Hx.
           ++ apply Hacc. exact Hk'.
        -- rewrite fold_err in H; [discriminate H|]. intros e' b. reflexivity.
      * eapply (IH t acc out H); eauto.
    + eapply (IH t acc out H); eauto.
Qed.

Theorem tiebreaker_sees_only_tied : forall d t sub,
  subset_votes (VDict d) (VKey (KT t)) = Ok sub ->
  exists ds, sub = VDict ds /\ forall k, In k (map fst ds) -> exists c, k = KC c /\ In c t.
Proof.
  intros d t sub H. unfold subset_votes in H. cbn [as_dict rbind] in H.
  change (fold_left _ d (Ok [])) with (fold_left (subset_step (VKey (KT t))) d (Ok [])) in H.
  destruct (fold_left (subset_step (VKey (KT t))) d (Ok [])) as [ds|e] eqn:Hf; cbn [rbind] in H; [|discriminate H].
  inversion H; subst. exists ds. split; [reflexivity|].
  eapply subset_keys_in_tie; [exact Hf|]. intros k [].
Qed.

(* ------------------------------------------------------------------ closed party lists *)
Lemma closed_list_spec : forall pl party n l,
  closed_list pl party (VInt n) = Ok l -> 0 <= n ->
  exists d ll, pl = VDict d /\ dget d party = Some (VList ll) /\ l = VList (firstn (Z.to_nat n) ll) /\
               length (firstn (Z.to_nat n) ll) = Nat.min (Z.to_nat n) (length ll).
Proof.
  intros pl party n l H Hn. unfold closed_list, subscript in H.
  destruct pl as [| | | |d|]; try discriminate H.
  destruct (dget d party) as [v|] eqn:Hg; [|discriminate H]. cbn [rbind] in H.
  destruct v as [| | |ll| |]; try discriminate H.
  unfold slice_to in H. destruct (0 <=? n) eqn:Hle; [|apply Z.leb_gt in Hle; lia].
  inversion H; subst. exists d, ll. split; [reflexivity|]. split; [exact Hg|]. split; [reflexivity|]. apply firstn_length.
Qed.
