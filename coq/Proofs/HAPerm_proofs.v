(* Highest averages does not depend on the order in which the parties are listed (C10).
   [step_shape]: one iteration written with the batch of level quotients as a list, re-insertion as the
   order-insensitive [reins]; then a simulation between the runs on two permutations of the votes:
   queues are permutations of each other (both sorted), totals agree pointwise, ties agree as sets. *)
From Coq Require Import ZArith QArith List Bool Lia Lqa Permutation.
From VL Require Import Prelude.PyDict Model.GetNBest Model.HighestAverages Proofs.Dict_proofs Proofs.GetNBest_proofs Proofs.HA_proofs.
Import ListNotations.
Open Scope Z_scope.

Section Shape.
  Variable d : Z -> Q.
  Variable votes : list (C * Q).
  Variable caps : list (C * Z).
  Variable prev : list (C * Z).
  Variable n : Z.
  Hypothesis Hpos : forall k, 0 <= k -> (0 < d k)%Q.
  Hypothesis Hmono : forall k, 0 <= k -> (d k <= d (k + 1)%Z)%Q.
  Hypothesis Hvotes : forall c v, In (c, v) votes -> (0 <= v)%Q.

  Notation cap := (cap_of caps n).
  Notation Inv1 := (Inv d votes caps prev n).

  Definition levelb (m : Q) (y : qitem) : bool := Qeq_bool (snd y) m.

  Lemma step_shape s : Inv1 s -> 0 < st_rem s -> st_qs s <> [] ->
    exists c0 m qs' batch rest,
      st_qs s = (c0, m) :: qs' /\ st_qs s = batch ++ rest /\ batch <> [] /\
      batch = filter (levelb m) (st_qs s) /\ rest = filter (fun y => negb (levelb m y)) (st_qs s) /\
      let t' := fold_left incr (map fst (rev batch)) (st_totals s) in
      step d votes caps n s =
        if Z.of_nat (length batch) <=? st_rem s
        then mk_state (reins d votes caps n t' batch rest) t' (st_rem s - Z.of_nat (length batch)) None (st_awards s ++ rev batch)
        else mk_state (reins d votes caps n (st_totals s) batch rest) (st_totals s) 0
                      (Some (map fst (rev batch), st_rem s)) (st_awards s).
  Proof.
    intros I Hrem Hne. unfold step.
    destruct I as [Ind Iit Isorted Iopt Icaps Inn Icomp Irem Iacc Iaw Iracc Itie].
    destruct (st_qs s) as [|[c0 m] qs'] eqn:Eqs; [congruence|]. clear Hne. cbv zeta.
    exists c0, m, qs'.
    remember (@cons qitem (c0, m) qs') as qs eqn:Eq0 in *.
    assert (Hk1 : (1 <= run_length m qs)%nat) by (rewrite Eq0; apply run_length_pos).
    destruct (run_split_ex m qs) as (batch & rest & Hqs & Hlen & Hfb & Hbm & Hrest0).
    exists batch, rest. rewrite Hfb.
    remember (run_length m qs) as k eqn:Ek0 in *. clear Ek0.
    assert (Hs2 : sortedq (batch ++ rest)) by (rewrite <- Hqs; exact Isorted).
    assert (Hbne : batch <> []) by (intros E; rewrite E in Hlen; simpl in Hlen; lia).
    assert (Hrestlt : Forall (fun y => Qeq_bool (snd y) m = false) rest).
    { apply (rest_below m batch rest Hbne); [exact Hs2|exact Hbm|exact Hrest0]. }
    assert (Hnd2 : NoDup (map fst batch ++ map fst rest)).
    { pose proof Ind as Ind2. rewrite Hqs, map_app in Ind2. exact Ind2. }
    destruct (nodup_app_inv _ _ Hnd2) as (Hndb & Hndr & Hdisj).
    assert (Hitb : Forall (item_ok d votes caps n (st_totals s)) batch).
    { rewrite Hqs in Iit. apply Forall_app in Iit. tauto. }
    assert (Hf1 : filter (levelb m) qs = batch).
    { rewrite Hqs, filter_app.
      assert (E1 : filter (levelb m) batch = batch) by (apply filter_all; exact Hbm).
      assert (E2 : filter (levelb m) rest = []) by (apply filter_none; exact Hrestlt).
      rewrite E1, E2. apply app_nil_r. }
    assert (Hf2 : filter (fun y => negb (levelb m y)) qs = rest).
    { rewrite Hqs, filter_app.
      assert (E1 : filter (fun y => negb (levelb m y)) batch = []).
      { apply filter_none. eapply Forall_impl; [|exact Hbm]. intros y Hy. unfold levelb. simpl in Hy. rewrite Hy. reflexivity. }
      assert (E2 : filter (fun y => negb (levelb m y)) rest = rest).
      { apply filter_all. eapply Forall_impl; [|exact Hrestlt]. intros y Hy. unfold levelb. simpl in Hy. rewrite Hy. reflexivity. }
      rewrite E1, E2. reflexivity. }
    split; [exact Eq0|]. split; [exact Hqs|]. split; [exact Hbne|]. split; [symmetry; exact Hf1|]. split; [symmetry; exact Hf2|].
    cbv zeta. rewrite Hlen.
    destruct (Z.of_nat k <=? st_rem s) eqn:Ek.
    - set (t' := fold_left incr (map fst (rev batch)) (st_totals s)).
      assert (Htot' : forall c, tot_of t' c = tot_of (st_totals s) c + count c (map fst batch)).
      { intros c. unfold t'. rewrite tot_fold_incr, map_rev, count_rev. reflexivity. }
      assert (Hin_b : forall c, In c (map fst batch) -> tot_of t' c = tot_of (st_totals s) c + 1).
      { intros c Hc. rewrite Htot', (count_nodup _ _ Hndb Hc). reflexivity. }
      assert (Hnew_le : forall b, In b batch -> forall x, In x (newq d votes caps n t' b) -> (snd x <= m)%Q).
      { intros b Hb x Hx. rewrite Forall_forall in Hitb. destruct (Hitb b Hb) as (v & Hv & Hsnd & H0 & Hc).
        unfold newq in Hx. destruct (tot_of t' (fst b) <? cap (fst b)); [|destruct Hx].
        rewrite Hv in Hx. destruct Hx as [<-|[]]. simpl.
        rewrite (Hin_b (fst b)) by (apply in_map; exact Hb).
        rewrite Forall_forall in Hbm. specialize (Hbm b Hb). apply Qeq_bool_iff in Hbm.
        rewrite <- Hbm, Hsnd. apply quot_mono.
        - apply (Hvotes (fst b)). apply dget_In. exact Hv.
        - apply Hpos. exact H0.
        - apply Hmono. exact H0. }
      assert (Hpr : pop_reinsert d votes caps n t' k qs = reins d votes caps n t' batch rest).
      { rewrite Hqs at 1. rewrite <- Hlen. apply pop_reinsert_batch.
        intros b Hb x Hx. apply Forall_forall. intros y Hy.
        apply Qle_bool_iff. pose proof (Hnew_le b Hb x Hx) as H1.
        rewrite Forall_forall in Hbm. specialize (Hbm y Hy). apply Qeq_bool_iff in Hbm. lra. }
      rewrite Hpr. reflexivity.
    - assert (Hpr : pop_reinsert d votes caps n (st_totals s) k qs = reins d votes caps n (st_totals s) batch rest).
      { rewrite Hqs at 1. rewrite <- Hlen. apply pop_reinsert_batch.
        intros b Hb x Hx. rewrite Forall_forall in Hitb. rewrite (newq_same _ _ _ _ _ _ (Hitb b Hb)) in Hx.
        destruct Hx as [<-|[]]. apply Forall_forall. intros y Hy. apply Qle_bool_iff.
        rewrite Forall_forall in Hbm. pose proof (Hbm b Hb) as H1. pose proof (Hbm y Hy) as H2.
        apply Qeq_bool_iff in H1, H2. lra. }
      rewrite Hpr. reflexivity.
  Qed.
End Shape.

(* ---------------------------------------------------------------- permuted votes *)
Lemma dget_perm {X} (l l' : list (C * X)) c : NoDup (map fst l) -> Permutation l l' -> dget l c = dget l' c.
Proof.
  intros Hnd Hp.
  assert (Hnd' : NoDup (map fst l')) by (eapply Permutation_NoDup; [apply Permutation_map, Hp|exact Hnd]).
  destruct (dget l c) as [v|] eqn:E.
  - symmetry. apply In_dget; [exact Hnd'|]. apply (Permutation_in _ Hp). apply dget_In. exact E.
  - destruct (dget l' c) as [v'|] eqn:E'; [|reflexivity].
    apply dget_In in E'. apply (Permutation_in _ (Permutation_sym Hp)) in E'.
    rewrite (In_dget l c v' Hnd E') in E. discriminate.
Qed.

Lemma count_perm c l l' : Permutation l l' -> count c l = count c l'.
Proof.
  induction 1 as [|x l l' _ IH|x y l|l l' l'' _ IH1 _ IH2]; simpl; try lia.
Qed.

Lemma levelb_ext m m' y : (m == m')%Q -> levelb m y = levelb m' y.
Proof.
  intros H. unfold levelb. destruct (Qeq_bool (snd y) m') eqn:E.
  - apply Qeq_bool_iff. apply Qeq_bool_iff in E. rewrite H. exact E.
  - apply not_true_iff_false. intros E2. apply Qeq_bool_iff in E2. apply not_true_iff_false in E. apply E.
    apply Qeq_bool_iff. rewrite <- H. exact E2.
Qed.

Inductive tie_eq : option (list C * Z) -> option (list C * Z) -> Prop :=
| tie_none : tie_eq None None
| tie_some T T' r : Permutation T T' -> tie_eq (Some (T, r)) (Some (T', r)).

Section Perm.
  Variable d : Z -> Q.
  Variables votes votes' : list (C * Q).
  Variable caps : list (C * Z).
  Variable prev : list (C * Z).
  Variable n : Z.
  Hypothesis Hpos : forall k, 0 <= k -> (0 < d k)%Q.
  Hypothesis Hmono : forall k, 0 <= k -> (d k <= d (k + 1)%Z)%Q.
  Hypothesis Hvotes : forall c v, In (c, v) votes -> (0 <= v)%Q.
  Hypothesis Hnd : NoDup (map fst votes).
  Hypothesis Hprev : forall c, 0 <= dget_or prev c 0.
  Hypothesis Hperm : Permutation votes votes'.

  Lemma Hvotes' : forall c v, In (c, v) votes' -> (0 <= v)%Q.
  Proof. intros c v H. apply (Hvotes c v). apply (Permutation_in _ (Permutation_sym Hperm)). exact H. Qed.
  Lemma Hnd' : NoDup (map fst votes').
  Proof. eapply Permutation_NoDup; [apply Permutation_map, Hperm|exact Hnd]. Qed.

  Notation InvA := (Inv d votes caps prev n).
  Notation InvB := (Inv d votes' caps prev n).

  Record Rp (s s' : state) : Prop := {
    rp_q : Permutation (st_qs s) (st_qs s');
    rp_t : forall c, tot s c = tot s' c;
    rp_r : st_rem s = st_rem s';
    rp_tie : tie_eq (st_tie s) (st_tie s');
    rp_a : Permutation (st_awards s) (st_awards s')
  }.

  Lemma newq_ext t t' b : (forall c, tot_of t c = tot_of t' c) ->
    newq d votes caps n t b = newq d votes' caps n t' b.
  Proof. intros H. unfold newq. rewrite (H (fst b)), (dget_perm votes votes' (fst b) Hnd Hperm). reflexivity. Qed.

  Lemma flat_map_perm_ext {X Y} (f g : X -> list Y) l l' : (forall x, f x = g x) -> Permutation l l' ->
    Permutation (flat_map f l) (flat_map g l').
  Proof.
    intros Hfg Hp. rewrite (flat_map_ext f g Hfg). apply Permutation_flat_map. exact Hp.
  Qed.

  Lemma reins_rel t t' batch batch' rest rest' : (forall c, tot_of t c = tot_of t' c) ->
    Permutation batch batch' -> Permutation rest rest' ->
    Permutation (reins d votes caps n t batch rest) (reins d votes' caps n t' batch' rest').
  Proof.
    intros Ht Hb Hr. rewrite (reins_perm d votes caps n t batch rest), (reins_perm d votes' caps n t' batch' rest').
    apply Permutation_app; [|exact Hr]. apply flat_map_perm_ext; [intros x; apply newq_ext, Ht|exact Hb].
  Qed.

  Lemma head_eq c0 m qs c0' m' qs' : sortedq ((c0, m) :: qs) -> sortedq ((c0', m') :: qs') ->
    Permutation ((c0, m) :: qs) ((c0', m') :: qs') -> (m == m')%Q.
  Proof.
    intros S1 S2 Hp.
    pose proof (head_max c0 m qs S1) as M1. pose proof (head_max c0' m' qs' S2) as M2.
    rewrite Forall_forall in M1, M2.
    assert (H1 : (m <= m')%Q).
    { apply (M2 (c0, m)). apply (Permutation_in _ Hp). left. reflexivity. }
    assert (H2 : (m' <= m)%Q).
    { apply (M1 (c0', m')). apply (Permutation_in _ (Permutation_sym Hp)). left. reflexivity. }
    lra.
  Qed.

  Lemma step_rel s s' : InvA s -> InvB s' -> Rp s s' -> 0 < st_rem s -> st_qs s <> [] ->
    Rp (step d votes caps n s) (step d votes' caps n s').
  Proof.
    intros IA IB [Rq Rt Rr Rtie Ra] Hrem Hne.
    assert (Hne' : st_qs s' <> []).
    { intros E. rewrite E in Rq. apply Permutation_sym, Permutation_nil in Rq. contradiction. }
    assert (Hrem' : 0 < st_rem s') by lia.
    destruct (step_shape d votes caps prev n Hpos Hmono Hvotes s IA Hrem Hne)
      as (c0 & m & q1 & batch & rest & Eh & Eq & _ & Eb & Er & Es).
    destruct (step_shape d votes' caps prev n Hpos Hmono Hvotes' s' IB Hrem' Hne')
      as (c0' & m' & q1' & batch' & rest' & Eh' & Eq' & _ & Eb' & Er' & Es').
    cbv zeta in Es, Es'. rewrite Es, Es'. clear Es Es'.
    assert (Hm : (m == m')%Q).
    { apply (head_eq c0 m q1 c0' m' q1'); [rewrite <- Eh; exact (inv_sorted _ _ _ _ _ _ IA)|rewrite <- Eh'; exact (inv_sorted _ _ _ _ _ _ IB)|].
      rewrite <- Eh, <- Eh'. exact Rq. }
    assert (Hb : Permutation batch batch').
    { rewrite Eb, Eb'. rewrite (filter_ext (levelb m') (levelb m)) by (intros y; symmetry; apply levelb_ext, Hm).
      apply Permutation_filter'. exact Rq. }
    assert (Hr : Permutation rest rest').
    { rewrite Er, Er'. rewrite (filter_ext (fun y => negb (levelb m' y)) (fun y => negb (levelb m y)))
        by (intros y; f_equal; symmetry; apply levelb_ext, Hm).
      apply Permutation_filter'. exact Rq. }
    rewrite <- Rr, <- (Permutation_length Hb).
    assert (Hkeys : Permutation (map fst (rev batch)) (map fst (rev batch'))).
    { apply Permutation_map. rewrite <- !Permutation_rev. exact Hb. }
    destruct (Z.of_nat (length batch) <=? st_rem s).
    - assert (Ht' : forall c, tot_of (fold_left incr (map fst (rev batch)) (st_totals s)) c
                             = tot_of (fold_left incr (map fst (rev batch')) (st_totals s')) c).
      { intros c. rewrite !tot_fold_incr, (count_perm c _ _ Hkeys). specialize (Rt c). unfold tot in Rt. unfold tot_of. lia. }
      constructor; cbn [st_qs st_totals st_rem st_tie st_awards].
      + apply reins_rel; assumption.
      + intros c. unfold tot. cbn [st_totals]. apply Ht'.
      + reflexivity.
      + constructor.
      + apply Permutation_app; [exact Ra|]. rewrite <- !Permutation_rev. exact Hb.
    - constructor; cbn [st_qs st_totals st_rem st_tie st_awards].
      + apply reins_rel; [intros c; apply (Rt c)|exact Hb|exact Hr].
      + exact Rt.
      + reflexivity.
      + constructor. exact Hkeys.
      + exact Ra.
  Qed.

  Lemma loop_rel fuel : forall s s', InvA s -> InvB s' -> Rp s s' ->
    Rp (loop d votes caps n fuel s) (loop d votes' caps n fuel s').
  Proof.
    induction fuel as [|f IH]; intros s s' IA IB R; simpl; [exact R|].
    pose proof (rp_r _ _ R) as Rr. pose proof (rp_q _ _ R) as Rq. rewrite <- Rr.
    destruct (0 <? st_rem s) eqn:E1; simpl; [|exact R].
    destruct (st_qs s) as [|x qs] eqn:E2; destruct (st_qs s') as [|x' qs'] eqn:E2'; simpl.
    - exact R.
    - apply Permutation_nil in Rq. discriminate.
    - apply Permutation_sym, Permutation_nil in Rq. discriminate.
    - apply Z.ltb_lt in E1.
      assert (Hne : st_qs s <> []) by (rewrite E2; discriminate).
      assert (Hne' : st_qs s' <> []) by (rewrite E2'; discriminate).
      apply IH.
      + apply (step_inv d votes caps prev n Hpos Hmono Hvotes); assumption.
      + apply (step_inv d votes' caps prev n Hpos Hmono Hvotes'); [assumption|lia|assumption].
      + apply step_rel; assumption.
  Qed.

  Lemma init_rel : Rp (init_state d votes n prev caps) (init_state d votes' n prev caps).
  Proof.
    constructor; unfold init_state; cbn [st_qs st_totals st_rem st_tie st_awards]; try reflexivity.
    - rewrite !(initial_quotients_eq d _ caps prev n).
      rewrite <- !Permutation_rev, !sort_asc_perm. apply Permutation_flat_map. exact Hperm.
    - constructor.
  Qed.

  Theorem ha_perm :
    (forall c, tot (final_state d votes n prev caps) c = tot (final_state d votes' n prev caps) c) /\
    tie_eq (st_tie (final_state d votes n prev caps)) (st_tie (final_state d votes' n prev caps)) /\
    st_rem (final_state d votes n prev caps) = st_rem (final_state d votes' n prev caps).
  Proof.
    assert (R : Rp (final_state d votes n prev caps) (final_state d votes' n prev caps)).
    { unfold final_state. cbn [init_state st_rem]. apply loop_rel.
      - apply init_inv; assumption.
      - apply init_inv; [assumption|apply Hnd'|assumption].
      - apply init_rel. }
    destruct R as [_ Rt Rr Rtie _]. auto.
  Qed.
End Perm.
