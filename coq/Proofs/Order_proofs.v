(* Order / renaming independence (C10).
   The core is a counting characterisation of get_n_best that mentions the input only through
   the NUMBER of entries above / at a value - manifestly independent of the order in which the
   dictionary was filled, of candidate names and of scaling:
     c (with total v) is elected     <->  #{totals >= v} <= n
     c is a member of a reported tie <->  #{totals > v} < n < #{totals >= v}. *)
From Coq Require Import ZArith QArith List Bool Lia Lqa Permutation Arith.
From VL Require Import Prelude.PyDict Model.GetNBest Proofs.GetNBest_proofs Proofs.QOrd Proofs.Scale_proofs Proofs.Additive_proofs.
Import ListNotations.
Close Scope Q_scope.

Section Count.
  Context {K : Type}.
  Notation votes_t := (list (K * Q)).
  Notation gnb := (@get_n_best K Q Qle_bool).

  Definition cnt_gt (votes : votes_t) (x : Q) : nat := length (filter (fun it => ltb Qle_bool x (snd it)) votes).
  Definition cnt_ge (votes : votes_t) (x : Q) : nat := length (filter (fun it => Qle_bool x (snd it)) votes).

  Lemma filter_length_perm (f : K * Q -> bool) l l' : Permutation l l' -> length (filter f l) = length (filter f l').
  Proof.
    induction 1 as [|x l l' _ IH|x y l|l l' l'' _ IH1 _ IH2]; simpl; try lia.
    - destruct (f x); simpl; lia.
    - destruct (f x), (f y); simpl; lia.
  Qed.

  Lemma cnt_ge_perm l l' x : Permutation l l' -> cnt_ge l x = cnt_ge l' x.
  Proof. apply filter_length_perm. Qed.
  Lemma cnt_gt_perm l l' x : Permutation l l' -> cnt_gt l x = cnt_gt l' x.
  Proof. apply filter_length_perm. Qed.

  Lemma filter_len_all (f : K * Q -> bool) l : Forall (fun it => f it = true) l -> length (filter f l) = length l.
  Proof. induction 1 as [|x l Hx _ IH]; simpl; [reflexivity|]. rewrite Hx. simpl. lia. Qed.
  Lemma filter_len_none (f : K * Q -> bool) l : Forall (fun it => f it = false) l -> length (filter f l) = 0.
  Proof. induction 1 as [|x l Hx _ IH]; simpl; [reflexivity|]. rewrite Hx. exact IH. Qed.
  Lemma filter_len_le (f : K * Q -> bool) l : length (filter f l) <= length l.
  Proof. induction l as [|x l IH]; simpl; [lia|]. destruct (f x); simpl; lia. Qed.
  Lemma filter_len_pos (f : K * Q -> bool) l x : In x l -> f x = true -> 1 <= length (filter f l).
  Proof.
    intros Hin Hf. assert (In x (filter f l)) by (apply filter_In; auto).
    destruct (filter f l); [destruct H|simpl; lia].
  Qed.

  Lemma cnt_app3 (f : K * Q -> bool) a b c :
    length (filter f (a ++ b ++ c)) = length (filter f a) + length (filter f b) + length (filter f c).
  Proof. rewrite !filter_app, !app_length. lia. Qed.

  Lemma qle_true a b : Qle_bool a b = true <-> (a <= b)%Q.
  Proof. apply Qle_bool_iff. Qed.
  Lemma qle_false a b : Qle_bool a b = false <-> (b < a)%Q.
  Proof.
    split; intros H.
    - apply Qnot_le_lt. intros Hle. apply Qle_bool_iff in Hle. congruence.
    - apply not_true_iff_false. intros Hle. apply Qle_bool_iff in Hle. lra.
  Qed.
  Lemma qlt_false a b : ltb Qle_bool a b = false <-> (b <= a)%Q.
  Proof. unfold ltb. rewrite negb_false_iff. apply Qle_bool_iff. Qed.

  Hypothesis Kdec : forall a b : K, {a = b} + {a <> b}.

  Lemma nodup_val (l : votes_t) c v v' : NoDup (map fst l) -> In (c, v) l -> In (c, v') l -> v = v'.
  Proof.
    induction l as [|[c0 v0] l IH]; simpl; [tauto|]. intros Hnd H1 H2. inversion Hnd as [|? ? Hc Hn]; subst.
    destruct H1 as [H1|H1], H2 as [H2|H2].
    - congruence.
    - injection H1 as -> ->. exfalso. apply Hc. apply in_map_iff. exists (c, v'). auto.
    - injection H2 as -> ->. exfalso. apply Hc. apply in_map_iff. exists (c, v). auto.
    - apply IH; assumption.
  Qed.

  (* ---- the characterisation *)
  Theorem gnb_count_char (votes : votes_t) (n : nat) c v : 1 <= n -> NoDup (map fst votes) -> In (c, v) votes ->
    (In (Cand c) (gnb votes n) <-> cnt_ge votes v <= n) /\
    ((exists T, In (TieR T) (gnb votes n) /\ In c T) <-> cnt_gt votes v < n < cnt_ge votes v).
  Proof.
    intros Hn Hnd Hin.
    destruct (get_n_best_spec Qle_bool Qle_bool_total Qle_bool_trans votes n Hn) as [Hsmall Hbig].
    destruct (Nat.le_gt_cases (length votes) n) as [Hle|Hgt].
    - (* everybody is elected *)
      destruct (Hsmall Hle) as (s & Hp & _ & Hr). rewrite Hr.
      assert (Hcg : cnt_ge votes v <= n) by (unfold cnt_ge; pose proof (filter_len_le (fun it => Qle_bool v (snd it)) votes); lia).
      split.
      + split; [intros _; exact Hcg|intros _]. apply in_map_iff. exists (c, v). split; [reflexivity|].
        apply (Permutation_in _ (Permutation_sym Hp)). exact Hin.
      + split; [|lia]. intros (T & HT & _). apply in_map_iff in HT. destruct HT as (x & Hx & _). discriminate.
    - destruct (Hbig Hgt) as (above & level & below & thr & Hp & _ & Ha & Hl & Hb & Hlen & Hfit & Htie).
      set (L := above ++ level ++ below) in *.
      assert (HndL : NoDup (map fst L)).
      { eapply Permutation_NoDup; [apply Permutation_map, Permutation_sym, Hp|exact Hnd]. }
      assert (HinL : In (c, v) L) by (apply (Permutation_in _ (Permutation_sym Hp)); exact Hin).
      rewrite <- (cnt_ge_perm L votes v Hp), <- (cnt_gt_perm L votes v Hp).
      unfold cnt_ge, cnt_gt, L. rewrite !cnt_app3.
      (* facts about the three classes, as propositions on rationals *)
      assert (Ha' : forall it, In it above -> (thr < snd it)%Q).
      { intros it Hi. rewrite Forall_forall in Ha. apply qltb_iff, Ha, Hi. }
      assert (Hl' : forall it, In it level -> (snd it == thr)%Q).
      { intros it Hi. rewrite Forall_forall in Hl. apply qeqv_iff, Hl, Hi. }
      assert (Hb' : forall it, In it below -> (snd it < thr)%Q).
      { intros it Hi. rewrite Forall_forall in Hb. apply qltb_iff, Hb, Hi. }
      (* membership of c in a class <-> In (c, v) in that class *)
      assert (Hkey : forall cls, (forall x, In x cls -> In x L) -> (In c (map fst cls) <-> In (c, v) cls)).
      { intros cls Hsub. split.
        - intros H. apply in_map_iff in H. destruct H as ([c' v'] & Hf & Hi). simpl in Hf. subst c'.
          rewrite (nodup_val L c v v' HndL HinL (Hsub _ Hi)). exact Hi.
        - intros H. apply in_map_iff. exists (c, v). auto. }
      assert (HsubA : forall x, In x above -> In x L) by (intros x Hx; unfold L; apply in_or_app; auto).
      assert (HsubL : forall x, In x level -> In x L) by (intros x Hx; unfold L; apply in_or_app; right; apply in_or_app; auto).
      assert (HsubB : forall x, In x below -> In x L) by (intros x Hx; unfold L; apply in_or_app; right; apply in_or_app; auto).
      assert (Hcand : forall cls, In (Cand c) (map (fun it : K * Q => Cand (fst it)) cls) <-> In c (map fst cls)).
      { intros cls. rewrite !in_map_iff. split; intros (x & Hx & Hi); exists x; split; auto; congruence. }
      (* which class is (c, v) in? *)
      unfold L in HinL. apply in_app_or in HinL. destruct HinL as [HA|HLB]; [|apply in_app_or in HLB; destruct HLB as [HL|HB]].
      + (* above: elected, never tied *)
        pose proof (Ha' _ HA) as Hv. simpl in Hv.
        assert (E1 : length (filter (fun it : K * Q => Qle_bool v (snd it)) level) = 0).
        { apply filter_len_none. apply Forall_forall. intros it Hi. apply qle_false. rewrite (Hl' _ Hi). exact Hv. }
        assert (E2 : length (filter (fun it : K * Q => Qle_bool v (snd it)) below) = 0).
        { apply filter_len_none. apply Forall_forall. intros it Hi. apply qle_false. pose proof (Hb' _ Hi). lra. }
        pose proof (filter_len_le (fun it : K * Q => Qle_bool v (snd it)) above) as E3.
        rewrite E1, E2. split.
        * split; [intros _; lia|intros _].
          destruct (Nat.eq_dec (length above + length level) n) as [He|Hne].
          -- rewrite (Hfit He), map_app. apply in_or_app. left. apply Hcand, Hkey; assumption.
          -- rewrite (Htie ltac:(lia)). apply in_or_app. left. apply Hcand, Hkey; assumption.
        * split; [|lia]. intros (T & HT & HcT). exfalso.
          destruct (Nat.eq_dec (length above + length level) n) as [He|Hne].
          -- rewrite (Hfit He) in HT. apply in_map_iff in HT. destruct HT as (x & Hx & _). discriminate.
          -- rewrite (Htie ltac:(lia)) in HT. apply in_app_or in HT. destruct HT as [HT|HT].
             ++ apply in_map_iff in HT. destruct HT as (x & Hx & _). discriminate.
             ++ apply repeat_spec in HT. injection HT as ->.
                apply (Hkey level HsubL) in HcT. pose proof (Hl' _ HcT). simpl in *. lra.
      + (* level *)
        pose proof (Hl' _ HL) as Hv. simpl in Hv.
        assert (E1 : length (filter (fun it : K * Q => Qle_bool v (snd it)) above) = length above).
        { apply filter_len_all. apply Forall_forall. intros it Hi. apply qle_true. pose proof (Ha' _ Hi). lra. }
        assert (E2 : length (filter (fun it : K * Q => Qle_bool v (snd it)) level) = length level).
        { apply filter_len_all. apply Forall_forall. intros it Hi. apply qle_true. rewrite (Hl' _ Hi), Hv. lra. }
        assert (E3 : length (filter (fun it : K * Q => Qle_bool v (snd it)) below) = 0).
        { apply filter_len_none. apply Forall_forall. intros it Hi. apply qle_false. pose proof (Hb' _ Hi). lra. }
        assert (G1 : length (filter (fun it : K * Q => ltb Qle_bool v (snd it)) above) = length above).
        { apply filter_len_all. apply Forall_forall. intros it Hi. apply qltb_iff. pose proof (Ha' _ Hi). lra. }
        assert (G2 : length (filter (fun it : K * Q => ltb Qle_bool v (snd it)) level) = 0).
        { apply filter_len_none. apply Forall_forall. intros it Hi. apply qlt_false. rewrite (Hl' _ Hi), Hv. lra. }
        assert (G3 : length (filter (fun it : K * Q => ltb Qle_bool v (snd it)) below) = 0).
        { apply filter_len_none. apply Forall_forall. intros it Hi. apply qlt_false. pose proof (Hb' _ Hi). lra. }
        rewrite E1, E2, E3, G1, G2, G3.
        assert (HnotA : ~ In (c, v) above) by (intros Hi; pose proof (Ha' _ Hi); simpl in *; lra).
        destruct (Nat.eq_dec (length above + length level) n) as [He|Hne].
        * rewrite (Hfit He). split.
          -- split; [intros _; lia|intros _]. rewrite map_app. apply in_or_app. right. apply Hcand, Hkey; assumption.
          -- split; [|lia]. intros (T & HT & _). apply in_map_iff in HT. destruct HT as (x & Hx & _). discriminate.
        * rewrite (Htie ltac:(lia)). split.
          -- split; [|lia]. intros Hc. exfalso. apply in_app_or in Hc. destruct Hc as [Hc|Hc].
             ++ apply Hcand, Hkey in Hc; [tauto|assumption].
             ++ apply repeat_spec in Hc. discriminate.
          -- split; [intros _; lia|intros _]. exists (map fst level). split.
             ++ apply in_or_app. right. destruct (n - length above) eqn:Ek; [lia|]. simpl. left. reflexivity.
             ++ apply Hkey; assumption.
      + (* below: neither *)
        pose proof (Hb' _ HB) as Hv. simpl in Hv.
        assert (E1 : length (filter (fun it : K * Q => Qle_bool v (snd it)) above) = length above).
        { apply filter_len_all. apply Forall_forall. intros it Hi. apply qle_true. pose proof (Ha' _ Hi). lra. }
        assert (E2 : length (filter (fun it : K * Q => Qle_bool v (snd it)) level) = length level).
        { apply filter_len_all. apply Forall_forall. intros it Hi. apply qle_true. rewrite (Hl' _ Hi). lra. }
        assert (E3 : 1 <= length (filter (fun it : K * Q => Qle_bool v (snd it)) below)).
        { apply (filter_len_pos _ _ (c, v) HB). apply qle_true. simpl. lra. }
        assert (G1 : length (filter (fun it : K * Q => ltb Qle_bool v (snd it)) above) = length above).
        { apply filter_len_all. apply Forall_forall. intros it Hi. apply qltb_iff. pose proof (Ha' _ Hi). lra. }
        assert (G2 : length (filter (fun it : K * Q => ltb Qle_bool v (snd it)) level) = length level).
        { apply filter_len_all. apply Forall_forall. intros it Hi. apply qltb_iff. rewrite (Hl' _ Hi). lra. }
        rewrite E1, E2, G1, G2.
        assert (HnotA : ~ In (c, v) above) by (intros Hi; pose proof (Ha' _ Hi); simpl in *; lra).
        assert (HnotL : ~ In (c, v) level) by (intros Hi; pose proof (Hl' _ Hi); simpl in *; lra).
        split.
        * split; [|lia]. intros Hc. exfalso.
          destruct (Nat.eq_dec (length above + length level) n) as [He|Hne].
          -- rewrite (Hfit He), map_app in Hc. apply in_app_or in Hc. destruct Hc as [Hc|Hc]; apply Hcand, Hkey in Hc; tauto.
          -- rewrite (Htie ltac:(lia)) in Hc. apply in_app_or in Hc. destruct Hc as [Hc|Hc].
             ++ apply Hcand, Hkey in Hc; tauto.
             ++ apply repeat_spec in Hc. discriminate.
        * split; [|lia]. intros (T & HT & HcT). exfalso.
          destruct (Nat.eq_dec (length above + length level) n) as [He|Hne].
          -- rewrite (Hfit He) in HT. apply in_map_iff in HT. destruct HT as (x & Hx & _). discriminate.
          -- rewrite (Htie ltac:(lia)) in HT. apply in_app_or in HT. destruct HT as [HT|HT].
             ++ apply in_map_iff in HT. destruct HT as (x & Hx & _). discriminate.
             ++ apply repeat_spec in HT. injection HT as ->. apply (Hkey level HsubL) in HcT. tauto.
  Qed.

  (* ---- ballot / dictionary order does not matter *)
  Theorem gnb_perm (votes votes' : votes_t) (n : nat) c v : 1 <= n -> NoDup (map fst votes) ->
    Permutation votes votes' -> In (c, v) votes ->
    (In (Cand c) (gnb votes n) <-> In (Cand c) (gnb votes' n)) /\
    ((exists T, In (TieR T) (gnb votes n) /\ In c T) <-> (exists T, In (TieR T) (gnb votes' n) /\ In c T)).
  Proof.
    intros Hn Hnd Hp Hin.
    assert (Hnd' : NoDup (map fst votes')) by (eapply Permutation_NoDup; [apply Permutation_map, Hp|exact Hnd]).
    assert (Hin' : In (c, v) votes') by (apply (Permutation_in _ Hp); exact Hin).
    destruct (gnb_count_char votes n c v Hn Hnd Hin) as [A1 A2].
    destruct (gnb_count_char votes' n c v Hn Hnd' Hin') as [B1 B2].
    rewrite A1, A2, B1, B2, (cnt_ge_perm _ _ v Hp), (cnt_gt_perm _ _ v Hp). split; reflexivity.
  Qed.

  (* two candidates with equal totals are in perfectly symmetric positions: both elected, both
     in the tie, or both out *)
  Theorem gnb_symmetric (votes : votes_t) (n : nat) c1 v1 c2 v2 : 1 <= n -> NoDup (map fst votes) ->
    In (c1, v1) votes -> In (c2, v2) votes -> (v1 == v2)%Q ->
    (In (Cand c1) (gnb votes n) <-> In (Cand c2) (gnb votes n)) /\
    ((exists T, In (TieR T) (gnb votes n) /\ In c1 T) <-> (exists T, In (TieR T) (gnb votes n) /\ In c2 T)).
  Proof.
    intros Hn Hnd H1 H2 He.
    destruct (gnb_count_char votes n c1 v1 Hn Hnd H1) as [A1 A2].
    destruct (gnb_count_char votes n c2 v2 Hn Hnd H2) as [B1 B2].
    assert (Eg : cnt_ge votes v1 = cnt_ge votes v2).
    { unfold cnt_ge. f_equal. apply filter_ext. intros it. destruct (Qle_bool v2 (snd it)) eqn:E.
      - apply qle_true. apply qle_true in E. lra.
      - apply qle_false. apply qle_false in E. lra. }
    assert (Et : cnt_gt votes v1 = cnt_gt votes v2).
    { unfold cnt_gt. f_equal. apply filter_ext. intros it. destruct (ltb Qle_bool v2 (snd it)) eqn:E.
      - apply qltb_iff. apply qltb_iff in E. lra.
      - apply qlt_false. apply qlt_false in E. lra. }
    rewrite A1, A2, B1, B2, Eg, Et. split; reflexivity.
  Qed.
End Count.

(* ---------------------------------------------------------------- renaming *)
Section Rename.
  Context {K K' V : Type}.
  Variable leb : V -> V -> bool.
  Variable f : K -> K'.

  Definition renk (l : list (K * V)) : list (K' * V) := map (fun cv => (f (fst cv), snd cv)) l.
  Definition ren_res (r : res K) : res K' := match r with Cand c => Cand (f c) | TieR l => TieR (map f l) end.

  Lemma insert_desc_ren x l : insert_desc leb (f (fst x), snd x) (renk l) = renk (insert_desc leb x l).
  Proof.
    induction l as [|y l IH]; simpl; [reflexivity|].
    destruct (leb (snd y) (snd x)); simpl; [reflexivity|]. rewrite IH. reflexivity.
  Qed.
  Lemma sort_desc_ren l : sort_desc leb (renk l) = renk (sort_desc leb l).
  Proof. induction l as [|x l IH]; simpl; [reflexivity|]. rewrite IH. apply insert_desc_ren. Qed.
  Lemma first_eq_index_ren thr l : first_eq_index leb thr (renk l) = first_eq_index leb thr l.
  Proof. induction l as [|y l IH]; simpl; [reflexivity|]. rewrite IH. reflexivity. Qed.
  Lemma filter_level_ren thr l :
    map fst (filter (fun it => eqv leb (snd it) thr) (renk l)) = map f (map fst (filter (fun it => eqv leb (snd it) thr) l)).
  Proof.
    induction l as [|y l IH]; simpl; [reflexivity|].
    destruct (eqv leb (snd y) thr); simpl; rewrite IH; reflexivity.
  Qed.
  Lemma map_cand_ren (l : list (K * V)) :
    map (fun it : K' * V => Cand (fst it)) (renk l) = map ren_res (map (fun it : K * V => Cand (fst it)) l).
  Proof. unfold renk. rewrite !map_map. reflexivity. Qed.

  Lemma map_repeat_l {X Y} (g : X -> Y) x k : map g (repeat x k) = repeat (g x) k.
  Proof. induction k as [|k IH]; simpl; [reflexivity|]. rewrite IH. reflexivity. Qed.

  (* the model never inspects a candidate: ANY renaming function commutes with get_n_best *)
  Theorem get_n_best_rename votes n : get_n_best leb (renk votes) n = map ren_res (get_n_best leb votes n).
  Proof.
    unfold get_n_best. rewrite sort_desc_ren. set (s := sort_desc leb votes).
    unfold renk at 1. rewrite map_length. fold (renk s).
    destruct (Nat.ltb n (length s)); [|apply map_cand_ren].
    unfold renk at 1 2. rewrite !nth_error_map. fold (renk s).
    destruct (nth_error s (n - 1)) as [[c1 thr]|]; simpl; [|reflexivity].
    destruct (nth_error s n) as [[c2 nxt]|]; simpl; [|reflexivity].
    destruct (eqv leb nxt thr).
    - rewrite first_eq_index_ren, filter_level_ren, map_app. unfold renk at 1. rewrite firstn_map. fold (renk (firstn (first_eq_index leb thr s) s)).
      rewrite map_cand_ren. f_equal. rewrite map_repeat_l. reflexivity.
    - unfold renk at 1. rewrite firstn_map. fold (renk (firstn n s)). apply map_cand_ren.
  Qed.
End Rename.
