(* Extraction of the executable models.  Directives in force: exactly those of
   ExtrOcamlBasic (bool, option, unit, list, prod, sumbool, sumor -> OCaml
   natives).  Z, positive, N, nat, Q stay the extracted inductive types. *)
Require Extraction.
Require ExtrOcamlBasic.
From VL Require Import Prelude.Sx Model.Dispatch.
Extraction Language OCaml.
Set Warnings "-extraction-opaque-accessed,-extraction-reserved-identifier".
Extraction "../ocaml/vlmodel.ml" dispatch.
