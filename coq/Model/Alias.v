(* C18 - aliasing model for the copy-before-modify sites.  Executable definitions only
   (proofs: Proofs/Alias_proofs.v).

   The CALLER's objects (votes, prev_gains, max_seats, candidate lists, and the shared default
   argument objects of the library, which are ordinary dictionaries created once at import time)
   live in a store: location -> dictionary whose values are integers or references.
   What the CALLEE creates lives in a working tree [wt]: an owned dictionary [WOwn] is a fresh Python
   object reachable only through the callee's local variable (every site below creates each fresh
   dictionary once and stores it in exactly one slot), so it is updated functionally; [WAlias l]
   is a reference into the caller's store - a write through it changes the store.

   core.py      MultistageDistributor.evaluate L303-327, _add_stage_results L329-339 (pinned:
                shallow prev_gains.copy(); repaired: _copy_nested to the nesting depth)
   core.py      UnusedVotesDistributor.evaluate L381-400
   proportional.py HighestAverages.evaluate L436 (totals = prev_gains.copy(); totals[c] += 1)
   core.py      TieBreaking.evaluate L1424-1436 (main_result.copy(); del / +=)
   convert.py   InvalidVoteEliminator.convert L833-843 (copy only when something is removed)
   transfer.py  SimpleVoteTransferer.subtract L157-161 / transfer L175-207 (two-level copy) *)
From Coq Require Import ZArith List Bool Arith.
From VL Require Import Prelude.Sx Prelude.PyDict.
Import ListNotations.

Definition loc := nat.
Inductive sval := VInt (z : Z) | VRef (l : loc).
Definition sdict := list (C * sval).
Definition store := list sdict.                  (* location = index *)

Definition sget (st : store) (l : loc) : option sdict := nth_error st l.
Fixpoint sput (st : store) (l : loc) (d : sdict) : store :=
  match st, l with
  | [], _ => []
  | _ :: t, O => d :: t
  | x :: t, S l' => x :: sput t l' d
  end.
Definition salloc (st : store) (d : sdict) : store * loc := (st ++ [d], length st).

Inductive wt := WInt (z : Z) | WOwn (kids : list (C * wt)) | WAlias (l : loc).
Definition of_sval (v : sval) : wt := match v with VInt z => WInt z | VRef l => WAlias l end.

Inductive outcome (X : Type) := Ok (x : X) | Crash (code : Z).
Arguments Ok {X} x.
Arguments Crash {X} code.
Definition bind {X Y} (a : outcome X) (f : X -> outcome Y) : outcome Y :=
  match a with Ok x => f x | Crash c => Crash c end.
Definition E_ATTR : Z := 15.

Fixpoint foldo {X S} (f : S -> X -> outcome S) (l : list X) (s : S) : outcome S :=
  match l with
  | [] => Ok s
  | x :: t => match f s x with Ok s' => foldo f t s' | Crash c => Crash c end
  end.
Fixpoint map_out {X Y} (f : X -> outcome Y) (l : list X) : outcome (list Y) :=
  match l with
  | [] => Ok []
  | x :: t => match f x with
              | Ok y => match map_out f t with Ok ys => Ok (y :: ys) | Crash c => Crash c end
              | Crash c => Crash c
              end
  end.

Definition ddel {X} (d : list (C * X)) (k : C) : list (C * X) := filter (fun kv => negb (ceqb k (fst kv))) d.

(* the in-place dictionary operations the sites use *)
Inductive op :=
| OSet (k : C) (z : Z)            (* d[k] = z *)
| OAdd (k : C) (z : Z)            (* d[k] = d.get(k, 0) + z   (add_dict_to_dict, += 1) *)
| ODel (k : C)                    (* del d[k] *)
| OSetDefault (k : C).            (* d.setdefault(k, {}) *)

Definition apply_op (st : store) (t : wt) (o : op) : outcome (store * wt) :=
  match t with
  | WInt _ => Crash E_TYPE
  | WOwn kids =>
      match o with
      | OSet k z => Ok (st, WOwn (dset kids k (WInt z)))
      | OAdd k z => match dget kids k with
                    | None => Ok (st, WOwn (dset kids k (WInt z)))
                    | Some (WInt a) => Ok (st, WOwn (dset kids k (WInt (a + z))))
                    | Some _ => Crash E_TYPE
                    end
      | ODel k => if dmem kids k then Ok (st, WOwn (ddel kids k)) else Crash E_KEY
      | OSetDefault k => if dmem kids k then Ok (st, t) else Ok (st, WOwn (dset kids k (WOwn [])))
      end
  | WAlias l =>
      match sget st l with
      | None => Crash E_OTHER
      | Some d =>
          match o with
          | OSet k z => Ok (sput st l (dset d k (VInt z)), t)
          | OAdd k z => match dget d k with
                        | None => Ok (sput st l (dset d k (VInt z)), t)
                        | Some (VInt a) => Ok (sput st l (dset d k (VInt (a + z))), t)
                        | Some (VRef _) => Crash E_TYPE
                        end
          | ODel k => if dmem d k then Ok (sput st l (ddel d k), t) else Crash E_KEY
          | OSetDefault k =>
              if dmem d k then Ok (st, t)
              else let (st1, ln) := salloc st [] in Ok (sput st1 l (dset d k (VRef ln)), t)
          end
      end
  end.

(* d[p1][p2]...[pn] <op> *)
Fixpoint exec_at (path : list C) (st : store) (t : wt) (o : op) : outcome (store * wt) :=
  match path with
  | [] => apply_op st t o
  | k :: p =>
      match t with
      | WInt _ => Crash E_TYPE
      | WOwn kids =>
          match dget kids k with
          | None => Crash E_KEY
          | Some child =>
              match exec_at p st child o with
              | Ok (st', child') => Ok (st', WOwn (dset kids k child'))
              | Crash c => Crash c
              end
          end
      | WAlias l =>
          match sget st l with
          | None => Crash E_OTHER
          | Some d =>
              match dget d k with
              | None => Crash E_KEY
              | Some v => match exec_at p st (of_sval v) o with
                          | Ok (st', _) => Ok (st', t)
                          | Crash c => Crash c
                          end
              end
          end
      end
  end.

Definition mut := (list C * op)%type.
Definition exec_muts (st : store) (t : wt) (ms : list mut) : outcome (store * wt) :=
  foldo (fun s m => exec_at (fst m) (fst s) (snd s) (snd m)) ms (st, t).

(* copy [levels] levels of dictionaries: 1 = dict.copy(); n = the repaired _copy_nested(gains, n);
   transfer.py's {cand: alloc.copy() for ...} = 2 *)
Fixpoint copy_nested (levels : nat) (st : store) (v : sval) : outcome wt :=
  match levels with
  | O => Ok (of_sval v)
  | S d' =>
      match v with
      | VInt _ => Crash E_ATTR                      (* int has no .copy() / .items() *)
      | VRef l =>
          match sget st l with
          | None => Crash E_OTHER
          | Some dct =>
              match map_out (fun kv => match copy_nested d' st (snd kv) with
                                       | Ok t => Ok (fst kv, t) | Crash c => Crash c end) dct with
              | Ok kids => Ok (WOwn kids)
              | Crash c => Crash c
              end
          end
      end
  end.

(* generic copy-before-modify site: copy [levels] levels of the argument, then an arbitrary sequence
   of in-place operations (computed from anything) at nesting depth <= levels *)
Definition copy_then_mutate (levels : nat) (st : store) (arg : loc) (plan : wt -> list mut)
  : outcome (store * wt) :=
  bind (copy_nested levels st (VRef arg)) (fun t => exec_muts st t (plan t)).

(* ---------------------------------------------------------------- the sites *)
(* HighestAverages: totals = prev_gains.copy(); every award is totals[cand] += 1 (or = 1) *)
Definition ha_site (st : store) (prev : loc) (awards : list C) : outcome (store * wt) :=
  copy_then_mutate 1 st prev (fun _ => map (fun c => ([], OAdd c 1%Z)) awards).

(* TieBreaking on a distribution: result = main_result.copy(); per tie: del result[tie];
   result[c] = result.get(c, 0) + 1 for the tiebreaker's choice *)
Definition tb_site (st : store) (main_result : loc) (broken : list (C * list C)) : outcome (store * wt) :=
  copy_then_mutate 1 st main_result
    (fun _ => flat_map (fun tb => ([], ODel (fst tb)) :: map (fun c => ([], OAdd c 1%Z)) (snd tb)) broken).

(* InvalidVoteEliminator: the SAME object comes back when nothing is removed *)
Definition ive_site (st : store) (votes : loc) (to_remove : list C) : outcome (store * wt) :=
  match to_remove with
  | [] => Ok (st, WAlias votes)
  | _ => copy_then_mutate 1 st votes (fun _ => map (fun v => ([], ODel v)) to_remove)
  end.

(* SimpleVoteTransferer.subtract: two-level copy, then _subtract deletes / lowers ballots of the
   elected candidates' piles ; transfer: two-level copy, piles of the targets grow, the pile of the
   removed candidate is deleted.  The ballots and amounts are arbitrary. *)
Inductive pile_edit := PDel (ballot : C) | PSet (ballot : C) (v : Z) | PAdd (ballot : C) (v : Z).
Definition pile_mut (cand : C) (e : pile_edit) : mut :=
  match e with
  | PDel b => ([cand], ODel b)
  | PSet b v => ([cand], OSet b v)
  | PAdd b v => ([cand], OAdd b v)
  end.
Definition subtract_site (st : store) (allocation : loc) (edits : list (C * pile_edit)) : outcome (store * wt) :=
  copy_then_mutate 2 st allocation (fun _ => map (fun ce => pile_mut (fst ce) (snd ce)) edits).
Definition transfer_site (st : store) (allocation : loc) (moves : list (C * C * Z)) (removed : list C)
  : outcome (store * wt) :=
  copy_then_mutate 2 st allocation
    (fun _ => flat_map (fun m => let '(target, ballot, n) := m in
                                 [([], OSetDefault target); ([target], OAdd ballot n)]) moves
              ++ map (fun c => ([], ODel c)) removed).

(* ---------------------------------------------------------------- MultistageDistributor *)
Definition keys_of (st : store) (t : wt) : option (list C) :=
  match t with
  | WInt _ => None
  | WOwn kids => Some (map fst kids)
  | WAlias l => match sget st l with Some d => Some (map fst d) | None => None end
  end.
Definition child_of (st : store) (t : wt) (k : C) : option wt :=
  match t with
  | WInt _ => None
  | WOwn kids => dget kids k
  | WAlias l => match sget st l with
                | Some d => match dget d k with Some v => Some (of_sval v) | None => None end
                | None => None
                end
  end.
Definition put_child (t : wt) (k : C) (child : wt) : wt :=
  match t with
  | WOwn kids => WOwn (dset kids k child)
  | _ => t                          (* the child is a store object: already updated in place *)
  end.

Section Multistage.
  (* iteration order of set(elected.keys()) | set(stage_res.keys()) : unspecified in Python *)
  Variable korder : list C -> list C -> list C.

  (* _add_stage_results(elected, stage_res, depth) with depth = S d *)
  Fixpoint add_stage (d : nat) (st : store) (t r : wt) : outcome (store * wt) :=
    match d with
    | O =>
        match r with
        | WOwn rk => foldo (fun s kv => match snd kv with
                                        | WInt z => apply_op (fst s) (snd s) (OAdd (fst kv) z)
                                        | _ => Crash E_TYPE
                                        end) rk (st, t)
        | _ => Crash E_ATTR
        end
    | S d' =>
        match keys_of st t, r with
        | Some ke, WOwn rk =>
            foldo (fun s k =>
                     match apply_op (fst s) (snd s) (OSetDefault k) with
                     | Crash c => Crash c
                     | Ok (st1, t1) =>
                         match child_of st1 t1 k with
                         | None => Crash E_OTHER
                         | Some ch =>
                             match add_stage d' st1 ch (match dget rk k with Some x => x | None => WOwn [] end) with
                             | Ok (st2, ch') => Ok (st2, put_child t1 k ch')
                             | Crash c => Crash c
                             end
                         end
                     end) (korder ke (map fst rk)) (st, t)
        | _, _ => Crash E_ATTR
        end
    end.

  (* a stage = any function of the current totals that returns a result tree and writes nothing *)
  Variable stages : list (store -> wt -> wt).

  (* evaluate: depth = S d ; [repaired] copies S d levels, the pinned code one level *)
  Definition ms_evaluate (repaired : bool) (d : nat) (st : store) (prev : loc) : outcome (store * wt) :=
    bind (copy_nested (if repaired then S d else 1) st (VRef prev))
         (fun elected => foldo (fun s stage => add_stage d (fst s) (snd s) (stage (fst s) (snd s))) stages (st, elected)).
End Multistage.

(* UnusedVotesDistributor.evaluate: same accumulation; the stages see only votes and n_seats *)
Definition uv_evaluate (korder : list C -> list C -> list C) (stage_results : list wt) (max_seats_given : bool)
           (d : nat) (st : store) (prev : loc) : outcome (store * wt) :=
  bind (copy_nested (S d) st (VRef prev))
       (fun elected => if max_seats_given then Crash E_NIE
                       else foldo (fun s r => add_stage korder d (fst s) (snd s) r) stage_results (st, elected)).

(* one concrete iteration order for the executable runs: keys of elected, then the new keys *)
Definition union_order (a b : list C) : list C := a ++ filter (fun k => negb (cmem k a)) b.

(* reading a tree back (through the store where it aliases), to a given depth - for the wire *)
Fixpoint read_tree (d : nat) (st : store) (t : wt) : sx :=
  match d with
  | O => match t with WInt z => A z | _ => L [] end
  | S d' =>
      match t with
      | WInt z => A z
      | WOwn kids => L (map (fun kv => L [A (Zpos (fst kv)); read_tree d' st (snd kv)]) kids)
      | WAlias l => match sget st l with
                    | Some dct => L (map (fun kv => L [A (Zpos (fst kv)); read_tree d' st (of_sval (snd kv))]) dct)
                    | None => L []
                    end
      end
  end.
