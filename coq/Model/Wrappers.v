(* C14 - composition wrappers of votelib/evaluate/core.py as a deep embedding.

   [ev] : wrapper trees (leaves and converters are ARBITRARY functions - Section variables -
   so everything below is about forwarding, not about what the parts compute).
   [val]: Python values that travel through the wrappers (nested dicts, lists, ints, None,
   candidates, Tie objects).
   Two semantics:
     [run_impl] follows the code: a Python call is positional arguments + a keyword dictionary
       ([pargs]); every evaluate() binds it against its own signature ([bind], [sig_of]); the
       inspect-based helpers accepts_seats / accepts_prev_gains ([acc_seats], [acc_prev]) are
       computed from the signature table exactly as core.py L1308-1329 does.
     [run_spec] is the by-hand composition over SEMANTIC arguments (a record saying which of
       n_seats / prev_gains / max_seats / party_lists / list_votes is supplied), deciding what a
       part is given from what the part semantically takes ([takes]).
   The parts both semantics share (VoteTotals, SubsettedVotes, util.add_dict_to_dict, the tie
   replacement routines) are modelled once, in section "parts"; they are tied to the code by the
   correspondence run.  Python exceptions are [Err (Exn code)]; [Miss] is the distinguished
   answer of the table-driven leaf oracle used by the harness (never produced by the wrappers).

   Repairs already applied to the modelled code (fixes/C14-*.diff): Conditioned and ByParty do not
   forward an omitted seat count (n_seats=None) positionally. *)
From Coq Require Import ZArith QArith List Bool.
Import ListNotations.
Open Scope Z_scope.

(* ------------------------------------------------------------------ values *)
Inductive kw := KSeats | KPrev | KMax | KPl | KLv | KCl.
(* n_seats, prev_gains, max_seats, party_lists, list_votes, candidate_list *)

Inductive key := KC (c : positive) | KT (t : list positive).   (* candidate / Tie (sorted members) *)

Inductive val :=
| VNone
| VInt (z : Z)
| VKey (k : key)
| VList (l : list val)
| VDict (d : list (key * val))
| VRat (q : Q).                      (* a Fraction that is not a whole number (reduced); whole numbers are VInt *)

Inductive exn :=
| Exn (code : Z)
| Miss (l : positive) (votes : val) (args : list (option val)).

Inductive res (X : Type) :=
| Ok (x : X)
| Err (e : exn).
Arguments Ok {X} x.
Arguments Err {X} e.

Definition rbind {X Y} (m : res X) (f : X -> res Y) : res Y :=
  match m with Ok x => f x | Err e => Err e end.
Notation "m >>= f" := (rbind m f) (at level 50, left associativity).

Definition E_TYPE := 9.  Definition E_VALUE := 6.  Definition E_KEY := 8.  Definition E_INDEX := 7.
Definition E_STOP := 13. Definition E_ATTR := 15.  Definition E_UNMODELLED := 98.
Definition E_VSE := 1.   Definition E_NIE := 2.    Definition E_FUEL := 99.
Definition raise {X} (c : Z) : res X := Err (Exn c).

Fixpoint pos_list_eqb (a b : list positive) : bool :=
  match a, b with
  | [], [] => true
  | x :: a', y :: b' => Pos.eqb x y && pos_list_eqb a' b'
  | _, _ => false
  end.
Definition key_eqb (a b : key) : bool :=
  match a, b with
  | KC x, KC y => Pos.eqb x y
  | KT x, KT y => pos_list_eqb x y
  | _, _ => false
  end.
Definition is_tie (k : key) : bool := match k with KT _ => true | KC _ => false end.

Fixpoint map_res {X Y} (f : X -> res Y) (l : list X) : res (list Y) :=
  match l with
  | [] => Ok []
  | x :: t => f x >>= fun y => map_res f t >>= fun ys => Ok (y :: ys)
  end.

(* ------------------------------------------------------------------ dictionaries *)
Definition dict := list (key * val).
Fixpoint dget (d : dict) (k : key) : option val :=
  match d with
  | [] => None
  | (k', v) :: t => if key_eqb k' k then Some v else dget t k
  end.
Definition dget_or (d : dict) (k : key) (dflt : val) : val :=
  match dget d k with Some v => v | None => dflt end.
Fixpoint dset (d : dict) (k : key) (v : val) : dict :=
  match d with
  | [] => [(k, v)]
  | (k', v') :: t => if key_eqb k' k then (k', v) :: t else (k', v') :: dset t k v
  end.
Fixpoint ddel (d : dict) (k : key) : dict :=
  match d with
  | [] => []
  | (k', v') :: t => if key_eqb k' k then t else (k', v') :: ddel t k
  end.
Definition dmem (d : dict) (k : key) : bool := match dget d k with Some _ => true | None => false end.

(* x.items() / x.get / x.copy() on something that is not a dictionary: AttributeError *)
Definition as_dict (v : val) : res dict :=
  match v with VDict d => Ok d | _ => raise E_ATTR end.
Definition truthy (v : val) : bool :=
  match v with
  | VNone => false | VInt z => negb (z =? 0) | VKey _ => true
  | VList l => match l with [] => false | _ => true end
  | VDict d => match d with [] => false | _ => true end
  | VRat q => negb (Qeq_bool q 0)
  end.
Definition is_zero (v : val) : bool := match v with VInt 0 => true | _ => false end.
Definition is_none (v : val) : bool := match v with VNone => true | _ => false end.

(* ------------------------------------------------------------------ parts shared by both semantics *)
(* a + b as the wrappers use it (seat and vote counts; list concatenation exists in Python too) *)
(* numbers: int, or Fraction (exact); a Fraction result that is whole is the same number as the int *)
Definition to_q (v : val) : option Q :=
  match v with VInt z => Some (inject_Z z) | VRat q => Some q | _ => None end.
Definition of_q (q : Q) : val :=
  let r := Qred q in match Qden r with 1%positive => VInt (Qnum r) | _ => VRat r end.
Definition num2 (f : Q -> Q -> Q) (a b : val) : res val :=
  match to_q a, to_q b with Some x, Some y => Ok (of_q (f x y)) | _, _ => raise E_TYPE end.

Definition add_val (a b : val) : res val :=
  match a, b with
  | VInt x, VInt y => Ok (VInt (x + y))
  | VList x, VList y => Ok (VList (x ++ y))
  | VRat _, VInt _ | VInt _, VRat _ | VRat _, VRat _ => num2 Qplus a b
  | _, _ => raise E_TYPE
  end.
(* a - b, a * b, a < b on numbers (UnusedVotesDistributor, the seat count adjusters) *)
Definition sub_val (a b : val) : res val :=
  match a, b with VInt x, VInt y => Ok (VInt (x - y)) | _, _ => num2 Qminus a b end.
Definition mul_val (a b : val) : res val :=
  match a, b with VInt x, VInt y => Ok (VInt (x * y)) | _, _ => num2 Qmult a b end.
Definition lt_val (a b : val) : res bool :=
  match a, b with
  | VInt x, VInt y => Ok (x <? y)
  | _, _ => match to_q a, to_q b with
            | Some x, Some y => Ok (negb (Qle_bool y x))
            | _, _ => raise E_TYPE
            end
  end.
(* max(a, b): b if b > a else a *)
Definition max_val (a b : val) : res val := lt_val a b >>= fun c => Ok (if c then b else a).

(* votelib.util.add_dict_to_dict(d1, d2) *)
Definition add_dict (d1 d2 : dict) : res dict :=
  fold_left (fun acc kv => acc >>= fun d =>
               add_val (dget_or d (fst kv) (VInt 0)) (snd kv) >>= fun s => Ok (dset d (fst kv) s))
            d2 (Ok d1).

(* sum(d.values()) *)
Definition sum_values (d : dict) : res val :=
  fold_left (fun acc kv => acc >>= fun a => add_val a (snd kv)) d (Ok (VInt 0)).

(* convert.VoteTotals().convert(votes) *)
Definition vote_totals (votes : val) : res val :=
  as_dict votes >>= fun d =>
  fold_left (fun acc kv => acc >>= fun a => as_dict (snd kv) >>= fun dv => add_dict a dv) d (Ok [])
  >>= fun r => Ok (VDict r).

(* vote in subset  (subset: list, Tie, dict) *)
Definition mem_subset (subset : val) (k : key) : res bool :=
  match subset with
  | VList l => Ok (existsb (fun x => match x with VKey k' => key_eqb k' k | _ => false end) l)
  | VKey (KT t) => Ok (match k with KC c => existsb (Pos.eqb c) t | KT _ => false end)
  | VDict d => Ok (dmem d k)
  | _ => raise E_TYPE
  end.

(* convert.SubsettedVotes(SimpleSubsetter()).convert(votes, subset) *)
Definition subset_votes (votes subset : val) : res val :=
  as_dict votes >>= fun d =>
  fold_left (fun acc kv => acc >>= fun a =>
               mem_subset subset (fst kv) >>= fun b =>
               if b then add_val (dget_or a (fst kv) (VInt 0)) (snd kv) >>= fun s => Ok (dset a (fst kv) s)
               else Ok a) d (Ok [])
  >>= fun r => Ok (VDict r).

(* ---- the same two parts stated DECLARATIVELY (the spec side of the composition theorem uses these).
   VoteTotals: every candidate, in the order of first appearance, with the sum of its counts over all constituencies.
   SubsettedVotes(SimpleSubsetter): the votes filtered to the candidates of the subset.
   Both on well-formed values (integer counts; for the filter: no key twice, the subset a list / Tie / dictionary); on any
   other value the answer is whatever the code answers (its exception) - Proofs/WrapParts_proofs.v shows that the code-shaped
   definitions above compute exactly these on well-formed values, hence the two agree on EVERY value. *)
Definition is_int (v : val) : bool := match v with VInt _ => true | _ => false end.
Definition getz (v : val) : Z := match v with VInt z => z | _ => 0 end.
Definition int_dict (d : dict) : bool := forallb (fun kv => is_int (snd kv)) d.
Fixpoint nodup_keys (d : dict) : bool :=
  match d with [] => true | (k, _) :: t => negb (dmem t k) && nodup_keys t end.
Definition nested_int (d : dict) : bool :=
  forallb (fun kv => match snd kv with VDict dv => int_dict dv | _ => false end) d.
Definition entries (d : dict) : list (key * val) :=
  flat_map (fun kv => match snd kv with VDict dv => dv | _ => [] end) d.
Definition memk (k : key) (ks : list key) : bool := existsb (key_eqb k) ks.
Definition keys_first (es : list (key * val)) : list key :=
  fold_left (fun ks kv => if memk (fst kv) ks then ks else ks ++ [fst kv]) es [].
Definition total_of (es : list (key * val)) (k : key) : Z :=
  fold_left (fun a kv => if key_eqb (fst kv) k then a + getz (snd kv) else a) es 0.
Definition totals_table (es : list (key * val)) : dict :=
  map (fun k => (k, VInt (total_of es k))) (keys_first es).
Definition totals_s (votes : val) : res val :=
  match votes with
  | VDict d => if nested_int d then Ok (VDict (totals_table (entries d))) else vote_totals votes
  | _ => vote_totals votes
  end.

Definition mem_b (subset : val) (k : key) : bool :=
  match subset with
  | VList l => existsb (fun x => match x with VKey k' => key_eqb k' k | _ => false end) l
  | VKey (KT t) => match k with KC c => existsb (Pos.eqb c) t | KT _ => false end
  | VDict d => dmem d k
  | _ => false
  end.
Definition subset_kind (s : val) : bool :=
  match s with VList _ | VKey (KT _) | VDict _ => true | _ => false end.
Definition subset_s (votes subset : val) : res val :=
  match votes with
  | VDict d => if int_dict d && nodup_keys d && subset_kind subset
               then Ok (VDict (filter (fun kv => mem_b subset (fst kv)) d))
               else subset_votes votes subset
  | _ => subset_votes votes subset
  end.

(* type(x)() *)
Definition empty_like (v : val) : res val :=
  match v with
  | VList _ => Ok (VList []) | VDict _ => Ok (VDict []) | VInt _ => Ok (VInt 0) | VNone => Ok VNone
  | VKey _ | VRat _ => raise E_UNMODELLED
  end.

(* l[:n] *)
Definition slice_to (l : list val) (n : Z) : list val :=
  if 0 <=? n then firstn (Z.to_nat n) l
  else firstn (Z.to_nat (Z.max 0 (Z.of_nat (length l) + n))) l.

(* --- TieBreaking helpers (core.py L1437-1466) --- *)
(* _collect_ties: Tie -> number of tied seats, first-occurrence order *)
Definition collect_ties_sel (l : list val) : res dict :=
  fold_left (fun acc x => acc >>= fun d =>
               match x with
               | VKey (KT t) => add_val (dget_or d (KT t) (VInt 0)) (VInt 1) >>= fun s => Ok (dset d (KT t) s)
               | _ => Ok d
               end) l (Ok []).
Definition collect_ties_distr (r : dict) : res dict :=
  fold_left (fun acc kv => acc >>= fun d =>
               match fst kv with
               | KT t => add_val (dget_or d (KT t) (VInt 0)) (snd kv) >>= fun s => Ok (dset d (KT t) s)
               | _ => Ok d
               end) r (Ok []).

(* result[result.index(tie)] = cand *)
Fixpoint replace_first (l : list val) (t : key) (c : val) : option (list val) :=
  match l with
  | [] => None
  | x :: r => match x with
              | VKey k => if key_eqb k t then Some (c :: r)
                          else match replace_first r t c with Some r' => Some (x :: r') | None => None end
              | _ => match replace_first r t c with Some r' => Some (x :: r') | None => None end
              end
  end.
(* _replace_sel_ties *)
Fixpoint replace_sel (l : list val) (t : key) (repl : list val) : res (list val) :=
  match repl with
  | [] => Ok l
  | c :: rest => match replace_first l t c with
                 | Some l' => replace_sel l' t rest
                 | None => raise E_VALUE
                 end
  end.
(* _replace_distr_ties *)
Definition replace_distr (r : dict) (t : key) (repl : list val) : res dict :=
  fold_left (fun acc c => acc >>= fun d =>
               match c with
               | VKey k => add_val (dget_or d k (VInt 0)) (VInt 1) >>= fun s => Ok (dset d k s)
               | VList _ | VDict _ => raise E_TYPE       (* unhashable *)
               | _ => raise E_UNMODELLED
               end) repl (Ok (ddel r t)).
(* iterating the tiebreaker's answer *)
Definition iter_val (v : val) : res (list val) :=
  match v with
  | VList l => Ok l
  | VDict d => Ok (map (fun kv => VKey (fst kv)) d)
  | VKey (KT t) => Ok (map (fun c => VKey (KC c)) t)
  | _ => raise E_TYPE
  end.

(* ------------------------------------------------------------------ calls and signatures *)
Record kwrec := KW { k_seats : option val; k_prev : option val; k_max : option val;
                     k_pl : option val; k_lv : option val; k_cl : option val }.
Definition kw_none : kwrec := KW None None None None None None.
Definition kget (r : kwrec) (k : kw) : option val :=
  match k with KSeats => k_seats r | KPrev => k_prev r | KMax => k_max r
             | KPl => k_pl r | KLv => k_lv r | KCl => k_cl r end.
Definition kset (r : kwrec) (k : kw) (v : option val) : kwrec :=
  match k with
  | KSeats => KW v (k_prev r) (k_max r) (k_pl r) (k_lv r) (k_cl r)
  | KPrev => KW (k_seats r) v (k_max r) (k_pl r) (k_lv r) (k_cl r)
  | KMax => KW (k_seats r) (k_prev r) v (k_pl r) (k_lv r) (k_cl r)
  | KPl => KW (k_seats r) (k_prev r) (k_max r) v (k_lv r) (k_cl r)
  | KLv => KW (k_seats r) (k_prev r) (k_max r) (k_pl r) v (k_cl r)
  | KCl => KW (k_seats r) (k_prev r) (k_max r) (k_pl r) (k_lv r) v
  end.
Definition all_kw : list kw := [KSeats; KPrev; KMax; KPl; KLv; KCl].
Definition kw_eqb (a b : kw) : bool :=
  match a, b with
  | KSeats, KSeats | KPrev, KPrev | KMax, KMax | KPl, KPl | KLv, KLv | KCl, KCl => true
  | _, _ => false
  end.

(* a Python call: f(votes, *pos, **kwd) ; a keyword dictionary is a finite map on names *)
Record pargs := PA { pa_pos : list val; pa_kw : kwrec }.

(* evaluate(self, votes, <sg_pos>, [*args], <sg_kwonly>, [**kwargs]) ; default None = required *)
Record sigt := SG { sg_pos : list (kw * option val); sg_varpos : bool;
                    sg_kwonly : list (kw * option val); sg_varkw : bool }.
Definition sg_params (s : sigt) : list (kw * option val) := sg_pos s ++ sg_kwonly s.
Definition has_param (s : sigt) (k : kw) : bool := existsb (fun p => kw_eqb (fst p) k) (sg_params s).

Record bound := BD { b_named : kwrec; b_args : list val; b_kwargs : kwrec }.

(* positional arguments fill the positional parameters in order *)
Fixpoint bind_pos (ps : list (kw * option val)) (args : list val) (acc : kwrec) : kwrec * list val :=
  match ps, args with
  | (k, _) :: ps', a :: args' => bind_pos ps' args' (kset acc k (Some a))
  | _, _ => (acc, args)
  end.
(* keyword arguments: a parameter already filled -> TypeError (multiple values); unknown name ->
   **kwargs or TypeError *)
Definition bind_kw (s : sigt) (kwd : kwrec) (acc : kwrec) : res (kwrec * kwrec) :=
  fold_left (fun st k => st >>= fun ae =>
               match kget kwd k with
               | None => Ok ae
               | Some v =>
                   if has_param s k then
                     match kget (fst ae) k with
                     | Some _ => raise E_TYPE
                     | None => Ok (kset (fst ae) k (Some v), snd ae)
                     end
                   else if sg_varkw s then Ok (fst ae, kset (snd ae) k (Some v))
                   else raise E_TYPE
               end) all_kw (Ok (acc, kw_none)).
Definition bind_defaults (s : sigt) (acc : kwrec) : res kwrec :=
  fold_left (fun st p => st >>= fun a =>
               match kget a (fst p) with
               | Some _ => Ok a
               | None => match snd p with Some d => Ok (kset a (fst p) (Some d)) | None => raise E_TYPE end
               end) (sg_params s) (Ok acc).
Definition bind (s : sigt) (pa : pargs) : res bound :=
  let '(acc, rest) := bind_pos (sg_pos s) (pa_pos pa) kw_none in
  match rest, sg_varpos s with
  | _ :: _, false => raise E_TYPE
  | _, _ =>
      bind_kw s (pa_kw pa) acc >>= fun ae =>
      bind_defaults s (fst ae) >>= fun named => Ok (BD named rest (snd ae))
  end.
Definition nget (b : bound) (k : kw) : val := match kget (b_named b) k with Some v => v | None => VNone end.

(* core.accepts_seats / accepts_prev_gains (L1308-1329): class attribute first, then the signature *)
Definition acc_seats_sig (attr : option bool) (s : sigt) : bool :=
  match attr with
  | Some b => b
  | None => has_param s KSeats || sg_varpos s || sg_varkw s
  end.
Definition acc_prev_sig (s : sigt) : bool := has_param s KPrev.

(* the signatures of core.py (cross-checked against inspect.signature on every run) *)
Definition sig_generic := SG [] true [] true.                                  (* (votes, *args, **kwargs) *)
Definition sig_distr := SG [(KSeats, None); (KPrev, Some (VDict [])); (KMax, Some (VDict []))] false [] false.
Definition sig_constit := SG [(KSeats, Some VNone); (KPrev, Some (VDict [])); (KMax, Some (VDict []))] false [] false.
Definition sig_cond := SG [(KSeats, Some VNone); (KPrev, Some (VDict []))] false [] true.
Definition sig_fixed := SG [] false [] true.
Definition sig_plist := SG [(KSeats, None)] false [(KPl, None); (KLv, Some VNone)] true.
Definition sig_adj := SG [(KSeats, None); (KPrev, None); (KMax, Some (VDict []))] false [] false.   (* AdjustedSeatCount *)

(* leaf kinds = the evaluate() signatures of the base evaluators *)
Inductive lkind := LSel | LSelD | LDist | LThr | LThrP | LThrPR | LSDist | LOpen.
Definition lsig (k : lkind) : sigt :=
  match k with
  | LSel => SG [(KSeats, None)] false [] false                                  (* (votes, n_seats) *)
  | LSelD => SG [(KSeats, Some (VInt 1))] false [] false                        (* Plurality *)
  | LDist => sig_distr                                                          (* HighestAverages, LargestRemainder *)
  | LThr => SG [] false [] false                                                (* thresholds *)
  | LThrP => SG [(KPrev, Some (VDict []))] false [] false                       (* AlternativeThresholds *)
  | LThrPR => SG [(KPrev, None)] false [] false                                 (* PreviousGainThreshold *)
  | LSDist => SG [(KPrev, Some (VDict [])); (KMax, Some (VDict []))] false [] false   (* VotesPerSeat *)
  | LOpen => SG [(KSeats, None); (KCl, None)] false [] false                    (* open list evaluators *)
  end.

(* ------------------------------------------------------------------ wrapper trees *)
Inductive aspec := ANone | AInt (n : Z) | ADict (d : dict).    (* static apportioner argument *)

Inductive ev :=
| Leaf (l : positive) (k : lkind)
| PreConv (c : positive) (e : ev)
| PostConv (e : ev) (c : positive)
| Fixed (e : ev) (n : val)
| Cond (el : ev) (e : ev) (depth : nat)           (* depth = Conditioned.depth - 1 *)
| ByCons (e : ev) (a : aspec)
| ByConsD (e : ev) (ae : ev)                      (* distributor apportioner *)
| PreApp (e : ev) (a : aspec)
| PreAppD (e : ev) (ae : ev)
| RemApp (e : ev)
| ByParty (ov : ev) (al : ev)
| ByPartyS (ov : ev)                              (* allocator=None: the overall evaluator is reused *)
| Multi (rs : list ev) (depth : nat)              (* depth = MultistageDistributor.depth - 1 *)
| TieBr (m : ev) (b : ev)
| PListC (p : ev)                                 (* closed lists *)
| PListO (p : ev) (le : ev) (c : option positive) (* open lists, optional list_votes_converter *)
| VSys (e : ev)                                   (* votelib.VotingSystem: every argument is passed on *)
| Unused (rs : list ev) (qs : list positive) (depth : nat)
                                                  (* UnusedVotesDistributor: rounds, quota functions (arbitrary functions,
                                                     answered by [leaf]), depth - 1 *)
| AdjLeaf (c : positive) (e : ev)                 (* AdjustedSeatCount with an arbitrary calculator (answered by [leaf]) *)
| AdjAllow (pe : ev) (e : ev)                     (* AdjustedSeatCount(AllowOverhang(pe), e) *)
| AdjLevel (pe : ev) (e : ev) (fuel : nat)        (* AdjustedSeatCount(LevelOverhang(pe), e); fuel of the levelling loop (model only) *)
| ByConsP (e : ev) (a : aspec) (pre : ev)         (* ByConstituency with a preselector (fixed / delegated apportionment) *)
| AdjLevelC (ce : ev) (oe : ev) (e : ev) (fuel : nat)
                                                  (* AdjustedSeatCount(LevelOverhangByConstituency(ce, oe), e) *)
| AdjLevelC0 (ce : ev) (e : ev) (fuel : nat)      (* ... overall_evaluator=None: PostConverted(ce, MergedDistributions()) *).

Definition sig_of (t : ev) : sigt :=
  match t with
  | Leaf _ k => lsig k
  | PreConv _ _ | PostConv _ _ | TieBr _ _ | VSys _ => sig_generic
  | Fixed _ _ => sig_fixed
  | Cond _ _ _ => sig_cond
  | ByCons _ _ | ByConsD _ _ | PreApp _ _ | PreAppD _ _ | RemApp _ | ByParty _ _ | ByPartyS _ | ByConsP _ _ _ => sig_constit
  | Multi _ _ | Unused _ _ _ => sig_distr
  | PListC _ | PListO _ _ _ => sig_plist
  | AdjLeaf _ _ | AdjAllow _ _ | AdjLevel _ _ _ | AdjLevelC _ _ _ _ | AdjLevelC0 _ _ _ => sig_adj
  end.
Definition attr_of (t : ev) : option bool := match t with Fixed _ _ => Some false | _ => None end.
Definition acc_seats (t : ev) : bool := acc_seats_sig (attr_of t) (sig_of t).
Definition acc_prev (t : ev) : bool := acc_prev_sig (sig_of t).

(* what a tree SEMANTICALLY takes: an argument of that name reaches a part that uses it (or is
   consumed by the wrapper itself) without a TypeError *)
Fixpoint takes (t : ev) (k : kw) : bool :=
  match t with
  | Leaf _ lk => has_param (lsig lk) k
  | PreConv _ e | PostConv e _ | TieBr e _ | VSys e => takes e k
  | Fixed e _ => negb (kw_eqb k KSeats) && takes e k
  | Cond _ e _ => kw_eqb k KSeats || kw_eqb k KPrev || takes e k
  | ByCons _ _ | ByConsD _ _ | PreApp _ _ | PreAppD _ _ | RemApp _ | ByParty _ _ | ByPartyS _ | Multi _ _
  | Unused _ _ _ | AdjLeaf _ _ | AdjAllow _ _ | AdjLevel _ _ _ | ByConsP _ _ _ | AdjLevelC _ _ _ _ | AdjLevelC0 _ _ _ =>
      kw_eqb k KSeats || kw_eqb k KPrev || kw_eqb k KMax
  | PListC p | PListO p _ _ => kw_eqb k KSeats || kw_eqb k KPl || kw_eqb k KLv || takes p k
  end.

Definition replicate {X} (n : nat) (x : X) : list X := repeat x n.

Section Run.
  Variable leaf : positive -> val -> list (option val) -> res val.   (* base evaluator on bound arguments *)
  Variable conv : positive -> val -> res val.                         (* converter *)

  Definition named_list (r : kwrec) : list (option val) := map (kget r) all_kw.
  Definition only (k : kw) (v : val) : kwrec := kset kw_none k (Some v).
  Definition sa_npm (n p m : val) : kwrec := KW (Some n) (Some p) (Some m) None None None.

  (* ================================================================ helpers of both semantics *)
  (* Conditioned._sum_party_votes *)
  Fixpoint sum_party_g (tot : val -> res val) (d : nat) (v : val) : res val :=
    match d with
    | O => Ok v
    | S d' => as_dict v >>= fun dd =>
              map_res (fun kv => sum_party_g tot d' (snd kv) >>= fun x => Ok (fst kv, x)) dd >>= fun dd' =>
              tot (VDict dd')
    end.
  Definition sum_party := sum_party_g vote_totals.
  (* Conditioned._elim_party_votes *)
  Fixpoint elim_party (d : nat) (v ne : val) : res val :=
    match d with
    | O => subset_votes v ne
    | S d' => as_dict v >>= fun dd =>
              map_res (fun kv => elim_party d' (snd kv) ne >>= fun x => Ok (fst kv, x)) dd >>= fun dd' =>
              Ok (VDict dd')
    end.
  (* spec side: apply f to every value at nesting depth d *)
  Fixpoint map_depth (d : nat) (f : val -> res val) (v : val) : res val :=
    match d with
    | O => f v
    | S d' => as_dict v >>= fun dd =>
              map_res (fun kv => map_depth d' f (snd kv) >>= fun x => Ok (fst kv, x)) dd >>= fun dd' =>
              Ok (VDict dd')
    end.

  (* MultistageDistributor._add_stage_results *)
  Fixpoint add_stage (d : nat) (elected res_ : dict) : res dict :=
    match d with
    | O => add_dict elected res_
    | S d' =>
        let ks := map fst elected ++ map fst (filter (fun kv => negb (dmem elected (fst kv))) res_) in
        fold_left (fun acc c => acc >>= fun el =>
                     as_dict (dget_or el c (VDict [])) >>= fun sub_e =>
                     as_dict (dget_or res_ c (VDict [])) >>= fun sub_r =>
                     add_stage d' sub_e sub_r >>= fun m => Ok (dset el c (VDict m)))
                  ks (Ok elected)
    end.

  (* the votes of the stages: one dictionary for all, or a list *)
  Definition stage_votes (n : nat) (votes : val) : res (list val) :=
    match votes with
    | VDict _ => Ok (replicate n votes)
    | VList l => Ok l
    | _ => raise E_TYPE
    end.

  (* constituency totals of core.apportion *)
  Definition constituency_votes (votes : val) : res val :=
    as_dict votes >>= fun d =>
    map_res (fun kv => as_dict (snd kv) >>= sum_values >>= fun s => Ok (fst kv, s)) d >>= fun r => Ok (VDict r).
  Definition uniform (votes : val) (n : val) : res val :=
    as_dict votes >>= fun d => Ok (VDict (map (fun kv => (fst kv, n)) d)).

  (* the per-district loop of ByConstituency.evaluate L971-988: results, then the districts
     without a value get the empty value of the first result's type *)
  Definition finish_districts (rs : list (key * option val)) : res val :=
    let some := flat_map (fun kr => match snd kr with Some r => [(fst kr, r)] | None => [] end) rs in
    let none := flat_map (fun kr => match snd kr with Some _ => [] | None => [fst kr] end) rs in
    match some with
    | [] => raise E_STOP
    | (_, r0) :: _ =>
        match none with
        | [] => Ok (VDict some)
        | _ => empty_like r0 >>= fun e => Ok (VDict (some ++ map (fun k => (k, e)) none))
        end
    end.

  (* ByParty: seats of one party disaggregated to constituencies *)
  Definition party_votes_g (sub : val -> val -> res val) (votes : dict) (party : key) : res val :=
    map_res (fun kv => sub (snd kv) (VList [VKey party]) >>= as_dict >>= sum_values >>= fun s => Ok (fst kv, s))
            votes >>= fun r => Ok (VDict r).
  Definition party_votes := party_votes_g subset_votes.
  Definition party_slice (nested : val) (party : key) : res val :=
    as_dict nested >>= fun d =>
    map_res (fun kv => as_dict (snd kv) >>= fun cg => Ok (fst kv, dget cg party)) d >>= fun r =>
    Ok (VDict (flat_map (fun kx => match snd kx with Some x => [(fst kx, x)] | None => [] end) r)).
  Definition put_party (results : dict) (party : key) (allocated : dict) : res dict :=
    fold_left (fun acc cs => acc >>= fun rs =>
                 as_dict (dget_or rs (fst cs) (VDict [])) >>= fun cur =>
                 Ok (dset rs (fst cs) (VDict (dset cur party (snd cs))))) allocated (Ok results).
  Definition fill_constituencies (results : dict) (votes : dict) : dict :=
    fold_left (fun rs kv => if dmem rs (fst kv) then rs else dset rs (fst kv) (VDict [])) votes results.

  (* party lists *)
  Definition subscript (d : val) (k : key) : res val :=
    match d with
    | VDict dd => match dget dd k with Some v => Ok v | None => raise E_KEY end
    | _ => raise E_TYPE
    end.
  Definition closed_list (pl : val) (party : key) (n : val) : res val :=
    subscript pl party >>= fun l =>
    match l, n with
    | VList ll, VInt z => Ok (VList (slice_to ll z))
    | _, _ => raise E_TYPE
    end.

  (* --- UnusedVotesDistributor helpers (core.py L413-473); a quota function is an arbitrary function of
     (total votes, seats), answered by [leaf q total [n_seats]] *)
  (* _gained_seats *)
  Fixpoint gained (d : nat) (el : val) : res val :=
    as_dict el >>= fun dd =>
    match d with
    | O => sum_values dd
    | S d' => fold_left (fun acc kv => acc >>= fun a => gained d' (snd kv) >>= fun g => add_val a g) dd (Ok (VInt 0))
    end.
  (* _subtract_gained_seats: a seat dictionary is reduced constituency by constituency, a number by all seats gained *)
  Fixpoint sub_gained (d : nat) (n_seats el : val) : res val :=
    match n_seats, d with
    | VDict nd, S d' =>
        as_dict el >>= fun ed =>
        map_res (fun cn => sub_gained d' (snd cn) (dget_or ed (fst cn) (VDict [])) >>= fun x => Ok (fst cn, x)) nd
        >>= fun r => Ok (VDict r)
    | VDict _, O => raise E_UNMODELLED       (* a seat dictionary at depth 1: ill-typed, not modelled *)
    | _, _ => gained d el >>= fun g => sub_val n_seats g
    end.
  (* _use_votes: every candidate loses quota * seats gained; VotingSystemError when that exceeds its votes.
     depth >= 2: a seat NUMBER counts for every constituency (repair C14-unusedvotes-uniform-seats) *)
  Fixpoint use_votes (q : positive) (d : nat) (votes el n_seats : val) : res val :=
    match d with
    | O =>
        as_dict votes >>= fun vd => sum_values vd >>= fun total =>
        leaf q total (named_list (only KSeats n_seats)) >>= fun quota_val =>
        map_res (fun cv => as_dict el >>= fun ed =>
                           mul_val quota_val (dget_or ed (fst cv) (VInt 0)) >>= fun ts =>
                           lt_val (snd cv) ts >>= fun b =>
                           if b then raise E_VSE else sub_val (snd cv) ts >>= fun r => Ok (fst cv, r)) vd
        >>= fun r => Ok (VDict r)
    | S d' =>
        as_dict votes >>= fun vd =>
        map_res (fun cv => as_dict el >>= fun ed =>
                           use_votes q d' (snd cv) (dget_or ed (fst cv) (VDict []))
                                     (match n_seats with VDict nd => dget_or nd (fst cv) (VInt 0) | _ => n_seats end)
                           >>= fun r => Ok (fst cv, r)) vd
        >>= fun r => Ok (VDict r)
    end.

  (* --- seat count adjusters (core.py AllowOverhang.calculate L547-574, LevelOverhang.calculate L600-640);
     [E n mx] = self.evaluator.evaluate(votes, n, max_seats=mx) *)
  Definition calc_allow (E : val -> val -> res val) (n prev mx : val) : res val :=
    E n mx >>= fun prop =>
    as_dict prev >>= fun pd =>
    fold_left (fun acc cp => acc >>= fun adj =>
                 as_dict prop >>= fun propd =>
                 let pc := dget_or propd (fst cp) (VInt 0) in
                 lt_val pc (snd cp) >>= fun b =>
                 if b then sub_val (snd cp) pc >>= add_val adj else Ok adj) pd (Ok (VInt 0)).

  (* any(prop_result.get(party, 0) < minimum for party, minimum in pmins) *)
  Fixpoint any_below (prop : val) (pmins : dict) : res bool :=
    match pmins with
    | [] => Ok false
    | (p, m) :: t => as_dict prop >>= fun propd =>
                     lt_val (dget_or propd p (VInt 0)) m >>= fun b => if b then Ok true else any_below prop t
    end.
  Fixpoint level_loop (fuel : nat) (E : val -> val -> res val) (mx : val) (pmins : dict) (adj prop : val) : res val :=
    any_below prop pmins >>= fun b =>
    if b then
      match fuel with
      | O => raise E_FUEL
      | S f => add_val adj (VInt 1) >>= fun adj' => E adj' mx >>= fun prop' => level_loop f E mx pmins adj' prop'
      end
    else Ok adj.
  Definition calc_level (fuel : nat) (E : val -> val -> res val) (n prev mx : val) : res val :=
    E n mx >>= fun prop =>
    as_dict prop >>= fun propd =>
    map_res (fun pg => as_dict prev >>= fun pd => max_val (dget_or pd (fst pg) (VInt 0)) (snd pg) >>= fun m => Ok (fst pg, m)) propd
    >>= fun lowest =>
    as_dict prev >>= fun pd =>
    fold_left (fun acc cp => acc >>= fun dr => if dmem lowest (fst cp) then Ok dr else add_val dr (snd cp)) pd (Ok (VInt 0))
    >>= fun drop =>
    sub_val n drop >>= fun adj0 =>
    level_loop fuel E mx lowest adj0 prop >>= fun adj =>
    add_val adj drop >>= fun x => sub_val x n.

  (* convert.MergedDistributions().convert *)
  Definition merged_distr (v : val) : res val :=
    match v with
    | VDict _ => vote_totals v
    | VList l => fold_left (fun acc x => acc >>= fun a => as_dict x >>= fun dv => add_dict a dv) l (Ok [])
                 >>= fun r => Ok (VDict r)
    | _ => raise E_TYPE
    end.

  (* LevelOverhangByConstituency.calculate (core.py L670-745, with the repairs 7a76c1b, d14cd5d):
     [CE n mx] = constituency_evaluator.evaluate(votes, n, max_seats=mx); [PV] = the votes the overall evaluator gets
     (VoteTotals of the votes, or the votes themselves); [OE pv h mx] = overall_evaluator.evaluate(pv, h, max_seats=mx) *)
  Definition calc_level_byc (fuel : nat) (CE : val -> val -> res val) (PV : res val) (OE : val -> val -> val -> res val)
             (n prev mx : val) : res val :=
    CE n mx >>= fun cty_results =>
    as_dict cty_results >>= fun crd =>
    map_res (fun cr => as_dict (snd cr) >>= fun cps =>
                       map_res (fun ps => as_dict prev >>= fun pd =>
                                           as_dict (dget_or pd (fst cr) (VDict [])) >>= fun pcd =>
                                           max_val (dget_or pcd (fst ps) (VInt 0)) (snd ps) >>= fun m => Ok (fst ps, m)) cps
                       >>= fun r => Ok (fst cr, VDict r)) crd >>= fun minima =>
    vote_totals (VDict minima) >>= as_dict >>= fun lowest0 =>
    as_dict prev >>= fun pd =>
    (* first round seats of a second round party in a constituency where it gets no proportional seat *)
    fold_left (fun acc cg => acc >>= fun low0 =>
                 let cps := dget_or crd (fst cg) (VDict []) in
                 as_dict (snd cg) >>= fun gains =>
                 fold_left (fun acc2 pg => acc2 >>= fun low =>
                              if dmem low (fst pg)
                              then as_dict cps >>= fun cpd =>
                                   if dmem cpd (fst pg) then Ok low
                                   else add_val (dget_or low (fst pg) (VInt 0)) (snd pg) >>= fun x => Ok (dset low (fst pg) x)
                              else Ok low) gains (Ok low0)) pd (Ok lowest0) >>= fun lowest =>
    fold_left (fun acc cg => acc >>= fun d0 =>
                 as_dict (snd cg) >>= fun gains =>
                 fold_left (fun acc2 pg => acc2 >>= fun dr =>
                              if dmem lowest (fst pg) then Ok dr else add_val dr (snd pg)) gains (Ok d0)) pd (Ok (VInt 0))
    >>= fun drop =>
    sub_val n drop >>= fun adj0 =>
    PV >>= fun pv =>
    OE pv adj0 mx >>= fun prop =>
    level_loop fuel (OE pv) mx lowest adj0 prop >>= fun adj =>
    add_val adj drop >>= fun x => sub_val x n.

  (* tie replacement loop of TieBreaking.evaluate; [brk sub n] runs the tiebreaker *)
  Definition break_ties_g (sub : val -> val -> res val) (brk : val -> val -> res val) (votes main : val) : res val :=
    match main with
    | VList l =>
        if existsb (fun x => match x with VKey k => is_tie k | _ => false end) l then
          collect_ties_sel l >>= fun ties =>
          fold_left (fun acc tn => acc >>= fun cur =>
                       sub votes (VKey (fst tn)) >>= fun sv =>
                       brk sv (snd tn) >>= iter_val >>= fun repl => replace_sel cur (fst tn) repl)
                    ties (Ok l) >>= fun r => Ok (VList r)
        else Ok main
    | VDict d =>
        if existsb (fun kv => is_tie (fst kv)) d then
          collect_ties_distr d >>= fun ties =>
          fold_left (fun acc tn => acc >>= fun cur =>
                       sub votes (VKey (fst tn)) >>= fun sv =>
                       brk sv (snd tn) >>= iter_val >>= fun repl => replace_distr cur (fst tn) repl)
                    ties (Ok d) >>= fun r => Ok (VDict r)
        else Ok main
    | _ => raise E_TYPE
    end.
  Definition break_ties := break_ties_g subset_votes.

  (* ================================================================ run_impl : the code *)
  Definition call0 : pargs := PA [] kw_none.
  Definition call_n (n : val) : pargs := PA [n] kw_none.
  Definition call_npm (n p m : val) : pargs := PA [n] (KW None (Some p) (Some m) None None None).

  Fixpoint run_impl (t : ev) (votes : val) (pa : pargs) {struct t} : res val :=
    match t with
    | Leaf l k => bind (lsig k) pa >>= fun b => leaf l votes (named_list (b_named b))
    | PreConv c e => conv c votes >>= fun v => run_impl e v pa
    | PostConv e c => run_impl e votes pa >>= conv c
    | Fixed e n =>
        bind sig_fixed pa >>= fun b => run_impl e votes (PA [n] (b_kwargs b))
    | Cond el e d =>
        bind sig_cond pa >>= fun b =>
        let n_seats := nget b KSeats in
        let prev := nget b KPrev in
        sum_party d votes >>= fun summed_votes =>
        sum_party d prev >>= fun summed_prev =>
        (if acc_prev el then run_impl el summed_votes (PA [] (kset kw_none KPrev (Some summed_prev)))
         else run_impl el summed_votes call0) >>= fun not_eliminated =>
        elim_party d votes not_eliminated >>= fun elim_votes =>
        let kwargs := if acc_prev e then kset (b_kwargs b) KPrev (Some prev) else b_kwargs b in
        if acc_seats e && negb (is_none n_seats) then run_impl e elim_votes (PA [n_seats] kwargs)
        else run_impl e elim_votes (PA [] kwargs)
    | ByCons e a =>
        bind sig_constit pa >>= fun b =>
        let n_seats := nget b KSeats in
        (match a with
         | AInt n => uniform votes (VInt n)
         | ADict d => Ok (VDict d)
         | ANone => match n_seats with
                    | VDict _ => Ok n_seats
                    | VInt _ => uniform votes n_seats
                    | _ => raise E_VALUE
                    end
         end) >>= fun apportionment =>
        as_dict votes >>= fun dvs =>
        map_res (fun kv =>
                   as_dict apportionment >>= fun ad =>
                   as_dict (nget b KPrev) >>= fun pd =>
                   as_dict (nget b KMax) >>= fun md =>
                   let n := dget_or ad (fst kv) (VInt 0) in
                   if is_zero n then Ok (fst kv, None)
                   else (if acc_prev e
                         then run_impl e (snd kv) (call_npm n (dget_or pd (fst kv) (VDict [])) (dget_or md (fst kv) (VDict [])))
                         else run_impl e (snd kv) (call_n n)) >>= fun r => Ok (fst kv, Some r)) dvs
        >>= finish_districts
    | ByConsD e ae =>
        bind sig_constit pa >>= fun b =>
        let n_seats := nget b KSeats in
        (match n_seats with
         | VDict _ => Ok n_seats
         | VInt _ => constituency_votes votes >>= fun cv => run_impl ae cv (call_n n_seats)
         | VNone => constituency_votes votes >>= fun cv => run_impl ae cv call0
         | _ => constituency_votes votes >>= fun _ => raise E_VALUE
         end) >>= fun apportionment =>
        as_dict votes >>= fun dvs =>
        map_res (fun kv =>
                   as_dict apportionment >>= fun ad =>
                   as_dict (nget b KPrev) >>= fun pd =>
                   as_dict (nget b KMax) >>= fun md =>
                   let n := dget_or ad (fst kv) (VInt 0) in
                   if is_zero n then Ok (fst kv, None)
                   else (if acc_prev e
                         then run_impl e (snd kv) (call_npm n (dget_or pd (fst kv) (VDict [])) (dget_or md (fst kv) (VDict [])))
                         else run_impl e (snd kv) (call_n n)) >>= fun r => Ok (fst kv, Some r)) dvs
        >>= finish_districts
    | PreApp e a =>
        bind sig_constit pa >>= fun b =>
        let n_seats := nget b KSeats in
        (match a with
         | AInt n => uniform votes (VInt n)
         | ADict d => Ok (VDict d)
         | ANone => match n_seats with
                    | VDict _ => Ok n_seats
                    | VInt _ => uniform votes n_seats
                    | _ => raise E_VALUE
                    end
         end) >>= fun apportionment =>
        run_impl e votes (PA [] (KW (Some apportionment) (Some (nget b KPrev)) (Some (nget b KMax)) None None None))
    | PreAppD e ae =>
        bind sig_constit pa >>= fun b =>
        let n_seats := nget b KSeats in
        (match n_seats with
         | VDict _ => Ok n_seats
         | VInt _ => constituency_votes votes >>= fun cv => run_impl ae cv (call_n n_seats)
         | VNone => constituency_votes votes >>= fun cv => run_impl ae cv call0
         | _ => constituency_votes votes >>= fun _ => raise E_VALUE
         end) >>= fun apportionment =>
        run_impl e votes (PA [] (KW (Some apportionment) (Some (nget b KPrev)) (Some (nget b KMax)) None None None))
    | RemApp e =>
        bind sig_constit pa >>= fun b =>
        as_dict (nget b KSeats) >>= sum_values >>= fun total =>
        run_impl e votes (PA [] (KW (Some total) (Some (nget b KPrev)) (Some (nget b KMax)) None None None))
    | ByParty ov al =>
        bind sig_constit pa >>= fun b =>
        let n_seats := nget b KSeats in
        vote_totals votes >>= fun overall_votes =>
        (if is_none n_seats then run_impl ov overall_votes call0
         else run_impl ov overall_votes (call_n n_seats)) >>= as_dict >>= fun overall_result =>
        as_dict votes >>= fun dvs =>
        fold_left (fun acc ps => acc >>= fun results =>
                     party_votes dvs (fst ps) >>= fun pv =>
                     (if acc_prev al then
                        party_slice (nget b KPrev) (fst ps) >>= fun pp =>
                        party_slice (nget b KMax) (fst ps) >>= fun pm =>
                        run_impl al pv (call_npm (snd ps) pp pm)
                      else run_impl al pv (call_n (snd ps))) >>= as_dict >>= put_party results (fst ps))
                  overall_result (Ok []) >>= fun results =>
        Ok (VDict (fill_constituencies results dvs))
    | ByPartyS ov =>
        bind sig_constit pa >>= fun b =>
        let n_seats := nget b KSeats in
        vote_totals votes >>= fun overall_votes =>
        (if is_none n_seats then run_impl ov overall_votes call0
         else run_impl ov overall_votes (call_n n_seats)) >>= as_dict >>= fun overall_result =>
        as_dict votes >>= fun dvs =>
        fold_left (fun acc ps => acc >>= fun results =>
                     party_votes dvs (fst ps) >>= fun pv =>
                     (if acc_prev ov then
                        party_slice (nget b KPrev) (fst ps) >>= fun pp =>
                        party_slice (nget b KMax) (fst ps) >>= fun pm =>
                        run_impl ov pv (call_npm (snd ps) pp pm)
                      else run_impl ov pv (call_n (snd ps))) >>= as_dict >>= put_party results (fst ps))
                  overall_result (Ok []) >>= fun results =>
        Ok (VDict (fill_constituencies results dvs))
    | Multi rs d =>
        bind sig_distr pa >>= fun b =>
        as_dict (nget b KPrev) >>= fun elected0 =>
        stage_votes (length rs) votes >>= fun svs =>
        (fix go (rs : list ev) (svs : list val) (elected : dict) {struct rs} : res dict :=
           match rs, svs with
           | s :: rs', sv :: svs' =>
               run_impl s sv (call_npm (nget b KSeats) (VDict elected) (nget b KMax)) >>= as_dict >>= fun stage_res =>
               add_stage d elected stage_res >>= go rs' svs'
           | _, _ => Ok elected
           end) rs svs elected0 >>= fun r => Ok (VDict r)
    | TieBr m br =>
        run_impl m votes pa >>= fun main =>
        break_ties (fun sub n => run_impl br sub (call_n n)) votes main
    | PListC p =>
        bind sig_plist pa >>= fun b =>
        run_impl p votes (PA [nget b KSeats] (b_kwargs b)) >>= as_dict >>= fun party_result =>
        if truthy (nget b KLv) then raise E_VALUE
        else map_res (fun pn => closed_list (nget b KPl) (fst pn) (snd pn) >>= fun l => Ok (fst pn, l)) party_result
             >>= fun r => Ok (VDict r)
    | PListO p le c =>
        bind sig_plist pa >>= fun b =>
        run_impl p votes (PA [nget b KSeats] (b_kwargs b)) >>= as_dict >>= fun party_result =>
        if negb (truthy (nget b KLv)) then raise E_VALUE
        else (match c with Some ci => conv ci (nget b KLv) | None => Ok (nget b KLv) end) >>= fun lv =>
             map_res (fun pn => subscript lv (fst pn) >>= fun plv =>
                                subscript (nget b KPl) (fst pn) >>= fun cl =>
                                run_impl le plv (PA [snd pn; cl] kw_none) >>= fun l => Ok (fst pn, l)) party_result
             >>= fun r => Ok (VDict r)
    | VSys e => run_impl e votes pa
    | Unused rs qs d =>
        bind sig_distr pa >>= fun b =>
        as_dict (nget b KPrev) >>= fun elected0 =>
        if truthy (nget b KMax) then raise E_NIE
        else
        (fix go (rs : list ev) (qs : list (option positive)) (votes n_seats : val) (elected : dict) {struct rs} : res dict :=
           match rs, qs with
           | s :: rs', q :: qs' =>
               run_impl s votes (call_n n_seats) >>= fun stage_res =>
               as_dict stage_res >>= fun srd =>
               add_stage d elected srd >>= fun elected' =>
               match q with
               | None => go rs' qs' votes n_seats elected'
               | Some qf =>
                   (* the votes used up and the seats left are computed from THIS stage's result *)
                   use_votes qf d votes stage_res n_seats >>= fun votes' =>
                   sub_gained d n_seats stage_res >>= fun n_seats' =>
                   go rs' qs' votes' n_seats' elected'
               end
           | _, _ => Ok elected
           end) rs (map Some qs ++ [None]) votes (nget b KSeats) elected0 >>= fun r => Ok (VDict r)
    | AdjLeaf c e =>
        bind sig_adj pa >>= fun b =>
        leaf c votes (named_list (b_named b)) >>= fun seat_adj =>
        add_val (nget b KSeats) seat_adj >>= fun n' =>
        run_impl e votes (call_npm n' (nget b KPrev) (nget b KMax))
    | AdjAllow pe e =>
        bind sig_adj pa >>= fun b =>
        calc_allow (fun n mx => run_impl pe votes (PA [n] (only KMax mx))) (nget b KSeats) (nget b KPrev) (nget b KMax)
        >>= fun seat_adj =>
        add_val (nget b KSeats) seat_adj >>= fun n' =>
        run_impl e votes (call_npm n' (nget b KPrev) (nget b KMax))
    | AdjLevel pe e fuel =>
        bind sig_adj pa >>= fun b =>
        calc_level fuel (fun n mx => run_impl pe votes (PA [n] (only KMax mx))) (nget b KSeats) (nget b KPrev) (nget b KMax)
        >>= fun seat_adj =>
        add_val (nget b KSeats) seat_adj >>= fun n' =>
        run_impl e votes (call_npm n' (nget b KPrev) (nget b KMax))
    | ByConsP e a pre =>
        bind sig_constit pa >>= fun b =>
        let n_seats := nget b KSeats in
        (match a with
         | AInt n => uniform votes (VInt n)
         | ADict d => Ok (VDict d)
         | ANone => match n_seats with
                    | VDict _ => Ok n_seats
                    | VInt _ => uniform votes n_seats
                    | _ => raise E_VALUE
                    end
         end) >>= fun apportionment =>
        (* _preselect: the national totals through the preselector (repair: an omitted seat count is not forwarded) *)
        vote_totals votes >>= fun nat_votes =>
        (if acc_seats pre && negb (is_none n_seats) then run_impl pre nat_votes (call_n n_seats)
         else run_impl pre nat_votes call0) >>= fun preselected =>
        as_dict votes >>= fun dvs =>
        map_res (fun kv =>
                   as_dict apportionment >>= fun ad =>
                   as_dict (nget b KPrev) >>= fun pd =>
                   as_dict (nget b KMax) >>= fun md =>
                   let n := dget_or ad (fst kv) (VInt 0) in
                   if is_zero n then Ok (fst kv, None)
                   else subset_votes (snd kv) preselected >>= fun sv =>
                        (if acc_prev e
                         then run_impl e sv (call_npm n (dget_or pd (fst kv) (VDict [])) (dget_or md (fst kv) (VDict [])))
                         else run_impl e sv (call_n n)) >>= fun r => Ok (fst kv, Some r)) dvs
        >>= finish_districts
    | AdjLevelC ce oe e fuel =>
        bind sig_adj pa >>= fun b =>
        calc_level_byc fuel (fun n mx => run_impl ce votes (PA [n] (only KMax mx)))
                       (vote_totals votes) (fun pv h mx => run_impl oe pv (PA [h] (only KMax mx)))
                       (nget b KSeats) (nget b KPrev) (nget b KMax) >>= fun seat_adj =>
        add_val (nget b KSeats) seat_adj >>= fun n' =>
        run_impl e votes (call_npm n' (nget b KPrev) (nget b KMax))
    | AdjLevelC0 ce e fuel =>
        bind sig_adj pa >>= fun b =>
        calc_level_byc fuel (fun n mx => run_impl ce votes (PA [n] (only KMax mx)))
                       (Ok votes) (fun pv h mx => run_impl ce pv (PA [h] (only KMax mx)) >>= merged_distr)
                       (nget b KSeats) (nget b KPrev) (nget b KMax) >>= fun seat_adj =>
        add_val (nget b KSeats) seat_adj >>= fun n' =>
        run_impl e votes (call_npm n' (nget b KPrev) (nget b KMax))
    end.

  (* ================================================================ run_spec : by hand *)
  (* semantic arguments = which named quantities are supplied ([kwrec] read as a record of
     options).  [accept s sa]: the named arguments are admissible for signature s, defaults
     filled in - "calling the part with these named arguments". *)
  Definition accept (s : sigt) (sa : kwrec) : res bound := bind s (PA [] sa).
  Definition sa_get (b : bound) (k : kw) : val := nget b k.
  Definition given (v : val) : option val := if is_none v then None else Some v.

  Fixpoint run_spec (t : ev) (votes : val) (sa : kwrec) {struct t} : res val :=
    match t with
    | Leaf l k => accept (lsig k) sa >>= fun b => leaf l votes (named_list (b_named b))
    | PreConv c e => conv c votes >>= fun v => run_spec e v sa          (* convert, then evaluate *)
    | PostConv e c => run_spec e votes sa >>= conv c                    (* evaluate, then convert *)
    | Fixed e n =>                                                     (* = passing that count *)
        match k_seats sa with
        | Some _ => raise E_TYPE
        | None => run_spec e votes (kset sa KSeats (Some n))
        end
    | Cond el e d =>
        accept sig_cond sa >>= fun b =>
        let prev := sa_get b KPrev in
        sum_party_g totals_s d votes >>= fun summed_votes =>
        sum_party_g totals_s d prev >>= fun summed_prev =>
        run_spec el summed_votes (if takes el KPrev then only KPrev summed_prev else kw_none) >>= fun passed =>
        (* the votes restricted, at the nesting depth of the ballots, to the candidates passed *)
        map_depth d (fun v => subset_s v passed) votes >>= fun restricted =>
        run_spec e restricted
          (kset (kset (b_kwargs b) KSeats (if takes e KSeats then given (sa_get b KSeats) else None))
                KPrev (if takes e KPrev then Some prev else None))
    | ByCons e a =>
        accept sig_constit sa >>= fun b =>
        (match a, k_seats sa with
         | AInt n, _ => uniform votes (VInt n)
         | ADict d, _ => Ok (VDict d)
         | ANone, Some (VDict d) => Ok (VDict d)
         | ANone, Some (VInt n) => uniform votes (VInt n)
         | ANone, _ => raise E_VALUE
         end) >>= fun apportionment =>
        as_dict votes >>= fun dvs =>
        map_res (fun kv =>
                   as_dict apportionment >>= fun ad =>
                   as_dict (sa_get b KPrev) >>= fun pd =>
                   as_dict (sa_get b KMax) >>= fun md =>
                   let n := dget_or ad (fst kv) (VInt 0) in
                   if is_zero n then Ok (fst kv, None)
                   else run_spec e (snd kv)
                          (if takes e KPrev
                           then sa_npm n (dget_or pd (fst kv) (VDict [])) (dget_or md (fst kv) (VDict []))
                           else only KSeats n) >>= fun r => Ok (fst kv, Some r)) dvs
        >>= finish_districts
    | ByConsD e ae =>
        accept sig_constit sa >>= fun b =>
        (match k_seats sa with
         | Some (VDict d) => Ok (VDict d)
         | Some (VInt n) => constituency_votes votes >>= fun cv => run_spec ae cv (only KSeats (VInt n))
         | None | Some VNone => constituency_votes votes >>= fun cv => run_spec ae cv kw_none
         | _ => constituency_votes votes >>= fun _ => raise E_VALUE
         end) >>= fun apportionment =>
        as_dict votes >>= fun dvs =>
        map_res (fun kv =>
                   as_dict apportionment >>= fun ad =>
                   as_dict (sa_get b KPrev) >>= fun pd =>
                   as_dict (sa_get b KMax) >>= fun md =>
                   let n := dget_or ad (fst kv) (VInt 0) in
                   if is_zero n then Ok (fst kv, None)
                   else run_spec e (snd kv)
                          (if takes e KPrev
                           then sa_npm n (dget_or pd (fst kv) (VDict [])) (dget_or md (fst kv) (VDict []))
                           else only KSeats n) >>= fun r => Ok (fst kv, Some r)) dvs
        >>= finish_districts
    | PreApp e a =>
        accept sig_constit sa >>= fun b =>
        (match a, k_seats sa with
         | AInt n, _ => uniform votes (VInt n)
         | ADict d, _ => Ok (VDict d)
         | ANone, Some (VDict d) => Ok (VDict d)
         | ANone, Some (VInt n) => uniform votes (VInt n)
         | ANone, _ => raise E_VALUE
         end) >>= fun apportionment =>
        run_spec e votes (sa_npm apportionment (sa_get b KPrev) (sa_get b KMax))
    | PreAppD e ae =>
        accept sig_constit sa >>= fun b =>
        (match k_seats sa with
         | Some (VDict d) => Ok (VDict d)
         | Some (VInt n) => constituency_votes votes >>= fun cv => run_spec ae cv (only KSeats (VInt n))
         | None | Some VNone => constituency_votes votes >>= fun cv => run_spec ae cv kw_none
         | _ => constituency_votes votes >>= fun _ => raise E_VALUE
         end) >>= fun apportionment =>
        run_spec e votes (sa_npm apportionment (sa_get b KPrev) (sa_get b KMax))
    | RemApp e =>
        accept sig_constit sa >>= fun b =>
        as_dict (sa_get b KSeats) >>= sum_values >>= fun total =>
        run_spec e votes (sa_npm total (sa_get b KPrev) (sa_get b KMax))
    | ByParty ov al =>
        accept sig_constit sa >>= fun b =>
        totals_s votes >>= fun overall_votes =>
        run_spec ov overall_votes (kset kw_none KSeats (given (sa_get b KSeats))) >>= as_dict >>= fun overall_result =>
        as_dict votes >>= fun dvs =>
        fold_left (fun acc ps => acc >>= fun results =>
                     party_votes_g subset_s dvs (fst ps) >>= fun pv =>
                     (if takes al KPrev then
                        party_slice (sa_get b KPrev) (fst ps) >>= fun pp =>
                        party_slice (sa_get b KMax) (fst ps) >>= fun pm =>
                        run_spec al pv (sa_npm (snd ps) pp pm)
                      else run_spec al pv (only KSeats (snd ps))) >>= as_dict >>= put_party results (fst ps))
                  overall_result (Ok []) >>= fun results =>
        Ok (VDict (fill_constituencies results dvs))
    | ByPartyS ov =>
        accept sig_constit sa >>= fun b =>
        totals_s votes >>= fun overall_votes =>
        run_spec ov overall_votes (kset kw_none KSeats (given (sa_get b KSeats))) >>= as_dict >>= fun overall_result =>
        as_dict votes >>= fun dvs =>
        fold_left (fun acc ps => acc >>= fun results =>
                     party_votes_g subset_s dvs (fst ps) >>= fun pv =>
                     (if takes ov KPrev then
                        party_slice (sa_get b KPrev) (fst ps) >>= fun pp =>
                        party_slice (sa_get b KMax) (fst ps) >>= fun pm =>
                        run_spec ov pv (sa_npm (snd ps) pp pm)
                      else run_spec ov pv (only KSeats (snd ps))) >>= as_dict >>= put_party results (fst ps))
                  overall_result (Ok []) >>= fun results =>
        Ok (VDict (fill_constituencies results dvs))
    | Multi rs d =>
        (* chain the stages, each seeing the gains accumulated so far *)
        accept sig_distr sa >>= fun b =>
        as_dict (sa_get b KPrev) >>= fun elected0 =>
        stage_votes (length rs) votes >>= fun svs =>
        (fix go (rs : list ev) (svs : list val) (elected : dict) {struct rs} : res dict :=
           match rs, svs with
           | s :: rs', sv :: svs' =>
               run_spec s sv (sa_npm (sa_get b KSeats) (VDict elected) (sa_get b KMax)) >>= as_dict >>= fun stage_res =>
               add_stage d elected stage_res >>= go rs' svs'
           | _, _ => Ok elected
           end) rs svs elected0 >>= fun r => Ok (VDict r)
    | TieBr m br =>
        run_spec m votes sa >>= fun main =>
        break_ties_g subset_s (fun sub n => run_spec br sub (only KSeats n)) votes main
    | PListC p =>
        accept sig_plist sa >>= fun b =>
        run_spec p votes (kset (b_kwargs b) KSeats (Some (sa_get b KSeats))) >>= as_dict >>= fun party_result =>
        if truthy (sa_get b KLv) then raise E_VALUE
        else map_res (fun pn => closed_list (sa_get b KPl) (fst pn) (snd pn) >>= fun l => Ok (fst pn, l)) party_result
             >>= fun r => Ok (VDict r)
    | PListO p le c =>
        accept sig_plist sa >>= fun b =>
        run_spec p votes (kset (b_kwargs b) KSeats (Some (sa_get b KSeats))) >>= as_dict >>= fun party_result =>
        if negb (truthy (sa_get b KLv)) then raise E_VALUE
        else (match c with Some ci => conv ci (sa_get b KLv) | None => Ok (sa_get b KLv) end) >>= fun lv =>
             map_res (fun pn => subscript lv (fst pn) >>= fun plv =>
                                subscript (sa_get b KPl) (fst pn) >>= fun cl =>
                                run_spec le plv (KW (Some (snd pn)) None None None None (Some cl)) >>= fun l => Ok (fst pn, l))
                     party_result
             >>= fun r => Ok (VDict r)
    | VSys e => run_spec e votes sa                                   (* the system object adds nothing *)
    | Unused rs qs d =>
        (* chain the stages: each one sees the votes not yet used up and the seats not yet given; the result is the
           previous gains plus every stage's seats *)
        accept sig_distr sa >>= fun b =>
        as_dict (sa_get b KPrev) >>= fun elected0 =>
        if truthy (sa_get b KMax) then raise E_NIE
        else
        (fix go (rs : list ev) (qs : list (option positive)) (votes n_seats : val) (elected : dict) {struct rs} : res dict :=
           match rs, qs with
           | s :: rs', q :: qs' =>
               run_spec s votes (only KSeats n_seats) >>= fun stage_res =>
               as_dict stage_res >>= fun srd =>
               add_stage d elected srd >>= fun elected' =>
               match q with
               | None => go rs' qs' votes n_seats elected'
               | Some qf =>
                   use_votes qf d votes stage_res n_seats >>= fun votes' =>
                   sub_gained d n_seats stage_res >>= fun n_seats' =>
                   go rs' qs' votes' n_seats' elected'
               end
           | _, _ => Ok elected
           end) rs (map Some qs ++ [None]) votes (sa_get b KSeats) elected0 >>= fun r => Ok (VDict r)
    | AdjLeaf c e =>                                                  (* = evaluating with the adjusted seat count *)
        accept sig_adj sa >>= fun b =>
        leaf c votes (named_list (b_named b)) >>= fun seat_adj =>
        add_val (sa_get b KSeats) seat_adj >>= fun n' =>
        run_spec e votes (sa_npm n' (sa_get b KPrev) (sa_get b KMax))
    | AdjAllow pe e =>
        accept sig_adj sa >>= fun b =>
        calc_allow (fun n mx => run_spec pe votes (KW (Some n) None (Some mx) None None None))
                   (sa_get b KSeats) (sa_get b KPrev) (sa_get b KMax) >>= fun seat_adj =>
        add_val (sa_get b KSeats) seat_adj >>= fun n' =>
        run_spec e votes (sa_npm n' (sa_get b KPrev) (sa_get b KMax))
    | AdjLevel pe e fuel =>
        accept sig_adj sa >>= fun b =>
        calc_level fuel (fun n mx => run_spec pe votes (KW (Some n) None (Some mx) None None None))
                   (sa_get b KSeats) (sa_get b KPrev) (sa_get b KMax) >>= fun seat_adj =>
        add_val (sa_get b KSeats) seat_adj >>= fun n' =>
        run_spec e votes (sa_npm n' (sa_get b KPrev) (sa_get b KMax))
    | ByConsP e a pre =>
        (* each constituency separately, on its votes restricted to the candidates preselected on the national totals *)
        accept sig_constit sa >>= fun b =>
        (match a, k_seats sa with
         | AInt n, _ => uniform votes (VInt n)
         | ADict d, _ => Ok (VDict d)
         | ANone, Some (VDict d) => Ok (VDict d)
         | ANone, Some (VInt n) => uniform votes (VInt n)
         | ANone, _ => raise E_VALUE
         end) >>= fun apportionment =>
        totals_s votes >>= fun nat_votes =>
        run_spec pre nat_votes (kset kw_none KSeats (if takes pre KSeats then given (sa_get b KSeats) else None)) >>= fun preselected =>
        as_dict votes >>= fun dvs =>
        map_res (fun kv =>
                   as_dict apportionment >>= fun ad =>
                   as_dict (sa_get b KPrev) >>= fun pd =>
                   as_dict (sa_get b KMax) >>= fun md =>
                   let n := dget_or ad (fst kv) (VInt 0) in
                   if is_zero n then Ok (fst kv, None)
                   else subset_s (snd kv) preselected >>= fun sv =>
                        run_spec e sv
                          (if takes e KPrev
                           then sa_npm n (dget_or pd (fst kv) (VDict [])) (dget_or md (fst kv) (VDict []))
                           else only KSeats n) >>= fun r => Ok (fst kv, Some r)) dvs
        >>= finish_districts
    | AdjLevelC ce oe e fuel =>
        accept sig_adj sa >>= fun b =>
        calc_level_byc fuel (fun n mx => run_spec ce votes (KW (Some n) None (Some mx) None None None))
                       (totals_s votes) (fun pv h mx => run_spec oe pv (KW (Some h) None (Some mx) None None None))
                       (sa_get b KSeats) (sa_get b KPrev) (sa_get b KMax) >>= fun seat_adj =>
        add_val (sa_get b KSeats) seat_adj >>= fun n' =>
        run_spec e votes (sa_npm n' (sa_get b KPrev) (sa_get b KMax))
    | AdjLevelC0 ce e fuel =>
        accept sig_adj sa >>= fun b =>
        calc_level_byc fuel (fun n mx => run_spec ce votes (KW (Some n) None (Some mx) None None None))
                       (Ok votes) (fun pv h mx => run_spec ce pv (KW (Some h) None (Some mx) None None None) >>= merged_distr)
                       (sa_get b KSeats) (sa_get b KPrev) (sa_get b KMax) >>= fun seat_adj =>
        add_val (sa_get b KSeats) seat_adj >>= fun n' =>
        run_spec e votes (sa_npm n' (sa_get b KPrev) (sa_get b KMax))
    end.
End Run.

(* ------------------------------------------------------------------ typing *)
(* the two call styles of a root call: seat count positionally, or everything by keyword *)
Inductive style := PosSeats | AllKw.
Definition mk_call (st : style) (sa : kwrec) : pargs :=
  match st, k_seats sa with
  | PosSeats, Some n => PA [n] (kset sa KSeats None)
  | _, _ => PA [] sa
  end.

(* every supplied argument is one the tree takes *)
Definition fits (t : ev) (sa : kwrec) : bool :=
  forallb (fun k => match kget sa k with Some _ => takes t k | None => true end) all_kw.

(* inspect-based answer = semantic answer at a part that a wrapper inspects *)
Definition insp_seats (e : ev) : bool := Bool.eqb (acc_seats e) (takes e KSeats).
Definition insp_prev (e : ev) : bool := Bool.eqb (acc_prev e) (takes e KPrev).

Definition takes_spm (e : ev) : bool := takes e KSeats && takes e KPrev && takes e KMax.
Definition prev_implies_max (e : ev) : bool := implb (takes e KPrev) (takes e KMax).
Definition is_open_leaf (e : ev) : bool := match e with Leaf _ LOpen => true | _ => false end.

(* ---- seat counts and seatless parts.  A distributor apportioner (ByConstituency / PreApportioned) or ByParty's overall
   evaluator may be SEATLESS (VotesPerSeat ...): core.apportion hands a seat NUMBER to the apportioner positionally without
   looking at its signature, ByParty does the same with any seat count that is not None.  [seat_ok t v]: tree t may be
   called with the seat count v (VNone = omitted); [seat_any t]: with any seat count (what [wt] asks where the count is
   computed by a wrapper). *)
Fixpoint seat_any (t : ev) : bool :=
  match t with
  | Leaf _ _ | Fixed _ _ | ByCons _ _ | PreApp _ _ | RemApp _ | ByPartyS _
  | Unused _ _ _ | AdjLeaf _ _ | AdjAllow _ _ | AdjLevel _ _ _ | AdjLevelC _ _ _ _ | AdjLevelC0 _ _ _ => true
  | PreConv _ e | PostConv e _ | TieBr e _ | VSys e | PListC e | PListO e _ _ | Cond _ e _ => seat_any e
  | ByConsD _ ae | PreAppD _ ae => takes ae KSeats
  | ByParty ov _ => takes ov KSeats
  | Multi rs _ => forallb seat_any rs
  | ByConsP _ _ pre => seat_any pre
  end.
Fixpoint seat_ok (t : ev) (v : val) : bool :=
  match t with
  | Leaf _ _ | Fixed _ _ | ByCons _ _ | PreApp _ _ | RemApp _ | ByPartyS _
  | Unused _ _ _ | AdjLeaf _ _ | AdjAllow _ _ | AdjLevel _ _ _ | AdjLevelC _ _ _ _ | AdjLevelC0 _ _ _ => true
  | PreConv _ e | PostConv e _ | TieBr e _ | VSys e | PListC e | PListO e _ _ => seat_ok e v
  | Cond _ e _ => if takes e KSeats && negb (is_none v) then seat_ok e v else seat_ok e VNone
  | ByConsD _ ae | PreAppD _ ae => match v with VInt _ => takes ae KSeats | _ => true end
  | ByParty ov _ => is_none v || takes ov KSeats
  | Multi rs _ => forallb (fun s => seat_ok s v) rs
  | ByConsP _ _ pre => if takes pre KSeats && negb (is_none v) then seat_ok pre v else seat_ok pre VNone
  end.
Definition seat_of (sa : kwrec) : val := match k_seats sa with Some v => v | None => VNone end.
Definition seat_fits (t : ev) (sa : kwrec) : bool := seat_ok t (seat_of sa).

(* [wt]: every part is handed only arguments it takes ; [faithful]: the inspect-based dispatch
   agrees with what the inspected part takes *)
Fixpoint wt (t : ev) : bool :=
  match t with
  | Leaf _ _ => true
  | PreConv _ e | PostConv e _ | VSys e => wt e
  | Fixed e n => takes e KSeats && seat_ok e n && wt e
  | Cond el e _ => seat_ok el VNone && wt el && wt e
  | ByCons e _ => takes e KSeats && prev_implies_max e && seat_any e && wt e
  | ByConsD e ae => takes e KSeats && prev_implies_max e && seat_any e && wt e && seat_any ae && wt ae
  | PreApp e _ => takes_spm e && seat_any e && wt e
  | PreAppD e ae => takes_spm e && seat_any e && wt e && seat_any ae && wt ae
  | RemApp e => takes_spm e && seat_any e && wt e
  | ByParty ov al => seat_any ov && wt ov && takes al KSeats && prev_implies_max al && seat_any al && wt al
  | ByPartyS ov => wt ov && takes ov KSeats && prev_implies_max ov && seat_any ov
  | Multi rs _ => forallb (fun s => takes_spm s && wt s) rs
  | TieBr m b => wt m && takes b KSeats && seat_any b && wt b
  | PListC p => takes p KSeats && wt p
  | PListO p le _ => takes p KSeats && wt p && is_open_leaf le
  | Unused rs _ _ => forallb (fun s => takes s KSeats && seat_any s && wt s) rs
  | AdjLeaf _ e => takes_spm e && seat_any e && wt e
  | AdjAllow pe e | AdjLevel pe e _ =>
      takes pe KSeats && takes pe KMax && seat_any pe && wt pe && takes_spm e && seat_any e && wt e
  | ByConsP e _ pre => takes e KSeats && prev_implies_max e && seat_any e && wt e && wt pre
  | AdjLevelC ce oe e _ =>
      takes ce KSeats && takes ce KMax && seat_any ce && wt ce && takes oe KSeats && takes oe KMax && seat_any oe && wt oe &&
      takes_spm e && seat_any e && wt e
  | AdjLevelC0 ce e _ => takes ce KSeats && takes ce KMax && seat_any ce && wt ce && takes_spm e && seat_any e && wt e
  end.

(* the typing of the first version of this model: apportioners and overall evaluators take a seat count *)
Fixpoint seated (t : ev) : bool :=
  match t with
  | Leaf _ _ => true
  | PreConv _ e | PostConv e _ | VSys e | Fixed e _ | ByCons e _ | PreApp e _ | RemApp e | ByPartyS e | PListC e
  | AdjLeaf _ e => seated e
  | Cond a b _ | TieBr a b | PListO a b _ | AdjAllow a b | AdjLevel a b _ | ByConsP a _ b | AdjLevelC0 a b _ => seated a && seated b
  | AdjLevelC a b c _ => seated a && seated b && seated c
  | ByConsD e ae | PreAppD e ae => seated e && takes ae KSeats && seated ae
  | ByParty ov al => takes ov KSeats && seated ov && seated al
  | Multi rs _ | Unused rs _ _ => forallb seated rs
  end.

Fixpoint faithful (t : ev) : bool :=
  match t with
  | Leaf _ _ => true
  | PreConv _ e | PostConv e _ | Fixed e _ | RemApp e | PreApp e _ | PListC e | VSys e | AdjLeaf _ e => faithful e
  | Cond el e _ => insp_prev el && insp_seats e && insp_prev e && faithful el && faithful e
  | ByCons e _ => insp_prev e && faithful e
  | ByConsD e ae => insp_prev e && faithful e && faithful ae
  | PreAppD e ae => faithful e && faithful ae
  | ByParty ov al => insp_prev al && faithful ov && faithful al
  | ByPartyS ov => insp_prev ov && faithful ov
  | Multi rs _ | Unused rs _ _ => forallb faithful rs
  | TieBr m b => faithful m && faithful b
  | PListO p le _ => faithful p && faithful le
  | AdjAllow pe e | AdjLevel pe e _ => faithful pe && faithful e
  | ByConsP e _ pre => insp_prev e && insp_seats pre && faithful e && faithful pre
  | AdjLevelC ce oe e _ => faithful ce && faithful oe && faithful e
  | AdjLevelC0 ce e _ => faithful ce && faithful e
  end.
