(* Wire-level wrappers: decode arguments from sx, run the model, encode. *)
From Coq Require Import ZArith QArith List Bool.
From VL Require Import Prelude.Sx Model.GetNBest.
Import ListNotations.
Open Scope Z_scope.

Definition of_res (r : res positive) : sx :=
  match r with
  | Cand c => of_pos c
  | TieR l => L (map of_pos l)
  end.

(* args: (votes n) ; votes = dict cand -> Q *)
Definition u_get_n_best (a : sx) : sx :=
  match a with
  | L [v; n] =>
      match as_dict as_pos as_Q v, as_nat n with
      | Some votes, Some n => ok (L (map of_res (get_n_best Qle_bool votes n)))
      | _, _ => bad_input
      end
  | _ => bad_input
  end.

(* ------------------------------------------------------------------ C01 *)
From VL Require Import Prelude.PyDict Model.Divisor Model.HighestAverages.

(* divisor spec: (id) or (id first_coef) *)
Definition as_divisor (s : sx) : option (Z -> Q) :=
  match s with
  | L [A i] => Some (divisor_by_id i)
  | L [A i; c] => match as_Q c with Some c => Some (modified_first_coef (divisor_by_id i) c) | None => None end
  | _ => None
  end.

Definition of_tie (t : option (list C * Z)) : sx :=
  match t with
  | None => L []
  | Some (m, k) => L [L (map of_pos m); A k]
  end.

(* args: (divisor votes n prev caps) *)
Definition u_highest_averages (a : sx) : sx :=
  match a with
  | L [dv; v; A n; p; c] =>
      match as_divisor dv, as_dict as_pos as_Q v, as_dict as_pos as_Z p, as_dict as_pos as_Z c with
      | Some d, Some votes, Some prev, Some caps =>
          match HighestAverages.evaluate d votes n prev caps with
          | HA_ok gains tie => ok (L [of_dict of_pos A gains; of_tie tie])
          | HA_value_error => err E_VALUE
          end
      | _, _, _, _ => bad_input
      end
  | _ => bad_input
  end.

(* divisor value probe: (divisor k) -> Q ; used by the dense-grid fallback tie *)
Definition u_divisor (a : sx) : sx :=
  match a with
  | L [dv; A k] => match as_divisor dv with Some d => ok (of_Q (d k)) | None => bad_input end
  | _ => bad_input
  end.
