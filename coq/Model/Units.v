(* Wire-level wrappers: decode arguments from sx, run the model, encode. *)
From Coq Require Import ZArith QArith List Bool.
From VL Require Import Prelude.Sx Model.GetNBest.
Import ListNotations.
Open Scope Z_scope.

Definition of_res (r : res positive) : sx :=
  match r with
  | Cand c => of_pos c
  | TieR l => L (map of_pos l)
  end.

(* args: (votes n) ; votes = dict cand -> Q *)
Definition u_get_n_best (a : sx) : sx :=
  match a with
  | L [v; n] =>
      match as_dict as_pos as_Q v, as_nat n with
      | Some votes, Some n => ok (L (map of_res (get_n_best Qle_bool votes n)))
      | _, _ => bad_input
      end
  | _ => bad_input
  end.
