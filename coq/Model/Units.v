(* Wire-level wrappers: decode arguments from sx, run the model, encode. *)
From Coq Require Import ZArith QArith List Bool.
From VL Require Import Prelude.Sx Model.GetNBest.
Import ListNotations.
Open Scope Z_scope.

Definition of_res (r : res positive) : sx :=
  match r with
  | Cand c => of_pos c
  | TieR l => L (map of_pos l)
  end.

(* args: (votes n) ; votes = dict cand -> Q *)
Definition u_get_n_best (a : sx) : sx :=
  match a with
  | L [v; n] =>
      match as_dict as_pos as_Q v, as_nat n with
      | Some votes, Some n => ok (L (map of_res (get_n_best Qle_bool votes n)))
      | _, _ => bad_input
      end
  | _ => bad_input
  end.

(* ------------------------------------------------------------------ C01 *)
From VL Require Import Prelude.PyDict Model.Divisor Model.HighestAverages.

(* divisor spec: (id) or (id first_coef) *)
Definition as_divisor (s : sx) : option (Z -> Q) :=
  match s with
  | L [A i] => Some (divisor_by_id i)
  | L [A i; c] => match as_Q c with Some c => Some (modified_first_coef (divisor_by_id i) c) | None => None end
  | _ => None
  end.

Definition of_tie (t : option (list C * Z)) : sx :=
  match t with
  | None => L []
  | Some (m, k) => L [L (map of_pos m); A k]
  end.

(* args: (divisor votes n prev caps) *)
Definition u_highest_averages (a : sx) : sx :=
  match a with
  | L [dv; v; A n; p; c] =>
      match as_divisor dv, as_dict as_pos as_Q v, as_dict as_pos as_Z p, as_dict as_pos as_Z c with
      | Some d, Some votes, Some prev, Some caps =>
          match HighestAverages.evaluate d votes n prev caps with
          | HA_ok gains tie => ok (L [of_dict of_pos A gains; of_tie tie])
          | HA_value_error => err E_VALUE
          end
      | _, _, _, _ => bad_input
      end
  | _ => bad_input
  end.

(* divisor value probe: (divisor k) -> Q ; used by the dense-grid fallback tie *)
Definition u_divisor (a : sx) : sx :=
  match a with
  | L [dv; A k] => match as_divisor dv with Some d => ok (of_Q (d k)) | None => bad_input end
  | _ => bad_input
  end.

(* ------------------------------------------------------------------ C02 *)
From VL Require Import Model.Quota Model.QuotaDistributor.

Definition as_quota (s : sx) : option quota_spec :=
  match s with
  | L [A 0; q] => match as_Q q with Some q => Some (QConst q) | None => None end
  | L [A i] => Some (QNamed i)
  | _ => None
  end.
Definition as_policy (s : sx) : option policy :=
  match s with A 0 => Some PIgnore | A 1 => Some PError | A 2 => Some PSubtract | _ => None end.
Definition of_key (k : key) : sx := match k with K c => of_pos c | KT l => L (map of_pos l) end.
Definition unmodelled : sx := L [A 4].
Definition E_ZERODIV : Z := 12.
Definition of_qd (r : qd_result) : sx :=
  match r with
  | QD_ok sel => ok (of_dict of_key A sel)
  | QD_vse => err E_VSE
  | QD_zerodiv => err E_ZERODIV
  | QD_index => err E_INDEX
  | QD_unmodelled => unmodelled
  | QD_fuel => err E_FUEL
  end.

(* args: (quota accept_equal policy votes n prev caps) *)
Definition u_quota_distributor (lr : bool) (a : sx) : sx :=
  match a with
  | L [qs; ae; po; v; A n; p; c] =>
      match as_quota qs, as_bool ae, as_policy po, as_dict as_pos as_Q v, as_dict as_pos as_Z p, as_dict as_pos as_Z c with
      | Some qs, Some ae, Some po, Some votes, Some prev, Some caps =>
          if lr then
            match lr_evaluate (quota_fn qs) ae po votes n prev caps with
            | LR_ok sel => ok (of_dict of_key A sel)
            | LR_err r => of_qd r
            | LR_index => unmodelled
            end
          else of_qd (qd_evaluate (quota_fn qs) ae po votes n prev caps)
      | _, _, _, _, _, _ => bad_input
      end
  | _ => bad_input
  end.

(* args: (quota votes seats) -> quota value *)
Definition u_quota (a : sx) : sx :=
  match a with
  | L [qs; v; A s] =>
      match as_quota qs, as_Q v with
      | Some qs, Some v => ok (of_Q (quota_fn qs v s))
      | _, _ => bad_input
      end
  | _ => bad_input
  end.

(* args: (quota accept_equal select votes n) *)
Definition u_quota_selector (a : sx) : sx :=
  match a with
  | L [qs; ae; se; v; A n] =>
      match as_quota qs, as_bool ae, as_bool se, as_dict as_pos as_Q v with
      | Some qs, Some ae, Some se, Some votes =>
          match qsel_evaluate (quota_fn qs) ae se votes n with
          | QS_ok r => ok (L (map of_res r))
          | QS_vse => err E_VSE
          end
      | _, _, _, _ => bad_input
      end
  | _ => bad_input
  end.

(* ------------------------------------------------------------------ C16 *)
From VL Require Import Model.Threshold.

Fixpoint as_sel_fuel (f : nat) (s : sx) : option sel :=
  match f with
  | O => None
  | S f' =>
      match s with
      | L [A 0; t; ae] => match as_Q t, as_bool ae with Some t, Some ae => Some (SAbs t ae) | _, _ => None end
      | L [A 1; t; ae] => match as_Q t, as_bool ae with Some t, Some ae => Some (SRel t ae) | _, _ => None end
      | L [A 2; L ps] => match opt_map (as_sel_fuel f') ps with Some ps => Some (SAlt ps) | None => None end
      | _ => None
      end
  end.
Definition as_sel := as_sel_fuel 8.
Definition as_opt {X} (f : sx -> option X) (s : sx) : option (option X) :=
  match s with
  | L [] => Some None
  | L [x] => match f x with Some v => Some (Some v) | None => None end
  | _ => None
  end.

(* args: (sel votes) *)
Definition u_threshold (a : sx) : sx :=
  match a with
  | L [s; v] =>
      match as_sel s, as_dict as_pos as_Q v with
      | Some s, Some votes => ok (L (map of_pos (sel_eval s votes)))
      | _, _ => bad_input
      end
  | _ => bad_input
  end.

(* args: (evals default bracket votes) ; evals = ((b optsel) ...) *)
Definition u_bracket (a : sx) : sx :=
  match a with
  | L [e; d; b; v] =>
      match as_listof (as_pair as_Z (as_opt as_sel)) e, as_opt as_sel d, as_dict as_pos as_Z b, as_dict as_pos as_Q v with
      | Some evals, Some dflt, Some br, Some votes => ok (L (map of_pos (bracket_eval evals dflt br votes)))
      | _, _, _, _ => bad_input
      end
  | _ => bad_input
  end.

(* args: (jump quota th ae lp votes n list) ; jump = () | (q) ; quota = () | (spec frac) *)
Definition u_openlist (a : sx) : sx :=
  match a with
  | L [j; qf; th; ae; lp; v; n; l] =>
      let quota :=
        match qf with
        | L [] => Some None
        | L [qs; fr] => match as_quota qs, as_Q fr with
                        | Some qs, Some fr => Some (Some (fun t s => (quota_fn qs t s * fr)%Q))
                        | _, _ => None
                        end
        | _ => None
        end in
      match as_opt as_Q j, quota, as_bool th, as_bool ae, as_bool lp with
      | Some j, Some quota, Some th, Some ae, Some lp =>
          match as_dict as_pos as_Q v, as_nat n, as_listof as_pos l with
          | Some votes, Some n, Some lst =>
              ok (L (map of_pos (openlist_eval (Build_ol_cfg j quota th ae lp) votes n lst)))
          | _, _, _ => bad_input
          end
      | _, _, _, _, _ => bad_input
      end
  | _ => bad_input
  end.

Definition as_res (s : sx) : option (res positive) :=
  match s with
  | A (Zpos p) => Some (Cand p)
  | L l => match opt_map as_pos l with Some l => Some (TieR l) | None => None end
  | _ => None
  end.

(* args: (elected list) *)
Definition u_break_by_list (a : sx) : sx :=
  match a with
  | L [e; l] =>
      match as_listof as_res e, as_listof as_pos l with
      | Some el, Some lst =>
          match break_by_list el lst [] [] with
          | BL_ok r => ok (L (map of_pos r))
          | BL_index => err E_INDEX
          end
      | _, _ => bad_input
      end
  | _ => bad_input
  end.

(* ------------------------------------------------------------------ C05 / C06 *)
From VL Require Import Model.Condorcet.

Definition as_pvotes (s : sx) : option pvotes := as_dict (as_pair as_pos as_pos) as_Z s.
Definition as_scorer (s : sx) : option scorer :=
  match s with A 0 => Some WinningVotes | A 1 => Some Margins | A 2 => Some PairwiseOpposition | _ => None end.
Definition of_cres (r : cres) : sx :=
  match r with
  | CR_ok l => ok (L (map of_res l))
  | CR_vse => err E_VSE
  | CR_nie => err E_NIE
  | CR_stop => err 13      (* StopIteration *)
  | CR_index => err E_INDEX
  end.

Definition u_condorcet_winner (a : sx) : sx :=
  match as_pvotes a with Some v => ok (L (map of_pos (condorcet_winner v))) | None => bad_input end.
(* args: (ties votes); ties = 1: SmithSet (_smith_schwartz_set), ties = 0: SchwartzSet (_schwartz_set, the repaired routine) *)
Definition u_smith_schwartz (a : sx) : sx :=
  match a with
  | L [t; v] => match as_bool t, as_pvotes v with
                | Some t, Some v => ok (L (map of_pos (if t then smith_schwartz v true else schwartz_set v)))
                | _, _ => bad_input end
  | _ => bad_input
  end.
(* args: (second_order votes n) *)
Definition u_copeland (a : sx) : sx :=
  match a with
  | L [so; v; n] => match as_bool so, as_pvotes v, as_nat n with
                    | Some so, Some v, Some n => ok (L (map of_res (copeland so v n)))
                    | _, _, _ => bad_input end
  | _ => bad_input
  end.
(* args: (votes order n) *)
Definition u_schulze (a : sx) : sx :=
  match a with
  | L [v; o; n] => match as_pvotes v, as_listof as_pos o, as_nat n with
                   | Some v, Some o, Some n => ok (L (map of_res (schulze v o n)))
                   | _, _, _ => bad_input end
  | _ => bad_input
  end.
(* args: (scorer votes n) *)
Definition u_minimax (a : sx) : sx :=
  match a with
  | L [s; v; n] => match as_scorer s, as_pvotes v, as_nat n with
                   | Some s, Some v, Some n => ok (L (map of_res (minimax s v n)))
                   | _, _, _ => bad_input end
  | _ => bad_input
  end.
Definition u_ranked_pairs (a : sx) : sx :=
  match a with
  | L [s; v; n] => match as_scorer s, as_pvotes v, as_nat n with
                   | Some s, Some v, Some n => of_cres (ranked_pairs s v n)
                   | _, _, _ => bad_input end
  | _ => bad_input
  end.
(* args: (votes n) *)
Definition u_kemeny (a : sx) : sx :=
  match a with
  | L [v; n] => match as_pvotes v, as_nat n with
                | Some v, Some n => of_cres (kemeny v n)
                | _, _ => bad_input end
  | _ => bad_input
  end.

(* ------------------------------------------------------------------ C20 *)
From VL Require Import Model.Validate.

(* pyobj wire: (0 kind id) cand ; (1 n d) number ; (2) None ; (3 items..) tuple ; (4 items..) frozenset ; (5 items..) list
   kind: 0 str 1 person-independent 2 person-with-party 3 party 4 coalition 5 blank *)
Fixpoint as_obj_fuel (f : nat) (s : sx) : option pyobj :=
  match f with
  | O => None
  | S f' =>
      match s with
      | L [A 0; A k; A (Zpos i)] =>
          match k with
          | 0 => Some (OCand KStr i) | 1 => Some (OCand (KPerson false) i) | 2 => Some (OCand (KPerson true) i)
          | 3 => Some (OCand KParty i) | 4 => Some (OCand KCoalition i) | 5 => Some (OCand KBlank i)
          | _ => None
          end
      | L [A 1; A n; A (Zpos d)] => Some (ONum n d)
      | L [A 2] => Some ONone
      | L (A 3 :: items) => match opt_map (as_obj_fuel f') items with Some l => Some (OTuple l) | None => None end
      | L (A 4 :: items) => match opt_map (as_obj_fuel f') items with Some l => Some (OFrozen l) | None => None end
      | L (A 5 :: items) => match opt_map (as_obj_fuel f') items with Some l => Some (OList l) | None => None end
      | _ => None
      end
  end.
Definition as_obj := as_obj_fuel 10.

Definition as_nominator (s : sx) : option nominator :=
  match s with
  | L [A 0; a] => match as_bool a with Some a => Some (NBasic a) | None => None end
  | L [A 1; a; b] => match as_bool a, as_bool b with Some a, Some b => Some (NPerson a b) | _, _ => None end
  | L [A 2; a; b] => match as_bool a, as_bool b with Some a, Some b => Some (NParty a b) | _, _ => None end
  | _ => None
  end.
Definition as_bounds (s : sx) : option bounds :=
  match s with
  | L [lo; hi] => match as_opt as_Q lo, as_opt as_Q hi with Some lo, Some hi => Some (lo, hi) | _, _ => None end
  | _ => None
  end.
Definition as_keyed (s : sx) : option keyed_bounds :=
  match s with
  | L [m; d] => match as_listof (as_pair as_Z as_bounds) m, as_bounds d with
                | Some m, Some d => Some (m, d) | _, _ => None end
  | _ => None
  end.
Definition of_vresult (r : vresult) : sx :=
  match r with VOk => ok (L []) | VVoteError => err E_VOTE | VCandError => err E_CAND | VCrash => err E_TYPE end.

Inductive vcfg :=
| CSimple (nm : nominator)
| CApproval (nm : nominator) (cnt : bounds)
| CRanked (nm : nominator) (tot : bounds) (ranks : keyed_bounds)
| CScore (nm : nominator) (nsc : bounds) (sums : keyed_bounds) (rule : score_rule).

Definition as_vcfg (s : sx) : option vcfg :=
  match s with
  | L [A 0; nm] => match as_nominator nm with Some nm => Some (CSimple nm) | None => None end
  | L [A 1; nm; c] => match as_nominator nm, as_bounds c with Some nm, Some c => Some (CApproval nm c) | _, _ => None end
  | L [A 2; nm; t; r] => match as_nominator nm, as_bounds t, as_keyed r with
                         | Some nm, Some t, Some r => Some (CRanked nm t r) | _, _, _ => None end
  | L [A 3; nm; n; su; L lv] =>
      match as_nominator nm, as_bounds n, as_keyed su, opt_map as_obj lv with
      | Some nm, Some n, Some su, Some lv => Some (CScore nm n su (SEnum lv)) | _, _, _, _ => None end
  | L [A 4; nm; n; su; rb] =>
      match as_nominator nm, as_bounds n, as_keyed su, as_bounds rb with
      | Some nm, Some n, Some su, Some rb => Some (CScore nm n su (SRange rb)) | _, _, _, _ => None end
  | _ => None
  end.

Definition run_validate (c : vcfg) (o : pyobj) : vresult :=
  match c with
  | CSimple nm => validate_simple nm o
  | CApproval nm cnt => validate_approval nm cnt o
  | CRanked nm t r => validate_ranked nm t r o
  | CScore nm n su rule => validate_score nm n su rule o
  end.

(* args: (cfg obj) *)
Definition u_validate (a : sx) : sx :=
  match a with
  | L [c; o] => match as_vcfg c, as_obj o with
                | Some c, Some o => of_vresult (run_validate c o)
                | _, _ => bad_input end
  | _ => bad_input
  end.

(* args: (cfg ((obj count) ...)) -> indices of kept ballots *)
Definition u_eliminate (a : sx) : sx :=
  match a with
  | L [c; vs] => match as_vcfg c, as_dict as_obj as_Z vs with
                 | Some c, Some votes =>
                     match eliminate (run_validate c) votes with
                     | EOk kept => ok (L (map (fun kv => A (snd kv)) kept))
                     | ECandError => err E_CAND
                     | ECrash => err E_TYPE
                     end
                 | _, _ => bad_input end
  | _ => bad_input
  end.

(* ------------------------------------------------------------------ C13 *)
From VL Require Import Prelude.GDict Model.Convert.

Definition as_item (s : sx) : option item :=
  match s with
  | A (Zpos c) => Some (IP c)
  | L l => match opt_map as_pos l with Some l => Some (IS l) | None => None end
  | _ => None
  end.
Definition as_rprofile (s : sx) : option (list (ranked * Q)) := as_dict (as_listof as_item) as_Q s.
Definition as_aprofile (s : sx) : option (list (list C * Q)) := as_dict (as_listof as_pos) as_Q s.
Definition as_sprofile (s : sx) : option (list (sballot * Q)) := as_dict (as_dict as_pos as_Q) as_Q s.
Definition as_scorer_r (s : sx) : option Convert.scorer :=
  match s with
  | L [A 1; A b] => Some (Borda b)
  | L [A 2] => Some Dowdall
  | L [A 3; A b] => Some (Geometric b)
  | L [A 4] => Some ModifiedBorda
  | L [A 5; A t] => Some (FixedTop t)
  | L [A 6; q] => match as_listof as_Q q with Some q => Some (SequenceBased q) | None => None end
  | _ => None
  end.
Definition of_gdict (d : list (sx * Q)) : sx := ok (L (map (fun kv => L [fst kv; of_Q (snd kv)]) d)).
Definition of_ogdict (d : option (list (sx * Q))) : sx := match d with Some d => of_gdict d | None => unmodelled end.

(* args: (kind cfg votes) *)
Definition u_convert (a : sx) : sx :=
  match a with
  | L [A 1; sp; v] => match as_bool sp, as_aprofile v with
                      | Some sp, Some v => of_gdict (dconv (img_approval_simple sp) v) | _, _ => bad_input end
  | L [A 2; _; v] => match as_rprofile v with Some v => of_gdict (dconv img_first v) | None => bad_input end
  | L [A 3; n; v] => match as_nat n, as_rprofile v with
                     | Some n, Some v => of_ogdict (oconv (img_first_n n) v) | _, _ => bad_input end
  | L [A 4; _; v] => match as_rprofile v with Some v => of_gdict (dconv img_presence v) | None => bad_input end
  | L [A 5; _; v] => match as_rprofile v with Some v => of_gdict (dconv img_ranked_approval v) | None => bad_input end
  | L [A 6; sc; v] => match as_scorer_r sc, as_rprofile v with
                      | Some sc, Some v =>
                          match oconv (img_positional sc (length (cands_ranked v))) v with
                          | Some d => of_gdict d
                          | None => err E_VALUE
                          end
                      | _, _ => bad_input end
  | L [A 7; bt; v] => match as_bool bt, as_rprofile v with
                      | Some bt, Some v => of_gdict (dconv (img_condorcet bt (cands_ranked v)) v) | _, _ => bad_input end
  | L [A 8; un; v] => match as_opt as_Q un, as_sprofile v with
                      | Some un, Some v => of_gdict (dconv (img_score_ranked un (cands_score v)) v) | _, _ => bad_input end
  | L [A 9; th; v] => match as_Q th, as_sprofile v with
                      | Some th, Some v => of_gdict (dconv (img_score_approval th) v) | _, _ => bad_input end
  | L [A 10; _; v] => match as_aprofile v with
                      | Some v => of_gdict (dconv (img_inverted_approval (cands_approval v)) v) | None => bad_input end
  | L [A 11; pm; v] => match as_dict as_pos as_Z pm, as_dict as_pos as_Q v with
                       | Some pm, Some v => of_gdict (dconv (img_party pm) v) | _, _ => bad_input end
  | L [A 12; su; v] => match as_listof as_pos su, as_dict as_pos as_Q v with
                       | Some su, Some v => of_gdict (dconv (img_sub_simple su) v) | _, _ => bad_input end
  | L [A 13; su; v] => match as_listof as_pos su, as_aprofile v with
                       | Some su, Some v => of_gdict (dconv (img_sub_approval su) v) | _, _ => bad_input end
  | L [A 14; su; v] => match as_listof as_pos su, as_rprofile v with
                       | Some su, Some v => of_gdict (dconv (img_sub_ranked su) v) | _, _ => bad_input end
  | L [A 15; su; v] => match as_listof as_pos su, as_sprofile v with
                       | Some su, Some v => of_gdict (dconv (img_sub_score su) v) | _, _ => bad_input end
  | _ => bad_input
  end.

(* ------------------------------------------------------------------ C03 / C04 *)
From VL Require Import Model.STV.

Definition of_okey (k : option C) : sx := match k with Some c => of_pos c | None => L [] end.
Definition of_stop (s : option stop) : sx :=
  match s with
  | None => A 0
  | Some S_nie => A E_NIE | Some S_vse => A E_VSE | Some S_runtime => A 16 | Some S_fuel => A E_FUEL
  end.

(* args: ((quota|()) accept_equal mandatory step) votes n prev caps *)
Definition u_stv (a : sx) : sx :=
  match a with
  | L [L [qs; ae; ma; A st]; v; A n; p; c] =>
      let quota := match qs with
                   | L [] => Some None
                   | L [q] => match as_quota q with Some q => Some (Some (quota_fn q)) | None => None end
                   | _ => None end in
      match quota, as_bool ae, as_bool ma, as_rprofile v, as_dict as_pos as_Z p, as_dict as_pos as_Z c with
      | Some quota, Some ae, Some ma, Some votes, Some prev, Some caps =>
          let t := stv (Build_cfg quota ae ma st) votes n prev caps in
          ok (L [L (map (fun ce => L [of_dict of_okey of_Q (fst ce); of_dict of_pos A (snd ce)]) (t_counts t));
                 of_dict of_pos A (t_seats t); of_stop (t_stop t)])
      | _, _, _, _, _, _ => bad_input
      end
  | _ => bad_input
  end.

(* ------------------------------------------------------------------ C12 *)
From VL Require Import Model.Cardinal.

Definition as_zsprofile (s : sx) : option sprofile := as_dict (as_dict as_pos as_Q) as_Z s.
Definition as_score_cfg (s : sx) : option score_cfg :=
  match s with
  | L [A f; u; A mc; tr; bt] =>
      let fn := match f with 0 => Some FMean | 1 => Some FSum | 2 => Some FMedianLow | _ => None end in
      let un := match u with
                | L [] => Some UNone
                | L [q] => match as_Q q with Some q => Some (UConst q) | None => None end
                | A 1 => Some UMin
                | _ => None end in
      match fn, un, as_Q tr, as_Q bt with
      | Some fn, Some un, Some tr, Some bt => Some (Build_score_cfg fn un mc tr bt)
      | _, _, _, _ => None
      end
  | _ => None
  end.
Definition of_serr (e : serr) : sx :=
  match e with
  | SE_zerodiv => err E_ZERODIV | SE_stats => err 14 | SE_key => err E_KEY | SE_value => err E_VALUE
  | SE_nie => err E_NIE | SE_vse => err E_VSE | SE_fuel => err E_FUEL
  end.
Definition of_sres (r : list (res C) + serr) : sx :=
  match r with inl l => ok (L (map of_res l)) | inr e => of_serr e end.

Definition u_pav (a : sx) : sx :=
  match a with
  | L [v; n] => match as_aprofile v, as_nat n with
                | Some v, Some n => match pav v n with AR_ok r => ok (L (map of_res r)) | AR_nie => err E_NIE end
                | _, _ => bad_input end
  | _ => bad_input
  end.
Definition u_spav (a : sx) : sx :=
  match a with
  | L [v; n] => match as_aprofile v, as_nat n with
                | Some v, Some n => match spav v n with Some r => ok (L (map of_pos r)) | None => err E_NIE end
                | _, _ => bad_input end
  | _ => bad_input
  end.
(* args: (cfg votes n) *)
Definition u_score_voting (a : sx) : sx :=
  match a with
  | L [c; v; n] => match as_score_cfg c, as_zsprofile v, as_nat n with
                   | Some c, Some v, Some n => of_sres (score_voting c v n)
                   | _, _, _ => bad_input end
  | _ => bad_input
  end.
(* args: (plus cfg votes n) *)
Definition u_mj (a : sx) : sx :=
  match a with
  | L [p; c; v; n] => match as_bool p, as_score_cfg c, as_zsprofile v, as_nat n with
                      | Some p, Some c, Some v, Some n => of_sres (majority_judgment p c v n)
                      | _, _, _, _ => bad_input end
  | _ => bad_input
  end.
(* args: (cfg votes) -> aggregated simple votes *)
Definition u_score_to_simple (a : sx) : sx :=
  match a with
  | L [c; v] => match as_score_cfg c, as_zsprofile v with
                | Some c, Some v => match score_to_simple c v with
                                    | inl d => ok (of_dict of_pos of_Q d)
                                    | inr e => of_serr e end
                | _, _ => bad_input end
  | _ => bad_input
  end.

(* ------------------------------------------------------------------ C15 *)
From VL Require Import Model.Overhang.

(* evaluator spec: (0 divisor) highest averages | (1) largest remainder, hare *)
Definition oh_eval (ev : sx) (votes : list (C * Q)) (prev : list (C * Z)) (n : Z) : option (list (C * Z)) :=
  match ev with
  | L [A 0; dv] =>
      match as_divisor dv with
      | Some d => match HighestAverages.evaluate d votes n prev [] with
                  | HA_ok gains None => Some gains
                  | _ => None end
      | None => None end
  | L [A 1] =>
      match lr_evaluate Model.Quota.hare true PError votes n prev [] with
      | LR_ok sel => if existsb (fun kv => match fst kv with KT _ => true | _ => false end) sel then None
                     else Some (flat_map (fun kv => match fst kv with K c => [(c, snd kv)] | _ => [] end) sel)
      | _ => None end
  | _ => None
  end.

(* args: (kind evaluator votes n prev) ; kind 0 allow 1 level -> (adj final_gains) *)
Definition u_overhang (a : sx) : sx :=
  match a with
  | L [A k; ev; v; A n; p] =>
      match as_dict as_pos as_Q v, as_dict as_pos as_Z p with
      | Some votes, Some prev =>
          let E := oh_eval ev votes [] in
          let adj := if (k =? 0)%Z then allow_overhang E n prev else level_overhang E 400 n prev in
          match adj with
          | None => unmodelled
          | Some adj =>
              match oh_eval ev votes prev (n + adj) with
              | Some final => ok (L [A adj; of_dict of_pos A final])
              | None => ok (L [A adj; L [A (-1)]])
              end
          end
      | _, _ => bad_input
      end
  | _ => bad_input
  end.
