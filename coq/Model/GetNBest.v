(* Model of votelib.util.sorted_votes and votelib.evaluate.core.get_n_best
   (core.py L104-140).  Executable definitions only; proofs live in
   Proofs/GetNBest_*.v so that the model still runs when a proof breaks. *)
From Coq Require Import List Arith Bool.
Import ListNotations.

Inductive res (C : Type) : Type :=
| Cand (c : C)
| TieR (l : list C).
Arguments Cand {C} c.
Arguments TieR {C} l.

Section GNB.
  Context {C V : Type}.
  Variable leb : V -> V -> bool.          (* x <= y on vote values *)

  Definition eqv (a b : V) : bool := leb a b && leb b a.
  Definition ltb (a b : V) : bool := negb (leb b a).

  (* sorted(items, key=itemgetter(1), reverse=True): stable, descending.
     insertion sort; [x] goes in front of the first element that is <= x,
     so equal keys keep their input order. *)
  Fixpoint insert_desc (x : C * V) (l : list (C * V)) : list (C * V) :=
    match l with
    | [] => [x]
    | y :: t => if leb (snd y) (snd x) then x :: y :: t else y :: insert_desc x t
    end.
  Fixpoint sort_desc (l : list (C * V)) : list (C * V) :=
    match l with
    | [] => []
    | x :: t => insert_desc x (sort_desc t)
    end.

  (* sorted(..., reverse=False): stable ascending *)
  Fixpoint insert_asc (x : C * V) (l : list (C * V)) : list (C * V) :=
    match l with
    | [] => [x]
    | y :: t => if leb (snd x) (snd y) then x :: y :: t else y :: insert_asc x t
    end.
  Fixpoint sort_asc (l : list (C * V)) : list (C * V) :=
    match l with
    | [] => []
    | x :: t => insert_asc x (sort_asc t)
    end.

  (* index of the first item whose value equals thr (n_untied) *)
  Fixpoint first_eq_index (thr : V) (l : list (C * V)) : nat :=
    match l with
    | [] => 0
    | y :: t => if eqv (snd y) thr then 0 else S (first_eq_index thr t)
    end.

  Definition get_n_best (votes : list (C * V)) (n : nat) : list (res C) :=
    let s := sort_desc votes in
    if Nat.ltb n (length s) then
      match nth_error s (n - 1), nth_error s n with
      | Some (_, thr), Some (_, nxt) =>
          if eqv nxt thr then
            let tied := map fst (filter (fun it => eqv (snd it) thr) s) in
            let n_untied := first_eq_index thr s in
            map (fun it => Cand (fst it)) (firstn n_untied s)
              ++ repeat (TieR tied) (n - n_untied)
          else map (fun it => Cand (fst it)) (firstn n s)
      | _, _ => []    (* unreachable: n < length s and 1 <= n *)
      end
    else map (fun it => Cand (fst it)) s.
End GNB.
