(* Wire-level wrappers of property C19: decode arguments from sx, run the model, encode.
   Dispatch.v routes a block of unit numbers here; [k] is the offset inside the block.

   pval wire : (0) None | (1 b) | (2 z) | (3 id) float | (4 (codes)) str | (5 n d) Fraction
               | (6 (codes)) Decimal | (7 (items)) tuple | (8 (items)) frozenset | (9 (items)) list
               | (10 (items)) set | (11 ((k v)..)) dict | (12 (codes) (((codes) v)..)) object
               | (13 (codes)) callable | (14 id) opaque
   jval wire : (0) null | (1 b) | (2 z) | (3 id) | (4 (codes)) | (5 tup (items)) | (6 (((codes) j)..))
   env wire  : (xid_start_codes xid_continue_codes classes callables), classes = (((codes) (names..))..)
   dres wire : (0 pval) | (1 code) | (4)
   line wire : (0 (toks)) with tok (0 n) | (1 q) | (2) ; (1 (codes)) quoted *)
From Coq Require Import ZArith QArith List Bool.
From VL Require Import Prelude.Sx Model.Persist Model.BallotFile.
Import ListNotations.
Open Scope Z_scope.

Definition as_str (s : sx) : option str := as_listof as_Z s.
Definition of_str (s : str) : sx := L (map A s).

(* opt_map with the function outside the fixpoint, so that nested recursive calls are accepted *)
Section OM.
  Context {X Y : Type}.
  Variable f : X -> option Y.
  Fixpoint omap (l : list X) : option (list Y) :=
    match l with
    | [] => Some []
    | x :: t => match f x, omap t with
                | Some y, Some ys => Some (y :: ys)
                | _, _ => None
                end
    end.
End OM.

Fixpoint pval_of_sx (s : sx) : option pval :=
  match s with
  | L [A 0] => Some PNone
  | L [A 1; b] => option_map PBool (as_bool b)
  | L [A 2; A z] => Some (PInt z)
  | L [A 3; A i] => Some (PFloat i)
  | L [A 4; c] => option_map PStr (as_str c)
  | L [A 5; A n; A (Zpos d)] => Some (PFrac n d)
  | L [A 6; c] => option_map PDec (as_str c)
  | L [A 7; L l] => option_map PTuple (omap (fun x => pval_of_sx x) l)
  | L [A 8; L l] => option_map PFrozenset (omap (fun x => pval_of_sx x) l)
  | L [A 9; L l] => option_map PList (omap (fun x => pval_of_sx x) l)
  | L [A 10; L l] => option_map PSet (omap (fun x => pval_of_sx x) l)
  | L [A 11; L l] =>
      option_map PDict (omap (fun kv => match kv with
                                           | L [k; v] => match pval_of_sx k, pval_of_sx v with
                                                         | Some k', Some v' => Some (k', v')
                                                         | _, _ => None end
                                           | _ => None end) l)
  | L [A 12; c; L l] =>
      match as_str c, omap (fun kv => match kv with
                                         | L [k; v] => match as_str k, pval_of_sx v with
                                                       | Some k', Some v' => Some (k', v')
                                                       | _, _ => None end
                                         | _ => None end) l with
      | Some c', Some ps => Some (PObj c' ps)
      | _, _ => None
      end
  | L [A 13; c] => option_map PCallable (as_str c)
  | L [A 14; A i] => Some (POpaque i)
  | _ => None
  end.

Fixpoint sx_of_pval (v : pval) : sx :=
  match v with
  | PNone => L [A 0]
  | PBool b => L [A 1; of_bool b]
  | PInt z => L [A 2; A z]
  | PFloat i => L [A 3; A i]
  | PStr s => L [A 4; of_str s]
  | PFrac n d => L [A 5; A n; A (Zpos d)]
  | PDec s => L [A 6; of_str s]
  | PTuple l => L [A 7; L (map sx_of_pval l)]
  | PFrozenset l => L [A 8; L (map sx_of_pval l)]
  | PList l => L [A 9; L (map sx_of_pval l)]
  | PSet l => L [A 10; L (map sx_of_pval l)]
  | PDict d => L [A 11; L (map (fun kv => match kv with (k, x) => L [sx_of_pval k; sx_of_pval x] end) d)]
  | PObj c ps => L [A 12; of_str c; L (map (fun kv => match kv with (k, x) => L [of_str k; sx_of_pval x] end) ps)]
  | PCallable n => L [A 13; of_str n]
  | POpaque i => L [A 14; A i]
  end.

Fixpoint jval_of_sx (s : sx) : option jval :=
  match s with
  | L [A 0] => Some JNull
  | L [A 1; b] => option_map JBool (as_bool b)
  | L [A 2; A z] => Some (JInt z)
  | L [A 3; A i] => Some (JFloat i)
  | L [A 4; c] => option_map JStr (as_str c)
  | L [A 5; t; L l] =>
      match as_bool t, omap (fun x => jval_of_sx x) l with
      | Some t', Some js => Some (JList t' js)
      | _, _ => None
      end
  | L [A 6; L l] =>
      option_map JDict (omap (fun kv => match kv with
                                           | L [k; v] => match as_str k, jval_of_sx v with
                                                         | Some k', Some v' => Some (k', v')
                                                         | _, _ => None end
                                           | _ => None end) l)
  | _ => None
  end.

Fixpoint sx_of_jval (j : jval) : sx :=
  match j with
  | JNull => L [A 0]
  | JBool b => L [A 1; of_bool b]
  | JInt z => L [A 2; A z]
  | JFloat i => L [A 3; A i]
  | JStr s => L [A 4; of_str s]
  | JList t l => L [A 5; of_bool t; L (map sx_of_jval l)]
  | JDict d => L [A 6; L (map (fun kv => match kv with (k, x) => L [of_str k; sx_of_jval x] end) d)]
  end.

Definition sx_of_dres (r : dres) : sx :=
  match r with
  | DOk v => L [A 0; sx_of_pval v]
  | DErr e => L [A 1; A e]
  | DUn => L [A 4]
  end.

(* characters a decimal literal is made of: digits . E e + - and the letters of Infinity / NaN / sNaN *)
Definition dec_char (c : Z) : bool :=
  ((48 <=? c) && (c <=? 57)) || existsb (Z.eqb c) [46; 69; 101; 43; 45; 73; 110; 102; 105; 116; 121; 78; 97; 115].

Definition strs_mem (s : str) (l : list str) : bool := existsb (str_eqb s) l.

Definition env_of_sx (s : sx) : option env :=
  match s with
  | L [st; ct; cls; cal] =>
      match as_listof as_Z st, as_listof as_Z ct,
            as_listof (as_pair as_str (as_listof as_str)) cls, as_listof as_str cal with
      | Some st', Some ct', Some cls', Some cal' =>
          Some {| xid_start := fun c => existsb (Z.eqb c) st';
                  xid_continue := fun c => existsb (Z.eqb c) ct';
                  (* the harness sends canonical decimal strings, or strings with a foreign character *)
                  dec_canon := fun d => match d with
                                        | [] => None
                                        | _ => if forallb dec_char d then Some d else None
                                        end;
                  class_exists := fun c => existsb (fun e => str_eqb c (fst e)) cls';
                  class_accepts := fun c names =>
                    existsb (fun e => str_eqb c (fst e) && forallb (fun n => strs_mem n (snd e)) names) cls';
                  callable_resolves := fun n => strs_mem n cal' |}
      | _, _, _, _ => None
      end
  | _ => None
  end.

(* ---- ballot files *)
Definition tok_of_sx (s : sx) : option tok :=
  match s with
  | L [A 0; A n] => Some (TNat n)
  | L [A 1; q] => option_map TNum (as_Q q)
  | L [A 2] => Some TBad
  | _ => None
  end.
Definition line_of_sx (s : sx) : option line :=
  match s with
  | L [A 0; ts] => option_map LToks (as_listof tok_of_sx ts)
  | L [A 1; c] => option_map LQuoted (as_str c)
  | _ => None
  end.
Definition sx_of_tok (t : tok) : sx :=
  match t with TNat n => L [A 0; A n] | TNum q => L [A 1; of_Q q] | TBad => L [A 2] end.
Definition sx_of_line (l : line) : sx :=
  match l with LToks ts => L [A 0; L (map sx_of_tok ts)] | LQuoted s => L [A 1; of_str s] end.

Definition cand_of_sx (s : sx) : option cand :=
  match s with
  | L [A (Zpos i); nm; w] => match as_str nm, as_bool w with
                             | Some n, Some b => Some (i, n, b)
                             | _, _ => None end
  | _ => None
  end.
Definition election_of_sx (s : sx) : option election :=
  match s with
  | L [votes; A seats; cands; title] =>
      match as_listof (as_pair (as_listof as_pos) as_Q) votes, as_listof cand_of_sx cands,
            match title with L [] => Some None | L [t] => option_map Some (as_str t) | _ => None end with
      | Some v, Some c, Some t => Some (v, seats, c, t)
      | _, _, _ => None
      end
  | _ => None
  end.

Definition sx_of_loaded (r : loaded) : sx :=
  match r with
  | (ballots, seats, cands, title) =>
      L [L (map (fun rw => L [L (map A (fst rw)); of_Q (snd rw)]) ballots); A seats;
         L (map (fun cw => L [match fst cw with Named s => L [A 0; of_str s] | Numbered n => L [A 1; A n] end;
                              of_bool (snd cw)]) cands);
         match title with Some t => L [of_str t] | None => L [] end]
  end.
Definition sx_of_lres (r : lres loaded) : sx :=
  match r with
  | Ok x => ok (sx_of_loaded x)
  | ParseError => err E_PARSE
  | Crash e => err e
  end.

Definition u_c19 (k : Z) (a : sx) : sx :=
  match k with
  | 0 =>   (* (env value) -> saving, then loading directly and through JSON text *)
      match a with
      | L [e; v] =>
          match env_of_sx e, pval_of_sx v with
          | Some E, Some pv =>
              match serialize_value pv with
              | SErr => err Persist.E_VALUE
              | SOk j => ok (L [sx_of_jval j; sx_of_dres (deserialize_value E j);
                                sx_of_dres (deserialize_value E (json_rt j));
                                of_bool (representable E pv); sx_of_dres (from_dict E (json_rt j))])
              end
          | _, _ => bad_input
          end
      | _ => bad_input
      end
  | 1 =>   (* (env json) -> deserialize_value, from_dict *)
      match a with
      | L [e; j] =>
          match env_of_sx e, jval_of_sx j with
          | Some E, Some jv => ok (L [sx_of_dres (deserialize_value E jv); sx_of_dres (from_dict E jv)])
          | _, _ => bad_input
          end
      | _ => bad_input
      end
  | 2 =>   (* (pinned oneplus election) -> written lines, what loading them gives, what is expected *)
      match a with
      | L [p; o; e] =>
          match as_bool p, as_bool o, election_of_sx e with
          | Some p', Some o', Some el =>
              match dump_lines p' el with
              | DumpRefuse => L [A 5]
              | DumpOk ls =>
                  ok (L [L (map sx_of_line ls); sx_of_lres (load_lines p' o' ls);
                         match expected el with Some x => sx_of_loaded x | None => L [] end;
                         of_bool (wf_election el)])
              end
          | _, _, _ => bad_input
          end
      | _ => bad_input
      end
  | 3 =>   (* (pinned oneplus lines) -> load_lines *)
      match a with
      | L [p; o; ls] =>
          match as_bool p, as_bool o, as_listof line_of_sx ls with
          | Some p', Some o', Some ls' => sx_of_lres (load_lines p' o' ls')
          | _, _, _ => bad_input
          end
      | _ => bad_input
      end
  | _ => bad_input
  end.
