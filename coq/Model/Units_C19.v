(* Wire-level wrappers of property C19: decode arguments from sx, run the model, encode.
   Dispatch.v routes a block of unit numbers here; [k] is the offset inside the block.

   pval wire : (0) None | (1 b) | (2 z) | (3 id) float | (4 (codes)) str | (5 n d) Fraction
               | (6 (codes)) Decimal | (7 (items)) tuple | (8 (items)) frozenset | (9 (items)) list
               | (10 (items)) set | (11 ((k v)..)) dict | (12 (codes) (((codes) v)..)) object
               | (13 (codes)) callable | (14 id) opaque
   jval wire : (0) null | (1 b) | (2 z) | (3 id) | (4 (codes)) | (5 tup (items)) | (6 (((codes) j)..))
   env wire  : (xid_start_codes xid_continue_codes classes callables), classes = (((codes) (names..))..)
   dres wire : (0 pval) | (1 code) | (4)
   line wire : (0 (toks)) with tok (0 n) | (1 q) | (2) ; (1 (codes)) quoted
   STV (Model/StvFile.v, units 174-175):
   uenv wire    : (((c isdigit dec isword (lower codes))..) (((codes) q)..))   dec = -1: not a decimal digit;
                  a code point >= 128 that is not listed is no digit, no word character and lowers to itself
   election wire: (votes sys cands seats output_method), votes = (((ids) w)..) with w = (0 q) | (1 (codes)),
                  sys = (0) | (1 name ev) | (2 ev), name / seats = () | (x),
                  ev = (0 unknown) | (1 dist retainer elim gregory qf mandatory) | (2 main tb) | (3 ev n),
                  qf = (0 (codes)) | (1 n) | (2), tb = (0 simple inner) | (1 number_ranker) | (2) | (2 seed) | (3)
   stv_loaded   : (votes name ev cands), votes = ((((codes) position withdrawn)..) q) *)
From Coq Require Import ZArith QArith List Bool.
From VL Require Import Prelude.Sx Model.Persist Model.BallotFile Model.StvFile.
Import ListNotations.
Open Scope Z_scope.

Definition as_str (s : sx) : option str := as_listof as_Z s.
Definition of_str (s : str) : sx := L (map A s).

(* opt_map with the function outside the fixpoint, so that nested recursive calls are accepted *)
Section OM.
  Context {X Y : Type}.
  Variable f : X -> option Y.
  Fixpoint omap (l : list X) : option (list Y) :=
    match l with
    | [] => Some []
    | x :: t => match f x, omap t with
                | Some y, Some ys => Some (y :: ys)
                | _, _ => None
                end
    end.
End OM.

Fixpoint pval_of_sx (s : sx) : option pval :=
  match s with
  | L [A 0] => Some PNone
  | L [A 1; b] => option_map PBool (as_bool b)
  | L [A 2; A z] => Some (PInt z)
  | L [A 3; A i] => Some (PFloat i)
  | L [A 4; c] => option_map PStr (as_str c)
  | L [A 5; A n; A (Zpos d)] => Some (PFrac n d)
  | L [A 6; c] => option_map PDec (as_str c)
  | L [A 7; L l] => option_map PTuple (omap (fun x => pval_of_sx x) l)
  | L [A 8; L l] => option_map PFrozenset (omap (fun x => pval_of_sx x) l)
  | L [A 9; L l] => option_map PList (omap (fun x => pval_of_sx x) l)
  | L [A 10; L l] => option_map PSet (omap (fun x => pval_of_sx x) l)
  | L [A 11; L l] =>
      option_map PDict (omap (fun kv => match kv with
                                           | L [k; v] => match pval_of_sx k, pval_of_sx v with
                                                         | Some k', Some v' => Some (k', v')
                                                         | _, _ => None end
                                           | _ => None end) l)
  | L [A 12; c; L l] =>
      match as_str c, omap (fun kv => match kv with
                                         | L [k; v] => match as_str k, pval_of_sx v with
                                                       | Some k', Some v' => Some (k', v')
                                                       | _, _ => None end
                                         | _ => None end) l with
      | Some c', Some ps => Some (PObj c' ps)
      | _, _ => None
      end
  | L [A 13; c] => option_map PCallable (as_str c)
  | L [A 14; A i] => Some (POpaque i)
  | _ => None
  end.

Fixpoint sx_of_pval (v : pval) : sx :=
  match v with
  | PNone => L [A 0]
  | PBool b => L [A 1; of_bool b]
  | PInt z => L [A 2; A z]
  | PFloat i => L [A 3; A i]
  | PStr s => L [A 4; of_str s]
  | PFrac n d => L [A 5; A n; A (Zpos d)]
  | PDec s => L [A 6; of_str s]
  | PTuple l => L [A 7; L (map sx_of_pval l)]
  | PFrozenset l => L [A 8; L (map sx_of_pval l)]
  | PList l => L [A 9; L (map sx_of_pval l)]
  | PSet l => L [A 10; L (map sx_of_pval l)]
  | PDict d => L [A 11; L (map (fun kv => match kv with (k, x) => L [sx_of_pval k; sx_of_pval x] end) d)]
  | PObj c ps => L [A 12; of_str c; L (map (fun kv => match kv with (k, x) => L [of_str k; sx_of_pval x] end) ps)]
  | PCallable n => L [A 13; of_str n]
  | POpaque i => L [A 14; A i]
  end.

Fixpoint jval_of_sx (s : sx) : option jval :=
  match s with
  | L [A 0] => Some JNull
  | L [A 1; b] => option_map JBool (as_bool b)
  | L [A 2; A z] => Some (JInt z)
  | L [A 3; A i] => Some (JFloat i)
  | L [A 4; c] => option_map JStr (as_str c)
  | L [A 5; t; L l] =>
      match as_bool t, omap (fun x => jval_of_sx x) l with
      | Some t', Some js => Some (JList t' js)
      | _, _ => None
      end
  | L [A 6; L l] =>
      option_map JDict (omap (fun kv => match kv with
                                           | L [k; v] => match as_str k, jval_of_sx v with
                                                         | Some k', Some v' => Some (k', v')
                                                         | _, _ => None end
                                           | _ => None end) l)
  | _ => None
  end.

Fixpoint sx_of_jval (j : jval) : sx :=
  match j with
  | JNull => L [A 0]
  | JBool b => L [A 1; of_bool b]
  | JInt z => L [A 2; A z]
  | JFloat i => L [A 3; A i]
  | JStr s => L [A 4; of_str s]
  | JList t l => L [A 5; of_bool t; L (map sx_of_jval l)]
  | JDict d => L [A 6; L (map (fun kv => match kv with (k, x) => L [of_str k; sx_of_jval x] end) d)]
  end.

Definition sx_of_dres (r : dres) : sx :=
  match r with
  | DOk v => L [A 0; sx_of_pval v]
  | DErr e => L [A 1; A e]
  | DUn => L [A 4]
  end.

(* characters a decimal literal is made of: digits . E e + - and the letters of Infinity / NaN / sNaN *)
Definition dec_char (c : Z) : bool :=
  ((48 <=? c) && (c <=? 57)) || existsb (Z.eqb c) [46; 69; 101; 43; 45; 73; 110; 102; 105; 116; 121; 78; 97; 115].

Definition strs_mem (s : str) (l : list str) : bool := existsb (str_eqb s) l.

Definition env_of_sx (s : sx) : option env :=
  match s with
  | L [st; ct; cls; cal] =>
      match as_listof as_Z st, as_listof as_Z ct,
            as_listof (as_pair as_str (as_listof as_str)) cls, as_listof as_str cal with
      | Some st', Some ct', Some cls', Some cal' =>
          Some {| xid_start := fun c => existsb (Z.eqb c) st';
                  xid_continue := fun c => existsb (Z.eqb c) ct';
                  (* the harness sends canonical decimal strings, or strings with a foreign character *)
                  dec_canon := fun d => match d with
                                        | [] => None
                                        | _ => if forallb dec_char d then Some d else None
                                        end;
                  class_exists := fun c => existsb (fun e => str_eqb c (fst e)) cls';
                  class_accepts := fun c names =>
                    existsb (fun e => str_eqb c (fst e) && forallb (fun n => strs_mem n (snd e)) names) cls';
                  callable_resolves := fun n => strs_mem n cal' |}
      | _, _, _, _ => None
      end
  | _ => None
  end.

(* ---- ballot files *)
Definition tok_of_sx (s : sx) : option tok :=
  match s with
  | L [A 0; A n] => Some (TNat n)
  | L [A 1; q] => option_map TNum (as_Q q)
  | L [A 2] => Some TBad
  | _ => None
  end.
Definition line_of_sx (s : sx) : option line :=
  match s with
  | L [A 0; ts] => option_map LToks (as_listof tok_of_sx ts)
  | L [A 1; c] => option_map LQuoted (as_str c)
  | _ => None
  end.
Definition sx_of_tok (t : tok) : sx :=
  match t with TNat n => L [A 0; A n] | TNum q => L [A 1; of_Q q] | TBad => L [A 2] end.
Definition sx_of_line (l : line) : sx :=
  match l with LToks ts => L [A 0; L (map sx_of_tok ts)] | LQuoted s => L [A 1; of_str s] end.

Definition cand_of_sx (s : sx) : option cand :=
  match s with
  | L [A (Zpos i); nm; w] => match as_str nm, as_bool w with
                             | Some n, Some b => Some (i, n, b)
                             | _, _ => None end
  | _ => None
  end.
Definition election_of_sx (s : sx) : option election :=
  match s with
  | L [votes; A seats; cands; title] =>
      match as_listof (as_pair (as_listof as_pos) as_Q) votes, as_listof cand_of_sx cands,
            match title with L [] => Some None | L [t] => option_map Some (as_str t) | _ => None end with
      | Some v, Some c, Some t => Some (v, seats, c, t)
      | _, _, _ => None
      end
  | _ => None
  end.

Definition sx_of_loaded (r : loaded) : sx :=
  match r with
  | (ballots, seats, cands, title) =>
      L [L (map (fun rw => L [L (map A (fst rw)); of_Q (snd rw)]) ballots); A seats;
         L (map (fun cw => L [match fst cw with Named s => L [A 0; of_str s] | Numbered n => L [A 1; A n] end;
                              of_bool (snd cw)]) cands);
         match title with Some t => L [of_str t] | None => L [] end]
  end.
Definition sx_of_lres (r : lres loaded) : sx :=
  match r with
  | Ok x => ok (sx_of_loaded x)
  | ParseError => err E_PARSE
  | Crash e => err e
  end.

(* ---- STV files (character level) *)
Definition uchar_of_sx (s : sx) : option (Z * (bool * Z * bool * str)) :=
  match s with
  | L [A c; dg; A dv; w; lo] =>
      match as_bool dg, as_bool w, as_str lo with
      | Some dg', Some w', Some lo' => Some (c, (dg', dv, w', lo'))
      | _, _, _ => None
      end
  | _ => None
  end.
Definition uenv_of_sx (s : sx) : option uenv :=
  match s with
  | L [ucs; decs] =>
      match as_listof uchar_of_sx ucs, as_listof (as_pair as_str as_Q) decs with
      | Some t, Some d =>
          let get := fun c => aget Z.eqb t c in
          Some {| udec := fun c => match get c with Some (_, dv, _, _) => if dv <? 0 then None else Some dv | None => None end;
                  udigit := fun c => match get c with Some (dg, _, _, _) => dg | None => false end;
                  uword := fun c => match get c with Some (_, _, w, _) => w | None => false end;
                  ulower := fun c => match get c with Some (_, _, _, lo) => lo | None => [c] end;
                  dec_val := fun x => aget str_eqb d x |}
      | _, _ => None
      end
  | _ => None
  end.

Definition weight_of_sx (s : sx) : option weight :=
  match s with
  | L [A 0; q] => option_map WQ (as_Q q)
  | L [A 1; c] => option_map WDec (as_str c)
  | _ => None
  end.
Definition qfun_of_sx (s : sx) : option qfun :=
  match s with
  | L [A 0; c] => option_map QNamed (as_str c)
  | L [A 1; A n] => Some (QConst n)
  | L [A 2] => Some QNameless
  | _ => None
  end.
Fixpoint tbk_of_sx (s : sx) : option tbk :=
  match s with
  | L [A 0; b; i] => match as_bool b, tbk_of_sx i with Some b', Some i' => Some (TbPre b' i') | _, _ => None end
  | L [A 1; b] => option_map TbOrder (as_bool b)
  | L [A 2] => Some (TbSort None)
  | L [A 2; A n] => Some (TbSort (Some n))
  | L [A 3] => Some TbOther
  | _ => None
  end.
Fixpoint ev_of_sx (s : sx) : option ev :=
  match s with
  | L [A 0; b] => option_map EvOther (as_bool b)
  | L [A 1; d; r; A el; g; q; m] =>
      match as_bool d, as_bool r, as_bool g, qfun_of_sx q, as_bool m with
      | Some d', Some r', Some g', Some q', Some m' => Some (EvTV d' r' el g' q' m')
      | _, _, _, _, _ => None
      end
  | L [A 2; m; t] => match ev_of_sx m, tbk_of_sx t with Some m', Some t' => Some (EvTie m' t') | _, _ => None end
  | L [A 3; e; A n] => option_map (fun e' => EvFixed e' n) (ev_of_sx e)
  | _ => None
  end.
Definition optstr_of_sx (s : sx) : option (option str) :=
  match s with L [] => Some None | L [t] => option_map Some (as_str t) | _ => None end.
Definition sysarg_of_sx (s : sx) : option sysarg :=
  match s with
  | L [A 0] => Some SysNone
  | L [A 1; nm; e] => match optstr_of_sx nm, ev_of_sx e with Some n, Some e' => Some (SysVS n e') | _, _ => None end
  | L [A 2; e] => option_map SysEv (ev_of_sx e)
  | _ => None
  end.
Definition stv_election_of_sx (s : sx) : option stv_election :=
  match s with
  | L [votes; sys; cands; seats; om] =>
      match as_listof (as_pair (as_listof as_pos) weight_of_sx) votes, sysarg_of_sx sys, as_listof cand_of_sx cands,
            match seats with L [] => Some None | L [A n] => Some (Some n) | _ => None end, as_bool om with
      | Some v, Some sy, Some c, Some se, Some o =>
          Some {| e_votes := v; e_system := sy; e_cands := c; e_seats := se; e_output_method := o |}
      | _, _, _, _, _ => None
      end
  | _ => None
  end.

Definition sx_of_qfun (q : qfun) : sx :=
  match q with QNamed s => L [A 0; of_str s] | QConst n => L [A 1; A n] | QNameless => L [A 2] end.
Fixpoint sx_of_tbk (t : tbk) : sx :=
  match t with
  | TbPre b i => L [A 0; of_bool b; sx_of_tbk i]
  | TbOrder b => L [A 1; of_bool b]
  | TbSort None => L [A 2]
  | TbSort (Some n) => L [A 2; A n]
  | TbOther => L [A 3]
  end.
Fixpoint sx_of_ev (e : ev) : sx :=
  match e with
  | EvOther b => L [A 0; of_bool b]
  | EvTV d r el g q m => L [A 1; of_bool d; of_bool r; A el; of_bool g; sx_of_qfun q; of_bool m]
  | EvTie m t => L [A 2; sx_of_ev m; sx_of_tbk t]
  | EvFixed e' n => L [A 3; sx_of_ev e'; A n]
  end.
Definition sx_of_optstr (o : option str) : sx := match o with Some t => L [of_str t] | None => L [] end.
Definition sx_of_stv_loaded (x : stv_loaded) : sx :=
  let desc := fun p => match nth_error (l_pool x) (Z.to_nat (p - 1)) with
                       | Some (nm, wd) => if 1 <=? p then L [of_str nm; A p; of_bool wd] else L []
                       | None => L []
                       end in
  L [L (map (fun rw => L [L (map desc (fst rw)); of_Q (snd rw)]) (l_votes x));
     sx_of_optstr (fst (l_system x)); sx_of_ev (snd (l_system x));
     L (map (fun cw => L [of_str (fst cw); of_bool (snd cw)]) (l_cands x))].
Definition sx_of_stv_lres (r : lres stv_loaded) : sx :=
  match r with
  | Ok x => ok (sx_of_stv_loaded x)
  | ParseError => err E_PARSE
  | Crash e => err e
  end.

(* what votelib.io.blt.load_lines answered on a suffix of the lines (computed by the harness) *)
Definition cname_of_sx (s : sx) : option cname :=
  match s with
  | L [A 0; c] => option_map Named (as_str c)
  | L [A 1; A n] => Some (Numbered n)
  | _ => None
  end.
Definition bloaded_of_sx (s : sx) : option (lres BallotFile.loaded) :=
  match s with
  | L [A 0; L [b; A seats; c; t]] =>
      match as_listof (as_pair (as_listof as_Z) as_Q) b, as_listof (as_pair cname_of_sx as_bool) c, optstr_of_sx t with
      | Some b', Some c', Some t' => Some (Ok (b', seats, c', t'))
      | _, _, _ => None
      end
  | L [A 1; A e] => Some (if e =? E_PARSE then ParseError else Crash e)
  | _ => None
  end.
Definition blt_table_of_sx (s : sx) : option (list str -> lres BallotFile.loaded) :=
  match as_listof (as_pair as_Z bloaded_of_sx) s with
  | Some t => Some (fun rest => match aget Z.eqb t (Z.of_nat (length rest)) with Some r => r | None => Crash E_OTHER end)
  | None => None
  end.

Definition u_c19 (k : Z) (a : sx) : sx :=
  match k with
  | 0 =>   (* (pinned env value) -> saving (pinned: the tree before fixes/C19-persist-rejects.diff), then loading directly and
              through JSON text; representable, from_dict, loadable, wf_value *)
      match a with
      | L [p; e; v] =>
          match as_bool p, env_of_sx e, pval_of_sx v with
          | Some p', Some E, Some pv =>
              match (if p' then serialize_value_pinned pv else serialize_value E pv) with
              | SErr => err Persist.E_VALUE
              | SOk j => ok (L [sx_of_jval j; sx_of_dres (deserialize_value E j);
                                sx_of_dres (deserialize_value E (json_rt j));
                                of_bool (representable E pv); sx_of_dres (from_dict E (json_rt j));
                                of_bool (loadable E pv); of_bool (wf_value E pv)])
              end
          | _, _, _ => bad_input
          end
      | _ => bad_input
      end
  | 1 =>   (* (env json) -> deserialize_value, from_dict *)
      match a with
      | L [e; j] =>
          match env_of_sx e, jval_of_sx j with
          | Some E, Some jv => ok (L [sx_of_dres (deserialize_value E jv); sx_of_dres (from_dict E jv)])
          | _, _ => bad_input
          end
      | _ => bad_input
      end
  | 2 =>   (* (pinned oneplus election) -> written lines, what loading them gives, what is expected *)
      match a with
      | L [p; o; e] =>
          match as_bool p, as_bool o, election_of_sx e with
          | Some p', Some o', Some el =>
              match dump_lines p' el with
              | DumpRefuse => L [A 5]
              | DumpOk ls =>
                  ok (L [L (map sx_of_line ls); sx_of_lres (load_lines p' o' ls);
                         match expected el with Some x => sx_of_loaded x | None => L [] end;
                         of_bool (wf_election el)])
              end
          | _, _, _ => bad_input
          end
      | _ => bad_input
      end
  | 3 =>   (* (pinned oneplus lines) -> load_lines *)
      match a with
      | L [p; o; ls] =>
          match as_bool p, as_bool o, as_listof line_of_sx ls with
          | Some p', Some o', Some ls' => sx_of_lres (load_lines p' o' ls')
          | _, _, _ => bad_input
          end
      | _ => bad_input
      end
  | 4 =>   (* (legacy uenv election) -> STV text written, what loading it gives, what is expected, wf *)
      match a with
      | L [lg; e; el] =>
          match as_bool lg, uenv_of_sx e, stv_election_of_sx el with
          | Some lg', Some E, Some x =>
              match stv_dump_lines E lg' x with
              | WRefuse => L [A 5]
              | WCrash c => err c
              | WOk ls =>
                  ok (L [L (map of_str ls);
                         sx_of_stv_lres (stv_loads E lg' (fun _ => ParseError) (dumps_text ls));
                         match stv_expected E x with Some y => L [sx_of_stv_loaded y] | None => L [] end;
                         of_bool (stv_wf E x)])
              end
          | _, _, _ => bad_input
          end
      | _ => bad_input
      end
  | 5 =>   (* (legacy uenv blt-table lines) -> stv load_lines *)
      match a with
      | L [lg; e; bt; ls] =>
          match as_bool lg, uenv_of_sx e, blt_table_of_sx bt, as_listof as_str ls with
          | Some lg', Some E, Some bl, Some ls' => sx_of_stv_lres (stv_load_lines E lg' bl ls')
          | _, _, _, _ => bad_input
          end
      | _ => bad_input
      end
  | 6 =>   (* the closed tables of Model/StvFile.v: white space, quota registry, quotas the writer supports *)
      ok (L [L (map A spaces); L (map of_str quota_names); L (map of_str supported_quotas)])
  | _ => bad_input
  end.
