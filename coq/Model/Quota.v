(* Hand-written twins of votelib/component/quota.py in textbook form
   (tie: Props/GenTie_Quota.v proves them equal to the generated Gen/Quota.v
   for votes >= 0, seats >= 1). *)
From Coq Require Import ZArith QArith Qround.
Open Scope Q_scope.

Definition qfloor (x : Q) : Q := inject_Z (Qfloor x).
Definition qceil (x : Q) : Q := inject_Z (Qceiling x).
Definition round_half_up (x : Q) : Q := qfloor (x + (1 # 2)).

Definition hare (v : Q) (s : Z) : Q := v / inject_Z s.
Definition hare_rounded (v : Q) (s : Z) : Q := round_half_up (v / inject_Z s).
Definition droop (v : Q) (s : Z) : Q := qfloor (v / inject_Z (s + 1)) + 1.
Definition hagenbach_bischoff (v : Q) (s : Z) : Q := v / inject_Z (s + 1).
Definition hagenbach_bischoff_ceil (v : Q) (s : Z) : Q := qceil (v / inject_Z (s + 1)).
Definition hagenbach_bischoff_rounded (v : Q) (s : Z) : Q := round_half_up (v / inject_Z (s + 1)).
Definition imperiali (v : Q) (s : Z) : Q := v / inject_Z (s + 2).

(* quota spec on the wire: (id) for the named ones, (0 value) for constant(value)
   1 hare 2 hare_rounded 3 droop 4 hagenbach_bischoff 5 hb_ceil 6 hb_rounded 7 imperiali *)
Inductive quota_spec := QNamed (i : Z) | QConst (q : Q).
Definition quota_fn (qs : quota_spec) (v : Q) (s : Z) : Q :=
  match qs with
  | QConst q => q
  | QNamed i =>
      if (i =? 1)%Z then hare v s else if (i =? 2)%Z then hare_rounded v s
      else if (i =? 3)%Z then droop v s else if (i =? 4)%Z then hagenbach_bischoff v s
      else if (i =? 5)%Z then hagenbach_bischoff_ceil v s
      else if (i =? 6)%Z then hagenbach_bischoff_rounded v s else imperiali v s
  end.
