(* Models of the seat-count adjusters of votelib/evaluate/core.py:
   AllowOverhang.calculate (L555-563), LevelOverhang.calculate (L609-627, with the
   .get(party, 0) repair) and AdjustedSeatCount.evaluate (L502-510), over an abstract
   proportional evaluator E : house size -> distribution. *)
From Coq Require Import ZArith QArith List Bool.
From VL Require Import Prelude.PyDict.
Import ListNotations.
Open Scope Z_scope.

Section OH.
  (* E n = Some distribution | None = the evaluator refuses / reports a tie (not modelled further) *)
  Variable E : Z -> option (list (C * Z)).

  Definition allow_overhang (n : Z) (prev : list (C * Z)) : option Z :=
    match E n with
    | None => None
    | Some prop =>
        Some (fold_left (fun adj cp => let pc := dget_or prop (fst cp) 0 in
                                       if pc <? snd cp then adj + (snd cp - pc) else adj) prev 0)
    end.

  Definition satisfied (pmins : list (C * Z)) (prop : list (C * Z)) : bool :=
    forallb (fun pm => negb (dget_or prop (fst pm) 0 <? snd pm)) pmins.

  Fixpoint level_loop (fuel : nat) (pmins : list (C * Z)) (adj : Z) (prop : list (C * Z)) : option Z :=
    if satisfied pmins prop then Some adj else
    match fuel with
    | O => None
    | S f => match E (adj + 1) with
             | None => None
             | Some prop' => level_loop f pmins (adj + 1) prop'
             end
    end.

  Definition lowest_allowed (prop prev : list (C * Z)) : list (C * Z) :=
    map (fun pg => (fst pg, Z.max (dget_or prev (fst pg) 0) (snd pg))) prop.
  Definition nonprop_drop (lowest prev : list (C * Z)) : Z :=
    fold_left (fun d cp => if dmem lowest (fst cp) then d else d + snd cp) prev 0.

  Definition level_overhang (fuel : nat) (n : Z) (prev : list (C * Z)) : option Z :=
    match E n with
    | None => None
    | Some prop =>
        let lowest := lowest_allowed prop prev in
        let drop := nonprop_drop lowest prev in
        match level_loop fuel lowest (n - drop) prop with
        | Some adj => Some (adj + drop - n)
        | None => None
        end
    end.
End OH.
