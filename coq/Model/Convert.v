(* Models of the vote converters of votelib/convert.py (and the subsetters of
   vote.py L583-658, the rank scorers of component/rankscore.py): each converter is
   the accumulating fold [conv image] over a per-ballot image.  Keys of the output
   dictionaries are wire values (candidate = A c, frozenset = sorted L, pair = L [a; b],
   ranked ballot = L items). *)
From Coq Require Import ZArith QArith List Bool Arith.
From VL Require Import Prelude.Sx Prelude.PyDict Prelude.GDict Model.GetNBest.
Import ListNotations.

Inductive item := IP (c : C) | IS (l : list C).        (* plain rank / shared rank (frozenset) *)
Definition ranked := list item.

Definition kc (c : C) : sx := A (Zpos c).
Definition kset (l : list C) : sx := L (map kc l).
Definition kitem (i : item) : sx := match i with IP c => kc c | IS l => kset l end.
Definition kranked (r : ranked) : sx := L (map kitem r).

(* canonical (sorted, duplicate-free) candidate lists stand for frozensets *)
Fixpoint insert_c (c : C) (l : list C) : list C :=
  match l with
  | [] => [c]
  | x :: t => if Pos.eqb c x then l else if Pos.ltb c x then c :: l else x :: insert_c c t
  end.
Definition canon_set (l : list C) : list C := fold_left (fun s c => insert_c c s) l [].
Definition members (i : item) : list C := match i with IP c => [c] | IS l => l end.
Definition flatten (r : ranked) : list C := flat_map members r.
Definition set_diff (a b : list C) : list C := filter (fun c => negb (cmem c b)) a.

Definition dconv {B} := @conv sx sx_eqb B.

(* ---- approval -> simple (L70-80) *)
Definition img_approval_simple (split : bool) (b : list C) : list (sx * Q) :=
  map (fun c => (kc c, if split then (1 # Pos.of_nat (length b)) else 1)%Q) b.

(* ---- ranked -> first preference (L266-270), first n (L285-289) *)
Definition img_first (r : ranked) : list (sx * Q) :=
  match r with [] => [] | i :: _ => [(kitem i, 1%Q)] end.
(* first n preferences as one approval set; only for ballots without shared ranks among them *)
Definition img_first_n (n : nat) (r : ranked) : option (list (sx * Q)) :=
  match r with
  | [] => Some []
  | _ => let f := firstn n r in
         if forallb (fun i => match i with IP _ => true | IS _ => false end) f
         then Some [(kset (canon_set (flatten f)), 1%Q)] else None
  end.

(* ---- ranked -> presence counts (L305-308, repaired), ranked -> approval (L321-330, repaired) *)
Definition img_presence (r : ranked) : list (sx * Q) := map (fun c => (kc c, 1%Q)) (flatten r).
Definition img_ranked_approval (r : ranked) : list (sx * Q) := [(kset (canon_set (flatten r)), 1%Q)].

(* ---- rank scorers (component/rankscore.py) *)
Inductive scorer :=
| Borda (base : Z) | Dowdall | Geometric (base : Z) | ModifiedBorda | FixedTop (top : Z) | SequenceBased (seq : list Q).
Definition select_padded (s : list Q) (n : nat) : list Q :=
  firstn n s ++ repeat 0%Q (n - length (firstn n s)).
(* None = ValueError (more ranks than candidates) *)
Definition rank_scores (s : scorer) (n_cands : nat) (n_ranked : nat) : option (list Q) :=
  match s with
  | Borda base =>
      if Nat.ltb n_cands n_ranked then None
      else Some (select_padded (map (fun r => inject_Z (Z.of_nat n_cands + base - 1 - Z.of_nat r)) (seq 0 n_cands)) n_ranked)
  | Dowdall => Some (map (fun r => 1 # Pos.of_nat (S r))%Q (seq 0 n_ranked))
  | Geometric base => Some (map (fun r => / inject_Z (base ^ Z.of_nat r))%Q (seq 0 n_ranked))
  | ModifiedBorda => Some (map (fun r => inject_Z (Z.of_nat n_ranked - Z.of_nat r)) (seq 0 n_ranked))
  | FixedTop top => Some (map (fun r => inject_Z (Z.max (top - Z.of_nat r) 0)) (seq 0 n_ranked))
  | SequenceBased sq => Some (select_padded sq n_ranked)
  end.

(* ---- ranked -> positional (L365-380) *)
Definition img_positional (s : scorer) (n_cands : nat) (r : ranked) : option (list (sx * Q)) :=
  match rank_scores s n_cands (length r) with
  | None => None
  | Some sc =>
      Some (flat_map (fun isc : item * Q => map (fun c => (kc c, snd isc)) (members (fst isc))) (combine r sc))
  end.

(* ---- ranked -> pairwise (L398-428) *)
Fixpoint img_pairs_from (r : ranked) : list (sx * Q) :=
  match r with
  | [] => []
  | i :: t => flat_map (fun u => map (fun l => (L [kc u; kc l], 1%Q)) (flatten t)) (members i) ++ img_pairs_from t
  end.
Definition img_condorcet (bottom : bool) (all_cands : list C) (r : ranked) : list (sx * Q) :=
  img_pairs_from r ++
  (if bottom then
     let unranked := set_diff all_cands (flatten r) in
     flat_map (fun u => map (fun l => (L [kc u; kc l], 1%Q)) unranked) (flatten r)
   else []).

(* ---- score -> ranked (L460-464 / convert_one), score -> approval by threshold (L499-506) *)
Definition sballot := list (C * Q).
Fixpoint group_desc (l : list (C * Q)) : list (list C) :=      (* input sorted descending by score *)
  match l with
  | [] => []
  | (c, v) :: t =>
      match group_desc t, t with
      | g :: gs, (_, v') :: _ => if Qeq_bool v v' then (c :: g) :: gs else [c] :: g :: gs
      | _, _ => [[c]]
      end
  end.
Definition img_score_ranked (unscored : option Q) (all_cands : list C) (b : sballot) : list (sx * Q) :=
  let b' := match unscored with
            | None => b
            | Some u => b ++ map (fun c => (c, u)) (set_diff all_cands (map fst b))
            end in
  let groups := group_desc (sort_desc Qle_bool b') in
  [(L (map (fun g => match g with [c] => kc c | _ => kset (canon_set g) end) groups), 1%Q)].
Definition img_score_approval (thr : Q) (b : sballot) : list (sx * Q) :=
  let appr := map fst (filter (fun cs => Qle_bool thr (snd cs)) b) in
  match appr with [] => [] | _ => [(kset (canon_set appr), 1%Q)] end.

(* ---- inverted approval (L563-568): complement within the candidates of the profile *)
Definition img_inverted_approval (all_cands : list C) (b : list C) : list (sx * Q) :=
  [(kset (canon_set (set_diff all_cands b)), 1%Q)].

(* ---- individual -> party (L941-946): party number per candidate; 0 = ignored *)
Definition img_party (party : list (C * Z)) (c : C) : list (sx * Q) :=
  match dget party c with
  | Some 0%Z => []
  | Some p => [(A p, 1%Q)]
  | None => [(L [], 1%Q)]                 (* independents aggregated under None *)
  end.

(* ---- subsetters (vote.py L583-658) through SubsettedVotes *)
Definition sub_ranked (subset : list C) (r : ranked) : ranked :=
  flat_map (fun i => match i with
                     | IP c => if cmem c subset then [IP c] else []
                     | IS l => match filter (fun c => cmem c subset) l with
                               | [] => []
                               | [c] => [IP c]
                               | l' => [IS l']
                               end
                     end) r.
Definition img_sub_simple (subset : list C) (c : C) : list (sx * Q) :=
  if cmem c subset then [(kc c, 1%Q)] else [].
Definition img_sub_approval (subset : list C) (b : list C) : list (sx * Q) :=
  [(kset (filter (fun c => cmem c subset) b), 1%Q)].
Definition img_sub_ranked (subset : list C) (r : ranked) : list (sx * Q) := [(kranked (sub_ranked subset r), 1%Q)].
Definition img_sub_score (subset : list C) (b : sballot) : list (sx * Q) :=
  [(L (map (fun cs => L [kc (fst cs); of_Q (snd cs)]) (filter (fun cs => cmem (fst cs) subset) b)), 1%Q)].

(* all candidates of a ranked / approval / score profile (as a set) *)
Definition cands_ranked (votes : list (ranked * Q)) : list C := canon_set (flat_map (fun bw => flatten (fst bw)) votes).
Definition cands_approval (votes : list (list C * Q)) : list C := canon_set (flat_map fst votes).
Definition cands_score (votes : list (sballot * Q)) : list C := canon_set (flat_map (fun bw => map fst (fst bw)) votes).

(* option-valued images: a ballot outside the modelled domain poisons the run *)
Definition oconv {B} (image : B -> option (list (sx * Q))) (votes : list (B * Q)) : option (list (sx * Q)) :=
  if forallb (fun bw => match image (fst bw) with Some _ => true | None => false end) votes
  then Some (dconv (fun b => match image b with Some l => l | None => [] end) votes) else None.
