(* Wire-level wrappers of property C14: decode arguments from sx, run the model, encode.
   Dispatch.v routes a block of unit numbers here; [k] is the offset inside the block.

   value   : (0) None | (1 z) int | (2 c) candidate | (3 c..) Tie | (4 v..) list | (5 (key v)..) dict | (6 num den) Fraction
   tree    : (0 l kind) leaf | (1 c e) PreConverted | (2 e c) PostConverted | (3 e n) FixedSeatCount
             | (4 el e d) Conditioned | (5 e a) ByConstituency | (6 e ae) ByConstituency(distributor apportioner)
             | (7 e a) PreApportioned | (8 e ae) | (9 e) RemovedApportionment | (10 ov al) ByParty | (11 ov)
             | (12 (e..) d) MultistageDistributor | (13 m b) TieBreaking | (14 p) PartyListEvaluator closed
             | (15 p le c?) open | (16 e) VotingSystem | (17 (e..) (q..) d) UnusedVotesDistributor
             | (18 c e) AdjustedSeatCount(calculator c) | (19 pe e) AdjustedSeatCount(AllowOverhang(pe))
             | (20 pe e fuel) AdjustedSeatCount(LevelOverhang(pe)) | (21 e a pre) ByConstituency with a preselector
             | (22 ce oe e fuel) / (23 ce e fuel) AdjustedSeatCount(LevelOverhangByConstituency(ce, oe | None)) ;
             a = (0) | (1 n) | (2 dict-value)
   kwrec   : six options  () | (v)   in the order n_seats prev_gains max_seats party_lists list_votes candidate_list
   oracle  : leaf table ((l votes (opt..) result)..), converter table ((c value result)..);
             result = (0 v) | (1 code)
   answers : (0 v) | (1 code) | (4 id votes (opt..)) = the oracle has no entry for this call *)
From Coq Require Import ZArith QArith List Bool.
From VL Require Import Prelude.Sx Model.Wrappers.
Import ListNotations.
Open Scope Z_scope.

Definition dec_key (s : sx) : option key :=
  match s with
  | L [A 2; A (Zpos c)] => Some (KC c)
  | L (A 3 :: cs) => match opt_map as_pos cs with Some t => Some (KT t) | None => None end
  | _ => None
  end.

Fixpoint dec_val (s : sx) : option val :=
  match s with
  | L [A 0] => Some VNone
  | L [A 1; A z] => Some (VInt z)
  | L [A 6; A n; A (Zpos d)] => Some (of_q (n # d))
  | L [A 2; A (Zpos c)] => Some (VKey (KC c))
  | L (A 3 :: cs) => match opt_map as_pos cs with Some t => Some (VKey (KT t)) | None => None end
  | L (A 4 :: vs) =>
      match (fix go (l : list sx) : option (list val) :=
               match l with
               | [] => Some []
               | x :: r => match dec_val x, go r with Some v, Some vs' => Some (v :: vs') | _, _ => None end
               end) vs with
      | Some l => Some (VList l) | None => None end
  | L (A 5 :: kvs) =>
      match (fix go (l : list sx) : option (list (key * val)) :=
               match l with
               | [] => Some []
               | L [k; x] :: r => match dec_key k, dec_val x, go r with
                                  | Some k', Some v, Some r' => Some ((k', v) :: r') | _, _, _ => None end
               | _ => None
               end) kvs with
      | Some d => Some (VDict d) | None => None end
  | _ => None
  end.

Definition enc_key (k : key) : sx :=
  match k with KC c => L [A 2; A (Zpos c)] | KT t => L (A 3 :: map (fun c => A (Zpos c)) t) end.
Fixpoint enc_val (v : val) : sx :=
  match v with
  | VNone => L [A 0]
  | VInt z => L [A 1; A z]
  | VKey k => enc_key k
  | VList l => L (A 4 :: map enc_val l)
  | VDict d => L (A 5 :: map (fun kv => L [enc_key (fst kv); enc_val (snd kv)]) d)
  | VRat q => L [A 6; A (Qnum q); A (Zpos (Qden q))]
  end.

Fixpoint val_eqb (a b : val) : bool :=
  match a, b with
  | VNone, VNone => true
  | VInt x, VInt y => x =? y
  | VKey x, VKey y => key_eqb x y
  | VList x, VList y =>
      (fix go (x y : list val) : bool :=
         match x, y with
         | [], [] => true
         | p :: x', q :: y' => val_eqb p q && go x' y'
         | _, _ => false
         end) x y
  | VDict x, VDict y =>
      (fix go (x y : list (key * val)) : bool :=
         match x, y with
         | [], [] => true
         | (k, p) :: x', (k', q) :: y' => key_eqb k k' && val_eqb p q && go x' y'
         | _, _ => false
         end) x y
  | VRat x, VRat y => Qeq_bool x y
  | _, _ => false
  end.

Definition dec_opt (s : sx) : option (option val) :=
  match s with
  | L [] => Some None
  | L [x] => match dec_val x with Some v => Some (Some v) | None => None end
  | _ => None
  end.
Definition enc_opt (o : option val) : sx := match o with None => L [] | Some v => L [enc_val v] end.
Definition dec_kwrec (s : sx) : option kwrec :=
  match as_listof dec_opt s with
  | Some [a; b; c; d; e; f] => Some (KW a b c d e f)
  | _ => None
  end.

Definition dec_lkind (z : Z) : option lkind :=
  match z with
  | 0 => Some LSel | 1 => Some LSelD | 2 => Some LDist | 3 => Some LThr | 4 => Some LThrP
  | 5 => Some LThrPR | 6 => Some LSDist | 7 => Some LOpen | _ => None
  end.
Definition dec_aspec (s : sx) : option aspec :=
  match s with
  | L [A 0] => Some ANone
  | L [A 1; A n] => Some (AInt n)
  | L [A 2; d] => match dec_val d with Some (VDict dd) => Some (ADict dd) | _ => None end
  | _ => None
  end.

Fixpoint dec_ev (s : sx) : option ev :=
  match s with
  | L [A 0; A (Zpos l); A k] => match dec_lkind k with Some lk => Some (Leaf l lk) | None => None end
  | L [A 1; A (Zpos c); e] => match dec_ev e with Some e' => Some (PreConv c e') | None => None end
  | L [A 2; e; A (Zpos c)] => match dec_ev e with Some e' => Some (PostConv e' c) | None => None end
  | L [A 3; e; n] => match dec_ev e, dec_val n with Some e', Some n' => Some (Fixed e' n') | _, _ => None end
  | L [A 4; el; e; d] => match dec_ev el, dec_ev e, as_nat d with
                         | Some el', Some e', Some d' => Some (Cond el' e' d') | _, _, _ => None end
  | L [A 5; e; a] => match dec_ev e, dec_aspec a with Some e', Some a' => Some (ByCons e' a') | _, _ => None end
  | L [A 6; e; ae] => match dec_ev e, dec_ev ae with Some e', Some a' => Some (ByConsD e' a') | _, _ => None end
  | L [A 7; e; a] => match dec_ev e, dec_aspec a with Some e', Some a' => Some (PreApp e' a') | _, _ => None end
  | L [A 8; e; ae] => match dec_ev e, dec_ev ae with Some e', Some a' => Some (PreAppD e' a') | _, _ => None end
  | L [A 9; e] => match dec_ev e with Some e' => Some (RemApp e') | None => None end
  | L [A 10; ov; al] => match dec_ev ov, dec_ev al with Some o, Some a' => Some (ByParty o a') | _, _ => None end
  | L [A 11; ov] => match dec_ev ov with Some o => Some (ByPartyS o) | None => None end
  | L [A 12; L rs; d] =>
      match (fix go (l : list sx) : option (list ev) :=
               match l with
               | [] => Some []
               | x :: r => match dec_ev x, go r with Some e, Some es => Some (e :: es) | _, _ => None end
               end) rs, as_nat d with
      | Some rs', Some d' => Some (Multi rs' d') | _, _ => None end
  | L [A 13; m; b] => match dec_ev m, dec_ev b with Some m', Some b' => Some (TieBr m' b') | _, _ => None end
  | L [A 14; p] => match dec_ev p with Some p' => Some (PListC p') | None => None end
  | L [A 15; p; le; L []] => match dec_ev p, dec_ev le with Some p', Some l' => Some (PListO p' l' None) | _, _ => None end
  | L [A 15; p; le; L [A (Zpos c)]] =>
      match dec_ev p, dec_ev le with Some p', Some l' => Some (PListO p' l' (Some c)) | _, _ => None end
  | L [A 16; e] => match dec_ev e with Some e' => Some (VSys e') | None => None end
  | L [A 17; L rs; qs; d] =>
      match (fix go (l : list sx) : option (list ev) :=
               match l with
               | [] => Some []
               | x :: r => match dec_ev x, go r with Some e, Some es => Some (e :: es) | _, _ => None end
               end) rs, as_listof as_pos qs, as_nat d with
      | Some rs', Some qs', Some d' => Some (Unused rs' qs' d') | _, _, _ => None end
  | L [A 18; A (Zpos c); e] => match dec_ev e with Some e' => Some (AdjLeaf c e') | None => None end
  | L [A 19; pe; e] => match dec_ev pe, dec_ev e with Some p', Some e' => Some (AdjAllow p' e') | _, _ => None end
  | L [A 20; pe; e; f] => match dec_ev pe, dec_ev e, as_nat f with
                          | Some p', Some e', Some f' => Some (AdjLevel p' e' f') | _, _, _ => None end
  | L [A 21; e; a; pre] => match dec_ev e, dec_aspec a, dec_ev pre with
                           | Some e', Some a', Some p' => Some (ByConsP e' a' p') | _, _, _ => None end
  | L [A 22; ce; oe; e; f] => match dec_ev ce, dec_ev oe, dec_ev e, as_nat f with
                              | Some c', Some o', Some e', Some f' => Some (AdjLevelC c' o' e' f') | _, _, _, _ => None end
  | L [A 23; ce; e; f] => match dec_ev ce, dec_ev e, as_nat f with
                          | Some c', Some e', Some f' => Some (AdjLevelC0 c' e' f') | _, _, _ => None end
  | _ => None
  end.

Definition dec_res (s : sx) : option (res val) :=
  match s with
  | L [A 0; v] => match dec_val v with Some v' => Some (Ok v') | None => None end
  | L [A 1; A c] => Some (Err (Exn c))
  | _ => None
  end.
Definition enc_res (r : res val) : sx :=
  match r with
  | Ok v => ok (enc_val v)
  | Err (Exn c) => err c
  | Err (Miss l v args) => L [A 4; A (Zpos l); enc_val v; L (map enc_opt args)]
  end.

Definition leaf_row := (positive * val * list (option val) * res val)%type.
Definition dec_leaf_row (s : sx) : option leaf_row :=
  match s with
  | L [A (Zpos l); v; args; r] =>
      match dec_val v, as_listof dec_opt args, dec_res r with
      | Some v', Some a', Some r' => Some (l, v', a', r') | _, _, _ => None end
  | _ => None
  end.
Definition opt_eqb (a b : option val) : bool :=
  match a, b with None, None => true | Some x, Some y => val_eqb x y | _, _ => false end.
Fixpoint opts_eqb (a b : list (option val)) : bool :=
  match a, b with
  | [], [] => true
  | x :: a', y :: b' => opt_eqb x y && opts_eqb a' b'
  | _, _ => false
  end.
Fixpoint leaf_lookup (tbl : list leaf_row) (l : positive) (v : val) (args : list (option val)) : res val :=
  match tbl with
  | [] => Err (Miss l v args)
  | (l', v', a', r) :: t =>
      if Pos.eqb l l' && val_eqb v v' && opts_eqb args a' then r else leaf_lookup t l v args
  end.
Definition conv_lookup (tbl : list leaf_row) (c : positive) (v : val) : res val := leaf_lookup tbl c v [].

Definition dec_pargs (s : sx) : option pargs :=
  match s with
  | L [L pos; kw] => match opt_map dec_val pos, dec_kwrec kw with
                     | Some p, Some k => Some (PA p k) | _, _ => None end
  | _ => None
  end.

(* signatures on the wire: (((kw default?)..) varpos ((kw default?)..) varkw) ; kw = 0..5 *)
Definition enc_kw (k : kw) : sx :=
  A (match k with KSeats => 0 | KPrev => 1 | KMax => 2 | KPl => 3 | KLv => 4 | KCl => 5 end).
Definition dec_kw (s : sx) : option kw :=
  match s with
  | A 0 => Some KSeats | A 1 => Some KPrev | A 2 => Some KMax | A 3 => Some KPl | A 4 => Some KLv | A 5 => Some KCl
  | _ => None
  end.
Definition enc_sig (s : sigt) : sx :=
  let ps := fun l => L (map (fun p : kw * option val => L [enc_kw (fst p); enc_opt (snd p)]) l) in
  L [ps (sg_pos s); of_bool (sg_varpos s); ps (sg_kwonly s); of_bool (sg_varkw s)].
Definition dec_param (s : sx) : option (kw * option val) :=
  match s with
  | L [k; d] => match dec_kw k, dec_opt d with Some k', Some d' => Some (k', d') | _, _ => None end
  | _ => None
  end.
Definition dec_sig (s : sx) : option sigt :=
  match s with
  | L [ps; vp; ks; vk] =>
      match as_listof dec_param ps, as_bool vp, as_listof dec_param ks, as_bool vk with
      | Some a, Some b, Some c, Some d => Some (SG a b c d) | _, _, _, _ => None end
  | _ => None
  end.
Definition enc_kwrec (r : kwrec) : sx := L (map (fun k => enc_opt (kget r k)) all_kw).

(* every subtree, preorder: (accepts_seats accepts_prev_gains signature) *)
Fixpoint node_info (t : ev) : list sx :=
  let me := L [of_bool (acc_seats t); of_bool (acc_prev t); enc_sig (sig_of t)] in
  me :: match t with
        | Leaf _ _ => []
        | PreConv _ e | PostConv e _ | Fixed e _ | RemApp e | PreApp e _ | ByCons e _ | ByPartyS e | PListC e
        | VSys e | AdjLeaf _ e => node_info e
        | Cond a b _ | ByConsD a b | PreAppD a b | ByParty a b | TieBr a b | PListO a b _
        | AdjAllow a b | AdjLevel a b _ | ByConsP a _ b | AdjLevelC0 a b _ => node_info a ++ node_info b
        | AdjLevelC a b c _ => node_info a ++ node_info b ++ node_info c
        | Multi rs _ | Unused rs _ _ => flat_map node_info rs
        end.

Definition u_c14 (k : Z) (a : sx) : sx :=
  match k with
  | 0 | 1 =>
      (* (tree votes call leaf-table converter-table) -> run_impl (k=0) ; call = kwrec for run_spec (k=1) *)
      match a with
      | L [t; v; c; lt; ct] =>
          match dec_ev t, dec_val v, as_listof dec_leaf_row lt, as_listof dec_leaf_row ct with
          | Some t', Some v', Some lt', Some ct' =>
              if k =? 0 then
                match dec_pargs c with
                | Some pa => enc_res (run_impl (leaf_lookup lt') (conv_lookup ct') t' v' pa)
                | None => bad_input
                end
              else
                match dec_kwrec c with
                | Some sa => enc_res (run_spec (leaf_lookup lt') (conv_lookup ct') t' v' sa)
                | None => bad_input
                end
          | _, _, _, _ => bad_input
          end
      | _ => bad_input
      end
  | 2 =>
      (* (tree kwrec) -> (wt faithful fits-and-seat_fits (node-info..) seated) *)
      match a with
      | L [t; sa] =>
          match dec_ev t, dec_kwrec sa with
          | Some t', Some sa' => ok (L [of_bool (wt t'); of_bool (faithful t'); of_bool (fits t' sa' && seat_fits t' sa');
                                        L (node_info t'); of_bool (seated t')])
          | _, _ => bad_input
          end
      | _ => bad_input
      end
  | 3 =>
      (* (signature call) -> bound arguments: (named-kwrec (extra positional..) extra-kwrec) *)
      match a with
      | L [s; c] =>
          match dec_sig s, dec_pargs c with
          | Some s', Some pa =>
              match bind s' pa with
              | Ok b => ok (L [enc_kwrec (b_named b); L (map enc_val (b_args b)); enc_kwrec (b_kwargs b)])
              | Err (Exn c) => err c
              | Err _ => bad_input
              end
          | _, _ => bad_input
          end
      | _ => bad_input
      end
  | 4 =>
      (* tie replacement: (0 list tie repl) -> _replace_sel_ties ; (1 dict tie repl) -> _replace_distr_ties *)
      match a with
      | L [A 0; l; t; r] =>
          match dec_val l, dec_key t, dec_val r with
          | Some (VList l'), Some t', Some (VList r') =>
              enc_res (replace_sel l' t' r' >>= fun x => Ok (VList x))
          | _, _, _ => bad_input
          end
      | L [A 1; d; t; r] =>
          match dec_val d, dec_key t, dec_val r with
          | Some (VDict d'), Some t', Some (VList r') =>
              enc_res (replace_distr d' t' r' >>= fun x => Ok (VDict x))
          | _, _, _ => bad_input
          end
      | _ => bad_input
      end
  | 5 =>
      (* shared parts: (0 votes) VoteTotals ; (1 votes subset) SubsettedVotes ; (2 d1 d2) add_dict_to_dict ;
         (3 votes) / (4 votes subset) the declarative definitions totals_s / subset_s of the spec side *)
      match a with
      | L [A 0; v] => match dec_val v with Some v' => enc_res (vote_totals v') | None => bad_input end
      | L [A 1; v; s] => match dec_val v, dec_val s with
                         | Some v', Some s' => enc_res (subset_votes v' s') | _, _ => bad_input end
      | L [A 2; x; y] => match dec_val x, dec_val y with
                         | Some (VDict x'), Some (VDict y') => enc_res (add_dict x' y' >>= fun r => Ok (VDict r))
                         | _, _ => bad_input end
      | L [A 3; v] => match dec_val v with Some v' => enc_res (totals_s v') | None => bad_input end
      | L [A 4; v; s] => match dec_val v, dec_val s with
                         | Some v', Some s' => enc_res (subset_s v' s') | _, _ => bad_input end
      | _ => bad_input
      end
  | _ => bad_input
  end.
