(* Models of votelib.evaluate.threshold (Absolute/Relative/Alternative thresholds,
   bracketers) and votelib.evaluate.openlist (ThresholdOpenList,
   ListOrderTieBreaker / Tie.break_by_list). *)
From Coq Require Import ZArith QArith List Bool Arith.
From VL Require Import Prelude.PyDict Model.GetNBest Model.QuotaDistributor.
Import ListNotations.

Definition passes (ae : bool) (v thr : Q) : bool :=
  negb (Qle_bool v thr) || (ae && Qeq_bool v thr).

(* seatless selectors, deep embedding *)
Inductive sel :=
| SAbs (thr : Q) (ae : bool)
| SRel (thr : Q) (ae : bool)
| SAlt (parts : list sel).

Fixpoint dedup (l : list C) : list C :=
  match l with
  | [] => []
  | x :: t => if cmem x t then dedup t else x :: dedup t
  end.

(* result as a list in the implementation's order for Abs/Rel (descending votes);
   for Alt the order (mean rank, then set order) is not modelled: compare as sets *)
Fixpoint sel_eval (s : sel) (votes : list (C * Q)) : list C :=
  match s with
  | SAbs thr ae => map fst (filter (fun cv => passes ae (snd cv) thr) (sort_desc Qle_bool votes))
  | SRel thr ae =>
      let total := qsumv votes in
      map fst (filter (fun cv => passes ae (snd cv / total)%Q thr) (sort_desc Qle_bool votes))
  | SAlt parts => dedup (flat_map (fun p => sel_eval p votes) parts)
  end.

(* bracketers: every candidate carries a bracket value (coalition size / property value);
   evaluators: bracket value -> selector ; None = "no selector: everybody passes" *)
Definition bracket_eval (evals : list (Z * option sel)) (default : option sel)
           (bracket : list (C * Z)) (votes : list (C * Q)) : list C :=
  let pick b := match find (fun e => Z.eqb (fst e) b) evals with Some e => snd e | None => default end in
  map fst (filter (fun cv =>
              match pick (dget_or bracket (fst cv) 1%Z) with
              | Some s => cmem (fst cv) (sel_eval s votes)
              | None => true
              end) (sort_desc Qle_bool votes)).

(* ---------------------------------------------------------------- open list *)
Fixpoint index_of (c : C) (l : list C) : nat :=
  match l with
  | [] => O
  | x :: t => if ceqb c x then O else S (index_of c t)
  end.

(* the fill-up loop: for cand in list: if len(elected) == n: break; if cand not in elected: append *)
Fixpoint fill (n : nat) (elected : list C) (lst : list C) : list C :=
  match lst with
  | [] => elected
  | c :: t =>
      if Nat.eqb (length elected) n then elected
      else if cmem c elected then fill n elected t
      else fill n (elected ++ [c]) t
  end.

Record ol_cfg := {
  ol_jump : option Q;                 (* jump_fraction *)
  ol_quota : option (Q -> Z -> Q);    (* quota_function already multiplied by quota_fraction *)
  ol_take_higher : bool;
  ol_accept_equal : bool;
  ol_list_precedence : bool
}.

Definition ol_threshold (cfg : ol_cfg) (total : Q) (n : Z) : option Q :=
  match ol_jump cfg, ol_quota cfg with
  | None, None => None
  | Some j, None => Some (total * j)%Q
  | None, Some qf => Some (qf total n)
  | Some j, Some qf =>
      let a := (total * j)%Q in let b := qf total n in
      (* python max / min return the first of equal arguments *)
      Some (if ol_take_higher cfg then (if Qle_bool b a then a else b) else (if Qle_bool a b then a else b))
  end.

Definition ol_jumping (cfg : ol_cfg) (votes : list (C * Q)) (thr : Q) : list (C * Q) :=
  filter (fun cv => passes (ol_accept_equal cfg) (snd cv) thr) (sort_desc Qle_bool votes).

Definition openlist_eval (cfg : ol_cfg) (votes : list (C * Q)) (n : nat) (lst : list C) : list C :=
  match ol_threshold cfg (qsumv votes) (Z.of_nat n) with
  | None => firstn n lst
  | Some thr =>
      let jumping := ol_jumping cfg votes thr in
      if Nat.ltb n (length jumping) then
        if ol_list_precedence cfg then
          let by_list := sort_asc Nat.leb (map (fun cv => (cv, index_of (fst cv) lst)) jumping) in
          let kept := map fst (firstn n by_list) in
          map fst (sort_desc Qle_bool kept)
        else map fst (firstn n jumping)
      else fill n (map fst jumping) lst
  end.

(* Tie.break_by_list (core.py L80-101) for ListOrderTieBreaker: [ties] maps a tie (by its
   member list, compared as a set) to the members not yet handed out *)
Definition same_set (a b : list C) : bool :=
  forallb (fun c => cmem c b) a && forallb (fun c => cmem c a) b.
Fixpoint tie_lookup (ties : list (list C * list C)) (t : list C) : option (list C) :=
  match ties with
  | [] => None
  | (k, v) :: r => if same_set k t then Some v else tie_lookup r t
  end.
Fixpoint tie_update (ties : list (list C * list C)) (t : list C) (v : option (list C)) : list (list C * list C) :=
  match ties with
  | [] => match v with Some v => [(t, v)] | None => [] end
  | (k, v0) :: r => if same_set k t then (match v with Some v => (k, v) :: r | None => r end)
                    else (k, v0) :: tie_update r t v
  end.
Definition sort_by_list (lst : list C) (t : list C) : list C :=
  map fst (sort_asc Nat.leb (map (fun c => (c, index_of c lst)) t)).

Inductive bl_result := BL_ok (l : list C) | BL_index.   (* ties[item][0] on an emptied entry cannot happen *)
Fixpoint break_by_list (elected : list (res C)) (lst : list C) (ties : list (list C * list C)) (acc : list C)
  : bl_result :=
  match elected with
  | [] => BL_ok acc
  | Cand c :: r => break_by_list r lst ties (acc ++ [c])
  | TieR t :: r =>
      match tie_lookup ties t with
      | Some (x :: rest) =>
          break_by_list r lst (tie_update ties t (match rest with [] => None | _ => Some rest end)) (acc ++ [x])
      | Some [] => BL_index
      | None =>
          match sort_by_list lst t with
          | x :: rest => break_by_list r lst (tie_update ties t (Some rest)) (acc ++ [x])
          | [] => BL_index
          end
      end
  end.
