(* Hand-written twins of votelib/component/divisor.py (tie: Proofs/GenTie.v
   proves them equal to the generated Gen/Divisor.v). *)
From Coq Require Import ZArith QArith.
Open Scope Z_scope.
Definition d_hondt (k : Z) : Q := inject_Z (k + 1).
Definition sainte_lague (k : Z) : Q := inject_Z (2 * k + 1).
Definition imperiali (k : Z) : Q := (k + 2) # 2.
Definition danish (k : Z) : Q := inject_Z (3 * k + 1).
Definition macau (k : Z) : Q := inject_Z (2 ^ k).
Definition modified_first_coef (f : Z -> Q) (c : Q) (k : Z) : Q :=
  if 0 <? k then f k else c.
(* numbering shared with harness: 1 d_hondt 2 sainte_lague 3 imperiali 4 danish 5 macau *)
Definition divisor_by_id (i : Z) : Z -> Q :=
  if i =? 1 then d_hondt else if i =? 2 then sainte_lague else if i =? 3 then imperiali
  else if i =? 4 then danish else macau.
