(* Model of the sequential positional elimination of votelib/evaluate/sequential.py: Baldwin.evaluate (L740-789) with
   Baldwin._compute_negative_scores = the negated output of RankedToPositionalVotes.convert (convert.py L358-380: every
   candidate of the profile seeded with 0 in the order of util.all_ranked_candidates, score of the rank times the ballot
   weight added to every member of the rank, util.descending_dict = stable sort by descending score), the loser(s) of a
   round read off get_n_best(neg_scores, 1)[0], the ballots restricted by RANKED_SUBSETTER (Model/Hybrids.v
   subset_votes).  The rank scorer is a parameter (Model/Convert.v scorer; the default of Baldwin() is Borda 0).
   The library has no Coombs class; Baldwin is its only positional elimination rule.
   Executable definitions only.  Ballot weights are integers (Dict[RankedVoteType, int]). *)
From Coq Require Import ZArith QArith List Bool Arith.
From VL Require Import Prelude.Sx Prelude.PyDict Prelude.GDict Model.GetNBest Model.Convert Model.STV Model.Hybrids.
Import ListNotations.
Open Scope Z_scope.

(* agg_votes[cand] += score *)
Definition qadd (d : list (C * Q)) (c : C) (x : Q) : list (C * Q) := dset d c (dget_or d c 0%Q + x)%Q.

(* one ballot of RankedToPositionalVotes.convert: for rank, positioned in enumerate(ranked): score = scores[rank] * n_votes;
   None = the ValueError of the rank scorer (Borda: more ranks than candidates) *)
Definition pos_ballot (sc : Convert.scorer) (k : nat) (d : list (C * Q)) (bw : ranked * Z) : option (list (C * Q)) :=
  match rank_scores sc k (length (fst bw)) with
  | None => None
  | Some scs =>
      Some (fold_left (fun d (isc : item * Q) =>
                         fold_left (fun d c => qadd d c (snd isc * inject_Z (snd bw))%Q) (members (fst isc)) d)
                      (combine (fst bw) scs) d)
  end.

Definition positional (sc : Convert.scorer) (votes : rvotes) : option (list (C * Q)) :=
  let cands := all_ranked_candidates (qv votes) in
  match fold_left (fun acc bw => match acc with None => None | Some d => pos_ballot sc (length cands) d bw end)
                  votes (Some (map (fun c => (c, 0%Q)) cands)) with
  | None => None
  | Some d => Some (sort_desc Qle_bool d)
  end.

(* Baldwin._compute_negative_scores *)
Definition neg_scores (sc : Convert.scorer) (votes : rvotes) : option (list (C * Q)) :=
  match positional sc votes with
  | None => None
  | Some d => Some (map (fun cs : C * Q => (fst cs, (- snd cs)%Q)) d)
  end.

Inductive bres :=
| B_ok (r : list (res C))
| B_value            (* ValueError of the rank scorer *)
| B_index            (* IndexError: get_n_best(..)[0] of an empty list - never expected *)
| B_fuel.            (* model out of fuel: never expected *)

(* Baldwin.evaluate: while len(neg_scores) > n_seats: drop the loser / all tied losers, or - when dropping all tied
   losers would leave fewer than n_seats - return the others followed by the tie repeated for the open seats *)
Fixpoint baldwin_loop (sc : Convert.scorer) (fuel : nat) (cur : rvotes) (n : nat) : bres :=
  match neg_scores sc cur with
  | None => B_value
  | Some ns =>
      if Nat.ltb n (length ns) then
        match fuel with
        | O => B_fuel
        | S f =>
            match get_n_best Qle_bool ns 1 with
            | [] => B_index
            | TieR T :: _ =>
                let remaining := filter (fun c => negb (cmem c T)) (map fst ns) in
                let n_rem := (length ns - length T)%nat in
                if Nat.ltb n_rem n then
                  let n_ties := (n - n_rem)%nat in
                  match neg_scores sc (subset_votes remaining cur) with
                  | None => B_value
                  | Some rs => B_ok (get_n_best Qle_bool rs (n - n_ties) ++ repeat (TieR T) n_ties)
                  end
                else baldwin_loop sc f (subset_votes remaining cur) n
            | Cand l :: _ =>
                baldwin_loop sc f (subset_votes (filter (fun c => negb (ceqb c l)) (map fst ns)) cur) n
            end
        end
      else B_ok (get_n_best Qle_bool ns n)
  end.

Definition baldwin (sc : Convert.scorer) (votes : rvotes) (n : nat) : bres :=
  baldwin_loop sc (S (length (all_ranked_candidates (qv votes)))) votes n.
