(* Wire-level wrappers of property C11: decode arguments from sx, run the model, encode.
   Dispatch.v routes a block of unit numbers here; [k] is the offset inside the block. *)
From Coq Require Import ZArith QArith List Bool.
From VL Require Import Prelude.Sx Prelude.PyDict Model.GetNBest Model.HighestAverages Model.Threshold Model.Units Model.Conditioned Model.PureProp.
Import ListNotations.
Open Scope Z_scope.

(* Conditioned(threshold selector, HighestAverages).  args: (sel divisor votes n prev caps) *)
Definition u_conditioned_ha (a : sx) : sx :=
  match a with
  | L [s; dv; v; A n; p; c] =>
      match as_sel s, as_divisor dv, as_dict as_pos as_Q v, as_dict as_pos as_Z p, as_dict as_pos as_Z c with
      | Some s, Some d, Some votes, Some prev, Some caps =>
          match conditioned_ha s d votes n prev caps with
          | HA_ok gains tie => ok (L [of_dict of_pos A gains; of_tie tie])
          | HA_value_error => err E_VALUE
          end
      | _, _, _, _, _ => bad_input
      end
  | _ => bad_input
  end.

(* PureProportionality.  args: (votes n prev caps) -> ((cand seats) ...) with exact rational seats *)
Definition u_pure_proportionality (a : sx) : sx :=
  match a with
  | L [v; A n; p; c] =>
      match as_dict as_pos as_Q v, as_dict as_pos as_Z p, as_dict as_pos as_Z c with
      | Some votes, Some prev, Some caps =>
          match pp_evaluate votes n prev caps with
          | PP_ok seats => ok (of_dict of_pos of_Q seats)
          | PP_zerodiv => err E_ZERODIV
          | PP_fuel => err E_FUEL
          end
      | _, _, _ => bad_input
      end
  | _ => bad_input
  end.

Definition u_c11 (k : Z) (a : sx) : sx :=
  match k with
  | 0 => u_conditioned_ha a
  | 1 => u_pure_proportionality a
  | _ => bad_input
  end.
