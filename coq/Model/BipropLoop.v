(* Model of the WHOLE of votelib.evaluate.proportional.BiproportionalEvaluator.evaluate
   (proportional.py L562-641 and the helpers it calls), mirroring its control structure.
   Executable definitions only; the theorems are in Proofs/BipropLoop_*.v and Props/C07.v.

     _initial_solution    L820-849  [initial_solution]  (HighestAverages = Model/HighestAverages.v, the C01 model;
                                                         a Tie inside a column is spread over sorted(tie)[:n])
     _initial_party_coefs L851-889  [initial_party_coefs]
     _districts_unsat     L801-818  [unsat]             (the iteration order of the frozenset union is the argument
                                                         [dorder]: the only place where Python's set order reaches
                                                         the computation - every other set of the algorithm is empty
                                                         or a singleton, see [labeled])
     _calc_quots          L784-798  Biprop.calc_quots
     _labeled             L719-766  [labeled]           (a party / district is labelled by the FIRST cell that
                                                         passes the test, because the guard `x not in labeled_...`
                                                         is re-read after every insertion: the label sets are
                                                         singletons, the start districts carry the empty set)
     _is_upgradable / _is_downgradable L768-781
     _augment_result      L644-676  [walk] (the path, by set.pop() on singletons: popping the same set twice is a
                                            KeyError; the walk ends only at a DISTRICT of districts_over - the loop
                                            condition as repaired by fixes/C07-same-labels.diff: districts and parties
                                            are separate name spaces here, so a party labelled like an over-represented
                                            district cannot end it) + Biprop.augment
     _adj_coef            L678-717  Biprop.adj_coef
     evaluate             L562-641  [bstep], [bloop], [evaluate_core], [evaluate_total]; the refusal of an election
                                    without votes that opens it (fixes/C07-all-zero.diff): [refuses_empty], BP_no_votes

   Python exceptions are constructors of [bp_result]; running out of the explicit fuel is its own
   constructor.  Multipliers are kept Qred-normalised (as Fraction does) - semantically the identity. *)
From Coq Require Import ZArith QArith List Bool.
From VL Require Import Prelude.PyDict Model.Divisor Model.HighestAverages Model.Biprop.
Import ListNotations.
Open Scope Z_scope.

(* sorted(...) on names (the harness names sort like their numbers) *)
Fixpoint ins_pos (x : C) (l : list C) : list C :=
  match l with
  | [] => [x]
  | y :: t => if Pos.leb x y then x :: y :: t else y :: ins_pos x t
  end.
Fixpoint sort_pos (l : list C) : list C :=
  match l with [] => [] | x :: t => ins_pos x (sort_pos t) end.

(* int(Fraction): truncation towards zero *)
Definition Qtrunc (x : Q) : Z := Z.quot (Qnum x) (Zpos (Qden x)).

Inductive bp_result :=
| BP_ok (res : mat) (rho gamma : list (C * Q))   (* the returned matrix; the final multipliers are ghost output *)
| BP_refused (a : Q)                              (* VotingSystemError: invalid adjustment coefficient *)
| BP_zero_division                                (* ZeroDivisionError inside _adj_coef *)
| BP_key_error
| BP_value_error                                  (* HighestAverages on an empty eligible list *)
| BP_party_tie                                    (* the party apportionment is tied: outside the modelled domain *)
| BP_district_tie                                 (* the district apportionment is tied: outside the modelled domain *)
| BP_no_votes                                     (* VotingSystemError: no votes cast (fixes/C07-all-zero.diff) *)
| BP_out_of_fuel.

(* any(n_votes for district_votes in votes.values() for n_votes in district_votes.values()) *)
Definition has_votes (votes : mat) : bool :=
  existsb (fun row => existsb (fun kv => negb (snd kv =? 0)) (snd row)) votes.

Section Loop.
  Variable d : Z -> Q.            (* divisor_function *)
  Variable q : Q.                 (* signpost_q *)

  (* ---------------------------------------------------------------- _initial_solution *)
  (* {district: votes[district].get(party, 0) for district in votes} *)
  Definition column (votes : mat) (j : C) : list (C * Q) :=
    map (fun row => (fst row, inject_Z (dget_or (snd row) j 0))) votes.

  (* solution[district][party] = k *)
  Definition cell_set (m : mat) (i j : C) (k : Z) : option mat :=
    match dget m i with
    | None => None
    | Some row => Some (dset m i (dset row j k))
    end.

  Definition place_column (sol : mat) (j : C) (gains : list (C * Z)) (tie : option (list C * Z)) : option mat :=
    let sol1 := fold_left (fun acc ik => match acc with
                                         | Some m => cell_set m (fst ik) j (snd ik)
                                         | None => None
                                         end) gains (Some sol) in
    match tie with
    | None => sol1
    | Some (T, r) =>
        (* sel_districts = sorted(tie)[:n]; setdefault(party, 0); += 1 *)
        fold_left (fun acc i => match acc with
                                | Some m => cell_incr m i j
                                | None => None
                                end) (firstn (Z.to_nat r) (sort_pos T)) sol1
    end.

  Inductive init_result :=
  | Init_ok (sol : mat) (pseats : list (C * Z))
  | Init_party_tie | Init_value_error | Init_key_error.

  Definition init_column (votes : mat) (acc : init_result) (jn : C * Z) : init_result :=
    match acc with
    | Init_ok sol ps =>
        match HighestAverages.evaluate d (column votes (fst jn)) (snd jn) [] [] with
        | HA_value_error => Init_value_error
        | HA_ok g t =>
            match place_column sol (fst jn) g t with
            | Some sol' => Init_ok sol' ps
            | None => Init_key_error
            end
        end
    | e => e
    end.

  Definition empty_solution (votes : mat) : mat := map (fun row => (fst row, @nil (C * Z))) votes.

  Definition initial_solution (votes : mat) (n : Z) : init_result :=
    match HighestAverages.evaluate d (party_totals votes) n [] [] with
    | HA_value_error => Init_value_error
    | HA_ok _ (Some _) => Init_party_tie
    | HA_ok pseats None => fold_left (init_column votes) pseats (Init_ok (empty_solution votes) pseats)
    end.

  (* ---------------------------------------------------------------- _initial_party_coefs *)
  Definition coef_scan (seats : mat) (j : C) (st : Q * option Q) (row : C * list (C * Z)) : Q * option Q :=
    let v := dget_or (snd row) j 0 in
    if v =? 0 then st else
      let s := mget seats (fst row) j in
      let lo := (signpost q s / inject_Z v)%Q in
      let hi := ((signpost q s + 1) / inject_Z v)%Q in
      (if Qpos_b (lo - fst st) then lo else fst st,
       match snd st with
       | None => Some hi
       | Some h => if Qpos_b (h - hi) then Some hi else Some h
       end).

  Definition party_coef (votes seats : mat) (j : C) : Q :=
    match fold_left (coef_scan seats j) votes (0%Q, None) with
    | (_, None) => 1%Q
    | (lo, Some hi) => Qred ((lo + hi) / 2)
    end.

  Definition initial_party_coefs (votes seats : mat) : list (C * Q) :=
    map (fun j => (j, party_coef votes seats j)) (parties votes).

  Definition initial_district_coefs (votes : mat) : list (C * Q) := map (fun row => (fst row, 1%Q)) votes.

  (* ---------------------------------------------------------------- _districts_unsat *)
  Definition row_total (row : list (C * Z)) : Z := zsum (map snd row).
  Definition cur_seats (res : mat) (i : C) : Z :=
    match dget res i with Some row => row_total row | None => 0 end.

  Definition unsat (dorder : list C) (res : mat) (tgt : list (C * Z)) : list C * list C :=
    (filter (fun i => cur_seats res i <? dget_or tgt i 0) dorder,
     filter (fun i => dget_or tgt i 0 <? cur_seats res i) dorder).

  (* ---------------------------------------------------------------- _labeled *)
  Definition at_signpost (x : Q) : bool := Qeq_bool (inject_Z (Qtrunc x)) (x - q).
  Definition is_upgradable (x : Q) (s : Z) : bool :=
    at_signpost x && Qeq_bool (inject_Z s + 1 - q) x.
  Definition is_downgradable (x : Q) (s : Z) : bool :=
    at_signpost x && Qeq_bool (inject_Z s - q) x && (1 <=? s).

  Definition LDt := list (C * option C).     (* labelled district -> the party that labelled it (None: a start district) *)
  Definition LPt := list (C * C).            (* labelled party -> the district that labelled it *)

  Definition down_scan (quots : qmat) (res : mat) (i : C) (acc : option LPt) (j : C) : option LPt :=
    match acc with
    | None => None
    | Some LP =>
        if dmem LP j then Some LP else
        match dget quots i, dget res i with
        | Some qrow, Some rrow =>
            if is_downgradable (dget_or qrow j 0%Q) (dget_or rrow j 0) then Some (LP ++ [(j, i)]) else Some LP
        | _, _ => None
        end
    end.

  Definition up_scan (quots : qmat) (res : mat) (j : C) (acc : option LDt) (i : C) : option LDt :=
    match acc with
    | None => None
    | Some LD =>
        if dmem LD i then Some LD else
        match dget quots i, dget res i with
        | Some qrow, Some rrow =>
            if is_upgradable (dget_or qrow j 0%Q) (dget_or rrow j 0) then Some (LD ++ [(i, Some j)]) else Some LD
        | _, _ => None
        end
    end.

  Inductive lab_result := Lab (LD : LDt) (LP : LPt) | LabKeyError | LabFuel.

  Fixpoint lab_loop (fuel : nat) (under sorted_parties ds : list C) (quots : qmat) (res : mat)
           (LD : LDt) (LP : LPt) : lab_result :=
    match fuel with
    | O => LabFuel
    | S f =>
        match fold_left (fun acc i => fold_left (down_scan quots res i) sorted_parties acc) (map fst LD) (Some LP) with
        | None => LabKeyError
        | Some LP1 =>
            match fold_left (fun acc j => fold_left (up_scan quots res j) ds acc) (map fst LP1) (Some LD) with
            | None => LabKeyError
            | Some LD1 =>
                if existsb (fun i => cmem i under) (map fst LD1) then Lab LD1 LP1
                else if Nat.eqb (length LD1 + length LP1) (length LD + length LP) then Lab LD1 LP1
                else lab_loop f under sorted_parties ds quots res LD1 LP1
            end
        end
    end.

  (* [ps] = the keys of the quotient rows in first-occurrence order, [ds] = quotients.keys(): _calc_quots keeps the
     keys of votes, so these are Biprop.parties votes / Biprop.districts votes *)
  Definition labeled (ps ds : list C) (quots : qmat) (res : mat) (under over : list C) : lab_result :=
    lab_loop (length ds + length ps + length over + 2) under (sort_pos ps) ds quots res
             (map (fun i => (i, @None C)) over) [].

  (* ---------------------------------------------------------------- the path of _augment_result *)
  Inductive walk_result := WalkDone (hops : list (C * C)) | WalkKeyError | WalkFuel.

  Fixpoint walk (fuel : nat) (LD : LDt) (LP : LPt) (over : list C) (cur : C) (seenD seenP : list C) : walk_result :=
    match fuel with
    | O => WalkFuel
    | S f =>
        if cmem cur over then WalkDone [] else
        if cmem cur seenD then WalkKeyError else
        match dget LD cur with
        | Some (Some p) =>
            if cmem p seenP then WalkKeyError else
            match dget LP p with
            | Some i' =>
                match walk f LD LP over i' (cur :: seenD) (p :: seenP) with
                | WalkDone hops => WalkDone ((p, i') :: hops)
                | e => e
                end
            | None => WalkKeyError
            end
        | _ => WalkKeyError
        end
    end.

  (* ---------------------------------------------------------------- the multiplier update *)
  Definition scale_rho_r (DL : list C) (a : Q) (rho : list (C * Q)) : list (C * Q) :=
    map (fun kv => (fst kv, if cmem (fst kv) DL then Qred (snd kv * a) else snd kv)) rho.
  Definition scale_gamma_r (PL : list C) (a : Q) (gamma : list (C * Q)) : list (C * Q) :=
    map (fun kv => (fst kv, if cmem (fst kv) PL then Qred (snd kv / a) else snd kv)) gamma.

  (* ---------------------------------------------------------------- one iteration of the while loop *)
  Record bstate := mk_bstate { b_res : mat; b_rho : list (C * Q); b_gamma : list (C * Q) }.

  Inductive step_result := Done | Next (s : bstate) | Stop (r : bp_result).

  Section Iter.
    Variable votes : mat.
    Variable tgt : list (C * Z).      (* tgt_district_seats *)
    Variable dorder : list C.         (* iteration order of frozenset(cur_district_seats) | frozenset(tgt_district_seats) *)

    Definition bstep_body (s : bstate) (under over : list C) : step_result :=
      let res := b_res s in
      let quots := calc_quots votes (b_rho s) (b_gamma s) in
      match labeled (parties votes) (districts votes) quots res under over with
      | LabKeyError => Stop BP_key_error
      | LabFuel => Stop BP_out_of_fuel
      | Lab LD LP =>
          match sort_pos (filter (fun i => dmem LD i) under) with
          | start :: _ =>
              match walk (S (length LD)) LD LP over start [] [] with
              | WalkKeyError => Stop BP_key_error
              | WalkFuel => Stop BP_out_of_fuel
              | WalkDone hops =>
                  match augment res start hops with
                  | Some res' => Next (mk_bstate res' (b_rho s) (b_gamma s))
                  | None => Stop BP_key_error
                  end
              end
          | [] =>
              match adj_coef q quots res (map fst LD) (map fst LP) with
              | AdjZeroDivision => Stop BP_zero_division
              | Adj a =>
                  if Qeq_bool a 0 || Qle_bool 1 a then Stop (BP_refused a)
                  else Next (mk_bstate res (scale_rho_r (map fst LD) a (b_rho s))
                                       (scale_gamma_r (map fst LP) a (b_gamma s)))
              end
          end
      end.

    Definition bstep (s : bstate) : step_result :=
      let uo := unsat dorder (b_res s) tgt in
      match fst uo, snd uo with
      | [], [] => Done
      | _, _ => bstep_body s (fst uo) (snd uo)
      end.

    Fixpoint bloop (fuel : nat) (s : bstate) : bp_result :=
      match fuel with
      | O => BP_out_of_fuel
      | S f =>
          match bstep s with
          | Done => BP_ok (b_res s) (b_rho s) (b_gamma s)
          | Next s' => bloop f s'
          | Stop r => r
          end
      end.

    (* ghost: the states at the top of every iteration (what the verif hook records) *)
    Fixpoint btrace (fuel : nat) (s : bstate) : list bstate :=
      match fuel with
      | O => []
      | S f =>
          s :: match bstep s with
               | Next s' => btrace f s'
               | _ => []
               end
      end.

    (* both at once (what the wire unit runs; = (btrace, bloop): Proofs/BipropLoop_proofs.v bloop_trace_spec) *)
    Fixpoint bloop_trace (fuel : nat) (s : bstate) : list bstate * bp_result :=
      match fuel with
      | O => ([], BP_out_of_fuel)
      | S f =>
          match bstep s with
          | Done => ([s], BP_ok (b_res s) (b_rho s) (b_gamma s))
          | Next s' => let (t, r) := bloop_trace f s' in (s :: t, r)
          | Stop r => ([s], r)
          end
      end.

    Definition binit (n : Z) : bp_result + bstate :=
      match initial_solution votes n with
      | Init_ok sol _ => inr (mk_bstate sol (initial_district_coefs votes) (initial_party_coefs votes sol))
      | Init_party_tie => inl BP_party_tie
      | Init_value_error => inl BP_value_error
      | Init_key_error => inl BP_key_error
      end.

    (* the refusal that opens evaluate since fixes/C07-all-zero.diff: an election without a single vote.
       [strict] = true is the code as it stands (repaired); [strict] = false is the pinned tree, which went on and handed
       seats to cells without votes (Props/C07.v C07_all_zero_refuted is a statement about it) *)
    Definition refuses_empty (strict : bool) : bool := strict && negb (has_votes votes).

    Definition evaluate_core (strict : bool) (n : Z) (fuel : nat) : bp_result :=
      if refuses_empty strict then BP_no_votes else
      match binit n with
      | inr s => bloop fuel s
      | inl e => e
      end.
  End Iter.

  Definition run_core (votes : mat) (tgt : list (C * Z)) (dorder : list C) (strict : bool) (n : Z) (fuel : nat) : list bstate * bp_result :=
    if refuses_empty votes strict then ([], BP_no_votes) else
    match binit votes n with
    | inr s => bloop_trace votes tgt dorder fuel s
    | inl e => ([], e)
    end.

  (* seats given as a total and no apportioner: the districts are apportioned by the same
     HighestAverages evaluator on the district totals (core.apportion) *)
  Definition evaluate_total (votes : mat) (strict : bool) (n : Z) (dorder : list C) (fuel : nat) : bp_result :=
    if refuses_empty votes strict then BP_no_votes else
    match binit votes n with
    | inl e => e
    | inr _ =>
        match HighestAverages.evaluate d (district_totals votes) n [] [] with
        | HA_value_error => BP_value_error
        | HA_ok _ (Some _) => BP_district_tie
        | HA_ok tgt None => evaluate_core votes tgt dorder strict n fuel
        end
    end.
  Definition run_total (votes : mat) (strict : bool) (n : Z) (dorder : list C) (fuel : nat) : list bstate * bp_result :=
    if refuses_empty votes strict then ([], BP_no_votes) else
    match binit votes n with
    | inl e => ([], e)
    | inr s =>
        match HighestAverages.evaluate d (district_totals votes) n [] [] with
        | HA_value_error => ([], BP_value_error)
        | HA_ok _ (Some _) => ([], BP_district_tie)
        | HA_ok tgt None => bloop_trace votes tgt dorder fuel s
        end
    end.
End Loop.
