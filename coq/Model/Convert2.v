(* Models of the converters of votelib/convert.py that are not accumulating folds over a per-ballot
   image, or that combine other converters (second part of C13; the fold-shaped ones are in Convert.v):

     VoteTotals / MergedDistributions   L724-742 / L693-720   (util.add_dict_to_dict per constituency)
     ConstituencyTotals / PartyTotals   L745-763 / L766-787   (sum of the inner dictionary)
     InvertedSimpleVotes                L513-523              (sign flip, nothing else: no zero / maximum handling in the code)
     GroupVotesByParty                  L604-631              (setdefault(party, {})[cand] = n)
     IndividualToPartyResult            L574-601              (one count per elected candidate)
     SelectionToDistribution            L634-650              ({cand: amount})
     MergedSelections                   L653-690              (stable sort by (-appearances, -sum of reversed ranks))
     ByConstituency                     L790-812              (the wrapped converter per constituency)
     RoundedVotes                       L847-900              (decimal quantize; modelled as exact rounding in Q)
     Chain                              L964-976              (left-to-right composition)

   Dictionaries are association lists in insertion order keyed by wire values (sx), as in GDict.v.
   No proofs here (Proofs/Convert2_proofs.v, Proofs/Round_proofs.v). *)
From Coq Require Import ZArith QArith Qabs Qround List Bool Arith.
From VL Require Import Prelude.Sx Prelude.PyDict Prelude.GDict Model.GetNBest Model.Convert.
Import ListNotations.

Definition fdict := list (sx * Q).            (* {vote or candidate: count} *)
Definition ndict := list (sx * fdict).        (* {constituency or party: {key: count}} *)

(* ---- votelib.util.add_dict_to_dict: for key, addition in dict2.items(): dict1[key] = dict1.get(key, 0) + addition *)
Definition add_dict (d1 d2 : fdict) : fdict :=
  fold_left (fun acc kv => gadd sx_eqb acc (fst kv) (snd kv)) d2 d1.

(* ---- VoteTotals (and MergedDistributions: the same loop over elected.values() or a list) *)
Definition vote_totals (votes : ndict) : fdict :=
  fold_left (fun acc cd => add_dict acc (snd cd)) votes [].

(* ---- ConstituencyTotals (and PartyTotals): {district: sum(dvotes.values())} *)
Definition dtotal (d : fdict) : Q := fold_left (fun acc kv => (acc + snd kv)%Q) d 0%Q.
Definition const_totals (votes : ndict) : fdict := map (fun cd => (fst cd, dtotal (snd cd))) votes.

(* ---- InvertedSimpleVotes: {cand: -n_votes} *)
Definition inv_simple (votes : fdict) : fdict := map (fun kv => (fst kv, (- snd kv)%Q)) votes.

(* ---- GroupVotesByParty: aggregated.setdefault(party, {})[cand] = n ; party 0 = IGNORE, no entry = independent (None key) *)
Fixpoint nset (n : ndict) (p k : sx) (x : Q) : ndict :=
  match n with
  | [] => [(p, [(k, x)])]
  | (p', d) :: t => if sx_eqb p p' then (p', gset sx_eqb d k x) :: t else (p', d) :: nset t p k x
  end.
Definition party_key (party : list (C * Z)) (c : C) : option sx :=
  match dget party c with
  | Some 0%Z => None
  | Some p => Some (A p)
  | None => Some (L [])
  end.
Definition group_by_party (party : list (C * Z)) (votes : list (C * Q)) : ndict :=
  fold_left (fun acc cw => match party_key party (fst cw) with
                           | Some p => nset acc p (kc (fst cw)) (snd cw)
                           | None => acc
                           end) votes [].

(* ---- IndividualToPartyResult: aggregated[party] += 1 for every elected candidate *)
Definition party_result (party : list (C * Z)) (elected : list C) : fdict :=
  dconv (img_party party) (map (fun c => (c, 1%Q)) elected).

(* ---- SelectionToDistribution: {cand: amount for cand in elected} *)
Definition sel_to_dist (amount : Q) (elected : list sx) : fdict :=
  fold_left (fun acc c => gset sx_eqb acc c amount) elected [].

(* ---- MergedSelections: ranks[cand].append(len(clist) - 1 - i); sorted by (-len(ranks), -sum(ranks)), stable *)
Fixpoint rk_add (r : list (sx * (Z * Z))) (c : sx) (x : Z) : list (sx * (Z * Z)) :=   (* (count, sum) per candidate *)
  match r with
  | [] => [(c, (1, x)%Z)]
  | (c', (n, s)) :: t => if sx_eqb c c' then (c', (n + 1, s + x)%Z) :: t else (c', (n, s)) :: rk_add t c x
  end.
Fixpoint rk_list (r : list (sx * (Z * Z))) (clist : list sx) (top : Z) : list (sx * (Z * Z)) :=
  match clist with
  | [] => r
  | c :: t => rk_list (rk_add r c top) t (top - 1)%Z
  end.
Definition rk_le (a b : Z * Z) : bool :=          (* (-n_a, -s_a) <= (-n_b, -s_b) lexicographically *)
  (fst b <? fst a)%Z || ((fst a =? fst b)%Z && (snd b <=? snd a)%Z).
Fixpoint rk_insert (x : sx * (Z * Z)) (l : list (sx * (Z * Z))) : list (sx * (Z * Z)) :=
  match l with
  | [] => [x]
  | y :: t => if rk_le (snd x) (snd y) then x :: y :: t else y :: rk_insert x t
  end.
Definition merged_selections (elected : list (list sx)) : list sx :=
  let ranks := fold_left (fun r cl => rk_list r cl (Z.of_nat (length cl) - 1)%Z) elected [] in
  map fst (fold_right rk_insert [] ranks).

(* ---- RoundedVotes: the count rounded to [d] decimals, exactly, by one of the eight rounding modes of the decimal module.
   Written from the definitions of the modes; the code goes through Decimal(numerator) / Decimal(denominator) at the context
   precision (28 significant digits) first: [round_code] below. *)
Inductive rmode := RHalfUp | RHalfDown | RHalfEven | RUp | RDown | RCeiling | RFloor | R05Up.

Definition pow10 (d : nat) : Q := inject_Z (10 ^ Z.of_nat d).

(* does the magnitude [lo + rem] (0 <= rem < 1) of a count with sign [neg] go to lo + 1 ? *)
Definition up_rule (m : rmode) (neg : bool) (lo : Z) (rem : Q) : bool :=
  match m with
  | RHalfUp => Qle_bool (1 # 2) rem                                          (* ties away from zero *)
  | RHalfDown => negb (Qle_bool rem (1 # 2))                                 (* ties towards zero *)
  | RHalfEven => negb (Qle_bool rem (1 # 2)) || (Qeq_bool rem (1 # 2) && Z.odd lo)   (* ties to the even neighbour *)
  | RUp => negb (Qle_bool rem 0)                                             (* away from zero *)
  | RDown => false                                                           (* towards zero *)
  | RCeiling => negb (Qle_bool rem 0) && negb neg                            (* towards +infinity *)
  | RFloor => negb (Qle_bool rem 0) && neg                                   (* towards -infinity *)
  | R05Up => negb (Qle_bool rem 0) && (lo mod 5 =? 0)%Z                      (* towards zero unless the kept digit would be 0 or 5 *)
  end.

Definition round_mag (m : rmode) (neg : bool) (a : Q) : Z :=                 (* a >= 0: the scaled magnitude *)
  let lo := Qfloor a in
  (lo + if up_rule m neg lo (a - inject_Z lo) then 1 else 0)%Z.

Definition round_at (m : rmode) (scale : Q) (x : Q) : Q :=                   (* to a multiple of 1 / scale ; scale > 0 *)
  let neg := negb (Qle_bool 0 x) in
  let n := round_mag m neg (Qabs x * scale) in
  ((if neg then - inject_Z n else inject_Z n) / scale)%Q.

Definition round_q (m : rmode) (d : nat) (x : Q) : Q := round_at m (pow10 d) x.

Definition rounded_votes (m : rmode) (d : nat) (votes : fdict) : fdict :=
  map (fun kv => (fst kv, round_q m d (snd kv))) votes.

(* The code path for Fraction counts (L880-884): Decimal(numerator) / Decimal(denominator) is the quotient correctly rounded
   (context rounding ROUND_HALF_EVEN) to the context precision of [prec] = 28 significant digits, and only that Decimal is
   quantized; quantize signals InvalidOperation when the result needs more than [prec] digits. *)
Fixpoint ndigits_fuel (fuel : nat) (z : Z) : Z :=                            (* decimal digits of z >= 1 *)
  match fuel with
  | O => 0
  | S f => if (z <? 10)%Z then 1 else (1 + ndigits_fuel f (z / 10))%Z
  end.
Definition ndigits (z : Z) : Z := ndigits_fuel (S (Z.to_nat (Z.log2 z))) z.
Definition scale10 (e : Z) : Q :=
  if (0 <=? e)%Z then inject_Z (10 ^ e) else (/ inject_Z (10 ^ (- e)))%Q.
(* floor(log10 |x|) for x <> 0 *)
Definition adjusted (x : Q) : Z :=
  let r := Qred (Qabs x) in
  let g := (ndigits (Qnum r) - ndigits (Zpos (Qden r)))%Z in
  if Qle_bool (scale10 g) r then g else (g - 1)%Z.
Definition sig_round (prec : nat) (x : Q) : Q :=
  if Qeq_bool x 0 then 0%Q else round_at RHalfEven (scale10 (Z.of_nat prec - 1 - adjusted x)) x.

Inductive rres := ROk (x : Q) | RInvalid.
Definition round_code (prec : nat) (via_division : bool) (m : rmode) (d : nat) (x : Q) : rres :=
  let v := if via_division then sig_round prec x else x in
  let r := round_q m d v in
  if Qle_bool (pow10 prec) (Qabs r * pow10 d) then RInvalid else ROk r.
Fixpoint rounded_code (prec : nat) (via_division : bool) (m : rmode) (d : nat) (votes : fdict) : option fdict :=
  match votes with
  | [] => Some []
  | (k, x) :: t => match round_code prec via_division m d x, rounded_code prec via_division m d t with
                   | ROk r, Some o => Some ((k, r) :: o)
                   | _, _ => None
                   end
  end.

(* ---- converter codes: what a Chain (or ByConstituency) is built from *)
Inductive ckind :=
| KApprovalSimple (split : bool) | KFirst | KFirstN (n : nat) | KPresence | KRankedApproval
| KPositional (s : scorer) | KCondorcet (bottom : bool) | KScoreRanked (unscored : option Q) | KScoreApproval (thr : Q)
| KInvApproval | KParty (party : list (C * Z))
| KSubSimple (s : list C) | KSubApproval (s : list C) | KSubRanked (s : list C) | KSubScore (s : list C).

Inductive ccode :=
| KConv (k : ckind)                       (* the accumulating converters of Convert.v *)
| KInvSimple
| KRounded (m : rmode) (d : Z)             (* exact rounding (the documented image) *)
| KRoundedCode (via_division : bool) (m : rmode) (d : Z)     (* as computed: 28 digit quotient first, InvalidOperation *)
| KVoteTotals                             (* also MergedDistributions *)
| KConstTotals                            (* also PartyTotals *)
| KGroupParty (party : list (C * Z))
| KPartyResult (party : list (C * Z))
| KSelToDist (amount : Q)
| KMergedSel
| KBy (c : ccode)
| KChain (l : list ccode).

(* what flows between converters *)
Inductive vdata :=
| VF (d : fdict)                          (* votes / distribution *)
| VN (n : ndict)                          (* per constituency / party *)
| VS (l : list sx)                        (* selection result *)
| VNS (n : list (sx * list sx)).          (* selection results per constituency *)

Inductive cres := COk (v : vdata) | CErr (e : Z) | CUnmod.
Definition E_ZERODIV : Z := 12.      (* harness/common.py E['ZERODIV'] *)

(* keys of a dictionary read back as ballots of the type the next converter expects; a key that is no such ballot puts the
   run outside the model (CUnmod) *)
Definition key_pos (s : sx) : option C := as_pos s.
Definition key_item (s : sx) : option item :=
  match s with
  | A (Zpos c) => Some (IP c)
  | L l => match opt_map as_pos l with Some l => Some (IS l) | None => None end
  | _ => None
  end.
Definition key_ranked (s : sx) : option ranked := as_listof key_item s.
Definition key_approval (s : sx) : option (list C) := as_listof as_pos s.
Definition key_score (s : sx) : option sballot := as_dict as_pos as_Q s.

Definition decode_all {B} (dec : sx -> option B) (d : fdict) : option (list (B * Q)) :=
  opt_map (fun kv => match dec (fst kv) with Some b => Some (b, snd kv) | None => None end) d.

Definition ok_f (d : fdict) : cres := COk (VF d).
Definition with_votes {B} (dec : sx -> option B) (d : fdict) (f : list (B * Q) -> cres) : cres :=
  match decode_all dec d with Some v => f v | None => CUnmod end.

Definition run_kind (k : ckind) (d : fdict) : cres :=
  match k with
  | KApprovalSimple sp => with_votes key_approval d (fun v =>
      (* after the fix: commit for C13-approval-split-empty (`if self.split and bulk`) an empty ballot contributes nothing *)
      ok_f (dconv (img_approval_simple sp) v))
  | KFirst => with_votes key_ranked d (fun v => ok_f (dconv img_first v))
  | KFirstN n => with_votes key_ranked d (fun v => match oconv (img_first_n n) v with Some o => ok_f o | None => CUnmod end)
  | KPresence => with_votes key_ranked d (fun v => ok_f (dconv img_presence v))
  | KRankedApproval => with_votes key_ranked d (fun v => ok_f (dconv img_ranked_approval v))
  | KPositional sc => with_votes key_ranked d (fun v =>
                        match oconv (img_positional sc (length (cands_ranked v))) v with
                        | Some o => ok_f o | None => CErr E_VALUE end)
  | KCondorcet bt => with_votes key_ranked d (fun v => ok_f (dconv (img_condorcet bt (cands_ranked v)) v))
  | KScoreRanked un => with_votes key_score d (fun v => ok_f (dconv (img_score_ranked un (cands_score v)) v))
  | KScoreApproval th => with_votes key_score d (fun v => ok_f (dconv (img_score_approval th) v))
  | KInvApproval => with_votes key_approval d (fun v => ok_f (dconv (img_inverted_approval (cands_approval v)) v))
  | KParty pm => with_votes key_pos d (fun v => ok_f (dconv (img_party pm) v))
  | KSubSimple su => with_votes key_pos d (fun v => ok_f (dconv (img_sub_simple su) v))
  | KSubApproval su => with_votes key_approval d (fun v => ok_f (dconv (img_sub_approval su) v))
  | KSubRanked su => with_votes key_ranked d (fun v => ok_f (dconv (img_sub_ranked su) v))
  | KSubScore su => with_votes key_score d (fun v => ok_f (dconv (img_sub_score su) v))
  end.

(* ByConstituency: {district: converter.convert(dvalues)}; the wrapped converter must give votes for every district *)
Fixpoint by_flat (f : fdict -> cres) (n : ndict) : cres :=
  match n with
  | [] => COk (VN [])
  | (c, d) :: t =>
      match f d with
      | COk (VF o) => match by_flat f t with COk (VN r) => COk (VN ((c, o) :: r)) | COk _ => CUnmod | e => e end
      | COk _ => CUnmod
      | e => e
      end
  end.
Fixpoint by_sel (f : list sx -> cres) (n : list (sx * list sx)) : cres :=
  match n with
  | [] => COk (VN [])
  | (c, l) :: t =>
      match f l with
      | COk (VF o) => match by_sel f t with COk (VN r) => COk (VN ((c, o) :: r)) | COk _ => CUnmod | e => e end
      | COk _ => CUnmod
      | e => e
      end
  end.

Fixpoint run_code (c : ccode) (v : vdata) {struct c} : cres :=
  match c, v with
  | KConv k, VF d => run_kind k d
  | KInvSimple, VF d => ok_f (inv_simple d)
  | KRounded m dz, VF d => if (dz <? 0)%Z then CErr E_VALUE else ok_f (rounded_votes m (Z.to_nat dz) d)
  | KRounded m dz, _ => if (dz <? 0)%Z then CErr E_VALUE else CUnmod
  | KRoundedCode dv m dz, VF d =>
      if (dz <? 0)%Z then CErr E_VALUE
      else match rounded_code 28 dv m (Z.to_nat dz) d with Some o => ok_f o | None => CErr E_OTHER end
  | KRoundedCode dv m dz, _ => if (dz <? 0)%Z then CErr E_VALUE else CUnmod
  | KVoteTotals, VN n => ok_f (vote_totals n)
  | KConstTotals, VN n => ok_f (const_totals n)
  | KGroupParty pm, VF d => with_votes key_pos d (fun v => COk (VN (group_by_party pm v)))
  | KPartyResult pm, VS l => match opt_map as_pos l with Some l => ok_f (party_result pm l) | None => CUnmod end
  | KSelToDist am, VS l => ok_f (sel_to_dist am l)
  | KMergedSel, VNS n => COk (VS (merged_selections (map snd n)))
  | KBy c', VN n => by_flat (fun d => run_code c' (VF d)) n
  | KBy c', VNS n => by_sel (fun l => run_code c' (VS l)) n
  | KChain l, _ =>
      (fix go (l : list ccode) (v : vdata) {struct l} : cres :=
         match l with
         | [] => COk v
         | c' :: t => match run_code c' v with COk v' => go t v' | e => e end
         end) l v
  | _, _ => CUnmod
  end.

(* ---- the candidate-set side condition of Chain additivity (Props/C13.v C13_chain_additive_same_cands).
   Positional scores, pairwise counts with unranked_at_bottom, ScoreToRankedVotes(unscored_value) and InvertedApprovalVotes read
   the set of all candidates off the profile they are handed; they are additive on profiles over the SAME candidates.  In a Chain
   the profile a link is handed is the output of the link before it, so the condition is asked link by link, on the intermediate
   profiles of the two sub-profiles. *)
Inductive link := LK (k : ckind) | LInv.

Fixpoint links_of (c : ccode) : option (list link) :=
  match c with
  | KConv k => Some [LK k]
  | KInvSimple => Some [LInv]
  | KChain l =>
      (fix go (l : list ccode) : option (list link) :=
         match l with
         | [] => Some []
         | c' :: t => match links_of c', go t with Some a, Some b => Some (a ++ b) | _, _ => None end
         end) l
  | _ => None
  end.

(* the candidates named by the keys of a dictionary (keys that are no ballots name nobody), as a canonical list *)
Definition cands_of_keys {B} (dec : sx -> option B) (mem : B -> list C) (ks : list sx) : list C :=
  canon_set (flat_map (fun k => match dec k with Some b => mem b | None => [] end) ks).

(* what a converter reads off the profile besides the ballots: [] for the eleven converters that read nothing *)
Definition kind_cands (k : ckind) (ks : list sx) : list C :=
  match k with
  | KPositional _ | KCondorcet _ => cands_of_keys key_ranked flatten ks
  | KScoreRanked _ => cands_of_keys key_score (map fst) ks
  | KInvApproval => cands_of_keys key_approval (fun b => b) ks
  | _ => []
  end.
Definition link_cands (l : link) (ks : list sx) : list C := match l with LK k => kind_cands k ks | LInv => [] end.
Definition run_link (l : link) (d : fdict) : cres := match l with LK k => run_kind k d | LInv => ok_f (inv_simple d) end.

Fixpoint cs_eqb (a b : list C) : bool :=
  match a, b with
  | [], [] => true
  | x :: a', y :: b' => Pos.eqb x y && cs_eqb a' b'
  | _, _ => false
  end.

Fixpoint same_cands_links (ls : list link) (a b : fdict) : bool :=
  match ls with
  | [] => true
  | l :: t =>
      cs_eqb (link_cands l (map fst a)) (link_cands l (map fst b)) &&
      match run_link l a, run_link l b with
      | COk (VF a'), COk (VF b') => same_cands_links t a' b'
      | _, _ => false
      end
  end.

(* [same_cands c a b]: c is built from accumulating converters, InvertedSimpleVotes and Chains, and at every link the two
   sub-profiles a and b have been converted to profiles over the same candidates *)
Definition same_cands (c : ccode) (a b : fdict) : bool :=
  match links_of c with Some ls => same_cands_links ls a b | None => false end.

(* ---- where the library's two roundings can differ from the one exact rounding (Props/C13.v C13_rounded_code_outside_class).
   A Fraction count x is first replaced by its 28 digit quotient v = sig_round 28 x and v is rounded to d decimals.  The rounding of
   mode m is constant between two neighbouring BOUNDARIES of the mode: the exact halves (j + 1/2) / 10^d for the three HALF modes, the
   grid points j / 10^d for the five directed modes - in units of half a unit of the last kept digit, the odd resp. the even integers.
   [crosses m d x v]: some boundary of m lies in the closed interval between x and v. *)
Definition half_boundaries (m : rmode) : bool :=
  match m with RHalfUp | RHalfDown | RHalfEven => true | _ => false end.

Definition crosses (m : rmode) (d : nat) (x v : Q) : bool :=
  let lo := if Qle_bool x v then x else v in
  let hi := if Qle_bool x v then v else x in
  let jl := Qceiling (lo * (2 * pow10 d)) in
  let jh := Qfloor (hi * (2 * pow10 d)) in
  (jl <=? jh)%Z && ((jl <? jh)%Z || Bool.eqb (Z.odd jl) (half_boundaries m)).

(* the double-rounding class: the 28 digit quotient is not the count itself and a boundary separates (or touches) the two *)
Definition dr_class (prec : nat) (m : rmode) (d : nat) (x : Q) : bool :=
  let v := sig_round prec x in negb (Qeq_bool v x) && crosses m d x v.

(* the class EXACTLY, for the three HALF modes: a half strictly between the count and its quotient, or one of the two IS a half and the tie
   rule of the mode sends it away from the other (Props/C13.v C13_rounded_half_class_exact) *)
Definition is_odd_int (t : Q) : bool := Qeq_bool t (inject_Z (Qfloor t)) && Z.odd (Qfloor t).
Definition half_inside (d : nat) (lo hi : Q) : bool :=
  let jl := (Qfloor (lo * (2 * pow10 d)) + 1)%Z in
  let jh := (Qceiling (hi * (2 * pow10 d)) - 1)%Z in
  (jl <=? jh)%Z && ((jl <? jh)%Z || Z.odd jl).
Definition crosses_half (m : rmode) (d : nat) (x v : Q) : bool :=
  let lo := if Qle_bool x v then x else v in
  let hi := if Qle_bool x v then v else x in
  half_inside d lo hi
  || (is_odd_int (lo * (2 * pow10 d)) && negb (Qle_bool lo (round_q m d lo)))
  || (is_odd_int (hi * (2 * pow10 d)) && negb (Qle_bool (round_q m d hi) hi)).
Definition dr_class_half (prec : nat) (m : rmode) (d : nat) (x : Q) : bool :=
  let v := sig_round prec x in negb (Qeq_bool v x) && crosses_half m d x v.
