(* Wire-level wrappers of property C17: decode arguments from sx, run the model, encode.
   Dispatch.v routes a block of unit numbers here; [k] is the offset inside the block. *)
From Coq Require Import ZArith QArith List Bool.
From VL Require Import Prelude.Sx Prelude.PyDict Model.GetNBest Model.Convert Model.Bucklin.
Import ListNotations.
Open Scope Z_scope.

Definition as_item17 (s : sx) : option item :=
  match s with
  | A (Zpos c) => Some (IP c)
  | L l => match opt_map as_pos l with Some l => Some (IS l) | None => None end
  | _ => None
  end.
Definition as_coefspec (s : sx) : option coefspec :=
  match s with
  | L [A 0; l] => match as_listof as_Q l with Some l => Some (CoefList l) | None => None end
  | L [A 1] => Some CoefHarmonic
  | _ => None
  end.
Definition of_res17 (r : res positive) : sx :=
  match r with
  | Cand c => of_pos c
  | TieR l => L (map of_pos l)
  end.
Definition of_pa (r : pa_result) : sx :=
  match r with
  | PA_ok l => ok (L (map of_res17 l))
  | PA_value_error => err E_VALUE
  | PA_index_error => err E_INDEX
  | PA_nie => err E_NIE
  | PA_unmodelled => L [A 4]
  end.

(* offset 0: PreferenceAddition(coefficients, split_equal_rankings).evaluate(votes, n)
   args: (fx coefspec split votes n) ; fx = 1 when the implementation has the repaired splicing loop ; votes = dict ranked ballot -> Q in insertion order,
   a shared rank is the list of its members in the iteration order of the frozenset *)
Definition u_preference_addition (a : sx) : sx :=
  match a with
  | L [fx; cs; sp; v; n] =>
      match as_bool fx, as_coefspec cs, as_bool sp, as_dict (as_listof as_item17) as_Q v, as_nat n with
      | Some fx, Some cs, Some sp, Some votes, Some n => of_pa (pa_evaluate fx cs sp votes n)
      | _, _, _, _, _ => bad_input
      end
  | _ => bad_input
  end.

Definition u_c17 (k : Z) (a : sx) : sx :=
  match k with
  | 0 => u_preference_addition a
  | _ => bad_input
  end.
