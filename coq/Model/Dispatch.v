(* Unit table: numbers are shared with harness/units.py (checked by
   harness/selftest at setup: every unit answers a probe). *)
From Coq Require Import ZArith List Bool.
From VL Require Import Prelude.Sx Model.Units.
From VL Require Import Model.Units_C07 Model.Units_C08 Model.Units_C10 Model.Units_C11 Model.Units_C14 Model.Units_C17 Model.Units_C18 Model.Units_C19 Model.Units_C12 Model.Units_C05 Model.Units_C13 Model.Units_C03.
From VL Require Import Model.Units_C15.
Import ListNotations.
Open Scope Z_scope.

Definition dispatch (u : Z) (a : sx) : sx :=
  match u with
  | 1 => u_get_n_best a
  | 2 => u_highest_averages a
  | 3 => u_divisor a
  | 4 => u_quota_distributor false a
  | 5 => u_quota_distributor true a
  | 6 => u_quota a
  | 7 => u_quota_selector a
  | 8 => u_threshold a
  | 9 => u_bracket a
  | 10 => u_openlist a
  | 11 => u_break_by_list a
  | 12 => u_condorcet_winner a
  | 13 => u_smith_schwartz a
  | 14 => u_copeland a
  | 15 => u_schulze a
  | 16 => u_minimax a
  | 17 => u_ranked_pairs a
  | 18 => u_kemeny a
  | 19 => u_validate a
  | 20 => u_eliminate a
  | 21 => u_convert a
  | 22 => u_stv a
  | 23 => u_pav a
  | 24 => u_spav a
  | 25 => u_score_voting a
  | 26 => u_mj a
  | 27 => u_score_to_simple a
  | 28 => u_overhang a
  | _ =>
      (* blocks of ten unit numbers per later property (harness/units.py BLOCK) *)
      if (100 <=? u) && (u <? 110) then u_c07 (u - 100) a
      else if (110 <=? u) && (u <? 120) then u_c08 (u - 110) a
      else if (120 <=? u) && (u <? 130) then u_c10 (u - 120) a
      else if (130 <=? u) && (u <? 140) then u_c11 (u - 130) a
      else if (140 <=? u) && (u <? 150) then u_c14 (u - 140) a
      else if (150 <=? u) && (u <? 160) then u_c17 (u - 150) a
      else if (160 <=? u) && (u <? 170) then u_c18 (u - 160) a
      else if (170 <=? u) && (u <? 190) then u_c19 (u - 170) a
      else if (190 <=? u) && (u <? 200) then u_c12 (u - 190) a
      else if (200 <=? u) && (u <? 210) then u_c05 (u - 200) a
      else if (210 <=? u) && (u <? 220) then u_c13 (u - 210) a
      else if (250 <=? u) && (u <? 260) then u_c15 (u - 250) a
      else if (300 <=? u) && (u <? 310) then u_c03 (u - 300) a
      else bad_input
  end.
