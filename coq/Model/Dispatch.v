(* Unit table: numbers are shared with harness/units.py (checked by
   harness/selftest at setup: every unit answers a probe). *)
From Coq Require Import ZArith List.
From VL Require Import Prelude.Sx Model.Units.
Import ListNotations.
Open Scope Z_scope.

Definition dispatch (u : Z) (a : sx) : sx :=
  match u with
  | 1 => u_get_n_best a
  | 2 => u_highest_averages a
  | 3 => u_divisor a
  | 4 => u_quota_distributor false a
  | 5 => u_quota_distributor true a
  | 6 => u_quota a
  | 7 => u_quota_selector a
  | 8 => u_threshold a
  | 9 => u_bracket a
  | 10 => u_openlist a
  | 11 => u_break_by_list a
  | 12 => u_condorcet_winner a
  | 13 => u_smith_schwartz a
  | 14 => u_copeland a
  | 15 => u_schulze a
  | 16 => u_minimax a
  | 17 => u_ranked_pairs a
  | 18 => u_kemeny a
  | 19 => u_validate a
  | 20 => u_eliminate a
  | 21 => u_convert a
  | 22 => u_stv a
  | 23 => u_pav a
  | 24 => u_spav a
  | 25 => u_score_voting a
  | 26 => u_mj a
  | 27 => u_score_to_simple a
  | 28 => u_overhang a
  | _ => bad_input
  end.
