(* Unit table: numbers are shared with harness/units.py (checked by
   harness/selftest at setup: every unit answers a probe). *)
From Coq Require Import ZArith List.
From VL Require Import Prelude.Sx Model.Units.
Import ListNotations.
Open Scope Z_scope.

Definition dispatch (u : Z) (a : sx) : sx :=
  match u with
  | 1 => u_get_n_best a
  | 2 => u_highest_averages a
  | 3 => u_divisor a
  | _ => bad_input
  end.
