(* Wire-level wrappers of the Condorcet-runoff hybrids of property C05 (Model/Hybrids.v): decode arguments
   from sx, run the model, encode.  Dispatch.v routes the block of unit numbers 200..209 here; [k] is the
   offset inside the block. *)
From Coq Require Import ZArith QArith List Bool.
From VL Require Import Prelude.Sx Prelude.PyDict Model.GetNBest Model.Convert Model.Condorcet Model.Units Model.Hybrids.
Import ListNotations.
Open Scope Z_scope.

Definition as_zrprofile (s : sx) : option rvotes := as_dict (as_listof as_item) as_Z s.

Definition of_hres (r : hres) : sx :=
  match r with
  | H_ok l => ok (L (map of_res l))
  | H_index => err E_INDEX
  | H_key => err E_KEY
  | H_type => err E_TYPE
  | H_nie => err E_NIE
  | H_fuel => err E_FUEL
  end.

Definition of_item (i : item) : sx := match i with IP c => of_pos c | IS l => L (map of_pos l) end.

Definition u_c05 (k : Z) (a : sx) : sx :=
  match k, a with
  (* 200: Benham (fx sc votes) *)
  | 0, L [fx; sc; v] => match as_bool fx, as_bool sc, as_zrprofile v with
                        | Some fx, Some sc, Some v => of_hres (benham fx sc v) | _, _, _ => bad_input end
  (* 201: TidemanAlternative (fx sc tr votes n_seats) *)
  | 1, L [fx; sc; tr; v; n] => match as_bool fx, as_bool sc, as_bool tr, as_zrprofile v, as_nat n with
                               | Some fx, Some sc, Some tr, Some v, Some n => of_hres (tideman_alt fx sc tr v n)
                               | _, _, _, _, _ => bad_input end
  (* 202: RANKED_TO_CONDORCET (votes) -> pairwise dictionary *)
  | 2, L [v] => match as_zrprofile v with
                | Some v => ok (L (map (fun pn : pair * Z => L [L [of_pos (fst (fst pn)); of_pos (snd (fst pn))]; A (snd pn)]) (pairwise v)))
                | None => bad_input end
  (* 203: RANKED_SUBSETTER (subset votes) -> ranked votes *)
  | 3, L [su; v] => match as_listof as_pos su, as_zrprofile v with
                    | Some su, Some v => ok (L (map (fun bw : ranked * Z => L [L (map of_item (fst bw)); A (snd bw)]) (subset_votes su v)))
                    | _, _ => bad_input end
  (* 204: eliminate_one (votes) *)
  | 4, L [v] => match as_zrprofile v with
                | Some v => match eliminate_one v with Some r => ok (L (map of_res r)) | None => err E_INDEX end
                | None => bad_input end
  | _, _ => bad_input
  end.
