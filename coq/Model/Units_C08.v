(* Wire-level wrappers of property C08: the verified selection-shape checker (Proofs/Shape_proofs.v
   sel_shape_ok, reflected in sel_shape) evaluated on the implementation's results. *)
From Coq Require Import ZArith QArith List Bool.
From VL Require Import Prelude.Sx Prelude.PyDict Model.GetNBest Proofs.Shape_proofs.
From VL Require Import Model.Convert Model.Units Model.Hybrids Model.Elimination Model.ApprovalSimple.
Import ListNotations.
Open Scope Z_scope.

Definition as_res (s : sx) : option (res C) :=
  match s with
  | A (Zpos p) => Some (Cand p)
  | L l => match opt_map as_pos l with Some m => Some (TieR m) | None => None end
  | _ => None
  end.

(* unit 110: (cands n result) -> 1 / 0 *)
Definition u_c08 (k : Z) (a : sx) : sx :=
  match k with
  | 0 =>
      match a with
      | L [cs; n; r] =>
          match as_listof as_pos cs, as_nat n, as_listof as_res r with
          | Some cands, Some n, Some r => ok (of_bool (sel_shape_ok cands n r))
          | _, _, _ => bad_input
          end
      | _ => bad_input
      end
  (* 111: Baldwin (scorer votes n_seats) -> selection / error *)
  | 1 =>
      match a with
      | L [sc; v; n] =>
          match as_scorer_r sc, as_dict (as_listof as_item) as_Z v, as_nat n with
          | Some sc, Some v, Some n =>
              match baldwin sc v n with
              | B_ok r => ok (L (map of_res r))
              | B_value => err E_VALUE
              | B_index => err E_INDEX
              | B_fuel => err E_FUEL
              end
          | _, _, _ => bad_input
          end
      | _ => bad_input
      end
  (* 112: Baldwin._compute_negative_scores (scorer votes) -> [[cand score] ...] in dictionary order / error *)
  | 2 =>
      match a with
      | L [sc; v] =>
          match as_scorer_r sc, as_dict (as_listof as_item) as_Z v with
          | Some sc, Some v =>
              match neg_scores sc v with
              | Some d => ok (L (map (fun cs : C * Q => L [of_pos (fst cs); of_Q (snd cs)]) d))
              | None => err E_VALUE
              end
          | _, _ => bad_input
          end
      | _ => bad_input
      end
  (* 113: ApprovalToSimpleVotes(split).convert (split votes) -> [[cand votes] ...] in insertion order *)
  | 3 =>
      match a with
      | L [sp; v] =>
          match as_bool sp, as_aprofile v with
          | Some sp, Some v => ok (L (map (fun cs : C * Q => L [of_pos (fst cs); of_Q (snd cs)]) (approval_simple sp v)))
          | _, _ => bad_input
          end
      | _ => bad_input
      end
  | _ => bad_input
  end.
