(* Wire-level wrappers of property C08: the verified selection-shape checker (Proofs/Shape_proofs.v
   sel_shape_ok, reflected in sel_shape) evaluated on the implementation's results. *)
From Coq Require Import ZArith QArith List Bool.
From VL Require Import Prelude.Sx Prelude.PyDict Model.GetNBest Proofs.Shape_proofs.
Import ListNotations.
Open Scope Z_scope.

Definition as_res (s : sx) : option (res C) :=
  match s with
  | A (Zpos p) => Some (Cand p)
  | L l => match opt_map as_pos l with Some m => Some (TieR m) | None => None end
  | _ => None
  end.

(* unit 110: (cands n result) -> 1 / 0 *)
Definition u_c08 (k : Z) (a : sx) : sx :=
  match k with
  | 0 =>
      match a with
      | L [cs; n; r] =>
          match as_listof as_pos cs, as_nat n, as_listof as_res r with
          | Some cands, Some n, Some r => ok (of_bool (sel_shape_ok cands n r))
          | _, _, _ => bad_input
          end
      | _ => bad_input
      end
  | _ => bad_input
  end.
