(* Model of votelib.evaluate.proportional.PureProportionality.evaluate (proportional.py L33-91): strictly proportional
   (fractional) seats with previous gains as a floor and max_seats as a ceiling.  One pass of the while loop keeps the
   results of the candidates fixed so far, spreads the remaining budget over the others in proportion to their votes
   (Fraction(budget, total): ZeroDivisionError when the others have no votes - or when nobody is left), and fixes
   whoever falls at or below his previous gains (to them) or above his maximum (to it); the loop ends when a pass
   fixes nobody.  Fractions are kept normalised (Qred), as Python's are.  Executable definitions only. *)
From Coq Require Import ZArith QArith List Bool Arith.
From VL Require Import Prelude.PyDict Model.GetNBest Model.QuotaDistributor.
Import ListNotations.

Inductive pp_result :=
| PP_ok (seats : list (C * Q))
| PP_zerodiv          (* ZeroDivisionError *)
| PP_fuel.            (* model out of fuel: never expected *)

Definition pp_state := (list C * list (C * Q))%type.      (* fixed, result (insertion order) *)

Definition pp_cand (prev caps : list (C * Z)) (budget total : Q) (st : pp_state) (cv : C * Q) : pp_state :=
  let give := Qred (snd cv * (budget / total)) in
  let has := inject_Z (dget_or prev (fst cv) 0%Z) in
  if negb (Qle_bool give has) then                                   (* cand_give_seats > cand_has_seats *)
    match dget caps (fst cv) with
    | Some m =>
        if negb (Qle_bool give (inject_Z m))                         (* over the maximum: fix the maximum *)
        then (fst st ++ [fst cv], dset (snd st) (fst cv) (inject_Z m))
        else (fst st, dset (snd st) (fst cv) give)
    | None => (fst st, dset (snd st) (fst cv) give)
    end
  else (fst st ++ [fst cv], dset (snd st) (fst cv) has).             (* at or below the minimum: fix the minimum *)

(* None = ZeroDivisionError *)
Definition pp_pass (votes : list (C * Q)) (n : Z) (prev caps : list (C * Z)) (st : pp_state) : option pp_state :=
  let kept := filter (fun cs : C * Q => cmem (fst cs) (fst st)) (snd st) in
  let budget := (inject_Z n - qsum (map snd kept))%Q in
  let current := filter (fun cv : C * Q => negb (cmem (fst cv) (fst st))) votes in
  let total := qsumv current in
  if Qeq_bool total 0 then None
  else Some (fold_left (pp_cand prev caps budget total) current (fst st, kept)).

Fixpoint pp_loop (fuel : nat) (votes : list (C * Q)) (n : Z) (prev caps : list (C * Z)) (st : pp_state) : pp_result :=
  match fuel with
  | O => PP_fuel
  | S f =>
      match pp_pass votes n prev caps st with
      | None => PP_zerodiv
      | Some st' =>
          if Nat.eqb (length (fst st')) (length (fst st))
          then PP_ok (map (fun cs : C * Q => (fst cs, Qred (snd cs - inject_Z (dget_or prev (fst cs) 0%Z)))) (snd st'))
          else pp_loop f votes n prev caps st'
      end
  end.

Definition pp_evaluate (votes : list (C * Q)) (n : Z) (prev caps : list (C * Z)) : pp_result :=
  pp_loop (S (S (length votes))) votes n prev caps ([], []).
