(* Models of the Condorcet-runoff hybrids of votelib/evaluate/sequential.py (L629-725):
   RANKED_TO_CONDORCET / RANKED_SUBSETTER, eliminate_one, Benham.evaluate and
   TidemanAlternative.evaluate (run_tier, get_winner_set), built from the existing model
   pieces: the per-ballot image of RankedToCondorcetVotes and RankedSubsetter.subset
   (Model/Convert.v img_condorcet, sub_ranked), initial_allocation / totals (Model/STV.v),
   get_n_best (Model/GetNBest.v), CondorcetWinner / SmithSet (Model/Condorcet.v).
   Executable definitions only.  Ballot weights are integers (Dict[RankedVoteType, int]).

   Three flags select which repairs the modelled code has (false = the code as written on the
   pinned tree, so that the old behaviour stays expressible and its refutations stay theorems):
   [fx] the elimination step: false = a Tie object returned by eliminate_one leaks into the
        candidate subset, true = fixes/C05-hybrid-elimination-tie.diff (a tie among the candidates
        to eliminate is the declared refusal NotImplementedError);
   [sc] a profile without a pairwise contest: false = the empty answer of CondorcetWinner / the
        set selector is taken as it is (IndexError from eliminate_one follows), true =
        fixes/C05-hybrid-single-candidate.diff (Benham.get_condorcet_winner answers with a
        candidate that stands alone; TidemanAlternative.get_winner_set falls back to all
        candidates of the round when the set selector returns nothing);
   [tr] the tiers of TidemanAlternative after the first: false = RANKED_SUBSETTER.convert is
        called without the subset (TypeError), true = fixes/C05-tideman-tiers.diff (the votes
        are restricted to the still eligible candidates). *)
From Coq Require Import ZArith QArith List Bool Arith.
From VL Require Import Prelude.Sx Prelude.PyDict Prelude.GDict Model.GetNBest Model.Convert Model.STV Model.Condorcet.
Import ListNotations.
Open Scope Z_scope.

Definition rvotes := list (ranked * Z).
Definition qv (votes : rvotes) : list (ranked * Q) := map (fun bw => (fst bw, inject_Z (snd bw))) votes.

(* ---- RANKED_TO_CONDORCET = RankedToCondorcetVotes(unranked_at_bottom=True).convert (convert.py L398-428):
   counts[upper, lower] += n_votes over the pairs of the ballot image, in the order of the image *)
Definition dec_pair (k : sx) : list pair :=
  match k with L [A (Zpos a); A (Zpos b)] => [(a, b)] | _ => [] end.
Definition ballot_pairs (cs : list C) (r : ranked) : list pair :=
  flat_map (fun kc : sx * Q => dec_pair (fst kc)) (img_condorcet true cs r).
Fixpoint padd (v : pvotes) (p : pair) (n : Z) : pvotes :=
  match v with
  | [] => [(p, n)]
  | (p', n') :: t => if peqb p p' then (p', n' + n) :: t else (p', n') :: padd t p n
  end.
Definition pairwise (votes : rvotes) : pvotes :=
  let cs := cands_ranked (qv votes) in
  fold_left (fun acc bw => fold_left (fun acc p => padd acc p (snd bw)) (ballot_pairs cs (fst bw)) acc) votes [].

(* ---- RANKED_SUBSETTER = SubsettedVotes(RankedSubsetter()).convert (convert.py L937-948, vote.py L620-643):
   sub[subset(vote)] += n_votes; ballots that become equal are merged (tuple / frozenset equality) *)
Fixpoint vadd (v : rvotes) (b : ranked) (w : Z) : rvotes :=
  match v with
  | [] => [(b, w)]
  | (b', w') :: t => if ballot_eqb b b' then (b', w' + w) :: t else (b', w') :: vadd t b w
  end.
Definition subset_votes (subset : list C) (votes : rvotes) : rvotes :=
  fold_left (fun acc bw => vadd acc (sub_ranked subset (fst bw)) (snd bw)) votes [].

(* ---- eliminate_one (L692-696): get_n_best(allocation_totals(initial_allocation(votes)), k - 1), k = number of
   candidates.  None = IndexError (k = 0: sorted_items[-2] of an empty list); k = 1: get_n_best(.., 0) = [] *)
Definition eliminate_one (votes : rvotes) : option (list (res C)) :=
  let k := length (all_ranked_candidates (qv votes)) in
  let tot := some_totals (totals (initial_allocation (qv votes))) in
  match k with
  | O => None
  | S O => Some []
  | S n => Some (get_n_best Qle_bool tot n)
  end.

(* the plain entries of a selection: what `rank in remains` can match (a Tie object equals no candidate) *)
Definition plain (r : list (res C)) : list C :=
  flat_map (fun x => match x with Cand c => [c] | TieR _ => [] end) r.

Inductive hres :=
| H_ok (r : list (res C))
| H_index            (* IndexError *)
| H_key              (* KeyError: a Tie object removed from the eligible set *)
| H_type             (* TypeError: RANKED_SUBSETTER.convert(tier_votes) without the subset *)
| H_nie              (* NotImplementedError *)
| H_fuel.            (* model out of fuel: never expected *)

(* ---- Benham.get_condorcet_winner (L733-742): the first entry of CondorcetWinner's answer; with [sc] a candidate
   that stands alone is returned before the pairwise dictionary (empty then) is looked at *)
Definition benham_cw (sc : bool) (cur : rvotes) : list C :=
  match all_ranked_candidates (qv cur) with
  | [c] => if sc then [c] else condorcet_winner (pairwise cur)
  | _ => condorcet_winner (pairwise cur)
  end.

(* ---- Benham.evaluate (L704-718), n_seats = 1 *)
Fixpoint benham_loop (fx sc : bool) (fuel : nat) (votes0 cur : rvotes) : hres :=
  match benham_cw sc cur with
  | c :: _ => H_ok [Cand c]
  | [] =>
      match fuel with
      | O => H_fuel
      | S f =>
          match eliminate_one cur with
          | None => H_index
          | Some remains =>
              match remains with
              | [_] => H_ok remains
              | _ => if fx && has_tie remains then H_nie
                     else benham_loop fx sc f votes0 (subset_votes (plain remains) votes0)
              end
          end
      end
  end.
Definition benham (fx sc : bool) (votes : rvotes) : hres :=
  benham_loop fx sc (S (S (length (all_ranked_candidates (qv votes))))) votes votes.

(* ---- TidemanAlternative.get_winner_set (L695-705) with the default SmithSet selector; with [sc] an empty answer
   (no pairwise contest) is replaced by all candidates of the round *)
Definition winner_set (sc : bool) (round : rvotes) : list C :=
  match smith_schwartz (pairwise round) true with
  | [] => if sc then all_ranked_candidates (qv round) else []
  | sset => sset
  end.

(* ---- TidemanAlternative.run_tier (L674-689) *)
Fixpoint tideman_tier (fx sc : bool) (fuel : nat) (round : rvotes) : res C + hres :=
  match round with
  | [] => inr H_nie                                  (* while round_votes: ... raise NotImplementedError *)
  | _ =>
      match fuel with
      | O => inr H_fuel
      | S f =>
          match winner_set sc round with
          | [w] => inl (Cand w)
          | sset =>
              let round1 := subset_votes sset round in
              match eliminate_one round1 with
              | None => inr H_index
              | Some rem =>
                  if fx && has_tie rem then inr H_nie
                  else match rem with
                       | [r] => inl r
                       | _ => tideman_tier fx sc f (subset_votes (plain rem) round1)
                       end
              end
          end
      end
  end.

(* the fuel one tier is run with: every round of a tier drops a candidate *)
Definition tier_fuel_of (round : rvotes) : nat := S (S (length (all_ranked_candidates (qv round)))).

(* ---- TidemanAlternative.evaluate (L656-672): tier after tier; [elig] = eligible_set (a Python set: only membership
   and emptiness are used), [acc] = ranked_set; [k] bounds the number of tiers (every tier removes a candidate from [elig]).
   Without [tr] a further tier is the TypeError of the pinned tree. *)
Fixpoint tideman_loop (fx sc tr : bool) (k : nat) (tier_votes : rvotes) (elig : list C) (n_seats : nat) (acc : list (res C)) : hres :=
  match k with
  | O => H_fuel
  | S k' =>
      match tideman_tier fx sc (tier_fuel_of tier_votes) tier_votes with
      | inr e => e
      | inl (TieR _) => H_key                        (* eligible_set.remove(Tie object) *)
      | inl (Cand w) =>
          if cmem w elig then
            let acc' := acc ++ [Cand w] in
            let elig' := filter (fun c => negb (ceqb c w)) elig in
            if Nat.eqb (length acc') n_seats || (match elig' with [] => true | _ => false end) then H_ok acc'
            else if tr then tideman_loop fx sc tr k' (subset_votes elig' tier_votes) elig' n_seats acc'
            else H_type
          else H_key
      end
  end.

Definition tideman_alt (fx sc tr : bool) (votes : rvotes) (n_seats : nat) : hres :=
  let cands := all_ranked_candidates (qv votes) in
  tideman_loop fx sc tr (S (length cands)) votes cands n_seats [].
