(* C19 - executable model of votelib/persist.py: serialize_value (after fixes/C19-persist-rejects.diff:
   [ser_fixed] / [serialize_value], inside the environment section because names are resolved at save
   time; before it: [ser] / [serialize_value_pinned]), deserialize_value, deserialize_typed,
   deserialize_class, from_dict, and of what json.dumps/json.loads does to a serialised value.
   Models only - proofs are in Proofs/Persist_proofs.v and Proofs/PersistRejects_proofs.v.

   Strings are lists of code points.  What the model cannot contain is an oracle argument
   (record [env]): the Unicode identifier tables beyond ASCII, Decimal(str) (the parser of the
   decimal module, returning the canonical string of the parsed number), the table of loadable
   classes with the keyword names their constructors accept, and the table of importable
   callables.  Every theorem holds for every [env]. *)
From Coq Require Import ZArith List Bool Strings.String Strings.Ascii.
Import ListNotations.
Open Scope Z_scope.

Definition str := list Z.

Fixpoint str_eqb (a b : str) : bool :=
  match a, b with
  | [], [] => true
  | x :: a', y :: b' => Z.eqb x y && str_eqb a' b'
  | _, _ => false
  end.

Fixpoint codes (s : string) : str :=
  match s with
  | EmptyString => []
  | String a t => Z.of_nat (nat_of_ascii a) :: codes t
  end.

Definition s_type : str := Eval compute in codes "type".
Definition s_class : str := Eval compute in codes "class".
Definition s_callable : str := Eval compute in codes "callable".
Definition s_keys : str := Eval compute in codes "keys".
Definition s_values : str := Eval compute in codes "values".
Definition s_value : str := Eval compute in codes "value".
Definition s_arguments : str := Eval compute in codes "arguments".
Definition s_parameters : str := Eval compute in codes "parameters".
Definition s_dict : str := Eval compute in codes "dict".
Definition s_Fraction : str := Eval compute in codes "Fraction".
Definition s_Decimal : str := Eval compute in codes "Decimal".
Definition s_frozenset : str := Eval compute in codes "frozenset".
Definition s_tuple : str := Eval compute in codes "tuple".

(* ---------------------------------------------------------------- association lists *)
Section Assoc.
  Context {K V : Type}.
  Variable eqb : K -> K -> bool.
  Fixpoint aget (d : list (K * V)) (k : K) : option V :=
    match d with
    | [] => None
    | (k', v) :: t => if eqb k k' then Some v else aget t k
    end.
  (* d[k] = v *)
  Fixpoint aset (d : list (K * V)) (k : K) (v : V) : list (K * V) :=
    match d with
    | [] => [(k, v)]
    | (k', v') :: t => if eqb k k' then (k', v) :: t else (k', v') :: aset t k v
    end.
  Definition amem (d : list (K * V)) (k : K) : bool :=
    match aget d k with Some _ => true | None => false end.
  Definition memb (k : K) (l : list K) : bool := existsb (eqb k) l.
  (* no element equals an earlier one (the comparison direction of a dict insertion) *)
  Fixpoint nodup_acc (seen l : list K) : bool :=
    match l with
    | [] => true
    | x :: t => negb (memb x seen) && nodup_acc (seen ++ [x]) t
    end.
  Definition nodupb (l : list K) : bool := nodup_acc [] l.
  (* dict(pairs): first position of a key, last value *)
  Definition of_pairs (l : list (K * V)) : list (K * V) :=
    fold_left (fun acc kv => aset acc (fst kv) (snd kv)) l [].
  (* frozenset(list) / set(list): first occurrence kept *)
  Fixpoint dedupe_acc (acc l : list K) : list K :=
    match l with
    | [] => acc
    | x :: t => if memb x acc then dedupe_acc acc t else dedupe_acc (acc ++ [x]) t
    end.
  Definition dedupe (l : list K) : list K := dedupe_acc [] l.
End Assoc.

(* ---------------------------------------------------------------- values *)
(* Python values reachable as constructor parameters *)
Inductive pval :=
| PNone
| PBool (b : bool)
| PInt (z : Z)
| PFloat (id : Z)                       (* a float, identified by an abstract id (passed through atomically) *)
| PStr (s : str)
| PFrac (n : Z) (d : positive)          (* fractions.Fraction, reduced *)
| PDec (s : str)                        (* decimal.Decimal, identified by str(d) *)
| PTuple (l : list pval)
| PFrozenset (l : list pval)            (* members in iteration order *)
| PList (l : list pval)
| PSet (l : list pval)                  (* a non-frozen set *)
| PDict (d : list (pval * pval))        (* insertion order *)
| PObj (c : str) (ps : list (str * pval))   (* object with to_dict: scoped class name, constructor parameters *)
| PCallable (name : str)                (* function object: module.__name__ *)
| POpaque (id : Z).                     (* anything else: no to_dict, not iterable, not callable *)

(* what serialize_value returns; [tup] marks a Python tuple (json.dumps turns it into a list) *)
Inductive jval :=
| JNull
| JBool (b : bool)
| JInt (z : Z)
| JFloat (id : Z)
| JStr (s : str)
| JList (tup : bool) (l : list jval)
| JDict (d : list (str * jval)).

Inductive sres := SOk (j : jval) | SErr.             (* SErr: ValueError 'cannot serialize' *)
Inductive dres := DOk (v : pval) | DErr (e : Z) | DUn. (* DUn: outside the modelled fragment *)

Definition E_VALUE : Z := 6.
Definition E_KEY : Z := 8.
Definition E_TYPE : Z := 9.
Definition E_OTHER : Z := 10.     (* decimal.InvalidOperation *)
Definition E_ZERODIV : Z := 12.
Definition E_ATTR : Z := 15.      (* get_object: AttributeError / ModuleNotFoundError *)

Fixpoint pval_eqb (a b : pval) {struct a} : bool :=
  let fix leqb (l m : list pval) {struct l} : bool :=
      match l, m with
      | [], [] => true
      | x :: l', y :: m' => pval_eqb x y && leqb l' m'
      | _, _ => false
      end in
  let fix deqb (l m : list (pval * pval)) {struct l} : bool :=
      match l, m with
      | [], [] => true
      | (k, v) :: l', (k', v') :: m' => pval_eqb k k' && pval_eqb v v' && deqb l' m'
      | _, _ => false
      end in
  let fix oeqb (l m : list (str * pval)) {struct l} : bool :=
      match l, m with
      | [], [] => true
      | (k, v) :: l', (k', v') :: m' => str_eqb k k' && pval_eqb v v' && oeqb l' m'
      | _, _ => false
      end in
  match a, b with
  | PNone, PNone => true
  | PBool x, PBool y => Bool.eqb x y
  | PInt x, PInt y => Z.eqb x y
  | PFloat x, PFloat y => Z.eqb x y
  | PStr x, PStr y => str_eqb x y
  | PFrac n d, PFrac n' d' => Z.eqb n n' && Pos.eqb d d'
  | PDec x, PDec y => str_eqb x y
  | PTuple l, PTuple m => leqb l m
  | PFrozenset l, PFrozenset m => leqb l m
  | PList l, PList m => leqb l m
  | PSet l, PSet m => leqb l m
  | PDict l, PDict m => deqb l m
  | PObj c l, PObj c' m => str_eqb c c' && oeqb l m
  | PCallable x, PCallable y => str_eqb x y
  | POpaque x, POpaque y => Z.eqb x y
  | _, _ => false
  end.

(* hash(v) succeeds *)
Fixpoint hashable (v : pval) : bool :=
  match v with
  | PList _ | PSet _ | PDict _ => false
  | PTuple l => forallb hashable l
  | _ => true
  end.

Fixpoint collect (l : list sres) : option (list jval) :=
  match l with
  | [] => Some []
  | SOk j :: t => match collect t with Some js => Some (j :: js) | None => None end
  | SErr :: _ => None
  end.

(* first failure in iteration order *)
Fixpoint collect_d (l : list dres) : list pval + dres :=
  match l with
  | [] => inl []
  | DOk v :: t => match collect_d t with inl vs => inl (v :: vs) | inr e => inr e end
  | e :: _ => inr e
  end.

(* all(isinstance(key, str) for key in value.keys()) -- and the keys as strings *)
Fixpoint str_keys (d : list (pval * pval)) : option (list (str * pval)) :=
  match d with
  | [] => Some []
  | (PStr k, v) :: t => match str_keys t with Some r => Some ((k, v) :: r) | None => None end
  | _ :: _ => None
  end.

(* ---------------------------------------------------------------- serialize_value (pinned tree) *)
(* [tup]: whether Fraction.as_integer_ratio() is still a tuple (true: the value as returned by
   to_dict; false: after json.loads(json.dumps(.))) *)
Fixpoint ser (tup : bool) (v : pval) : sres :=
  match v with
  | PObj c ps =>                                     (* hasattr(value, 'to_dict') *)
      match collect (map (fun kv => match kv with (_, x) => ser tup x end) ps) with
      | Some js => SOk (JDict ((s_class, JStr c) :: combine (map fst ps) js))
      | None => SErr
      end
  | PNone => SOk JNull                               (* ATOMIC_TYPES *)
  | PBool b => SOk (JBool b)
  | PInt z => SOk (JInt z)
  | PFloat i => SOk (JFloat i)
  | PStr s => SOk (JStr s)
  | PFrac n d =>                                     (* CONVERTIBLE_TYPES *)
      SOk (JDict [(s_type, JStr s_Fraction); (s_arguments, JList tup [JInt n; JInt (Zpos d)])])
  | PDec s => SOk (JDict [(s_type, JStr s_Decimal); (s_value, JStr s)])
  | PFrozenset l =>
      match collect (map (ser tup) l) with
      | Some js => SOk (JDict [(s_type, JStr s_frozenset); (s_value, JList false js)])
      | None => SErr
      end
  | PTuple l =>
      match collect (map (ser tup) l) with
      | Some js => SOk (JDict [(s_type, JStr s_tuple); (s_value, JList false js)])
      | None => SErr
      end
  | PDict d =>                                       (* __iter__ with items and keys *)
      match str_keys d with
      | Some sd =>
          match collect (map (fun kv => match kv with (_, x) => ser tup x end) d) with
          | Some js => SOk (JDict (combine (map fst sd) js))
          | None => SErr
          end
      | None =>
          match collect (map (fun kv => match kv with (k, _) => ser tup k end) d),
                collect (map (fun kv => match kv with (_, x) => ser tup x end) d) with
          | Some ks, Some vs =>
              SOk (JDict [(s_type, JStr s_dict); (s_keys, JList false ks); (s_values, JList false vs)])
          | _, _ => SErr
          end
      end
  | PList l | PSet l =>                              (* any other iterable *)
      match collect (map (ser tup) l) with
      | Some js => SOk (JList false js)
      | None => SErr
      end
  | PCallable name => SOk (JDict [(s_callable, JStr name)])
  | POpaque _ => SErr
  end.

(* serialize_value of the tree BEFORE the repair fixes/C19-persist-rejects.diff (the pinned behaviour): it refuses only a
   value it has no branch for; the repaired function [ser_fixed] / [serialize_value] follows the environment below
   (names are resolved at save time) *)
Definition serialize_value_pinned : pval -> sres := ser true.

(* json.loads(json.dumps(j)) on what serialize_value emits: tuples become lists *)
Fixpoint json_rt (j : jval) : jval :=
  match j with
  | JList _ l => JList false (map json_rt l)
  | JDict d => JDict (map (fun kv => match kv with (k, x) => (k, json_rt x) end) d)
  | a => a
  end.

(* ---------------------------------------------------------------- the environment *)
Record env := {
  xid_start : Z -> bool;            (* str.isidentifier tables for code points >= 128 *)
  xid_continue : Z -> bool;
  dec_canon : str -> option str;    (* str(Decimal(s)), None = decimal.InvalidOperation *)
  class_exists : str -> bool;       (* get_object(name) finds the class so named (at save time: it is type(value)) *)
  class_accepts : str -> list str -> bool;   (* ... and it can be called with these keyword names *)
  callable_resolves : str -> bool;  (* get_object(name) finds the function again *)
}.

Section Env.
  Variable E : env.

  Definition id_start (c : Z) : bool :=
    ((65 <=? c) && (c <=? 90)) || ((97 <=? c) && (c <=? 122)) || (c =? 95)
    || ((128 <=? c) && xid_start E c).
  Definition id_cont (c : Z) : bool :=
    id_start c || ((48 <=? c) && (c <=? 57)) || ((128 <=? c) && xid_continue E c).
  Definition is_identifier (s : str) : bool :=
    match s with
    | [] => false
    | c :: t => id_start c && forallb id_cont t
    end.
  (* value.split('.') ; [cur] is the chunk being read *)
  Fixpoint split_dot (cur : str) (s : str) : list str :=
    match s with
    | [] => [cur]
    | c :: t => if c =? 46 then cur :: split_dot [] t else split_dot (cur ++ [c]) t
    end.
  Definition is_scoped_identifier (s : str) : bool :=
    match s with
    | 46 :: _ => false
    | _ => forallb is_identifier (split_dot [] s)
    end.

  (* 'k' in value and is_scoped_identifier(value['k']) *)
  Definition sniff (d : list (str * jval)) (k : str) : bool :=
    match aget str_eqb d k with
    | Some (JStr s) => is_scoped_identifier s
    | _ => false
    end.

  Inductive tkind := TDict | TFraction | TDecimal | TFrozenset | TTuple | TOther.
  Definition tkind_of (t : str) : tkind :=
    if str_eqb t s_dict then TDict
    else if str_eqb t s_Fraction then TFraction
    else if str_eqb t s_Decimal then TDecimal
    else if str_eqb t s_frozenset then TFrozenset
    else if str_eqb t s_tuple then TTuple
    else TOther.

  (* Fraction(n, d) *)
  Definition mk_frac (n d : Z) : pval :=
    let g := Z.gcd n d in
    PFrac (Z.sgn d * n / g) (Z.to_pos (Z.abs d / g)).

  (* child results: direct deserialisation, and element-wise results when the child is a list or tuple *)
  Definition child := (dres * option (list dres))%type.

  Definition other_forms (d : list (str * jval)) : bool :=
    amem str_eqb d s_arguments || amem str_eqb d s_parameters.

  (* deserialize_typed *)
  Definition typed (d : list (str * jval)) (rs : list (str * child)) : dres :=
    match aget str_eqb d s_type with
    | Some (JStr t) =>
        match tkind_of t with
        | TDict =>
            match aget str_eqb rs s_keys with
            | None => DErr E_KEY
            | Some (_, None) => DUn
            | Some (_, Some kr) =>
                match collect_d kr with
                | inr e => e
                | inl ks =>
                    match aget str_eqb rs s_values with
                    | None => DErr E_KEY
                    | Some (_, None) => DUn
                    | Some (_, Some vr) =>
                        match collect_d vr with
                        | inr e => e
                        | inl vs =>
                            let pairs := combine ks vs in
                            if forallb hashable (map fst pairs)
                            then DOk (PDict (of_pairs pval_eqb pairs))
                            else DErr E_TYPE
                        end
                    end
                end
            end
        | TFraction =>
            if amem str_eqb d s_value then DUn
            else match aget str_eqb rs s_arguments with
                 | Some (_, Some [DOk (PInt n); DOk (PInt dd)]) =>
                     if dd =? 0 then DErr E_ZERODIV else DOk (mk_frac n dd)
                 | Some _ => DUn
                 | None => if amem str_eqb d s_parameters then DUn else DErr E_VALUE
                 end
        | TDecimal =>
            match aget str_eqb rs s_value with
            | Some (DOk (PStr s), _) =>
                match dec_canon E s with
                | Some s' => DOk (PDec s')
                | None => DErr E_OTHER
                end
            | Some (DOk _, _) => DUn
            | Some (e, _) => e
            | None => if other_forms d then DUn else DErr E_VALUE
            end
        | TTuple =>
            match aget str_eqb rs s_value with
            | Some (DOk (PList vs), _) => DOk (PTuple vs)
            | Some (DOk _, _) => DUn
            | Some (e, _) => e
            | None => if other_forms d then DUn else DErr E_VALUE
            end
        | TFrozenset =>
            match aget str_eqb rs s_value with
            | Some (DOk (PList vs), _) =>
                if forallb hashable vs then DOk (PFrozenset (dedupe pval_eqb vs)) else DErr E_TYPE
            | Some (DOk _, _) => DUn
            | Some (e, _) => e
            | None => if other_forms d then DUn else DErr E_VALUE
            end
        | TOther => DUn
        end
    | _ => DUn
    end.

  Fixpoint collect_params (rs : list (str * child)) : list (str * pval) + dres :=
    match rs with
    | [] => inl []
    | (k, (DOk v, _)) :: t =>
        match collect_params t with inl ps => inl ((k, v) :: ps) | inr e => inr e end
    | (_, (e, _)) :: _ => inr e
    end.

  (* deserialize_class (no votelib class defines from_dict) *)
  Definition klass (d : list (str * jval)) (rs : list (str * child)) : dres :=
    match aget str_eqb d s_class with
    | Some (JStr c) =>
        if class_exists E c then
          match collect_params (filter (fun kr => negb (str_eqb s_class (fst kr))) rs) with
          | inr e => e
          | inl ps => if class_accepts E c (map fst ps) then DOk (PObj c ps) else DUn
          end
        else DErr E_ATTR
    | _ => DUn
    end.

  Definition plain (rs : list (str * child)) : dres :=
    match collect_params rs with
    | inr e => e
    | inl ps => DOk (PDict (map (fun kv => (PStr (fst kv), snd kv)) ps))
    end.

  (* the isinstance(value, dict) branch of deserialize_value *)
  Definition interp (d : list (str * jval)) (rs : list (str * child)) : dres :=
    if sniff d s_type then typed d rs
    else if sniff d s_class then klass d rs
    else if sniff d s_callable then
      match aget str_eqb d s_callable with
      | Some (JStr n) => if callable_resolves E n then DOk (PCallable n) else DErr E_ATTR
      | _ => DUn
      end
    else plain rs.

  (* ------------------------------------------------------------ serialize_value, repaired *)
  (* reserved_key(d): the key by which deserialize_value interprets a dictionary (the same three tests, in the same order,
     as [interp] below) *)
  Inductive rkey := RType | RClass | RCallable | RPlain.
  Definition reserved_key (d : list (str * jval)) : rkey :=
    if sniff d s_type then RType
    else if sniff d s_class then RClass
    else if sniff d s_callable then RCallable
    else RPlain.

  (* serialize_value after fixes/C19-persist-rejects.diff.  [class_exists E c]: get_object(c) finds the class of the object
     (or the factory function) again; [class_accepts E c names]: inspect.signature(cls).bind accepts the saved parameter
     names; [callable_resolves E n]: get_object(n) is the function.  Refusals (all ValueError):
       - an object whose dictionary would not be read as a class definition, whose class is not found under its name, or
         whose constructor does not take the saved parameters;
       - a str-keyed dictionary that deserialize_value would interpret ('type' / 'class' / 'callable' with an identifier);
       - a set (any container other than dict, list, tuple, frozenset);
       - a callable whose module.name is no identifier path or does not resolve to it;
       - anything else without a branch. *)
  Fixpoint ser_fixed (tup : bool) (v : pval) : sres :=
    match v with
    | PObj c ps =>                                     (* hasattr(value, 'to_dict') *)
        match collect (map (fun kv => match kv with (_, x) => ser_fixed tup x end) ps) with
        | Some js =>
            let d := (s_class, JStr c) :: combine (map fst ps) js in
            match reserved_key d with
            | RClass => if class_exists E c && class_accepts E c (map fst ps) then SOk (JDict d) else SErr
            | _ => SErr
            end
        | None => SErr
        end
    | PNone => SOk JNull                               (* ATOMIC_TYPES *)
    | PBool b => SOk (JBool b)
    | PInt z => SOk (JInt z)
    | PFloat i => SOk (JFloat i)
    | PStr s => SOk (JStr s)
    | PFrac n d =>                                     (* CONVERTIBLE_TYPES *)
        SOk (JDict [(s_type, JStr s_Fraction); (s_arguments, JList tup [JInt n; JInt (Zpos d)])])
    | PDec s => SOk (JDict [(s_type, JStr s_Decimal); (s_value, JStr s)])
    | PFrozenset l =>
        match collect (map (ser_fixed tup) l) with
        | Some js => SOk (JDict [(s_type, JStr s_frozenset); (s_value, JList false js)])
        | None => SErr
        end
    | PTuple l =>
        match collect (map (ser_fixed tup) l) with
        | Some js => SOk (JDict [(s_type, JStr s_tuple); (s_value, JList false js)])
        | None => SErr
        end
    | PDict d =>                                       (* type(value) is dict *)
        match str_keys d with
        | Some sd =>
            match collect (map (fun kv => match kv with (_, x) => ser_fixed tup x end) d) with
            | Some js =>
                let jd := combine (map fst sd) js in
                match reserved_key jd with
                | RPlain => SOk (JDict jd)
                | _ => SErr
                end
            | None => SErr
            end
        | None =>
            match collect (map (fun kv => match kv with (k, _) => ser_fixed tup k end) d),
                  collect (map (fun kv => match kv with (_, x) => ser_fixed tup x end) d) with
            | Some ks, Some vs =>
                SOk (JDict [(s_type, JStr s_dict); (s_keys, JList false ks); (s_values, JList false vs)])
            | _, _ => SErr
            end
        end
    | PList l =>                                       (* type(value) is list *)
        match collect (map (ser_fixed tup) l) with
        | Some js => SOk (JList false js)
        | None => SErr
        end
    | PCallable name =>
        if is_scoped_identifier name && callable_resolves E name
        then SOk (JDict [(s_callable, JStr name)]) else SErr
    | PSet _ => SErr                                   (* another iterable *)
    | POpaque _ => SErr
    end.

  Definition serialize_value : pval -> sres := ser_fixed true.

  (* deserialize_value *)
  Fixpoint deser (j : jval) : dres :=
    match j with
    | JNull => DOk PNone
    | JBool b => DOk (PBool b)
    | JInt z => DOk (PInt z)
    | JFloat i => DOk (PFloat i)
    | JStr s => DOk (PStr s)
    | JList true _ => DErr E_VALUE         (* a tuple is neither dict, atomic nor list *)
    | JList false l =>
        match collect_d (map deser l) with
        | inl vs => DOk (PList vs)
        | inr e => e
        end
    | JDict d =>
        interp d (map (fun kv => match kv with
                                 | (k, x) => (k, (deser x,
                                                  match x with
                                                  | JList _ l => Some (map deser l)
                                                  | _ => None
                                                  end))
                                 end) d)
    end.

  (* the same child computation, named (deser (JDict d) = interp d (map child_of d)) *)
  Definition child_of (kv : str * jval) : str * child :=
    match kv with
    | (k, x) => (k, (deser x, match x with JList _ l => Some (map deser l) | _ => None end))
    end.

  Definition deserialize_value : jval -> dres := deser.

  Definition from_dict (j : jval) : dres :=
    match j with
    | JDict d =>
        match aget str_eqb d s_class with
        | None => DErr E_VALUE
        | Some (JStr c) => if is_scoped_identifier c then deser j else DErr E_VALUE
        | Some _ => DErr E_VALUE
        end
    | _ => DErr E_VALUE
    end.

  (* ------------------------------------------------------------ representable values *)
  (* the str-keyed dictionary would be taken for a typed value / class / callable on loading *)
  Definition psniff (sd : list (str * pval)) (k : str) : bool :=
    match aget str_eqb sd k with
    | Some (PStr s) => is_scoped_identifier s
    | _ => false
    end.
  Definition reserved_hit (sd : list (str * pval)) : bool :=
    psniff sd s_type || psniff sd s_class || psniff sd s_callable.

  (* Structural predicate: the value reloads to itself.  Clauses marked (wf) hold of every Python
     value of that type (they are well-formedness of the encoding, not restrictions):
       - a Fraction is reduced (wf); a Decimal is identified by its canonical string (wf);
       - members of a frozenset / keys of a dict are hashable and pairwise different (wf);
       - parameter names are distinct and none is the keyword 'class' (wf);
     the genuine restrictions are:
       - no non-frozen set, no opaque object;
       - a str-keyed dict must not carry 'type' / 'class' / 'callable' with an identifier-shaped string;
       - an object's class must be loadable and accept its parameter names, and a parameter
         called 'type' must not hold an identifier-shaped string;
       - a callable's qualified name must be an identifier path that resolves to it. *)
  Fixpoint representable (v : pval) : bool :=
    match v with
    | PNone | PBool _ | PInt _ | PFloat _ | PStr _ => true
    | PFrac n d => Z.gcd n (Zpos d) =? 1
    | PDec s => match dec_canon E s with Some s' => str_eqb s' s | None => false end
    | PTuple l | PList l => forallb representable l
    | PFrozenset l => forallb representable l && forallb hashable l && nodupb pval_eqb l
    | PSet _ => false
    | PDict d =>
        forallb (fun kv => match kv with (k, x) => representable k && representable x end) d
        && forallb hashable (map fst d) && nodupb pval_eqb (map fst d)
        && match str_keys d with Some sd => negb (reserved_hit sd) | None => true end
    | PObj c ps =>
        forallb (fun kv => match kv with (_, x) => representable x end) ps
        && is_scoped_identifier c && class_exists E c && class_accepts E c (map fst ps)
        && negb (memb str_eqb s_class (map fst ps)) && negb (psniff ps s_type)
    | PCallable name => is_scoped_identifier name && callable_resolves E name
    | POpaque _ => false
    end.

  (* [representable] split in two.  [wf_value]: the clauses that hold of every Python value of the type (the encoding is
     well-formed: Fraction reduced, Decimal named by its canonical string, members / keys hashable and pairwise different,
     no parameter called 'class'); [loadable]: the genuine restrictions - exactly what the repaired serialize_value tests. *)
  Fixpoint wf_value (v : pval) : bool :=
    match v with
    | PNone | PBool _ | PInt _ | PFloat _ | PStr _ | PCallable _ | POpaque _ => true
    | PFrac n d => Z.gcd n (Zpos d) =? 1
    | PDec s => match dec_canon E s with Some s' => str_eqb s' s | None => false end
    | PTuple l | PList l => forallb wf_value l
    | PFrozenset l | PSet l => forallb wf_value l && forallb hashable l && nodupb pval_eqb l
    | PDict d =>
        forallb (fun kv => match kv with (k, x) => wf_value k && wf_value x end) d
        && forallb hashable (map fst d) && nodupb pval_eqb (map fst d)
    | PObj c ps =>
        forallb (fun kv => match kv with (_, x) => wf_value x end) ps
        && negb (memb str_eqb s_class (map fst ps))
    end.

  Fixpoint loadable (v : pval) : bool :=
    match v with
    | PNone | PBool _ | PInt _ | PFloat _ | PStr _ | PFrac _ _ | PDec _ => true
    | PTuple l | PList l | PFrozenset l => forallb loadable l
    | PSet _ => false
    | PDict d =>
        forallb (fun kv => match kv with (k, x) => loadable k && loadable x end) d
        && match str_keys d with Some sd => negb (reserved_hit sd) | None => true end
    | PObj c ps =>
        forallb (fun kv => match kv with (_, x) => loadable x end) ps
        && is_scoped_identifier c && class_exists E c && class_accepts E c (map fst ps)
        && negb (psniff ps s_type)
    | PCallable name => is_scoped_identifier name && callable_resolves E name
    | POpaque _ => false
    end.

  (* the pinned serialize_value raises exactly when an opaque value is reached *)
  Fixpoint has_opaque (v : pval) : bool :=
    match v with
    | POpaque _ => true
    | PTuple l | PFrozenset l | PList l | PSet l => existsb has_opaque l
    | PDict d => existsb (fun kv => match kv with (k, x) => has_opaque k || has_opaque x end) d
    | PObj _ ps => existsb (fun kv => match kv with (_, x) => has_opaque x end) ps
    | _ => false
    end.
End Env.
