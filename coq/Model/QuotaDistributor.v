(* Model of proportional.QuotaDistributor.evaluate / _subtract_overaward and
   LargestRemainder.evaluate (proportional.py), mirroring the code with the repairs
   fixes/C02-capbranch.diff (whole quotas are cut at the cap, no cap unless one is given, nothing is
   redistributed) and fixes/C02-lr-caps.diff (LargestRemainder passes max_seats to the quota stage).
   The code as written on the pinned tree - the recursive cap branch, entered also through the default cap
   n_seats, and LargestRemainder calling the quota stage without caps - stays expressible as
   scan_pinned / qd_eval_pinned / qd_evaluate_pinned / lr_evaluate_pinned, selected by the flag of
   qd_evaluate_at / lr_evaluate_at (false = pinned), so that its refutations stay theorems. *)
From Coq Require Import ZArith QArith List Bool.
From VL Require Import Prelude.PyDict Prelude.PyNum Model.GetNBest Model.Quota.
Import ListNotations.
Open Scope Z_scope.

Inductive policy := PIgnore | PError | PSubtract.

Inductive key := K (c : C) | KT (l : list C).     (* plain candidate or Tie object *)

Inductive qd_result :=
| QD_ok (sel : list (key * Z))
| QD_vse                      (* VotingSystemError: over-award with policy error *)
| QD_zerodiv                  (* Fraction(v, 0) *)
| QD_index                    (* get_n_best({}, 1)[0] in _subtract_overaward *)
| QD_unmodelled               (* a Tie key tied with another key inside _subtract_overaward (Tie of a Tie); tie keys
                                 coming back from the recursive cap call; LargestRemainder over tie keys *)
| QD_fuel.

Definition qsumv (votes : list (C * Q)) : Q := fold_left Qplus (map snd votes) 0%Q.
Definition zsumv (l : list (C * Z)) : Z := fold_left Z.add (map snd l) 0.
Definition py_trunc (x : Q) : Z := Z.quot (Qnum x) (Zpos (Qden x)).

Section QD.
  Variable quota : Q -> Z -> Q.
  Variable accept_equal : bool.
  Variable pol : policy.

  Definition fulfills (v q : Q) : bool :=
    negb (Qle_bool v q) || (accept_equal && Qeq_bool v q).

  (* the for-loop over votes: selected.  n_add_seats = min(int(Fraction(n_votes, quota_val)), max_seats.get(candidate, INF)) - n_prev *)
  Definition cap_whole (caps : list (C * Z)) (c : C) (w : Z) : Z :=
    match dget caps c with Some m => Z.min w m | None => w end.

  Fixpoint scan (votes : list (C * Q)) (q : Q) (prev caps : list (C * Z)) (sel : list (C * Z)) : list (C * Z) :=
    match votes with
    | [] => sel
    | (c, v) :: t =>
        let n_prev := dget_or prev c 0 in
        let sel' :=
          if fulfills v q then
            let add := cap_whole caps c (py_trunc (v / q)%Q) - n_prev in
            if 0 <? add then dset sel c add else sel
          else sel in
        scan t q prev caps sel'
    end.

  Definition add_dict (d1 d2 : list (C * Z)) : list (C * Z) :=
    fold_left (fun d kv => dset d (fst kv) (dget_or d (fst kv) 0 + snd kv)) d2 d1.

  Definition kdget (d : list (key * Z)) (c : C) : Z :=
    fold_left (fun acc kv => match fst kv with K c' => if ceqb c c' then snd kv else acc | _ => acc end) d 0.

  (* one decrement: delete when it would reach 0 *)
  Fixpoint dec_key (d : list (C * Z)) (c : C) : list (C * Z) :=
    match d with
    | [] => []
    | (c', s) :: t => if ceqb c c' then (if s =? 1 then t else (c', s - 1) :: t) else (c', s) :: dec_key t c
    end.

  Definition key_eqb (a b : key) : bool :=
    match a, b with
    | K x, K y => ceqb x y
    | KT x, KT y => forallb (fun c => cmem c y) x && forallb (fun c => cmem c x) y
    | _, _ => false
    end.

  (* _subtract_overaward once a Tie object is a key of selected (L284-314 as written): the Tie key takes
     part in the next remainders with votes.get(tie, 0) = 0 and prev_gains.get(tie, 0) = 0 *)
  Definition krem (votes : list (C * Q)) (q : Q) (prev : list (C * Z)) (ks : key * Z) : Q :=
    match fst ks with
    | K c => (- (dget_or votes c 0%Q - q * inject_Z (snd ks + dget_or prev c 0)%Z))%Q
    | KT _ => (- (0 - q * inject_Z (snd ks + 0)%Z))%Q
    end.
  Fixpoint kdec (d : list (key * Z)) (k : key) : list (key * Z) :=
    match d with
    | [] => []
    | (k', s) :: t => if key_eqb k k' then (if s =? 1 then t else (k', s - 1) :: t) else (k', s) :: kdec t k
    end.
  Definition kmem (d : list (key * Z)) (k : key) : bool := existsb (fun kv => key_eqb k (fst kv)) d.
  (* the members of a tie, when all of them are plain candidates *)
  Fixpoint all_plain (ks : list key) : option (list C) :=
    match ks with
    | [] => Some []
    | K c :: t => match all_plain t with Some l => Some (c :: l) | None => None end
    | KT _ :: _ => None
    end.

  Fixpoint ksubtract (fuel : nat) (votes : list (C * Q)) (q : Q) (prev : list (C * Z))
           (sel : list (key * Z)) (over : Z) : qd_result :=
    if over <=? 0 then QD_ok sel else
    match fuel with
    | O => QD_fuel
    | S f =>
        let rem := map (fun ks : key * Z => (fst ks, krem votes q prev ks)) sel in
        match get_n_best Qle_bool rem 1 with
        | Cand k :: _ =>
            (* a plain candidate, or the Tie key itself (isinstance(subtract_cand, Tie) and subtract_cand in selected) *)
            ksubtract f votes q prev (kdec sel k) (over - 1)
        | TieR ks :: _ =>
            match all_plain ks with
            | Some l =>
                if kmem sel (KT l)
                then ksubtract f votes q prev (kdec sel (KT l)) (over - 1)
                else ksubtract f votes q prev
                       (fold_left kdec (map K l) sel ++ [(KT l, Z.of_nat (length l) - 1)]) (over - 1)
            | None => QD_unmodelled
            end
        | [] => QD_index
        end
    end.

  (* _subtract_overaward while no Tie key is present in selected *)
  Fixpoint subtract (fuel : nat) (votes : list (C * Q)) (q : Q) (prev : list (C * Z))
           (sel : list (C * Z)) (over : Z) : qd_result :=
    if over <=? 0 then QD_ok (map (fun kv => (K (fst kv), snd kv)) sel) else
    match fuel with
    | O => QD_fuel
    | S f =>
        let rem := map (fun cs : C * Z =>
                     let (c, s) := cs in
                     (c, (- (dget_or votes c 0%Q - q * inject_Z (s + dget_or prev c 0)%Z))%Q)) sel in
        match get_n_best Qle_bool rem 1 with
        | Cand c :: _ => subtract f votes q prev (dec_key sel c) (over - 1)
        | TieR l :: _ =>
            let sel' := fold_left dec_key l sel in
            if over - 1 <=? 0
            then QD_ok (map (fun kv => (K (fst kv), snd kv)) sel' ++ [(KT l, Z.of_nat (length l) - 1)])
            else ksubtract f votes q prev
                   (map (fun kv => (K (fst kv), snd kv)) sel' ++ [(KT l, Z.of_nat (length l) - 1)]) (over - 1)
        | [] => QD_index
        end
    end.

  Definition qd_evaluate (votes : list (C * Q)) (n : Z) (prev caps : list (C * Z)) : qd_result :=
    let q := quota (qsumv votes) n in
    (* Fraction(n_votes, quota_val) raises ZeroDivisionError when reached with q = 0 *)
    if Qeq_bool q 0 && existsb (fun cv => fulfills (snd cv) q) votes then QD_zerodiv else
    let sel := scan votes q prev caps [] in
    let total := zsumv sel + zsumv prev in
    if n <? total then
      match pol with
      | PIgnore => QD_ok (map (fun kv => (K (fst kv), snd kv)) sel)
      | PError => QD_vse
      | PSubtract => subtract (Z.to_nat (total - n)) votes q prev sel (total - n)
      end
    else QD_ok (map (fun kv => (K (fst kv), snd kv)) sel).

  (* ------------------------------------------------------------ LargestRemainder *)
  Inductive lr_result :=
  | LR_ok (sel : list (key * Z))
  | LR_err (r : qd_result)
  | LR_index.             (* negative n_for_remainder: Python negative slicing, not modelled *)

  Fixpoint kincr (d : list (key * Z)) (k : key) : list (key * Z) :=
    match d with
    | [] => [(k, 1)]
    | (k', s) :: t => if key_eqb k k' then (k', s + 1) :: t else (k', s) :: kincr t k
    end.

  Definition lr_evaluate (votes : list (C * Q)) (n : Z) (prev caps : list (C * Z)) : lr_result :=
    match qd_evaluate votes n prev caps with
    | QD_ok qe =>
        if existsb (fun kv => match fst kv with KT _ => true | _ => false end) qe then LR_err QD_unmodelled else
        let q := quota (qsumv votes) n in
        let qe_c := flat_map (fun kv => match fst kv with K c => [(c, snd kv)] | _ => [] end) qe in
        let gained := add_dict qe_c prev in
        let nrem := n - zsumv gained in
        if Qeq_bool q 0 then LR_err QD_zerodiv else
        let rems := flat_map (fun cv : C * Q =>
                      let (c, v) := cv in
                      match dget caps c with
                      | Some m => if dget_or gained c 0 <? m then [(c, (v / q - inject_Z (dget_or gained c 0%Z))%Q)] else []
                      | None => [(c, (v / q - inject_Z (dget_or gained c 0%Z))%Q)]
                      end) votes in
        (* n_for_remainder = max(.., 0) ; get_n_best(_, 0) returns [] on every input *)
        if nrem <=? 0 then LR_ok qe
        else
          let best := get_n_best Qle_bool rems (Z.to_nat nrem) in
          LR_ok (fold_left (fun d r => match r with Cand c => kincr d (K c) | TieR l => kincr d (KT l) end) best qe)
    | r => LR_err r
    end.

  (* ---- the pinned tree: the for-loop over votes: (selected, n_overshot, overshot_candidates) *)
  Fixpoint scan_pinned (votes : list (C * Q)) (q : Q) (n : Z) (prev caps : list (C * Z))
           (acc : list (C * Z) * Z * list C) : list (C * Z) * Z * list C :=
    match votes with
    | [] => acc
    | (c, v) :: t =>
        let '(sel, nov, ovc) := acc in
        let n_prev := dget_or prev c 0 in
        let acc' :=
          if fulfills v q then
            let add := py_trunc (v / q)%Q - n_prev in
            if 0 <? add then
              let cmax := dget_or caps c n in
              if cmax <? add + n_prev
              then (dset sel c (add - (add + n_prev)), nov + (add + n_prev), ovc ++ [c])
              else (dset sel c add, nov, ovc)
            else acc
          else acc in
        scan_pinned t q n prev caps acc'
    end.

  Fixpoint qd_eval_pinned (fuel : nat) (votes : list (C * Q)) (n : Z) (prev caps : list (C * Z)) : qd_result :=
    match fuel with
    | O => QD_fuel
    | S f =>
        let q := quota (qsumv votes) n in
        (* Fraction(n_votes, quota_val) raises ZeroDivisionError when reached with q = 0 *)
        if Qeq_bool q 0 && existsb (fun cv => fulfills (snd cv) q) votes then QD_zerodiv else
        let '(sel, nov, ovc) := scan_pinned votes q n prev caps ([], 0, []) in
        let inner :=
          if nov =? 0 then Some (QD_ok [])
          else
            let remaining := filter (fun cv => negb (cmem (fst cv) ovc)) votes in
            let gained := map (fun cv => (fst cv, dget_or sel (fst cv) 0 + dget_or prev (fst cv) 0)) votes in
            Some (qd_eval_pinned f remaining nov gained caps) in
        match inner with
        | Some (QD_ok extra) =>
            (* extra may only hold plain keys unless the inner call produced a tie key *)
            if existsb (fun kv => match fst kv with KT _ => true | _ => false end) extra then QD_unmodelled else
            let extra_c := flat_map (fun kv => match fst kv with K c => [(c, snd kv)] | _ => [] end) extra in
            let sel2 := add_dict sel extra_c in
            let total := zsumv sel2 + zsumv prev in
            if n <? total then
              match pol with
              | PIgnore => QD_ok (map (fun kv => (K (fst kv), snd kv)) sel2)
              | PError => QD_vse
              | PSubtract => subtract (Z.to_nat (total - n)) votes q prev sel2 (total - n)
              end
            else QD_ok (map (fun kv => (K (fst kv), snd kv)) sel2)
        | Some r => r
        | None => QD_fuel
        end
    end.

  Definition qd_evaluate_pinned (votes : list (C * Q)) (n : Z) (prev caps : list (C * Z)) : qd_result :=
    qd_eval_pinned (S (length votes)) votes n prev caps.

  Definition lr_evaluate_pinned (votes : list (C * Q)) (n : Z) (prev caps : list (C * Z)) : lr_result :=
    match qd_evaluate_pinned votes n prev [] with
    | QD_ok qe =>
        if existsb (fun kv => match fst kv with KT _ => true | _ => false end) qe then LR_err QD_unmodelled else
        let q := quota (qsumv votes) n in
        let qe_c := flat_map (fun kv => match fst kv with K c => [(c, snd kv)] | _ => [] end) qe in
        let gained := add_dict qe_c prev in
        let nrem := n - zsumv gained in
        if Qeq_bool q 0 then LR_err QD_zerodiv else
        let rems := flat_map (fun cv : C * Q =>
                      let (c, v) := cv in
                      match dget caps c with
                      | Some m => if dget_or gained c 0 <? m then [(c, (v / q - inject_Z (dget_or gained c 0%Z))%Q)] else []
                      | None => [(c, (v / q - inject_Z (dget_or gained c 0%Z))%Q)]
                      end) votes in
        (* n_for_remainder = max(.., 0) ; get_n_best(_, 0) returns [] on every input *)
        if nrem <=? 0 then LR_ok qe
        else
          let best := get_n_best Qle_bool rems (Z.to_nat nrem) in
          LR_ok (fold_left (fun d r => match r with Cand c => kincr d (K c) | TieR l => kincr d (KT l) end) best qe)
    | r => LR_err r
    end.

  (* false = the code as written on the pinned tree, true = with fixes/C02-capbranch.diff and fixes/C02-lr-caps.diff *)
  Definition qd_evaluate_at (fixed : bool) := if fixed then qd_evaluate else qd_evaluate_pinned.
  Definition lr_evaluate_at (fixed : bool) := if fixed then lr_evaluate else lr_evaluate_pinned.
End QD.

(* ---------------------------------------------------------------- QuotaSelector (approval.py L215-238) *)
Inductive qsel_result := QS_ok (r : list (res C)) | QS_vse.
Definition qsel_evaluate (quota : Q -> Z -> Q) (accept_equal select : bool)
           (votes : list (C * Q)) (n : Z) : qsel_result :=
  let q := quota (qsumv votes) n in
  let over := filter (fun cv => fulfills accept_equal (snd cv) q) votes in
  if (n <? Z.of_nat (length over)) && negb select then QS_vse
  else QS_ok (get_n_best Qle_bool over (Z.to_nat n)).
