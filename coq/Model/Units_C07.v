(* Wire-level wrappers of property C07: decode arguments from sx, run the model, encode.
   Dispatch.v routes a block of unit numbers here; [k] is the offset inside the block. *)
From Coq Require Import ZArith QArith List Bool.
From VL Require Import Prelude.Sx Prelude.PyDict Model.Divisor Model.HighestAverages Model.Biprop Model.BipropLoop.
Import ListNotations.
Open Scope Z_scope.

Definition as_mat (s : sx) : option mat := as_dict as_pos (as_dict as_pos as_Z) s.
Definition as_qmat (s : sx) : option qmat := as_dict as_pos (as_dict as_pos as_Q) s.
Definition of_mat (m : mat) : sx := of_dict of_pos (of_dict of_pos A) m.
Definition bit (b : bool) : sx := A (if b then 1 else 0).
Definition getz (l : list (C * Z)) (k : C) : Z := dget_or l k 0.

(* k = 0  biprop_check: (div votes n dmode outcome)
     dmode   = (0)            districts apportioned by the same divisor rule on the district totals
             | (1 dict)       district seats given
     outcome = (0 res rho gamma) | (1)  refusal
   -> (0 (10)) / (0 (11))   party / district marginal not tie-free (outside the quantifier)
      (0 (0 rows cols entries pos cells dseats pseats))      bits of cert_ok on a returned matrix
      (0 (1 0 cut)) refusal justified by a verified cut ; (0 (1 1 matrix)) refusal although this
      matrix has the marginals and the support ; (0 (1 2)) reference ran out of fuel *)
Definition u_biprop_check (a : sx) : sx :=
  match a with
  | L [A dv; v; A n; dm; oc] =>
      match as_mat v with
      | None => bad_input
      | Some votes =>
          let d := divisor_by_id dv in
          let ds := districts votes in
          let ps := parties votes in
          match ha_marginal d (party_totals votes) n with
          | None => ok (L [A 10])
          | Some pseats =>
              let dseats_o :=
                match dm with
                | L [A 0] => Some (ha_marginal d (district_totals votes) n)
                | L [A 1; dd] => match as_dict as_pos as_Z dd with Some l => Some (Some l) | None => None end
                | _ => None
                end in
              match dseats_o with
              | None => bad_input
              | Some None => ok (L [A 11])
              | Some (Some dseats) =>
                  match oc with
                  | L [A 0; r; rh; ga] =>
                      match as_mat r, as_dict as_pos as_Q rh, as_dict as_pos as_Q ga with
                      | Some res, Some rho, Some gamma =>
                          ok (L [A 0; bit (rows_ok ds ps dseats res); bit (cols_ok ds ps pseats res);
                                 bit (entries_ok votes res); bit (pos_ok ds ps rho gamma);
                                 bit (cells_ok d ds ps votes res rho gamma);
                                 bit (cert_ok d ds ps votes dseats pseats res rho gamma);
                                 of_dict of_pos A dseats; of_dict of_pos A pseats])
                      | _, _, _ => bad_input
                      end
                  | L [A 1] =>
                      match feasible_ref ds ps (fun i j => 0 <? mget votes i j) (getz dseats) (getz pseats) with
                      | FeasCut cut => ok (L [A 1; A 0; L (map of_pos cut)])
                      | FeasMatrix m => ok (L [A 1; A 1; of_mat m])
                      | FeasUnknown => ok (L [A 1; A 2])
                      end
                  | _ => bad_input
                  end
              end
          end
      end
  | _ => bad_input
  end.

(* k = 1  state invariant of one iteration: (div votes pseats res rho gamma) -> bits *)
Definition u_biprop_inv (a : sx) : sx :=
  match a with
  | L [A dv; v; pse; r; rh; ga] =>
      match as_mat v, as_dict as_pos as_Z pse, as_mat r, as_dict as_pos as_Q rh, as_dict as_pos as_Q ga with
      | Some votes, Some pseats, Some res, Some rho, Some gamma =>
          let d := divisor_by_id dv in
          let ds := districts votes in
          let ps := parties votes in
          ok (L [bit (cols_ok ds ps pseats res); bit (entries_ok votes res); bit (pos_ok ds ps rho gamma);
                 bit (cells_ok d ds ps votes res rho gamma);
                 bit (inv_ok d ds ps votes pseats res rho gamma)])
      | _, _, _, _, _ => bad_input
      end
  | _ => bad_input
  end.

(* k = 2  feasibility reference alone: (votes dseats pseats) *)
Definition u_feasible (a : sx) : sx :=
  match a with
  | L [v; dse; pse] =>
      match as_mat v, as_dict as_pos as_Z dse, as_dict as_pos as_Z pse with
      | Some votes, Some dseats, Some pseats =>
          match feasible_ref (districts votes) (parties votes) (fun i j => 0 <? mget votes i j)
                             (getz dseats) (getz pseats) with
          | FeasCut cut => ok (L [A 0; L (map of_pos cut)])
          | FeasMatrix m => ok (L [A 1; of_mat m])
          | FeasUnknown => ok (L [A 2])
          end
      | _, _, _ => bad_input
      end
  | _ => bad_input
  end.

(* k = 3  _augment_result: (res start hops) with hops = ((party district) ...) *)
Definition u_augment (a : sx) : sx :=
  match a with
  | L [r; A (Zpos st); h] =>
      match as_mat r, as_listof (as_pair as_pos as_pos) h with
      | Some res, Some hops =>
          match augment res st hops with
          | Some m => ok (of_mat m)
          | None => err E_KEY
          end
      | _, _ => bad_input
      end
  | _ => bad_input
  end.

(* k = 4  _adj_coef: (q quotients res labelled_districts labelled_parties) *)
Definition u_adj_coef (a : sx) : sx :=
  match a with
  | L [qq; qs; r; dl; pl] =>
      match as_Q qq, as_qmat qs, as_mat r, as_listof as_pos dl, as_listof as_pos pl with
      | Some q, Some quots, Some res, Some DL, Some PL =>
          match adj_coef q quots res DL PL with
          | Adj x => ok (of_Q x)
          | AdjZeroDivision => err 12
          end
      | _, _, _, _, _ => bad_input
      end
  | _ => bad_input
  end.

(* k = 5  the whole of BiproportionalEvaluator.evaluate: (div q votes n tgtmode dorder fuel strict)
     strict  = 1 the code as it stands (an election without votes is refused: fixes/C07-all-zero.diff) | 0 the pinned tree
     tgtmode = (0)       seats as a total, no apportioner: districts by the same divisor rule (evaluate_total)
             | (1 dict)  tgt_district_seats as core.apportion returned them (evaluate_core)
     dorder  = iteration order of frozenset(cur_district_seats) | frozenset(tgt_district_seats)
   -> (0 (code payload trace)) : code 0 returned (payload = (res rho gamma): the final multipliers are ghost output),
      1 VotingSystemError (payload = the refused coefficient), 2 ZeroDivisionError, 3 KeyError, 4 ValueError,
      5 VotingSystemError: no votes cast,
      10 / 11 party / district apportionment tied (outside the modelled domain), 99 out of fuel;
      trace = the (res rho gamma) at the top of every iteration *)
Definition of_qdict (l : list (C * Q)) : sx := of_dict of_pos of_Q l.
Definition of_bstate (s : bstate) : sx := L [of_mat (b_res s); of_qdict (b_rho s); of_qdict (b_gamma s)].
Definition of_bp (r : bp_result) (tr : list bstate) : sx :=
  let t := L (map of_bstate tr) in
  match r with
  | BP_ok res rho gamma => ok (L [A 0; L [of_mat res; of_qdict rho; of_qdict gamma]; t])
  | BP_refused a => ok (L [A 1; of_Q a; t])
  | BP_zero_division => ok (L [A 2; L []; t])
  | BP_key_error => ok (L [A 3; L []; t])
  | BP_value_error => ok (L [A 4; L []; t])
  | BP_party_tie => ok (L [A 10; L []; t])
  | BP_district_tie => ok (L [A 11; L []; t])
  | BP_no_votes => ok (L [A 5; L []; t])
  | BP_out_of_fuel => ok (L [A 99; L []; t])
  end.

Definition u_biprop_loop (a : sx) : sx :=
  match a with
  | L [A dv; qq; v; A n; tm; dord; fu; A st] =>
      match as_Q qq, as_mat v, as_listof as_pos dord, as_nat fu with
      | Some q, Some votes, Some dorder, Some fuel =>
          let d := divisor_by_id dv in
          let strict := negb (st =? 0) in
          match tm with
          | L [A 0] => let tr := run_total d q votes strict n dorder fuel in of_bp (snd tr) (fst tr)
          | L [A 1; dd] =>
              match as_dict as_pos as_Z dd with
              | Some tgt => let tr := run_core d q votes tgt dorder strict n fuel in of_bp (snd tr) (fst tr)
              | None => bad_input
              end
          | _ => bad_input
          end
      | _, _, _, _ => bad_input
      end
  | _ => bad_input
  end.

Definition u_c07 (k : Z) (a : sx) : sx :=
  match k with
  | 0 => u_biprop_check a
  | 1 => u_biprop_inv a
  | 2 => u_feasible a
  | 3 => u_augment a
  | 4 => u_adj_coef a
  | 5 => u_biprop_loop a
  | _ => bad_input
  end.
