(* Model of votelib.convert.ApprovalToSimpleVotes.convert (convert.py L70-80, with the repaired split of an empty ballot) with
   candidates as keys: agg_votes[cand] += n_votes (split: n_votes / len(bulk)) over a defaultdict in insertion order.  It is the
   converter in front of plurality in approval voting / satisfaction approval voting (PreConverted(ApprovalToSimpleVotes(..),
   Plurality())).  A ballot is the list of its distinct candidates.  Executable definitions only. *)
From Coq Require Import ZArith QArith List Bool.
From VL Require Import Prelude.PyDict Model.GetNBest.
Import ListNotations.

Definition ballot_share (split : bool) (b : list C) (w : Q) : Q :=
  if split then match b with [] => w | _ => (w / inject_Z (Z.of_nat (length b)))%Q end else w.

Definition approval_simple (split : bool) (votes : list (list C * Q)) : list (C * Q) :=
  fold_left (fun d (bw : list C * Q) =>
               fold_left (fun d c => dset d c (dget_or d c 0 + ballot_share split (fst bw) (snd bw))%Q) (fst bw) d) votes [].

(* approval voting / SAV: Plurality().evaluate(converted, n) = get_n_best *)
Definition approval_plurality (split : bool) (votes : list (list C * Q)) (n : nat) : list (res C) :=
  get_n_best Qle_bool (approval_simple split votes) n.
