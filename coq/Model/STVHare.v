(* Model of the transferable-vote count with the Hare (random, whole-ballot) transferer:
   votelib/component/transfer.py  Hare._subtract / Hare._distribute_equal_ranking /
   distribute_n_random, SimpleVoteTransferer.subtract / transfer, and the count loop of
   votelib/evaluate/sequential.py (shared with Model/STV.v: elect_by_quota, the elimination
   rule, the elect-all-remaining shortcut, the infinite-loop refusal).

   The random draws are an ORACLE argument, never a fact about the generator: every call of
   random.sample(range(N), k) made by distribute_n_random consumes the next entry of
   [oracle] (a list of lists of integers).  An entry that random.sample could not have
   returned (wrong length, a number outside range(N), a repeated number) or a missing entry
   stops the count with the distinguished result [HS_oracle]; the theorems hold for EVERY
   oracle, so in particular for every seed of the Mersenne Twister.

   Domain: whole non-negative ballot weights (votes : Dict[RankedVoteType, int]).  On a pile
   with a fractional or negative weight Hare._subtract takes another code path (weights
   scaled by the largest denominator); that path is not modelled: [HS_unmodelled].
   Proofs/STVHare_count_proofs.v shows that it is never reached from whole non-negative votes.

   LargestRemainder('hare').evaluate(selection, n, max_seats=weights) at the end of
   distribute_n_random(limit_by_weight=True) is the identity on a selection of n draws
   without repetition (quota 1, no remainder seats): modelled as the identity. *)
From Coq Require Import ZArith QArith Qround List Bool Arith.
From VL Require Import Prelude.PyDict Model.GetNBest Model.Convert Model.STV.
Import ListNotations.

Definition oracle := list (list Z).

Inductive hstop :=
| HS_std (s : stop)        (* the refusals of the count loop, as in Model/STV.v *)
| HS_oracle                (* the oracle entry is not a possible answer of random.sample / oracle exhausted *)
| HS_type                  (* TypeError: a fractional number of ballots to draw *)
| HS_value                 (* ValueError: sample larger than population / empty pile *)
| HS_key                   (* KeyError: elected candidate without a pile *)
| HS_unmodelled.           (* fractional or negative ballot weight: outside the modelled domain *)

Inductive hres (X : Type) :=
| HOk (x : X) (o : oracle)
| HErr (s : hstop).
Arguments HOk {X} x o.
Arguments HErr {X} s.

Definition is_int (w : Q) : bool := Qeq_bool w (inject_Z (Qfloor w)).
Definition whole_nonneg (w : Q) : bool := is_int w && Qle_bool 0 w.

(* ---- the draws *)
Definition in_range (lo hi d : Z) : bool := (lo <=? d)%Z && (d <? hi)%Z.
(* how many draws fall into [lo, hi): bisect_right over the cumulated weights + Counter *)
Definition cnt_in (ds : list Z) (lo hi : Z) : Z := Z.of_nat (length (filter (in_range lo hi) ds)).
Fixpoint nodupb (l : list Z) : bool :=
  match l with
  | [] => true
  | x :: t => negb (existsb (Z.eqb x) t) && nodupb t
  end.
(* what random.sample(range(total), n) can return *)
Definition draws_ok (ds : list Z) (n total : Z) : bool :=
  (Z.of_nat (length ds) =? n)%Z && forallb (in_range 0 total) ds && nodupb ds.

(* ---- Hare._subtract (transfer.py L248-261) *)
Definition pile_total (p : pile) : Z := fold_right (fun bw acc => (Qfloor (snd bw) + acc)%Z) 0%Z p.

(* the ballots of the pile occupy consecutive stretches of range(total), in dict order;
   a ballot loses one unit of weight per draw in its stretch and leaves the pile when nothing is left *)
Fixpoint hare_sub_pile (p : pile) (lo : Z) (ds : list Z) : pile :=
  match p with
  | [] => []
  | (b, w) :: t =>
      let wz := Qfloor w in
      let k := cnt_in ds lo (lo + wz) in
      let rest := hare_sub_pile t (lo + wz)%Z ds in
      if (k =? 0)%Z then (b, w) :: rest
      else if (wz <=? k)%Z then rest
      else (b, inject_Z (wz - k)) :: rest
  end.

Definition hare_subtract (p : pile) (n_sub : Q) (o : oracle) : hres pile :=
  match p with
  | [] => HErr HS_value                                     (* zip of an empty pile: nothing to unpack *)
  | _ =>
      if negb (forallb (fun bw => whole_nonneg (snd bw)) p) then HErr HS_unmodelled
      else
        let total := pile_total p in
        if negb (Qle_bool 0 n_sub && Qle_bool n_sub (inject_Z total)) then HErr HS_value
        else if negb (is_int n_sub) then HErr HS_type
        else match o with
             | [] => HErr HS_oracle
             | ds :: o' =>
                 if draws_ok ds (Qfloor n_sub) total then HOk (hare_sub_pile p 0 ds) o'
                 else HErr HS_oracle
             end
  end.

Definition set_pile (a : alloc) (c : C) (p' : pile) : alloc :=
  map (fun kp => if okey_eqb (Some c) (fst kp) then (fst kp, p') else kp) a.

(* SimpleVoteTransferer.subtract: the elected candidates in dict order, one draw each *)
Fixpoint subtract_h (a : alloc) (elected : list (C * Q)) (o : oracle) : hres alloc :=
  match elected with
  | [] => HOk a o
  | (c, amount) :: t =>
      match alloc_get a (Some c) with
      | None => HErr HS_key
      | Some p => match hare_subtract p amount o with
                  | HErr s => HErr s
                  | HOk p' o' => subtract_h (set_pile a c p') t o'
                  end
      end
  end.

(* ---- Hare._distribute_equal_ranking (L263-283): whole shares, the remainder drawn.
   Target number j (in the order of [T]) owns the stretch [j*r, (j+1)*r) of range(|T|*r). *)
Fixpoint split_counts (T : list C) (j r : Z) (ds : list Z) : list (C * Z) :=
  match T with
  | [] => []
  | t :: T' => (t, cnt_in ds (j * r) ((j + 1) * r)) :: split_counts T' (j + 1)%Z r ds
  end.

Definition hare_split (T : list C) (w : Q) (o : oracle) : hres (list (C * Q)) :=
  if negb (is_int w) then HErr HS_type                      (* range(Fraction) *)
  else
    let k := Z.of_nat (length T) in
    let wz := Qfloor w in
    let whole := (wz / k)%Z in
    let r := if (whole =? 0)%Z then wz else (wz - k * whole)%Z in
    if negb (whole =? 0)%Z && (r =? 0)%Z then HOk (map (fun t => (t, inject_Z whole)) T) o
    else match o with
         | [] => HErr HS_oracle
         | ds :: o' =>
             if draws_ok ds r (k * r) then
               HOk (flat_map (fun tc : C * Z =>
                               if negb (whole =? 0)%Z || (0 <? snd tc)%Z then [(fst tc, inject_Z (whole + snd tc))] else [])
                             (split_counts T 0 r ds)) o'
             else HErr HS_oracle
         end.

(* one ballot leaving a pile (SimpleVoteTransferer.transfer L182-203) *)
Definition give (a : alloc) (b : ballot) (shares : list (C * Q)) : alloc :=
  fold_left (fun a tn => alloc_add a (Some (fst tn)) b (snd tn)) shares a.

Definition move_h (a : alloc) (targets : list C) (b : ballot) (w : Q) (o : oracle) : hres alloc :=
  match targets with
  | [] => HOk (alloc_add a None b w) o
  | [t] => HOk (alloc_add a (Some t) b w) o
  | _ => match hare_split targets w o with
         | HErr s => HErr s
         | HOk shares o' => HOk (give a b shares) o'
         end
  end.

Fixpoint pour_h (cont : list C) (c : C) (p : pile) (a : alloc) (o : oracle) : hres alloc :=
  match p with
  | [] => HOk a o
  | bw :: p' =>
      match move_h a (ranked_next (fst bw) c cont) (fst bw) (snd bw) o with
      | HErr s => HErr s
      | HOk a' o' => pour_h cont c p' a' o'
      end
  end.

Fixpoint transfer_loop (cont : list C) (rem : list C) (a : alloc) (o : oracle) : hres alloc :=
  match rem with
  | [] => HOk a o
  | c :: rem' =>
      let p := match alloc_get a (Some c) with Some p => p | None => [] end in
      match pour_h cont c p a o with
      | HErr s => HErr s
      | HOk a' o' => transfer_loop cont rem' (alloc_del a' (Some c)) o'
      end
  end.

Definition transfer_h (a : alloc) (elim : list C) (o : oracle) : hres alloc :=
  let to_remove := filter (fun c => cmem c elim) (keys_some a) in
  let continuing := filter (fun c => negb (cmem c elim)) (keys_some a) in
  transfer_loop continuing to_remove a o.

(* initial_allocation with the Hare transferer: a shared first rank is split by the transferer *)
Fixpoint initial_shared (cands : list C) (votes : list (ballot * Q)) (a : alloc) (o : oracle) : hres alloc :=
  match votes with
  | [] => HOk a o
  | bw :: t =>
      match fst bw with
      | IS _ :: _ =>
          match move_h a (next_after (fst bw) cands) (fst bw) (snd bw) o with
          | HErr s => HErr s
          | HOk a' o' => initial_shared cands t a' o'
          end
      | _ => initial_shared cands t a o
      end
  end.

Definition initial_direct (votes : list (ballot * Q)) : alloc :=
  let cands := all_ranked_candidates votes in
  let base : alloc := map (fun c => (Some c, [])) cands in
  fold_left (fun a bw => match fst bw with
                         | IP c :: _ => alloc_add a (Some c) (fst bw) (snd bw)
                         | _ => a end) votes base.

Definition initial_allocation_h (votes : list (ballot * Q)) (o : oracle) : hres alloc :=
  initial_shared (all_ranked_candidates votes) votes (initial_direct votes) o.

(* ---- one count (next_count of sequential.py with transferer = Hare) *)
Inductive hcount_result :=
| HC_all (elected : list (C * Z))
| HC_next (a : alloc) (elected : list (C * Z)) (o : oracle)
| HC_stop (s : hstop).

Definition lift_h (r : hres alloc) (el : list (C * Z)) : hcount_result :=
  match r with HOk a o => HC_next a el o | HErr s => HC_stop s end.

Definition next_count_h (cf : cfg) (a : alloc) (n_seats : Z) (total_votes : Q)
           (prev caps : list (C * Z)) (o : oracle) : hcount_result :=
  let n_rem := (n_seats - zsum (map snd prev))%Z in
  let tot := totals a in
  let by_total := sort_desc Qle_bool tot in
  let unbounded := existsb (fun kt => match fst kt with Some c => negb (dmem caps c) | None => false end) by_total in
  let avail := flat_map (fun kt => match fst kt with
                                   | Some c => [(c, (dget_or caps c 0 - dget_or prev c 0)%Z)]
                                   | None => [] end) by_total in
  if negb unbounded && (zsum (map snd avail) =? n_rem)%Z && negb (c_mandatory cf) then HC_all avail
  else
    let quota := match c_quota cf with
                 | Some qf => if Qeq_bool total_votes 0 || (n_seats =? 0)%Z then None else Some (qf total_votes n_seats)
                 | None => None end in
    match elect_by_quota cf tot quota n_rem prev caps with
    | inr s => HC_stop (HS_std s)
    | inl (Some el) =>
        match quota with
        | None => HC_stop (HS_std S_runtime)
        | Some q =>
            match subtract_h a (map (fun cs => (fst cs, (inject_Z (snd cs) * q)%Q)) el) o with
            | HErr s => HC_stop s
            | HOk a' o' =>
                let elim := flat_map (fun cs : C * Z =>
                              match dget caps (fst cs) with
                              | Some m => if (m <=? snd cs + dget_or prev (fst cs) 0)%Z then [fst cs] else []
                              | None => [] end) el in
                match elim with
                | [] => HC_next a' el o'
                | _ => lift_h (transfer_h a' elim o') el
                end
            end
        end
    | inl None =>
        let in_play := some_totals tot in
        let n_ret := retained_count cf (length in_play) in
        let retained := get_n_best Qle_bool in_play n_ret in
        if existsb (fun r => match r with TieR _ => true | _ => false end) retained then HC_stop (HS_std S_nie)
        else
          let keep := flat_map (fun r => match r with Cand c => [c] | _ => [] end) retained in
          let elim := filter (fun c => negb (cmem c keep)) (map fst in_play) in
          match elim with
          | [] => HC_next a [] o
          | _ => lift_h (transfer_h a elim o) []
          end
    end.

(* nth_count: the trace of every count; the allocation itself is recorded (the order of the
   ballots inside a pile is what the next draw is interpreted against) *)
Record htrace := {
  h_init : option alloc;                                    (* the initial allocation (None: it could not be built) *)
  h_counts : list (alloc * list (C * Z));
  h_seats : list (C * Z);
  h_stop : option hstop;
  h_left : nat                                              (* oracle entries not consumed *)
}.

Fixpoint run_h (cf : cfg) (fuel : nat) (a : alloc) (n_seats : Z) (total_votes : Q)
         (seats caps : list (C * Z)) (o : oracle) (acc : list (alloc * list (C * Z))) (a0 : alloc) : htrace :=
  if (zsum (map snd seats) =? n_seats)%Z then Build_htrace (Some a0) (rev acc) seats None (length o) else
  match fuel with
  | O => Build_htrace (Some a0) (rev acc) seats (Some (HS_std S_fuel)) (length o)
  | S f =>
      match next_count_h cf a n_seats total_votes seats caps o with
      | HC_stop s => Build_htrace (Some a0) (rev acc) seats (Some s) (length o)
      | HC_all el => Build_htrace (Some a0) (rev (([], el) :: acc)) (add_seats seats el) None (length o)
      | HC_next a' el o' =>
          match el with
          | [] => if alloc_eqb a' a then Build_htrace (Some a0) (rev acc) seats (Some (HS_std S_vse)) (length o')
                  else run_h cf f a' n_seats total_votes seats caps o' ((a', el) :: acc) a0
          | _ => run_h cf f a' n_seats total_votes (add_seats seats el) caps o' ((a', el) :: acc) a0
          end
      end
  end.

Definition stv_h (cf : cfg) (votes : list (ballot * Q)) (n_seats : Z) (prev caps : list (C * Z)) (o : oracle) : htrace :=
  let total := Qred (fold_left Qplus (map snd votes) 0%Q) in
  match initial_allocation_h votes o with
  | HErr s => Build_htrace None [] prev (Some s) (length o)
  | HOk a o' => run_h cf (4 * length (all_ranked_candidates votes) + 8) a n_seats total prev caps o' [] a
  end.
