(* C19 - executable model of votelib/io/stv.py at CHARACTER level: the writer (dump_lines, _dump_system,
   _dump_tveval, _dump_tiebreaker, _dump_ballots, _ranking_to_str, _candidate_nicks, _name_to_initials,
   _ordinal_candidate_nicks, core.dumpers) and the reader (core.loaders, load_lines, _load_system,
   _parse_header_line, _parse_n_ballots, _iter_vote_lines, _parse_multiplier, _add_weights,
   _load_ordered_votes, _load_unordered_votes, _create_system, _create_evaluator, _add_tiebreaker,
   _add_fixed_seats).  Models only - proofs are in Proofs/StvFile_proofs.v.

   A line is a Python str = list of code points ([str] of Model/Persist.v); a text is a str too.  The str
   methods the code uses are functions here: strip / split() / split(None, 1) over the 29 white space code
   points of CPython (a closed table, checked exhaustively against the interpreter by the harness),
   find('#'), split('=', 1), isdecimal, int(), str(int), str(Fraction), Fraction('a/b'), lower of a single
   character, re.split(r'\W+').  What Coq cannot contain is the record [uenv]: for code points >= 128 the
   Unicode tables (decimal digit value, isdigit, word character, lower()), and Decimal(str) for the
   multipliers written with '.' or an exponent.  Every theorem holds for EVERY [uenv].

   The BLT content of a 'ballots=blt' file is read by votelib.io.blt, whose character level is not
   modelled: its loader is the function argument [bl] (applied to the lines that remain).

   [legacy = true] reproduces the tree before the repairs fixes/C19-stv-{title-none,isdigit-int,
   blt-mode-seats,ordinal-end}.diff (recorded by the _legacy_refuted theorems); every positive theorem
   is about legacy = false.  Not modelled: the 4300-digit limit of int <-> str conversion, the rounding
   of Decimal + Decimal by the decimal context when a ranking is repeated (sums are exact here),
   candidates=None (inferred candidate list), shared ranks, float weights. *)
From Coq Require Import Strings.String Decimal DecimalN.
From Coq Require Import ZArith QArith List Bool.
From VL Require Import Model.Persist Model.BallotFile.
Import ListNotations.
Open Scope Z_scope.

Record uenv := {
  udec : Z -> option Z;       (* c >= 128: value of a Unicode decimal digit (str.isdecimal, int(), re \d) *)
  udigit : Z -> bool;         (* c >= 128: str.isdigit (only the legacy code asks) *)
  uword : Z -> bool;          (* c >= 128: re \w, i.e. str.isalnum *)
  ulower : Z -> str;          (* c >= 128: chr(c).lower() *)
  dec_val : str -> option Q   (* Decimal(s) when it parses to a finite number *)
}.

(* ---------------------------------------------------------------- characters *)
Definition spaces : list Z :=
  [9; 10; 11; 12; 13; 28; 29; 30; 31; 32; 133; 160; 5760; 8192; 8193; 8194; 8195; 8196; 8197; 8198; 8199;
   8200; 8201; 8202; 8232; 8233; 8239; 8287; 12288].
Definition is_space (c : Z) : bool := existsb (Z.eqb c) spaces.

Definition dval (E : uenv) (c : Z) : option Z :=
  if (48 <=? c) && (c <=? 57) then Some (c - 48) else if c <? 128 then None else udec E c.
Definition is_decimal_char (E : uenv) (c : Z) : bool := match dval E c with Some _ => true | None => false end.
Definition is_digit_char (E : uenv) (c : Z) : bool :=
  if (48 <=? c) && (c <=? 57) then true else if c <? 128 then false else udigit E c.
Definition is_word (E : uenv) (c : Z) : bool :=
  if c <? 128 then ((48 <=? c) && (c <=? 57)) || ((65 <=? c) && (c <=? 90)) || ((97 <=? c) && (c <=? 122)) || (c =? 95)
  else uword E c.
Definition lower (E : uenv) (c : Z) : str :=
  if (65 <=? c) && (c <=? 90) then [c + 32] else if c <? 128 then [c] else ulower E c.

(* ---------------------------------------------------------------- str methods *)
Definition s_ (s : String.string) : str := codes s.

Fixpoint lstrip (s : str) : str :=
  match s with
  | [] => []
  | c :: t => if is_space c then lstrip t else s
  end.
Definition rstrip (s : str) : str := rev (lstrip (rev s)).
Definition strip (s : str) : str := rstrip (lstrip s).

Definition smem (c : Z) (s : str) : bool := existsb (Z.eqb c) s.

(* s[:s.find(c)] when c occurs, s otherwise *)
Fixpoint cut_at (c : Z) (s : str) : str :=
  match s with
  | [] => []
  | x :: t => if x =? c then [] else x :: cut_at c t
  end.

(* s.split(c, 1) when c occurs *)
Fixpoint split_at (c : Z) (s : str) : option (str * str) :=
  match s with
  | [] => None
  | x :: t => if x =? c then Some ([], t)
              else match split_at c t with
                   | Some (a, b) => Some (x :: a, b)
                   | None => None
                   end
  end.

(* s.split(): [cur] is the word being read, reversed *)
Fixpoint words_aux (s : str) (cur : str) : list str :=
  match s with
  | [] => match cur with [] => [] | _ => [rev cur] end
  | c :: t => if is_space c then match cur with [] => words_aux t [] | _ => rev cur :: words_aux t [] end
              else words_aux t (c :: cur)
  end.
Definition words (s : str) : list str := words_aux s [].

(* the first word and the rest (reading stops at the first white space) *)
Fixpoint span_word (s : str) : str * str :=
  match s with
  | [] => ([], [])
  | c :: t => if is_space c then ([], s) else let (w, r) := span_word t in (c :: w, r)
  end.

(* s.split(None, 1) when it has two items *)
Definition split1 (s : str) : option (str * str) :=
  let (w, r) := span_word (lstrip s) in
  match w, lstrip r with
  | [], _ => None
  | _, [] => None
  | _, r' => Some (w, r')
  end.

Fixpoint join_sp (l : list str) : str :=
  match l with
  | [] => []
  | [x] => x
  | x :: t => x ++ 32 :: join_sp t
  end.

Definition last_is (c : Z) (s : str) : bool := match rev s with x :: _ => x =? c | [] => false end.

(* ---------------------------------------------------------------- numbers *)
(* \d+(_\d+)* read as a number: the digits of int() / Fraction(); [prev]: the previous character was a digit *)
Fixpoint dgroup (E : uenv) (s : str) (acc : Z) (prev : bool) : option Z :=
  match s with
  | [] => if prev then Some acc else None
  | c :: t => match dval E c with
              | Some d => dgroup E t (acc * 10 + d) true
              | None => if (c =? 95) && prev then dgroup E t acc false else None
              end
  end.
Definition digit_group (E : uenv) (s : str) : option Z := dgroup E s 0 false.

(* str.isdecimal / str.isdigit *)
Definition is_decimal_str (E : uenv) (s : str) : bool :=
  match s with [] => false | _ => forallb (is_decimal_char E) s end.
Definition is_digit_str (E : uenv) (s : str) : bool :=
  match s with [] => false | _ => forallb (is_digit_char E) s end.

(* int(s) *)
Definition py_int (E : uenv) (s : str) : option Z :=
  match strip s with
  | [] => None
  | c :: t => if c =? 43 then digit_group E t
              else if c =? 45 then option_map Z.opp (digit_group E t)
              else digit_group E (c :: t)
  end.

(* the test "s.isdecimal()" followed by int(s); the legacy code tested isdigit: int() then raises ValueError on a
   digit that is not a decimal digit (superscript two).  None: the test fails *)
Definition guarded_int (E : uenv) (legacy : bool) (s : str) : option (lres Z) :=
  if legacy then
    if is_digit_str E s then Some (match digit_group E s with Some n => Ok n | None => Crash E_VALUE end) else None
  else
    if is_decimal_str E s then Some (match digit_group E s with Some n => Ok n | None => Crash E_VALUE end) else None.

(* Fraction(s) for an s that contains '/' and no white space: [-+]? \d+(_\d+)* / \d+(_\d+)* ; None: ValueError or
   ZeroDivisionError *)
Definition frac_body (E : uenv) (s : str) : option Q :=
  match split_at 47 s with
  | Some (a, b) => match digit_group E a, digit_group E b with
                   | Some n, Some (Zpos d) => Some (n # d)
                   | _, _ => None
                   end
  | None => None
  end.
Definition py_fraction (E : uenv) (s : str) : option Q :=
  match s with
  | [] => None
  | c :: t => if c =? 43 then frac_body E t
              else if c =? 45 then option_map Qopp (frac_body E t)
              else frac_body E (c :: t)
  end.

(* str(n) *)
Fixpoint uint_codes (u : Decimal.uint) : str :=
  match u with
  | Nil => []
  | D0 u => 48 :: uint_codes u | D1 u => 49 :: uint_codes u | D2 u => 50 :: uint_codes u
  | D3 u => 51 :: uint_codes u | D4 u => 52 :: uint_codes u | D5 u => 53 :: uint_codes u
  | D6 u => 54 :: uint_codes u | D7 u => 55 :: uint_codes u | D8 u => 56 :: uint_codes u
  | D9 u => 57 :: uint_codes u
  end.
Definition n_str (n : N) : str := uint_codes (N.to_uint n).
Definition z_str (z : Z) : str :=
  match z with
  | Zneg p => 45 :: n_str (Npos p)
  | _ => n_str (Z.to_N z)
  end.

(* ---------------------------------------------------------------- weights *)
(* an int or a Fraction (always reduced in Python), or a Decimal given by str(d) *)
Inductive weight := WQ (q : Q) | WDec (s : str).

Definition q_str (q : Q) : str :=
  if Pos.eqb (Qden q) 1 then z_str (Qnum q) else z_str (Qnum q) ++ 47 :: n_str (Npos (Qden q)).
Definition w_str (w : weight) : str := match w with WQ q => q_str q | WDec s => s end.
Definition w_val (E : uenv) (w : weight) : option Q := match w with WQ q => Some q | WDec s => dec_val E s end.
(* n_votes != 1 is False *)
Definition w_is_one (E : uenv) (w : weight) : bool :=
  match w_val E w with Some v => Qeq_bool v 1 | None => false end.

(* _parse_multiplier; None: STVParseError.  'E' in mult.upper() holds exactly for e and E (checked exhaustively) *)
Definition parse_multiplier (E : uenv) (s : str) : option Q :=
  if smem 47 s then py_fraction E s
  else if is_decimal_str E s then option_map inject_Z (digit_group E s)
  else if smem 46 s || smem 69 s || smem 101 s then dec_val E s
  else None.

(* ---------------------------------------------------------------- systems *)
Inductive qfun :=
| QNamed (name : str)      (* a function with __name__ *)
| QConst (n : Z)           (* quota.constant(n): no __name__ *)
| QNameless.
(* the evaluators _dump_tiebreaker looks at *)
Inductive tbk :=
| TbPre (simple : bool) (inner : tbk)    (* PreConverted; simple: type(converter) in RANKED_TO_SIMPLE *)
| TbOrder (number_ranker : bool)         (* CandidateNumberRanker (true) / InputOrderSelector *)
| TbSort (seed : option Z)               (* Sortitor *)
| TbOther.
(* the evaluators _dump_system looks at *)
Inductive ev :=
| EvOther (unknown : bool)               (* UnknownEvaluator (true), or any evaluator _dump_system passes over *)
| EvTV (dist retainer : bool) (elim_step : Z) (gregory : bool) (q : qfun) (mandatory : bool)
                                         (* TransferableVoteDistributor (dist) / TransferableVoteSelector *)
| EvTie (main : ev) (t : tbk)            (* TieBreaking *)
| EvFixed (e : ev) (n : Z).              (* FixedSeatCount *)
(* the [system] argument of dump_lines *)
Inductive sysarg :=
| SysNone
| SysVS (name : option str) (e : ev)     (* VotingSystem *)
| SysEv (e : ev).

Definition s_droop : str := Eval compute in codes "droop".
Definition s_hare : str := Eval compute in codes "hare".
Definition s_mandatory : str := Eval compute in codes "mandatory".
Definition supported_quotas : list str := [s_droop; s_hare].
(* the keys of votelib.component.quota.QUOTAS (compared with the running library by the harness) *)
Definition quota_names : list str :=
  Eval compute in map codes ["hare"; "hare_rounded"; "droop"; "hagenbach_bischoff"; "hagenbach_bischoff_ceil";
                             "hagenbach_bischoff_rounded"; "imperiali"]%string.
Definition strs_mem (s : str) (l : list str) : bool := existsb (str_eqb s) l.

(* ---------------------------------------------------------------- writer *)
Inductive wres := WOk (ls : list str) | WRefuse (* NotSupportedInSTV *) | WCrash (e : Z).

Definition kv (k : String.string) (v : str) : str := codes k ++ 61 :: v.

(* None: NotSupportedInSTV *)
Fixpoint dump_tiebreaker (t : tbk) : option (list str) :=
  match t with
  | TbPre simple inner => if simple then dump_tiebreaker inner else None
  | TbOrder _ => Some [kv "random" (s_ "non")]
  | TbSort (Some seed) => Some [kv "random" (z_str seed)]
  | TbSort None => Some []
  | TbOther => None
  end.

Definition dump_tveval (output_method retainer : bool) (elim_step : Z) (gregory : bool) (q : qfun) (mandatory : bool)
  : option (list str) :=
  match (if output_method then
           if retainer then None else if negb (elim_step =? -1) then None
           else if gregory then Some [kv "method" (s_ "BC")] else None
         else Some []) with
  | None => None
  | Some l1 =>
      match (match q with
             | QNamed nm => if strs_mem nm supported_quotas then Some [kv "quota" nm] else None
             | _ => Some []
             end) with
      | None => None
      | Some l2 => Some (l1 ++ l2 ++ if mandatory then [kv "quota" s_mandatory] else [])
      end
  end.

Fixpoint dump_ev (output_method : bool) (e : ev) : option (list str) :=
  match e with
  | EvOther _ => Some []
  | EvTV _ retainer elim gregory q mandatory => dump_tveval output_method retainer elim gregory q mandatory
  | EvTie main t =>
      match dump_ev output_method main, dump_tiebreaker t with
      | Some l1, Some l2 => Some (l1 ++ l2)
      | _, _ => None
      end
  | EvFixed e' n => option_map (cons (kv "seats" (z_str n))) (dump_ev output_method e')
  end.

Definition s_None : str := Eval compute in codes "None".
Definition dump_system (legacy output_method : bool) (s : sysarg) : option (list str) :=
  match s with
  | SysNone => Some []
  | SysVS name e =>
      option_map (app match name with
                      | Some t => [kv "title" t]
                      | None => if legacy then [kv "title" s_None] else []
                      end) (dump_ev output_method e)
  | SysEv e => dump_ev output_method e
  end.

(* _name_to_initials: the lowered first character of every maximal run of word characters *)
Fixpoint initials_aux (E : uenv) (s : str) (in_word : bool) : str :=
  match s with
  | [] => []
  | c :: t => if is_word E c then (if in_word then initials_aux E t true else lower E c ++ initials_aux E t true)
              else initials_aux E t false
  end.
Definition name_to_initials (E : uenv) (s : str) : str := initials_aux E s false.

Definition s_end : str := Eval compute in codes "end".

(* the loop of _candidate_nicks; None: fall back to ordinal nicknames *)
Fixpoint initials_nicks (E : uenv) (names : list str) (seen : list str) : option (list str) :=
  match names with
  | [] => Some seen
  | nm :: t => let i := name_to_initials E nm in
               if match i with [] => true | _ => false end || str_eqb i s_end || strs_mem i seen then None
               else initials_nicks E t (seen ++ [i])
  end.

(* while 26 ** n_letters < len: n_letters += 1   ([pow] = 26 ** k; fuel len is enough) *)
Fixpoint n_letters_aux (fuel : nat) (k : nat) (pow len : Z) : nat :=
  match fuel with
  | O => k
  | S f => if pow <? len then n_letters_aux f (S k) (pow * 26) len else k
  end.
Definition n_letters (len : nat) : nat := n_letters_aux len 1 26 (Z.of_nat len).

Fixpoint nick_letters (k : nat) (i : Z) : str :=
  match k with
  | O => []
  | S k' => (97 + i mod 26) :: nick_letters k' (i / 26)
  end.
Fixpoint ordinal_from (k : nat) (n : nat) (i : Z) : list str :=
  match n with
  | O => []
  | S n' => nick_letters k i :: ordinal_from k n' (i + 1)
  end.
Definition ordinal_nicks (n : nat) : list str := ordinal_from (n_letters n) n 0.

Definition candidate_nicks (E : uenv) (names : list str) : list str :=
  match initials_nicks E names [] with
  | Some l => l
  | None => ordinal_nicks (length names)
  end.

(* cand_names = {cand: name for cand in candidates}: a candidate listed twice is one key *)
Fixpoint uniq_cands (cs : list cand) (seen : list positive) : list cand :=
  match cs with
  | [] => []
  | (i, nm, w) :: t => if pos_mem i seen then uniq_cands t seen else (i, nm, w) :: uniq_cands t (seen ++ [i])
  end.

Fixpoint nick_of (i : positive) (ids : list positive) (nicks : list str) : option str :=
  match ids, nicks with
  | j :: ids', n :: nicks' => if Pos.eqb i j then Some n else nick_of i ids' nicks'
  | _, _ => None
  end.

Fixpoint ranking_nicks (r : list positive) (ids : list positive) (nicks : list str) : option (list str) :=
  match r with
  | [] => Some []
  | c :: t => match nick_of c ids nicks, ranking_nicks t ids nicks with
              | Some n, Some ns => Some (n :: ns)
              | _, _ => None
              end
  end.

Definition ballot_line (E : uenv) (legacy : bool) (r : list positive) (w : weight) (ids : list positive) (nicks : list str)
  : option str :=
  match ranking_nicks r ids nicks with
  | None => None                                      (* KeyError: a ranked candidate that is not listed *)
  | Some ns =>
      let rs := join_sp ns in
      let needs := negb (w_is_one E w) || match r with [] => true | _ => false end
                   || (negb legacy && str_eqb rs s_end) in
      Some ((if needs then w_str w ++ [88; 32] else []) ++ rs)
  end.

Fixpoint ballot_lines (E : uenv) (legacy : bool) (votes : list (list positive * weight)) (ids : list positive)
         (nicks : list str) : option (list str) :=
  match votes with
  | [] => Some []
  | (r, w) :: t => match ballot_line E legacy r w ids nicks, ballot_lines E legacy t ids nicks with
                   | Some l, Some ls => Some (l :: ls)
                   | _, _ => None
                   end
  end.

Definition cand_line (c : cand) (ids : list positive) (nicks : list str) : str :=
  match c with
  | (i, nm, wd) =>
      (if wd then s_ "withdrawn" else s_ "candidate") ++ 61 ::
      match nick_of i ids nicks with Some n => n | None => [] end ++ 32 :: nm
  end.

Definition dump_ballots (E : uenv) (legacy : bool) (votes : list (list positive * weight)) (cands : list cand)
  : option (list str) :=
  let u := uniq_cands cands [] in
  let ids := map (fun c => match c with (i, _, _) => i end) u in
  let nicks := candidate_nicks E (map (fun c => match c with (_, nm, _) => nm end) u) in
  match ballot_lines E legacy votes ids nicks with
  | None => None
  | Some bl =>
      Some (map (fun c => cand_line c ids nicks) cands
            ++ kv "ballots" (n_str (N.of_nat (length votes))) :: bl ++ [s_end])
  end.

(* what is written: the votes dictionary (insertion order, keys distinct), system, candidates, n_seats, output_method *)
Record stv_election := {
  e_votes : list (list positive * weight);
  e_system : sysarg;
  e_cands : list cand;
  e_seats : option Z;
  e_output_method : bool
}.

(* dump_lines with a system (the BLT mode, system = None, writes 'method=blt', 'ballots=blt' and the lines of
   votelib.io.blt.dump_lines: see [blt_mode_lines]) *)
Definition stv_dump_lines (E : uenv) (legacy : bool) (e : stv_election) : wres :=
  match e_system e with
  | SysNone => WRefuse       (* not this function: blt_mode_lines *)
  | s =>
      match dump_system legacy (e_output_method e) s with
      | None => WRefuse
      | Some sl =>
          match dump_ballots E legacy (e_votes e) (e_cands e) with
          | None => WCrash E_KEY
          | Some bl => WOk (sl ++ match e_seats e with Some n => [kv "seats" (z_str n)] | None => [] end ++ bl)
          end
      end
  end.
Definition blt_mode_lines (blt_lines : list str) : list str := kv "method" (s_ "blt") :: kv "ballots" (s_ "blt") :: blt_lines.

(* core.dumpers: dumps *)
Definition dumps_text (ls : list str) : str :=
  concat (map (fun l => if last_is 10 l then l else l ++ [10]) ls).

(* ---------------------------------------------------------------- reader *)
(* core.loaders: text.split('\n') *)
Fixpoint split_nl_aux (s : str) (cur : str) : list str :=
  match s with
  | [] => [rev cur]
  | c :: t => if c =? 10 then rev cur :: split_nl_aux t [] else split_nl_aux t (c :: cur)
  end.
Definition split_nl (s : str) : list str := split_nl_aux s [].

Inductive hline := HBlank | HKeyVal (k v : str) | HBad.
Definition parse_header_line (l : str) : hline :=
  match strip (cut_at 35 l) with
  | [] => HBlank
  | l1 => match split_at 61 l1 with
          | Some (k, v) => HKeyVal k v
          | None => HBad
          end
  end.

(* the dictionary syscomps *)
Record syscomps := {
  sc_title : option str; sc_method : option str; sc_quota : option (str * option str);
  sc_seats : option str; sc_random : option str
}.
Definition sc_empty : syscomps :=
  {| sc_title := None; sc_method := None; sc_quota := None; sc_seats := None; sc_random := None |}.

Definition s_title : str := Eval compute in codes "title".
Definition s_method : str := Eval compute in codes "method".
Definition s_quota : str := Eval compute in codes "quota".
Definition s_seats : str := Eval compute in codes "seats".
Definition s_random : str := Eval compute in codes "random".
Definition s_ballots : str := Eval compute in codes "ballots".
Definition s_order : str := Eval compute in codes "order".
Definition s_candidate : str := Eval compute in codes "candidate".
Definition s_withdrawn : str := Eval compute in codes "withdrawn".
Definition s_blt : str := Eval compute in codes "blt".
Definition s_BC : str := Eval compute in codes "BC".
Definition s_GPCA : str := Eval compute in codes "GPCA2000".
Definition s_non : str := Eval compute in codes "non".

(* a SYSTEM_KEYS line; None: STVParseError (unknown key, duplicate) *)
Definition sc_put (sc : syscomps) (k v : str) : option syscomps :=
  if str_eqb k s_title then
    match sc_title sc with Some _ => None | None =>
      Some {| sc_title := Some v; sc_method := sc_method sc; sc_quota := sc_quota sc; sc_seats := sc_seats sc; sc_random := sc_random sc |} end
  else if str_eqb k s_method then
    match sc_method sc with Some _ => None | None =>
      Some {| sc_title := sc_title sc; sc_method := Some v; sc_quota := sc_quota sc; sc_seats := sc_seats sc; sc_random := sc_random sc |} end
  else if str_eqb k s_quota then
    match sc_quota sc with
    | Some (_, Some _) => None
    | Some (a, None) =>
      Some {| sc_title := sc_title sc; sc_method := sc_method sc; sc_quota := Some (a, Some v); sc_seats := sc_seats sc; sc_random := sc_random sc |}
    | None =>
      Some {| sc_title := sc_title sc; sc_method := sc_method sc; sc_quota := Some (v, None); sc_seats := sc_seats sc; sc_random := sc_random sc |}
    end
  else if str_eqb k s_seats then
    match sc_seats sc with Some _ => None | None =>
      Some {| sc_title := sc_title sc; sc_method := sc_method sc; sc_quota := sc_quota sc; sc_seats := Some v; sc_random := sc_random sc |} end
  else if str_eqb k s_random then
    match sc_random sc with Some _ => None | None =>
      Some {| sc_title := sc_title sc; sc_method := sc_method sc; sc_quota := sc_quota sc; sc_seats := sc_seats sc; sc_random := Some v |} end
  else None.

Definition nonempty (s : str) : bool := match s with [] => false | _ => true end.

Definition lbind {X Y : Type} (r : lres X) (f : X -> lres Y) : lres Y :=
  match r with
  | Ok x => f x
  | ParseError => ParseError
  | Crash e => Crash e
  end.

(* the result of a guarded int() where a failing test means STVParseError *)
Definition int_or_error (g : option (lres Z)) : lres Z := match g with Some r => r | None => ParseError end.

(* _create_evaluator, the quota setting(s): the name and the mandatory flag *)
Definition quota_setting (quota : option (str * option str)) : lres (option str * bool) :=
  match quota with
  | Some (a, Some b) =>
      if str_eqb a s_mandatory || str_eqb b s_mandatory then
        if negb (str_eqb a s_mandatory) then Ok (Some a, true)
        else if negb (str_eqb b s_mandatory) then Ok (Some b, true)
        else ParseError                                      (* no quota type given *)
      else ParseError                                        (* unknown quota settings *)
  | Some (a, None) => Ok (Some a, false)
  | None => Ok (None, false)
  end.

Definition quota_function (E : uenv) (legacy is_blt : bool) (qname : option str) : lres qfun :=
  match qname with
  | None => if is_blt then Ok QNameless else ParseError      (* quota setting not found *)
  | Some qn =>
      match guarded_int E legacy qn with
      | Some r => lbind r (fun n => Ok (QConst n))
      | None => if strs_mem qn quota_names then Ok (QNamed qn) else ParseError
      end
  end.

(* _add_tiebreaker, when random is given and not empty *)
Definition add_tiebreaker (E : uenv) (legacy : bool) (base : ev) (random : option str) : lres ev :=
  match random with
  | Some r =>
      if nonempty r then
        if str_eqb r s_non then Ok (EvTie base (TbPre true (TbOrder true)))
        else lbind (int_or_error (guarded_int E legacy r)) (fun n => Ok (EvTie base (TbPre true (TbSort (Some n)))))
      else Ok base
  | None => Ok base
  end.

(* _add_fixed_seats, when seats is given and not empty *)
Definition add_fixed_seats (E : uenv) (e : ev) (seats : option str) : lres ev :=
  match seats with
  | Some s => if nonempty s then match py_int E s with Some n => Ok (EvFixed e n) | None => ParseError end else Ok e
  | None => Ok e
  end.

(* _create_evaluator *)
Definition create_evaluator (E : uenv) (legacy : bool) (sc : syscomps) : lres ev :=
  let gpca := match sc_method sc with Some m => str_eqb m s_GPCA | None => false end in
  let method := if gpca then Some s_BC else sc_method sc in
  let quota := if gpca then Some (s_droop, Some s_mandatory) else sc_quota sc in
  match method with
  | None => ParseError                                       (* STV method not found *)
  | Some m =>
      let is_blt := str_eqb m s_blt in
      if negb (str_eqb m s_BC) && negb is_blt then ParseError  (* not found / not implemented *)
      else
        lbind (quota_setting quota) (fun qm =>
        lbind (quota_function E legacy is_blt (fst qm)) (fun qf =>
        lbind (add_tiebreaker E legacy (if is_blt then EvOther true else EvTV false false (-1) true qf (snd qm)) (sc_random sc)) (fun e1 =>
        add_fixed_seats E e1 (sc_seats sc))))
  end.

(* VotingSystem(title, evaluator) *)
Definition vsystem := (option str * ev)%type.
Definition create_system (E : uenv) (legacy : bool) (sc : syscomps) : lres vsystem :=
  lbind (create_evaluator E legacy sc) (fun e => Ok (sc_title sc, e)).

(* _parse_n_ballots: None = BLT mode *)
Definition parse_n_ballots (E : uenv) (legacy : bool) (v : str) : lres (option Z) :=
  if str_eqb v s_blt then Ok None
  else lbind (int_or_error (guarded_int E legacy v)) (fun n => Ok (Some n)).

(* the dictionary nicks: nickname -> 1-based position of the candidate, insertion order *)
Definition nickmap := list (str * Z).
Definition nick_get (m : nickmap) (k : str) : option Z := aget str_eqb m k.

(* nicks = {nick: nicks[nick] for nick in nick_orders}; None: an unknown nickname *)
Fixpoint reorder_nicks (m : nickmap) (order : list str) (acc : nickmap) : option nickmap :=
  match order with
  | [] => Some acc
  | k :: t => match nick_get m k with
              | Some p => reorder_nicks m t (aset str_eqb acc k p)
              | None => None
              end
  end.

(* what _load_system returns *)
Record header := {
  h_system : vsystem;
  h_cands : list (str * bool);          (* Person(name, number = position, withdrawn) *)
  h_nicks : nickmap;
  h_n_ballots : option Z;
  h_ordered : bool
}.

Fixpoint load_system (E : uenv) (legacy : bool) (ls : list str) (sc : syscomps) (cands : list (str * bool))
         (nicks : nickmap) (order : list str) : lres (header * list str) :=
  match ls with
  | [] => ParseError                                           (* end of file before ballot data *)
  | l :: rest =>
      match parse_header_line l with
      | HBad => ParseError
      | HBlank => load_system E legacy rest sc cands nicks order
      | HKeyVal k v =>
          if str_eqb k s_ballots then
            match (match order with [] => Some nicks | _ => reorder_nicks nicks order [] end) with
            | None => ParseError                               (* unknown candidates in order= *)
            | Some nicks' =>
                lbind (create_system E legacy sc) (fun sys =>
                lbind (parse_n_ballots E legacy v) (fun nb =>
                Ok ({| h_system := sys; h_cands := cands; h_nicks := nicks'; h_n_ballots := nb;
                       h_ordered := match order with [] => false | _ => true end |}, rest)))
            end
          else if str_eqb k s_order then load_system E legacy rest sc cands nicks (words v)
          else if str_eqb k s_candidate || str_eqb k s_withdrawn then
            match split1 v with
            | None => ParseError                               (* needs a nickname and a name *)
            | Some (nick, name) =>
                load_system E legacy rest sc (cands ++ [(name, str_eqb k s_withdrawn)])
                            (aset str_eqb nicks nick (Z.of_nat (length cands) + 1)) order
            end
          else match sc_put sc k v with
               | None => ParseError
               | Some sc' => load_system E legacy rest sc' cands nicks order
               end
      end
  end.

(* votes[vote] = _add_weights(votes[vote], mult): exact arithmetic, first position kept *)
Definition vadd := badd.

Fixpoint lookup_nicks (m : nickmap) (items : list str) : option (list Z) :=
  match items with
  | [] => Some []
  | it :: t => match nick_get m it, lookup_nicks m t with
               | Some p, Some ps => Some (p :: ps)
               | _, _ => None
               end
  end.

(* _load_ordered_votes, one line: items are ranks ('-': not ranked) in the order of the candidates *)
Fixpoint ordered_items (E : uenv) (legacy : bool) (items : list str) (pool : list Z) (i : nat) (acc : list (Z * Z))
  : lres (list (Z * Z)) :=
  match items with
  | [] => Ok acc
  | it :: t =>
      match guarded_int E legacy it with
      | Some r =>
          match nth_error pool i with
          | None => ParseError                                 (* more items than candidates *)
          | Some c => lbind r (fun rank => ordered_items E legacy t pool (S i) (acc ++ [(c, rank)]))
          end
      | None => if str_eqb it [45] then ordered_items E legacy t pool (S i) acc else ParseError
      end
  end.

(* list.sort(key=itemgetter(1)): stable *)
Fixpoint insert_by_rank (x : Z * Z) (l : list (Z * Z)) : list (Z * Z) :=
  match l with
  | [] => [x]
  | y :: t => if snd x <? snd y then x :: l else y :: insert_by_rank x t
  end.
Definition sort_by_rank (l : list (Z * Z)) : list (Z * Z) := fold_left (fun acc x => insert_by_rank x acc) l [].

Fixpoint ranks_are (l : list (Z * Z)) (i : Z) : bool :=
  match l with
  | [] => true
  | (_, r) :: t => (r =? i) && ranks_are t (i + 1)
  end.

Definition ordered_vote (E : uenv) (legacy : bool) (items : list str) (pool : list Z) : lres (list Z) :=
  lbind (ordered_items E legacy items pool 0 []) (fun co =>
    let s := sort_by_rank co in if ranks_are s 1 then Ok (map fst s) else ParseError).

(* _iter_vote_lines fused with the vote loader: [i] counts the lines read (blank lines included) *)
Fixpoint load_votes (E : uenv) (legacy ordered : bool) (nicks : nickmap) (ls : list str) (i n_ballots : Z)
         (acc : list (list Z * Q)) : lres (list (list Z * Q)) :=
  match ls with
  | [] => ParseError                                           (* no "end" terminator line *)
  | l :: rest =>
      let l' := strip l in
      if str_eqb l' s_end then (if i =? n_ballots then Ok acc else ParseError)
      else match l' with
           | [] => load_votes E legacy ordered nicks rest (i + 1) n_ballots acc
           | _ =>
               match words l' with
               | [] => Crash E_INDEX                           (* items[0]: cannot happen, see words_strip_nonempty *)
               | first :: more =>
                   match (if last_is 88 first
                          then match parse_multiplier E (removelast first) with
                               | Some m => Some (m, more)
                               | None => None
                               end
                          else Some (1 # 1, first :: more)) with
                   | None => ParseError                        (* invalid vote weight multiplier *)
                   | Some (mult, items) =>
                       lbind (if ordered then ordered_vote E legacy items (map snd nicks)
                              else match lookup_nicks nicks items with
                                   | Some v => Ok v
                                   | None => ParseError        (* unknown candidate *)
                                   end)
                             (fun vote => load_votes E legacy ordered nicks rest (i + 1) n_ballots (vadd acc vote mult))
                   end
               end
           end
  end.

(* what load_lines returns: votes (rankings as 1-based positions in [l_pool]), system, candidates *)
Record stv_loaded := {
  l_votes : list (list Z * Q);
  l_system : vsystem;
  l_cands : list (str * bool);
  l_pool : list (str * bool)            (* the candidate objects the rankings refer to: l_cands, except in BLT mode
                                           when the header lists candidates too *)
}.

Definition cname_str (c : cname) : str := match c with Named s => s | Numbered n => z_str n end.

Definition finish_blt (legacy : bool) (h : header) (r : lres BallotFile.loaded) : lres stv_loaded :=
  match r with
  | ParseError => ParseError                                   (* BLT content parsing failed *)
  | Crash e => Crash e
  | Ok (bvotes, bseats, bcands, btitle) =>
      let bc := map (fun cw => (cname_str (fst cw), snd cw)) bcands in
      let name := match fst (h_system h) with
                  | Some t => Some t
                  | None => match btitle with Some t => if nonempty t then Some t else None | None => None end
                  end in
      let cands := match h_cands h, bc with [], _ :: _ => bc | hc, _ => hc end in
      match snd (h_system h) with
      | EvFixed inner _ =>
          if legacy then Crash E_VALUE                         (* cannot wrap seatless evaluator FixedSeatCount *)
          else Ok {| l_votes := bvotes; l_system := (name, EvFixed inner bseats); l_cands := cands; l_pool := bc |}
      | e => Ok {| l_votes := bvotes; l_system := (name, EvFixed e bseats); l_cands := cands; l_pool := bc |}
      end
  end.

Definition stv_load_lines (E : uenv) (legacy : bool) (bl : list str -> lres BallotFile.loaded) (ls : list str) : lres stv_loaded :=
  lbind (load_system E legacy ls sc_empty [] [] []) (fun hr =>
      let (h, rest) := hr in
      match h_n_ballots h with
      | None => finish_blt legacy h (bl rest)
      | Some n =>
          lbind (load_votes E legacy (h_ordered h) (h_nicks h) rest 0 n [])
                (fun v => Ok {| l_votes := v; l_system := h_system h; l_cands := h_cands h; l_pool := h_cands h |})
      end).

Definition stv_loads (E : uenv) (legacy : bool) (bl : list str -> lres BallotFile.loaded) (text : str) : lres stv_loaded :=
  stv_load_lines E legacy bl (split_nl text).

(* ---------------------------------------------------------------- what "unchanged" means *)
Fixpoint expected_votes (E : uenv) (votes : list (list positive * weight)) (cands : list cand) : option (list (list Z * Q)) :=
  match votes with
  | [] => Some []
  | (r, w) :: t => match indices r cands, w_val E w, expected_votes E t cands with
                   | Some is_, Some q, Some ps => Some ((is_, Qred q) :: ps)
                   | _, _, _ => None
                   end
  end.

Definition stv_expected (E : uenv) (e : stv_election) : option stv_loaded :=
  match expected_votes E (e_votes e) (e_cands e) with
  | None => None
  | Some v =>
      let cs := map (fun c => match c with (_, nm, w) => (nm, w) end) (e_cands e) in
      let wrap := fun x => match e_seats e with Some n => EvFixed x n | None => x end in
      match e_system e with
      | SysNone => None
      | SysVS name x => Some {| l_votes := v; l_system := (name, wrap x); l_cands := cs; l_pool := cs |}
      | SysEv x => Some {| l_votes := v; l_system := (None, wrap x); l_cands := cs; l_pool := cs |}
      end
  end.

(* ---- well-formed election (boolean) *)
(* a name / title the format can carry (finding C19-stv-name-chars): no '#', no line feed, no outer white space *)
Definition no_outer_space (s : str) : bool :=
  match s with [] => true | c :: _ => negb (is_space c) end && match rev s with [] => true | c :: _ => negb (is_space c) end.
Definition text_ok (s : str) : bool := negb (smem 35 s) && negb (smem 10 s) && no_outer_space s.
Definition name_ok (s : str) : bool := nonempty s && text_ok s.
(* a character a nickname may contain: not white space, not '#', not 'X' *)
Definition nick_char_ok (c : Z) : bool := negb (is_space c) && negb (c =? 35) && negb (c =? 88).

Definition stv_weight_ok (E : uenv) (w : weight) : bool :=
  match w with
  | WQ q => (Z.gcd (Qnum q) (Zpos (Qden q)) =? 1) && (negb (Pos.eqb (Qden q) 1) || (0 <=? Qnum q))
  | WDec s => match dec_val E s with Some _ => true | None => false end
              && negb (smem 47 s) && negb (is_decimal_str E s) && (smem 46 s || smem 69 s || smem 101 s)
              && forallb (fun c => negb (is_space c)) s
  end.

(* the evaluators the reader can build *)
Definition base_ok (e : ev) : bool :=
  match e with
  | EvTV false false (-1) true (QNamed q) _ => strs_mem q supported_quotas
  | _ => false
  end.
Definition tie_ok (e : ev) : bool :=
  match e with
  | EvTie b (TbPre true (TbOrder true)) => base_ok b
  | EvTie b (TbPre true (TbSort (Some n))) => base_ok b && (0 <=? n)
  | _ => base_ok e
  end.
Definition ev_ok (e : ev) (seats : option Z) : bool :=
  match e, seats with
  | EvFixed e' _, None => tie_ok e'
  | EvFixed _ _, Some _ => false
  | _, _ => tie_ok e
  end.

Definition stv_wf (E : uenv) (e : stv_election) : bool :=
  let cands := e_cands e in
  let ids := map (fun c => match c with (i, _, _) => i end) cands in
  pos_nodup ids
  && forallb (fun rw => forallb (fun c => pos_mem c ids) (fst rw)) (e_votes e)
  && rankings_nodup (map fst (e_votes e))
  && forallb (fun rw => stv_weight_ok E (snd rw)) (e_votes e)
  && forallb (fun c => match c with (_, nm, _) => name_ok nm && forallb nick_char_ok (name_to_initials E nm) end) cands
  && e_output_method e
  && match e_system e with
     | SysNone => false
     | SysVS name x => ev_ok x (e_seats e) && match name with Some t => text_ok t | None => true end
     | SysEv x => ev_ok x (e_seats e)
     end.
