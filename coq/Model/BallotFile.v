(* C19 - executable model of votelib/io/blt.py at token level: dump_lines and load_lines
   (_parse_header, _parse_body, _parse_ballot, _parse_numline, _parse_strings,
   _form_candidate_objects, _deindex_ballots).  Models only.

   A line is what remains after _clean_line and str.split: a list of tokens, or a line that
   starts and ends with a double quote.  The character level (str(num), split, '#' comments,
   quoting) is not modelled; a token is classified the way _parse_numline classifies it:
     TNat n   numstr.isdigit()              -> int(numstr)
     TNum q   not digits, but a finite Decimal (or, since the repair, a Fraction 'a/b')
     TBad     anything else.
   [pinned = true] reproduces the behaviour of the pinned tree where it differs from the repaired
   code (recorded by the _pinned_refuted theorems); every positive theorem is about pinned = false. *)
From Coq Require Import ZArith QArith List Bool.
From VL Require Import Model.Persist.
Import ListNotations.
Open Scope Z_scope.

Inductive tok := TNat (n : Z) | TNum (q : Q) | TBad.
Inductive line := LToks (l : list tok) | LQuoted (s : str).

Inductive lres (X : Type) :=
| Ok (x : X)
| ParseError                 (* BLTParseError *)
| Crash (e : Z).             (* any other exception: enum of harness/common.py *)
Arguments Ok {X} x.
Arguments ParseError {X}.
Arguments Crash {X} e.

Definition E_INDEX : Z := 7.

(* candidate as the writer sees it: identity, name, withdrawn flag *)
Definition cand := (positive * str * bool)%type.
(* what is written: ballots keyed by rankings of candidate identities, seats, candidates, title *)
Definition election := (list (list positive * Q) * Z * list cand * option str)%type.

(* candidate name after loading: given, or str(i+1) when the file carries no names *)
Inductive cname := Named (s : str) | Numbered (n : Z).
(* what load_lines returns; rankings as 1-based positions in the candidate list *)
Definition loaded := (list (list Z * Q) * Z * list (cname * bool) * option str)%type.

(* ---------------------------------------------------------------- writer *)
Inductive dump_res := DumpOk (ls : list line) | DumpRefuse.     (* NotSupportedInBLT *)

(* str(weight) as a token *)
Definition wtok (w : Q) : tok :=
  if (Pos.eqb (Qden w) 1) && (0 <=? Qnum w) then TNat (Qnum w) else TNum w.

(* candidates.index(cand) + 1 *)
Fixpoint index_of (c : positive) (cands : list cand) (i : Z) : option Z :=
  match cands with
  | [] => None
  | (c', _, _) :: t => if Pos.eqb c c' then Some i else index_of c t (i + 1)
  end.

Fixpoint indices (r : list positive) (cands : list cand) : option (list Z) :=
  match r with
  | [] => Some []
  | c :: t => match index_of c cands 1, indices t cands with
              | Some i, Some is_ => Some (i :: is_)
              | _, _ => None
              end
  end.

(* _get_withdrawn_inds: 0-based *)
Fixpoint withdrawn_inds (cands : list cand) (i : Z) : list Z :=
  match cands with
  | [] => []
  | (_, _, w) :: t => if w then i :: withdrawn_inds t (i + 1) else withdrawn_inds t (i + 1)
  end.

Fixpoint dump_votes (votes : list (list positive * Q)) (cands : list cand) : option (list line) :=
  match votes with
  | [] => Some []
  | (r, w) :: t =>
      match indices r cands, dump_votes t cands with
      | Some is_, Some ls => Some (LToks (wtok w :: map TNat is_ ++ [TNat 0]) :: ls)
      | _, _ => None
      end
  end.

(* the number written for withdrawn candidate i (0-based) *)
Definition wd_number (pinned : bool) (i : Z) : Z := if pinned then - (i + i) else - (i + 1).
Definition ztok (z : Z) : tok := if 0 <=? z then TNat z else TNum (inject_Z z).

Definition dump_lines (pinned : bool) (e : election) : dump_res :=
  match e with
  | (votes, n_seats, cands, title) =>
      match dump_votes votes cands with
      | None => DumpRefuse
      | Some vlines =>
          DumpOk (LToks [ztok (Z.of_nat (length cands)); ztok n_seats]
                  :: map (fun i => LToks [ztok (wd_number pinned i)]) (withdrawn_inds cands 0)
                  ++ vlines
                  ++ [LToks [TNat 0]]
                  ++ map (fun c => match c with (_, name, _) => LQuoted name end) cands
                  ++ match title with Some t => [LQuoted t] | None => [] end)
      end
  end.

(* ---------------------------------------------------------------- parser *)
(* _parse_numline: the numbers of a line; a quoted line read as numbers fails on its first item *)
Definition tokval (pinned first_dec : bool) (i : nat) (t : tok) : lres Q :=
  match t with
  | TNat n => Ok (inject_Z n)
  | TNum q => if first_dec && Nat.eqb i 0 then Ok q else ParseError
  | TBad => if first_dec && Nat.eqb i 0 then (if pinned then Crash E_OTHER else ParseError) else ParseError
  end.

Fixpoint tokvals (pinned first_dec : bool) (i : nat) (l : list tok) : lres (list Q) :=
  match l with
  | [] => Ok []
  | t :: r => match tokval pinned first_dec i t with
              | Ok q => match tokvals pinned first_dec (S i) r with
                        | Ok qs => Ok (q :: qs)
                        | ParseError => ParseError
                        | Crash e => Crash e
                        end
              | ParseError => ParseError
              | Crash e => Crash e
              end
  end.

Definition parse_numline (pinned first_dec : bool) (l : line) : lres (list Q) :=
  match l with
  | LToks ts => tokvals pinned first_dec 0 ts
  | LQuoted _ => tokvals pinned first_dec 0 [TBad]
  end.

Definition qzero (q : Q) : bool := Qeq_bool q 0.
Definition qneg (q : Q) : bool := negb (Qle_bool 0 q).

Fixpoint zlist_eqb (a b : list Z) : bool :=
  match a, b with
  | [], [] => true
  | x :: a', y :: b' => Z.eqb x y && zlist_eqb a' b'
  | _, _ => false
  end.

(* pinned: ballots[ballot] = 0 ; += weight.  repaired: the first weight is stored as written, later ones added;
   in exact arithmetic both are 0 + w (the rounding of 0 + Decimal by the decimal context is not modelled: the
   repaired code no longer performs that addition) *)
Fixpoint badd (b : list (list Z * Q)) (r : list Z) (w : Q) : list (list Z * Q) :=
  match b with
  | [] => [(r, Qred (0 + w))]
  | (r', w') :: t => if zlist_eqb r r' then (r', Qred (w' + w)) :: t else (r', w') :: badd t r w
  end.

(* _parse_ballot: zero-terminated; weight, then candidate numbers (integers: they are TNat tokens) *)
Definition parse_ballot (nums : list Q) : lres (Q * list Z) :=
  match rev nums with
  | [] => ParseError
  | last :: front_rev =>
      if qzero last then
        match rev front_rev with
        | [] => ParseError
        | w :: r => Ok (w, map Qnum r)
        end
      else ParseError
  end.

(* _parse_body: returns ballots, withdrawn numbers and the lines not yet consumed *)
Fixpoint parse_body (pinned oneplus : bool) (ls : list line) (ballots : list (list Z * Q))
         (wd : list Q) (enc : bool) : lres (list (list Z * Q) * list Q * list line) :=
  match ls with
  | [] => ParseError                                  (* EOF before ballot list terminator *)
  | l :: rest =>
      match parse_numline pinned true l with
      | ParseError => ParseError
      | Crash e => Crash e
      | Ok [] => parse_body pinned oneplus rest ballots wd enc
      | Ok (x :: r) =>
          if qzero x && match r with [] => true | _ => false end then Ok (ballots, wd, rest)
          else if qneg x then
            if enc then ParseError
            else parse_body pinned oneplus rest ballots (wd ++ map Qopp (x :: r)) enc
          else
            match parse_ballot (x :: r) with
            | Ok (w, b) =>
                if oneplus && negb (Qle_bool 1 w) then (if pinned then Crash E_VALUE else ParseError)
                else parse_body pinned oneplus rest (badd ballots b w) wd true
            | ParseError => ParseError
            | Crash e => Crash e
            end
      end
  end.

(* _parse_strings: the quoted lines up to EOF, blank lines only at the end *)
Fixpoint quoted_lines (ls : list line) (acc : list str) (empty_seen : bool) : lres (list str) :=
  match ls with
  | [] => Ok acc
  | LQuoted s :: rest => if empty_seen then ParseError else quoted_lines rest (acc ++ [s]) empty_seen
  | LToks [] :: rest => quoted_lines rest acc true
  | LToks _ :: _ => ParseError
  end.

(* candidate names (None: numeric) and title *)
Inductive names_res :=
| Names (names : option (list str)) (title : option str)
| NamesBare (s : str).       (* pinned tree, one candidate: the string itself is returned as the "list" *)

Definition parse_strings (pinned : bool) (ls : list line) (n_cands : Z) : lres names_res :=
  match quoted_lines ls [] false with
  | ParseError => ParseError
  | Crash e => Crash e
  | Ok parsed =>
      let len := Z.of_nat (length parsed) in
      match parsed with
      | [] => Ok (Names None None)
      | [s] => if n_cands =? 1 then (if pinned then Ok (NamesBare s) else Ok (Names (Some [s]) None))
               else Ok (Names None (Some s))
      | _ =>
          if len <? n_cands then ParseError
          else if len =? n_cands then Ok (Names (Some parsed) None)
          else if len =? n_cands + 1 then Ok (Names (Some (removelast parsed)) (Some (last parsed [])))
          else ParseError
      end
  end.

Fixpoint numbered (n : nat) (i : Z) : list cname :=
  match n with
  | O => []
  | S n' => Numbered i :: numbered n' (i + 1)
  end.

(* _form_candidate_objects: withdrawn=(i+1 in withdrawn) *)
Fixpoint form_cands (names : list cname) (wd : list Q) (i : Z) : list (cname * bool) :=
  match names with
  | [] => []
  | nm :: t => (nm, existsb (fun q => Qeq_bool q (inject_Z i)) wd) :: form_cands t wd (i + 1)
  end.

(* _deindex_ballots: cands[i-1]; the repaired code refuses numbers outside 1..len(cands);
   the pinned code raises IndexError above the range and wraps 0 to the last candidate *)
Definition check_index (pinned : bool) (n : Z) (i : Z) : lres Z :=
  if (1 <=? i) && (i <=? n) then Ok i
  else if pinned then (if (i =? 0) && (1 <=? n) then Ok n else Crash E_INDEX)
  else ParseError.

Fixpoint check_ranking (pinned : bool) (n : Z) (r : list Z) : lres (list Z) :=
  match r with
  | [] => Ok []
  | i :: t => match check_index pinned n i with
              | Ok j => match check_ranking pinned n t with
                        | Ok js => Ok (j :: js)
                        | ParseError => ParseError
                        | Crash e => Crash e
                        end
              | ParseError => ParseError
              | Crash e => Crash e
              end
  end.

Fixpoint deindex (pinned : bool) (n : Z) (b : list (list Z * Q)) : lres (list (list Z * Q)) :=
  match b with
  | [] => Ok []
  | (r, w) :: t => match check_ranking pinned n r with
                   | Ok r' => match deindex pinned n t with
                              | Ok t' => Ok ((r', w) :: t')
                              | ParseError => ParseError
                              | Crash e => Crash e
                              end
                   | ParseError => ParseError
                   | Crash e => Crash e
                   end
  end.

Definition load_lines (pinned oneplus : bool) (ls : list line) : lres loaded :=
  match ls with
  | [] => ParseError                                   (* empty BLT file *)
  | h :: body =>
      match parse_numline pinned false h with
      | ParseError => ParseError
      | Crash e => Crash e
      | Ok [nc; ns] =>
          let n_cands := Qnum nc in
          let n_seats := Qnum ns in
          match parse_body pinned oneplus body [] [] false with
          | ParseError => ParseError
          | Crash e => Crash e
          | Ok (ballots, wd, rest) =>
              match parse_strings pinned rest n_cands with
              | ParseError => ParseError
              | Crash e => Crash e
              | Ok (NamesBare s) =>
                  (* the characters of the name become the candidates *)
                  let cands := form_cands (map (fun c => Named [c]) s) wd 1 in
                  match deindex pinned (Z.of_nat (length cands)) ballots with
                  | Ok b => Ok (b, n_seats, cands, None)
                  | ParseError => ParseError
                  | Crash e => Crash e
                  end
              | Ok (Names names title) =>
                  let cn := match names with
                            | Some l => map Named l
                            | None => numbered (Z.to_nat n_cands) 1
                            end in
                  let cands := form_cands cn wd 1 in
                  match deindex pinned (Z.of_nat (length cands)) ballots with
                  | Ok b => Ok (b, n_seats, cands, title)
                  | ParseError => ParseError
                  | Crash e => Crash e
                  end
              end
          end
      | Ok _ => ParseError                             (* need two integers *)
      end
  end.

(* ---------------------------------------------------------------- what "unchanged" means *)
(* the election as it must come back: identities replaced by positions *)
Fixpoint positions (votes : list (list positive * Q)) (cands : list cand) : option (list (list Z * Q)) :=
  match votes with
  | [] => Some []
  | (r, w) :: t => match indices r cands, positions t cands with
                   | Some is_, Some ps => Some ((is_, w) :: ps)
                   | _, _ => None
                   end
  end.

Definition expected (e : election) : option loaded :=
  match e with
  | (votes, n_seats, cands, title) =>
      match positions votes cands with
      | Some ps => Some (ps, n_seats, map (fun c => match c with (_, name, w) => (Named name, w) end) cands, title)
      | None => None
      end
  end.

(* well-formed election (boolean): candidate identities distinct, every ranked candidate listed,
   rankings pairwise distinct (they are dictionary keys), weights non-negative reduced fractions,
   seat count non-negative *)
Fixpoint pos_mem (c : positive) (l : list positive) : bool :=
  match l with [] => false | x :: t => Pos.eqb c x || pos_mem c t end.
Fixpoint pos_nodup (l : list positive) : bool :=
  match l with [] => true | x :: t => negb (pos_mem x t) && pos_nodup t end.
Fixpoint plist_eqb (a b : list positive) : bool :=
  match a, b with
  | [], [] => true
  | x :: a', y :: b' => Pos.eqb x y && plist_eqb a' b'
  | _, _ => false
  end.
Fixpoint rankings_nodup (l : list (list positive)) : bool :=
  match l with
  | [] => true
  | r :: t => negb (existsb (plist_eqb r) t) && rankings_nodup t
  end.
Definition weight_ok (w : Q) : bool := Qle_bool 0 w && (Z.gcd (Qnum w) (Zpos (Qden w)) =? 1).

Definition wf_election (e : election) : bool :=
  match e with
  | (votes, n_seats, cands, _) =>
      let ids := map (fun c => match c with (i, _, _) => i end) cands in
      pos_nodup ids
      && forallb (fun rw => forallb (fun c => pos_mem c ids) (fst rw)) votes
      && rankings_nodup (map fst votes)
      && forallb (fun rw => weight_ok (snd rw)) votes
      && (0 <=? n_seats)
  end.
