(* Model of votelib.vote validators (vote.py L128-556), candidate.py nominators
   (L367-457) and convert.InvalidVoteEliminator (L826-841).

   Python objects are drawn from a grammar of well- and ill-formed ballots.
   Numbers are exact rationals in lowest terms (1 == Fraction(1)); frozenset
   members arrive in a canonical order from the harness, so structural equality
   is Python equality on this grammar. *)
From Coq Require Import ZArith QArith List Bool.
Import ListNotations.
Open Scope Z_scope.

Inductive ckind := KStr | KPerson (has_party : bool) | KParty | KCoalition | KBlank.

Inductive pyobj :=
| OCand (k : ckind) (id : positive)
| ONum (n : Z) (d : positive)
| ONone
| OTuple (l : list pyobj)
| OFrozen (l : list pyobj)
| OList (l : list pyobj).

Definition ckind_eqb (a b : ckind) : bool :=
  match a, b with
  | KStr, KStr | KParty, KParty | KCoalition, KCoalition | KBlank, KBlank => true
  | KPerson x, KPerson y => Bool.eqb x y
  | _, _ => false
  end.

Fixpoint obj_eqb (a b : pyobj) {struct a} : bool :=
  let fix list_eqb (l m : list pyobj) {struct l} : bool :=
      match l, m with
      | [], [] => true
      | x :: l', y :: m' => obj_eqb x y && list_eqb l' m'
      | _, _ => false
      end in
  match a, b with
  | OCand k i, OCand k' i' => ckind_eqb k k' && Pos.eqb i i'
  | ONum n d, ONum n' d' => Z.eqb n n' && Pos.eqb d d'
  | ONone, ONone => true
  | OTuple l, OTuple m => list_eqb l m
  | OFrozen l, OFrozen m => list_eqb l m
  | OList l, OList m => list_eqb l m
  | _, _ => false
  end.

(* hash(o): a list is unhashable, a tuple is hashable when its items are (set.add / set membership of an unhashable
   object raises TypeError); the members of a frozenset are hashable by construction *)
Fixpoint hashable (o : pyobj) : bool :=
  match o with
  | OList _ => false
  | OTuple l => forallb hashable l
  | _ => true
  end.

Inductive vresult := VOk | VVoteError | VCandError | VCrash.

(* ---- nominators *)
Inductive nominator :=
| NBasic (allow_blank : bool)
| NPerson (allow_independents allow_blank : bool)
| NParty (allow_coalitions allow_blank : bool).

Definition nominate (nm : nominator) (o : pyobj) : bool :=
  match o with
  | OCand k _ =>
      match nm with
      | NBasic ab => match k with KBlank => ab | _ => true end
      | NPerson ai ab =>
          match k with
          | KPerson hp => ai || hp
          | KBlank => ab
          | _ => false          (* str, parties: not an IndividualElectionOption *)
          end
      | NParty ac ab =>
          match k with
          | KBlank => ab
          | KParty => true
          | KCoalition => ac
          | _ => false
          end
      end
  | _ => false
  end.

(* ---- VoteMagnitudeChecker *)
Definition bounds := (option Q * option Q)%type.
Definition in_bounds (b : bounds) (x : Q) : bool :=
  (match fst b with None => true | Some lo => Qle_bool lo x end)
  && (match snd b with None => true | Some hi => Qle_bool x hi end).
Definition active (b : bounds) : bool :=
  match b with (None, None) => false | _ => true end.
Definition qnat (n : nat) : Q := inject_Z (Z.of_nat n).

(* bounds per key with a default (collections.defaultdict) *)
Definition keyed_bounds := (list (Z * bounds) * bounds)%type.
Definition kb_get (kb : keyed_bounds) (k : Z) : bounds :=
  match find (fun e => Z.eqb (fst e) k) (fst kb) with Some e => snd e | None => snd kb end.

(* sequencing of checks: the first failing check decides the error *)
Definition andthen (a b : vresult) : vresult := match a with VOk => b | e => e end.
Definition check (ok : bool) (e : vresult) : vresult := if ok then VOk else e.
Fixpoint all_checks {X} (f : X -> vresult) (l : list X) : vresult :=
  match l with
  | [] => VOk
  | x :: t => andthen (f x) (all_checks f t)
  end.

(* ---- SimpleVoteValidator *)
Definition validate_simple (nm : nominator) (v : pyobj) : vresult :=
  check (nominate nm v) VCandError.

(* ---- ApprovalVoteValidator *)
Definition validate_approval (nm : nominator) (cnt : bounds) (v : pyobj) : vresult :=
  match v with
  | OFrozen l =>
      andthen (all_checks (fun o => check (nominate nm o) VCandError) l)
              (check (in_bounds cnt (qnat (length l))) VVoteError)
  | _ => VVoteError
  end.

(* ---- RankedVoteValidator *)
Definition add_set (o : pyobj) (s : list pyobj) : list pyobj :=
  if existsb (obj_eqb o) s then s else s ++ [o].

Fixpoint ranked_scan (ranks : keyed_bounds) (rank_i : Z) (items : list pyobj)
         (total : nat) (cands : list pyobj) : vresult * nat * list pyobj :=
  match items with
  | [] => (VOk, total, cands)
  | OFrozen l :: t =>
      if in_bounds (kb_get ranks (rank_i + 1)) (qnat (length l))
      then ranked_scan ranks (rank_i + 1) t (total + length l) (fold_left (fun s o => add_set o s) l cands)
      else (VVoteError, total, cands)
  | o :: t =>
      if hashable o then ranked_scan ranks (rank_i + 1) t (total + 1) (add_set o cands)
      else (VCrash, total, cands)                (* set.add(list) / set.add((.., [..])): TypeError: unhashable *)
  end.

Definition validate_ranked (nm : nominator) (total_b : bounds) (ranks : keyed_bounds) (v : pyobj) : vresult :=
  match v with
  | OTuple items =>
      match ranked_scan ranks 0 items 0 [] with
      | (VOk, total, cands) =>
          andthen (check (in_bounds total_b (qnat total)) VVoteError)
         (andthen (check (negb (Nat.ltb (length cands) total)) VVoteError)
                  (all_checks (fun o => check (nominate nm o) VCandError) cands))
      | (e, _, _) => e
      end
  | _ => VVoteError
  end.

(* ---- ScoreVoteValidator and its two subclasses *)
Definition num_of (o : pyobj) : option Q := match o with ONum n d => Some (n # d)%Q | _ => None end.

Inductive score_rule := SEnum (levels : list pyobj) | SRange (b : bounds).

Definition score_item_check (nm : nominator) (o : pyobj) : vresult :=
  match o with
  | OTuple [c; _] => check (nominate nm c) VCandError
  | OTuple _ => VVoteError          (* scoring pair length *)
  | _ => VVoteError                 (* VoteTypeError *)
  end.

Definition score_of (o : pyobj) : pyobj := match o with OTuple [_; s] => s | _ => ONone end.
Definition scored_cand (o : pyobj) : pyobj := match o with OTuple [c; _] => c | _ => ONone end.

Fixpoint sum_scores (l : list pyobj) : option Q :=
  match l with
  | [] => Some 0%Q
  | o :: t => match num_of (score_of o), sum_scores t with
              | Some x, Some s => Some (x + s)%Q
              | _, _ => None
              end
  end.

Definition nodup_objs (l : list pyobj) : bool :=
  Nat.eqb (length (fold_left (fun s o => add_set o s) l [])) (length l).

Definition validate_score (nm : nominator) (nsc : bounds) (sums : keyed_bounds) (rule : score_rule)
           (v : pyobj) : vresult :=
  match v with
  | OFrozen l =>
      andthen (check (in_bounds nsc (qnat (length l))) VVoteError)
     (andthen (all_checks (score_item_check nm) l)
     (andthen (check (nodup_objs (map scored_cand l)) VVoteError)     (* duplicated candidates *)
     (andthen (let sb := kb_get sums (Z.of_nat (length l)) in
               if active sb then
                 match sum_scores l with
                 | Some s => check (in_bounds sb s) VVoteError
                 | None => VCrash                       (* sum() over non-numeric scores: TypeError *)
                 end
               else VOk)
              (match rule with
               | SEnum levels => all_checks (fun o => check (existsb (obj_eqb (score_of o)) levels) VVoteError) l
               | SRange b =>
                   all_checks (fun o => match num_of (score_of o) with
                                        | Some x => check (in_bounds b x) VVoteError
                                        | None => if active b then VCrash else VOk
                                        end) l
               end))))
  | _ => VVoteError
  end.

(* ---- InvalidVoteEliminator: VoteError ballots are dropped, CandidateError propagates *)
Inductive elim_result := EOk (kept : list (pyobj * Z)) | ECandError | ECrash.
Fixpoint eliminate (validate : pyobj -> vresult) (votes : list (pyobj * Z)) : elim_result :=
  match votes with
  | [] => EOk []
  | (b, n) :: t =>
      match validate b with
      | VCandError => ECandError
      | VCrash => ECrash
      | r => match eliminate validate t with
             | EOk kept => EOk (match r with VOk => (b, n) :: kept | _ => kept end)
             | e => e
             end
      end
  end.
