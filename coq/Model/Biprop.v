(* Models for property C07 - votelib.evaluate.proportional.BiproportionalEvaluator
   (proportional.py L482-875).  Executable definitions only.

   1. matrices (district -> party -> value) as insertion-ordered association lists
   2. the divisor-rule rounding of a quotient and the certificate checker [cert_ok]
      (a result together with district / party multipliers)
   3. the two marginals (highest averages of the party / district totals: Model/HighestAverages.v)
   4. models of the state updates of tie-and-transfer:
        [augment]   = _augment_result   L657-667 (the path itself comes from set.pop(): an oracle)
        [adj_coef]  = _adj_coef         L669-708
        [calc_quots]= _calc_quots       L775-789
        [scale_coefs] = the multiplier update L629-632
   5. [feasible_ref]: augmenting-path reference deciding whether an integer matrix with given
      marginals and support exists; its answers are certificates checked by [matrix_ok] / [cut_ok]. *)
From Coq Require Import ZArith QArith List Bool.
From VL Require Import Prelude.PyDict Model.Divisor Model.HighestAverages.
Import ListNotations.
Open Scope Z_scope.

(* ------------------------------------------------------------------ matrices *)
Definition mat := list (C * list (C * Z)).
Definition qmat := list (C * list (C * Q)).

Definition mget (m : mat) (i j : C) : Z :=
  match dget m i with Some r => dget_or r j 0 | None => 0 end.
Definition rowsum (m : mat) (ps : list C) (i : C) : Z := zsum (map (fun j => mget m i j) ps).
Definition colsum (m : mat) (ds : list C) (j : C) : Z := zsum (map (fun i => mget m i j) ds).

Definition add_new (l : list C) (k : C) : list C := if cmem k l then l else l ++ [k].
Definition districts (votes : mat) : list C := map fst votes.
(* first-occurrence order = key order of convert.VoteTotals *)
Definition parties (votes : mat) : list C :=
  fold_left (fun acc row => fold_left (fun acc kv => add_new acc (fst kv)) (snd row) acc) votes [].

Definition mul (m : list (C * Q)) (k : C) : Q := dget_or m k 0%Q.
Definition quot (v : Z) (rho gamma : Q) : Q := (inject_Z v * rho * gamma)%Q.
Definition Qpos_b (x : Q) : bool := negb (Qle_bool x 0).

(* ------------------------------------------------------------------ rounding, certificate *)
Section Cert.
  (* d k = the divisor at which seat k+1 is earned (d_hondt k = k+1, sainte_lague k = 2k+1):
     x rounds to s seats when d (s-1) <= x <= d s (no lower bound for s = 0); on a signpost both
     neighbours are roundings *)
  Variable d : Z -> Q.

  Definition rounds_b (x : Q) (s : Z) : bool :=
    (0 <=? s) && Qle_bool x (d s) && ((s =? 0) || Qle_bool (d (s - 1)) x).

  Definition cell_ok (v : Z) (rho gamma : Q) (s : Z) : bool :=
    (if v =? 0 then s =? 0 else true) && rounds_b (quot v rho gamma) s.

  Variables ds ps : list C.
  Variable votes : mat.
  Variables dseats pseats : list (C * Z).

  Definition rows_ok (res : mat) : bool :=
    forallb (fun i => rowsum res ps i =? dget_or dseats i 0) ds.
  Definition cols_ok (res : mat) : bool :=
    forallb (fun j => colsum res ds j =? dget_or pseats j 0) ps.
  (* every stored cell of the result: non-negative, and empty where there are no votes
     (cells that are not stored read as 0) *)
  Definition entries_ok (res : mat) : bool :=
    forallb (fun row => forallb (fun kv =>
       let s := mget res (fst row) (fst kv) in
       (0 <=? s) && ((s =? 0) || negb (mget votes (fst row) (fst kv) =? 0))) (snd row)) res.
  Definition pos_ok (rho gamma : list (C * Q)) : bool :=
    forallb (fun i => Qpos_b (mul rho i)) ds && forallb (fun j => Qpos_b (mul gamma j)) ps.
  Definition cells_ok (res : mat) (rho gamma : list (C * Q)) : bool :=
    forallb (fun i => forallb (fun j =>
       cell_ok (mget votes i j) (mul rho i) (mul gamma j) (mget res i j)) ps) ds.

  Definition cert_ok (res : mat) (rho gamma : list (C * Q)) : bool :=
    rows_ok res && cols_ok res && entries_ok res && pos_ok rho gamma && cells_ok res rho gamma.

  (* the state invariant of tie-and-transfer (anchors: "party marginals invariant from the initial
     solution on", "every cell must stay between its signposts"): everything but the district totals *)
  Definition inv_ok (res : mat) (rho gamma : list (C * Q)) : bool :=
    cols_ok res && entries_ok res && pos_ok rho gamma && cells_ok res rho gamma.
End Cert.

(* ------------------------------------------------------------------ marginals *)
Definition party_totals (votes : mat) : list (C * Q) :=
  map (fun j => (j, inject_Z (colsum votes (districts votes) j))) (parties votes).
Definition district_totals (votes : mat) : list (C * Q) :=
  map (fun i => (i, inject_Z (rowsum votes (parties votes) i))) (districts votes).
(* a tie-free highest-averages apportionment, else None (tie, or nobody eligible) *)
Definition ha_marginal (d : Z -> Q) (tv : list (C * Q)) (n : Z) : option (list (C * Z)) :=
  match HighestAverages.evaluate d tv n [] [] with
  | HA_ok gains None => Some gains
  | _ => None
  end.

(* ------------------------------------------------------------------ _augment_result *)
Fixpoint dremove {X} (l : list (C * X)) (k : C) : list (C * X) :=
  match l with
  | [] => []
  | (k', v) :: t => if ceqb k k' then dremove t k else (k', v) :: dremove t k
  end.

(* if party not in result[district]: result[district][party] = 0 ; result[district][party] += 1
   (None = KeyError: result[district] missing) *)
Definition cell_incr (m : mat) (i j : C) : option mat :=
  match dget m i with
  | None => None
  | Some row => Some (dset m i (dset row j (dget_or row j 0 + 1)))
  end.
(* result[district][party] -= 1 ; if not result[district][party]: del result[district][party] *)
Definition cell_decr (m : mat) (i j : C) : option mat :=
  match dget m i with
  | None => None
  | Some row =>
      match dget row j with
      | None => None
      | Some s => Some (dset m i (if s - 1 =? 0 then dremove row j else dset row j (s - 1)))
      end
  end.

(* aug_path = [start; p1; d1; p2; d2; ...]: hops = [(p1,d1); (p2,d2); ...];
   even steps add a seat in (current district, p), odd steps remove one in (d', p) *)
Fixpoint augment (m : mat) (cur : C) (hops : list (C * C)) : option mat :=
  match hops with
  | [] => Some m
  | (p, d') :: t =>
      match cell_incr m cur p with
      | None => None
      | Some m1 =>
          match cell_decr m1 d' p with
          | None => None
          | Some m2 => augment m2 d' t
          end
      end
  end.
Definition path_end (start : C) (hops : list (C * C)) : C := last (map snd hops) start.

(* ------------------------------------------------------------------ _calc_quots, _adj_coef, update *)
Definition calc_quots (votes : mat) (rho gamma : list (C * Q)) : qmat :=
  map (fun row => (fst row, map (fun kv => (fst kv, quot (snd kv) (mul rho (fst row)) (mul gamma (fst kv)))) (snd row))) votes.

Definition cells_of (quots : qmat) : list (C * C * Q) :=
  flat_map (fun row => map (fun kv => (fst row, fst kv, snd kv)) (snd row)) quots.

Inductive adj_result := Adj (a : Q) | AdjZeroDivision.

Section Adj.
  Variable q : Q.                       (* signpost_q: 0 for D'Hondt, 1/2 for Sainte-Lague *)
  Definition signpost (s : Z) : Q := (inject_Z s - q)%Q.      (* pd_signpost *)

  Record scan := mk_scan { sc_alpha : Q; sc_beta : option Q; sc_zerodiv : bool }.

  (* the body of the two nested loops of _adj_coef for one (district, party, quotient) cell;
     the nested for-loops are a single fold over the flattened cell list *)
  Definition scan_cell (res : mat) (DL PL : list C) (st : scan) (cell : C * C * Q) : scan :=
    let '(i, j, x) := cell in
    let dl := cmem i DL in
    let pl := cmem j PL in
    if sc_zerodiv st then st else
    if negb (eqb dl pl) then
      let s := mget res i j in
      let sg := signpost s in
      if dl && negb pl && Qpos_b sg then
        if Qeq_bool x 0 then mk_scan (sc_alpha st) (sc_beta st) true
        else let a := (sg / x)%Q in
             if Qpos_b (a - sc_alpha st) then mk_scan a (sc_beta st) false else st
      else if negb dl && pl && Qpos_b x then
        let b := ((sg + 1) / x)%Q in
        match sc_beta st with
        | None => mk_scan (sc_alpha st) (Some b) false
        | Some b0 => if Qpos_b (b0 - b) then mk_scan (sc_alpha st) (Some b) false else st
        end
      else st
    else st.

  Definition adj_coef (quots : qmat) (res : mat) (DL PL : list C) : adj_result :=
    let st := fold_left (scan_cell res DL PL) (cells_of quots) (mk_scan 0 None false) in
    if sc_zerodiv st then AdjZeroDivision else
    match sc_beta st with
    | None => Adj (if Qle_bool 0 (sc_alpha st) then sc_alpha st else 0)      (* 1 / inf = 0.0 *)
    | Some b => Adj (if Qle_bool (1 / b) (sc_alpha st) then sc_alpha st else (1 / b)%Q)
    end.

  (* district_coefs[d] *= a for labelled districts ; party_coefs[p] /= a for labelled parties *)
  Definition scale_rho (DL : list C) (a : Q) (rho : list (C * Q)) : list (C * Q) :=
    map (fun kv => (fst kv, if cmem (fst kv) DL then (snd kv * a)%Q else snd kv)) rho.
  Definition scale_gamma (PL : list C) (a : Q) (gamma : list (C * Q)) : list (C * Q) :=
    map (fun kv => (fst kv, if cmem (fst kv) PL then (snd kv / a)%Q else snd kv)) gamma.

  (* the cell invariant in the implementation's own units: signpost s <= x <= signpost s + 1 *)
  Definition within_b (x : Q) (s : Z) : bool :=
    Qle_bool 0 x && Qle_bool (signpost s) x && Qle_bool x (signpost s + 1).
End Adj.

(* ------------------------------------------------------------------ feasibility reference *)
(* Is there a non-negative integer matrix over ds x ps with row sums r, column sums c and zeros
   outside the support?  Unit augmenting paths on explicit fuel; the answer is a certificate. *)
Section Flow.
  Variables ds ps : list C.
  Variable sup : C -> C -> bool.
  Variables r c : C -> Z.

  Definition madd (m : mat) (i j : C) (delta : Z) : mat :=
    let row := match dget m i with Some row => row | None => [] end in
    dset m i (dset row j (dget_or row j 0 + delta)).

  Definition matrix_ok (m : mat) : bool :=
    forallb (fun i => rowsum m ps i =? r i) ds &&
    forallb (fun j => colsum m ds j =? c j) ps &&
    forallb (fun i => forallb (fun j => (0 <=? mget m i j) && (sup i j || (mget m i j =? 0))) ps) ds.

  (* Hall-type cut: the districts S need more seats than the parties they can reach hold
     (or the two totals differ) *)
  Definition reach (S : list C) : list C := filter (fun j => existsb (fun i => cmem i S && sup i j) ds) ps.
  Definition cut_ok (S : list C) : bool :=
    negb (zsum (map r ds) =? zsum (map c ps)) ||
    (zsum (map c (reach S)) <? zsum (map r (filter (fun i => cmem i S) ds))).

  (* labelling: rows reached from deficit rows (predecessor None = a deficit row itself),
     columns reached from labelled rows *)
  Definition rlab := list (C * option C).
  Definition clab := list (C * C).

  (* one sweep: label columns from labelled rows along the support, rows from labelled columns
     along positive cells *)
  Definition sweep (m : mat) (st : rlab * clab) : rlab * clab :=
    let '(lr, lc) := st in
    let lc' := fold_left (fun acc ip =>
                 fold_left (fun acc j => if dmem acc j || negb (sup (fst ip) j) then acc
                                         else acc ++ [(j, fst ip)]) ps acc) lr lc in
    let lr' := fold_left (fun acc jp =>
                 fold_left (fun acc i => if dmem acc i || negb (0 <? mget m i (fst jp)) then acc
                                         else acc ++ [(i, Some (fst jp))]) ds acc) lc' lr in
    (lr', lc').
  Fixpoint sweeps (n : nat) (m : mat) (st : rlab * clab) : rlab * clab :=
    match n with O => st | S n' => sweeps n' m (sweep m st) end.

  (* walk back from a column with spare demand to a deficit row *)
  Fixpoint push_back (fuel : nat) (m : mat) (lr : rlab) (lc : clab) (j : C) : option mat :=
    match fuel with
    | O => None
    | S f =>
        match dget lc j with
        | None => None
        | Some i =>
            let m1 := madd m i j 1 in
            match dget lr i with
            | None => None
            | Some None => Some m1
            | Some (Some j') => push_back f (madd m1 i j' (-1)) lr lc j'
            end
        end
    end.

  Inductive feas := FeasMatrix (m : mat) | FeasCut (S : list C) | FeasUnknown.

  Fixpoint flow_loop (fuel : nat) (m : mat) : feas :=
    match fuel with
    | O => FeasUnknown
    | S f =>
        let deficit := filter (fun i => rowsum m ps i <? r i) ds in
        match deficit with
        | [] => if matrix_ok m then FeasMatrix m else FeasUnknown
        | _ =>
            let lr0 := map (fun i => (i, @None C)) deficit in
            let '(lr, lc) := sweeps (length ds + length ps + 1) m (lr0, []) in
            match filter (fun jp => colsum m ds (fst jp) <? c (fst jp)) lc with
            | [] => if cut_ok (map fst lr) then FeasCut (map fst lr) else FeasUnknown
            | (j, _) :: _ =>
                match push_back (length ds + length ps + 2) m lr lc j with
                | Some m' => flow_loop f m'
                | None => FeasUnknown
                end
            end
        end
    end.

  Definition feasible_ref : feas :=
    if negb (zsum (map r ds) =? zsum (map c ps)) then
      (if cut_ok [] then FeasCut [] else FeasUnknown)
    else flow_loop (Z.to_nat (zsum (map (fun i => Z.max 0 (r i)) ds)) + 1) [].
End Flow.
