(* Wire-level wrappers of the C03 extension units (block 300..309 of Dispatch.v):
   k = 0   stv_hare : the transferable-vote count with the Hare transferer, the random draws given as an oracle
           args: ((quota|()) accept_equal mandatory step) votes n prev caps oracle
           answer: (init counts seats stop left), every allocation with its piles in dict order *)
From Coq Require Import ZArith QArith List Bool.
From VL Require Import Prelude.Sx Prelude.PyDict Model.Quota Model.Convert Model.Units Model.STV Model.STVHare.
Import ListNotations.
Open Scope Z_scope.

Definition of_item (i : item) : sx := match i with IP c => of_pos c | IS l => L (map of_pos l) end.
Definition of_ballot (b : ballot) : sx := L (map of_item b).
Definition of_pile (p : pile) : sx := L (map (fun bw => L [of_ballot (fst bw); of_Q (snd bw)]) p).
Definition of_alloc (a : alloc) : sx := L (map (fun kp => L [of_okey (fst kp); of_pile (snd kp)]) a).
Definition of_hstop (s : option hstop) : sx :=
  match s with
  | None => A 0
  | Some (HS_std s) => of_stop (Some s)
  | Some HS_oracle => A 30
  | Some HS_type => A E_TYPE
  | Some HS_value => A E_VALUE
  | Some HS_key => A E_KEY
  | Some HS_unmodelled => A 31
  end.

Definition u_stv_hare (a : sx) : sx :=
  match a with
  | L [L [qs; ae; ma; A st]; v; A n; p; c; o] =>
      let quota := match qs with
                   | L [] => Some None
                   | L [q] => match as_quota q with Some q => Some (Some (quota_fn q)) | None => None end
                   | _ => None end in
      match quota, as_bool ae, as_bool ma, as_rprofile v, as_dict as_pos as_Z p, as_dict as_pos as_Z c,
            as_listof (as_listof as_Z) o with
      | Some quota, Some ae, Some ma, Some votes, Some prev, Some caps, Some orc =>
          let t := stv_h (Build_cfg quota ae ma st) votes n prev caps orc in
          ok (L [match h_init t with Some a0 => L [of_alloc a0] | None => L [] end;
                 L (map (fun ce => L [of_alloc (fst ce); of_dict of_pos A (snd ce)]) (h_counts t));
                 of_dict of_pos A (h_seats t); of_hstop (h_stop t); of_nat (h_left t)])
      | _, _, _, _, _, _, _ => bad_input
      end
  | _ => bad_input
  end.

Definition u_c03 (k : Z) (a : sx) : sx :=
  match k with
  | 0 => u_stv_hare a
  | _ => bad_input
  end.
