(* Model of votelib.evaluate.core.Conditioned (core.py L810-905) at depth 1 over simple votes, with a seatless threshold
   selector of Model/Threshold.v as the eliminator and HighestAverages.evaluate as the main evaluator:
   not_eliminated = eliminator.evaluate(votes); elim_votes = SubsettedVotes().convert(votes, not_eliminated) - the parties
   the eliminator returned, in the order of the votes dictionary -; evaluator.evaluate(elim_votes, n_seats, prev_gains=..).
   The threshold selectors take no previous gains.  Executable definitions only. *)
From Coq Require Import ZArith QArith List Bool.
From VL Require Import Prelude.PyDict Model.GetNBest Model.HighestAverages Model.Threshold.
Import ListNotations.

Definition keep_selected (passed : list C) (votes : list (C * Q)) : list (C * Q) :=
  filter (fun cv => cmem (fst cv) passed) votes.

Definition conditioned_ha (s : sel) (d : Z -> Q) (votes : list (C * Q)) (n : Z) (prev caps : list (C * Z)) : ha_result :=
  evaluate d (keep_selected (sel_eval s votes) votes) n prev caps.
