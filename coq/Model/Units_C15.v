(* Wire-level wrappers of property C15 added in wave 4 (Model/OverhangByC.v): LevelOverhangByConstituency.calculate,
   AdjustedSeatCount around it with ByParty (DE shape), ByConstituency.evaluate.  Dispatch.v routes the block of unit
   numbers 250..259 here; [k] is the offset inside the block. *)
From Coq Require Import ZArith QArith List Bool.
From VL Require Import Prelude.Sx Prelude.PyDict Model.Units Model.HighestAverages Model.OverhangByC.
Import ListNotations.
Open Scope Z_scope.

Definition E_STOP : Z := 13.      (* StopIteration (harness/common.py) *)

(* (0 ((cty seats) ...)) dictionary | (1) the inner evaluator *)
Definition as_apportioner (s : sx) : option apportioner :=
  match s with
  | L [A 0; d] => option_map App_dict (as_dict as_pos as_Z d)
  | L [A 1] => Some App_eval
  | _ => None
  end.
(* (0 divisor) overall evaluator given | (1) None *)
Definition as_overall (s : sx) : option overall :=
  match s with
  | L [A 0; dv] => option_map Ov_given (as_divisor dv)
  | L [A 1] => Some Ov_default
  | _ => None
  end.
Definition as_cvotes (s : sx) : option (list (Cty * list (C * Q))) := as_dict as_pos (as_dict as_pos as_Q) s.
Definition as_cprev (s : sx) : option (list (Cty * list (pk * Z))) :=
  as_dict as_pos (as_dict (fun x => option_map PK (as_pos x)) as_Z) s.

Definition of_pk (k : pk) : sx := match k with PK c => of_pos c | PT l => L (map of_pos l) end.
Definition of_bc (r : bc_result) : sx :=
  match r with
  | BC_ok adj => ok (A adj)
  | BC_value_error => err E_VALUE
  | BC_stop_iteration => err E_STOP
  | BC_fuel => err E_FUEL
  end.
Definition of_bp (r : bp_result) : sx :=
  match r with
  | BP_ok l => L [A 0; L (map (fun x => L [of_pos (fst (fst x)); of_pos (snd (fst x)); A (snd x)]) l)]
  | BP_tie => L [A 1]
  | BP_value_error => L [A 2]
  end.

Definition u_c15 (k : Z) (a : sx) : sx :=
  match k with
  | 0 => (* (dc app ov fuel votes n prev) -> adjustment *)
      match a with
      | L [dc; ap; ov; f; v; A n; p] =>
          match as_divisor dc, as_apportioner ap, as_overall ov, as_nat f, as_cvotes v, as_cprev p with
          | Some dc, Some ap, Some ov, Some f, Some v, Some p => of_bc (lobc_calculate dc ap ov f v n p)
          | _, _, _, _, _, _ => bad_input
          end
      | _ => bad_input
      end
  | 1 => (* (dc app ov dn da fuel votes n prev) -> (adjustment, gains of ByParty at the adjusted house) *)
      match a with
      | L [dc; ap; ov; dn; da; f; v; A n; p] =>
          match as_divisor dc, as_apportioner ap, as_overall ov, as_divisor dn, as_divisor da,
                as_nat f, as_cvotes v, as_cprev p with
          | Some dc, Some ap, Some ov, Some dn, Some da, Some f, Some v, Some p =>
              match adjusted_byc dc ap ov dn da f v n p with
              | ASC adj fin => ok (L [A adj; of_bp fin])
              | ASC_calc r => of_bc r
              end
          | _, _, _, _, _, _, _, _ => bad_input
          end
      | _ => bad_input
      end
  | 2 => (* (dc app votes n) -> ByConstituency(HighestAverages(dc), apportioner).evaluate(votes, n) *)
      match a with
      | L [dc; ap; v; A n] =>
          match as_divisor dc, as_apportioner ap, as_cvotes v with
          | Some dc, Some ap, Some v =>
              match constituency_evaluator pk_eqb (ha_eval dc) PK ap v n with
              | Ok res => ok (of_dict of_pos (of_dict of_pk A) res)
              | ValueErr => err E_VALUE
              | StopIter => err E_STOP
              end
          | _, _, _ => bad_input
          end
      | _ => bad_input
      end
  | _ => bad_input
  end.
