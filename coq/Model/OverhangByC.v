(* Model of votelib/evaluate/core.py LevelOverhangByConstituency.calculate (with the repairs 7a76c1b, d14cd5d)
   and of what it calls:
     - ByConstituency.evaluate (apportioner = a dictionary, or a distribution evaluator; no preselector),
     - convert.VoteTotals / convert.MergedDistributions (util.add_dict_to_dict),
     - the overall evaluator: the one given, applied to the national vote totals, or (overall_evaluator = None)
       PostConverted(constituency_evaluator, MergedDistributions()) applied to the constituency votes,
   and of AdjustedSeatCount.evaluate around it with ByParty as the distributing evaluator (DE shape).

   Result dictionaries of an inner evaluator are keyed by a party OR by a Tie (a frozenset of parties, the
   seats nobody could be given): the code treats a Tie object like one more party, and so does the model.
   Everything that does not look inside a key is generic in the key type [K] with a boolean equality [keqb]
   (Python: hash + __eq__; for Tie: frozenset equality).

   max_seats is not modelled (the calls pass {}).  Python exceptions are result constructors; the levelling
   loop is fuelled with the distinguished result [BC_fuel]. *)
From Coq Require Import ZArith QArith List Bool.
From VL Require Import Prelude.PyDict Model.HighestAverages.
Import ListNotations.
Open Scope Z_scope.

Definition Cty := positive.

(* ValueError: highest averages with nobody eligible (unpacking the zip of an empty list);
   StopIteration: ByConstituency with no constituency evaluated (next(iter({}.values()))) *)
Inductive eres (X : Type) : Type :=
| Ok (x : X)
| ValueErr
| StopIter.
Arguments Ok {X} x.
Arguments ValueErr {X}.
Arguments StopIter {X}.

Definition ebind {X Y} (r : eres X) (f : X -> eres Y) : eres Y :=
  match r with Ok x => f x | ValueErr => ValueErr | StopIter => StopIter end.

Inductive bc_result :=
| BC_ok (adj : Z)
| BC_value_error
| BC_stop_iteration
| BC_fuel.                     (* model only: the loop did not end within the fuel *)

(* the apportioner of ByConstituency: a dictionary constituency -> seats, or the inner evaluator itself *)
Inductive apportioner := App_dict (a : list (Cty * Z)) | App_eval.

(* ------------------------------------------------------------------ dictionaries keyed by K, values Z *)
Section KD.
  Context {K : Type}.
  Variable keqb : K -> K -> bool.

  Fixpoint kget (d : list (K * Z)) (k : K) : option Z :=
    match d with
    | [] => None
    | (k', v) :: t => if keqb k k' then Some v else kget t k
    end.
  Definition kget0 (d : list (K * Z)) (k : K) : Z := match kget d k with Some v => v | None => 0 end.
  Definition kmem (d : list (K * Z)) (k : K) : bool := match kget d k with Some _ => true | None => false end.

  (* d[k] = d.get(k, 0) + x   (an equal key keeps the key object already stored) *)
  Fixpoint kadd (d : list (K * Z)) (k : K) (x : Z) : list (K * Z) :=
    match d with
    | [] => [(k, x)]
    | (k', v) :: t => if keqb k k' then (k', v + x) :: t else (k', v) :: kadd t k x
    end.
  (* util.add_dict_to_dict *)
  Definition kadd_dict (d1 d2 : list (K * Z)) : list (K * Z) :=
    fold_left (fun d kv => kadd d (fst kv) (snd kv)) d2 d1.
  (* VoteTotals().convert / MergedDistributions().convert over the values of a dictionary *)
  Definition ktotals (ds : list (list (K * Z))) : list (K * Z) := fold_left kadd_dict ds [].

  (* ---------------------------------------------------------------- LevelOverhangByConstituency.calculate *)
  Definition nested := list (Cty * list (K * Z)).

  (* {cty: {party: max(prev_gains.get(cty, {}).get(party, 0), prop_seats) ...} ...} *)
  Definition cty_minima (res prev : nested) : nested :=
    map (fun cr => (fst cr, map (fun ps => (fst ps, Z.max (kget0 (dget_or prev (fst cr) []) (fst ps)) (snd ps)))
                                (snd cr))) res.
  Definition lowest0 (res prev : nested) : list (K * Z) := ktotals (map snd (cty_minima res prev)).
  (* repair d14cd5d: first round seats of a second round party where it gets no proportional seat *)
  Definition add_unlisted (res prev : nested) (low : list (K * Z)) : list (K * Z) :=
    fold_left (fun low cg =>
      let r := dget_or res (fst cg) [] in
      fold_left (fun low pg => if kmem low (fst pg) && negb (kmem r (fst pg))
                               then kadd low (fst pg) (snd pg) else low) (snd cg) low) prev low.
  Definition lowest_allowed (res prev : nested) : list (K * Z) := add_unlisted res prev (lowest0 res prev).
  Definition nonprop_drop (low : list (K * Z)) (prev : nested) : Z :=
    fold_left (fun d cg => fold_left (fun d pg => if kmem low (fst pg) then d else d + snd pg) (snd cg) d) prev 0.

  (* not any(prop_result.get(party, 0) < minimum for party, minimum in lowest_allowed.items()) *)
  Definition ksatisfied (low pr : list (K * Z)) : bool :=
    forallb (fun pm => negb (kget0 pr (fst pm) <? snd pm)) low.

  Section CALC.
    (* overall_evaluator.evaluate(party_votes, h, max_seats={}) as a function of the house size *)
    Variable OE : Z -> eres (list (K * Z)).

    (* the while loop; h = adj_count, pr = prop_result *)
    Fixpoint bc_loop (fuel : nat) (low : list (K * Z)) (h : Z) (pr : list (K * Z)) : bc_result :=
      if ksatisfied low pr then BC_ok h else
      match fuel with
      | O => BC_fuel
      | S f => match OE (h + 1) with
               | Ok pr' => bc_loop f low (h + 1) pr'
               | ValueErr => BC_value_error
               | StopIter => BC_stop_iteration
               end
      end.

    (* CEn = constituency_evaluator.evaluate(votes, n_seats, max_seats={}) *)
    Definition bc_calculate (CEn : eres nested) (fuel : nat) (n : Z) (prev : nested) : bc_result :=
      match CEn with
      | ValueErr => BC_value_error
      | StopIter => BC_stop_iteration
      | Ok res =>
          let low := lowest_allowed res prev in
          let drop := nonprop_drop low prev in
          match OE (n - drop) with
          | ValueErr => BC_value_error
          | StopIter => BC_stop_iteration
          | Ok pr =>
              match bc_loop fuel low (n - drop) pr with
              | BC_ok h => BC_ok (h + drop - n)
              | r => r
              end
          end
      end.
  End CALC.

  (* ---------------------------------------------------------------- ByConstituency.evaluate *)
  Section BYC.
    (* the inner evaluator: votes of one constituency, seats -> result *)
    Variable E : list (C * Q) -> Z -> eres (list (K * Z)).

    (* the loop over votes.items(): Some r = evaluated, None = no seat here (filled in at the end) *)
    Fixpoint byc_districts (ap : Cty -> Z) (votes : list (Cty * list (C * Q)))
      : eres (list (Cty * option (list (K * Z)))) :=
      match votes with
      | [] => Ok []
      | (c, dv) :: t =>
          if ap c =? 0 then ebind (byc_districts ap t) (fun l => Ok ((c, None) :: l))
          else ebind (E dv (ap c)) (fun r => ebind (byc_districts ap t) (fun l => Ok ((c, Some r) :: l)))
      end.

    Definition byc_assemble (l : list (Cty * option (list (K * Z)))) : eres nested :=
      let results := flat_map (fun cr => match snd cr with Some r => [(fst cr, r)] | None => [] end) l in
      let novalue := flat_map (fun cr => match snd cr with Some _ => [] | None => [(fst cr, @nil (K * Z))] end) l in
      match results with
      | [] => StopIter                      (* type(next(iter(results.values()))) *)
      | _ => Ok (results ++ novalue)
      end.

    Definition by_constituency (ap : Cty -> Z) (votes : list (Cty * list (C * Q))) : eres nested :=
      ebind (byc_districts ap votes) byc_assemble.

    (* core.apportion: a dictionary (n_seats ignored) or a distribution evaluator on the constituency totals *)
    Variable kof : C -> K.                (* a plain candidate / constituency as a result key *)

    Definition cty_totals (votes : list (Cty * list (C * Q))) : list (C * Q) :=
      map (fun cv => (fst cv, fold_left Qplus (map snd (snd cv)) 0%Q)) votes.

    Definition apportion (a : apportioner) (votes : list (Cty * list (C * Q))) (n : Z) : eres (Cty -> Z) :=
      match a with
      | App_dict d => Ok (fun c => dget_or d c 0)
      | App_eval => ebind (E (cty_totals votes) n) (fun r => Ok (fun c => kget0 r (kof c)))
      end.

    Definition constituency_evaluator (a : apportioner) (votes : list (Cty * list (C * Q))) (n : Z) : eres nested :=
      ebind (apportion a votes n) (fun ap => by_constituency ap votes).
  End BYC.
End KD.

(* national vote totals: VoteTotals().convert(votes), values rational *)
Fixpoint qadd (d : list (C * Q)) (k : C) (x : Q) : list (C * Q) :=
  match d with
  | [] => [(k, x)]
  | (k', v) :: t => if ceqb k k' then (k', (v + x)%Q) :: t else (k', v) :: qadd t k x
  end.
Definition qtotals (votes : list (Cty * list (C * Q))) : list (C * Q) :=
  fold_left (fun acc cv => fold_left (fun d kv => qadd d (fst kv) (snd kv)) (snd cv) acc) votes [].

(* ------------------------------------------------------------------ party-or-Tie keys *)
Inductive pk := PK (c : C) | PT (l : list C).
Definition subl (a b : list C) : bool := forallb (fun x => cmem x b) a.
Definition pk_eqb (a b : pk) : bool :=
  match a, b with
  | PK x, PK y => ceqb x y
  | PT l, PT m => subl l m && subl m l          (* frozenset equality *)
  | _, _ => false
  end.

(* HighestAverages(divisor).evaluate(votes, n) without previous gains, as an inner evaluator:
   the Tie key (if any) is the last one inserted into the totals *)
Definition ha_eval (d : Z -> Q) (votes : list (C * Q)) (n : Z) : eres (list (pk * Z)) :=
  match HighestAverages.evaluate d votes n [] [] with
  | HA_ok gains tie =>
      Ok (map (fun cs => (PK (fst cs), snd cs)) gains
          ++ match tie with Some (l, k) => [(PT l, k)] | None => [] end)
  | HA_value_error => ValueErr
  end.

(* the two ways the calculator gets its overall evaluator *)
Inductive overall := Ov_given (d : Z -> Q) | Ov_default.

Definition lobc_overall (dc : Z -> Q) (a : apportioner) (o : overall) (votes : list (Cty * list (C * Q)))
  : Z -> eres (list (pk * Z)) :=
  match o with
  | Ov_given dn => ha_eval dn (qtotals votes)
  | Ov_default => fun h => ebind (constituency_evaluator pk_eqb (ha_eval dc) PK a votes h)
                                 (fun res => Ok (ktotals pk_eqb (map snd res)))
  end.

(* LevelOverhangByConstituency(ByConstituency(HighestAverages(dc), apportioner=a), overall).calculate(votes, n, prev) *)
Definition lobc_calculate (dc : Z -> Q) (a : apportioner) (o : overall) (fuel : nat)
           (votes : list (Cty * list (C * Q))) (n : Z) (prev : list (Cty * list (pk * Z))) : bc_result :=
  bc_calculate pk_eqb (lobc_overall dc a o votes)
               (constituency_evaluator pk_eqb (ha_eval dc) PK a votes n) fuel n prev.

(* ------------------------------------------------------------------ ByParty.evaluate, AdjustedSeatCount *)
(* ByParty(HighestAverages(dn), HighestAverages(da)).evaluate(votes, h, prev_gains=prev):
   the national result of every party is handed to the constituencies by the allocator, which starts from the
   party's first round seats there.  A Tie in the national result or in an allocation is reported as such
   and not followed further. *)
Inductive bp_result :=
| BP_ok (gains : list (Cty * C * Z))       (* (constituency, party, seats gained), in insertion order *)
| BP_tie
| BP_value_error.

Definition party_votes (votes : list (Cty * list (C * Q))) (p : C) : list (Cty * Q) :=
  map (fun cv => (fst cv, dget_or (snd cv) p 0%Q)) votes.
Definition party_prev (prev : list (Cty * list (pk * Z))) (p : C) : list (Cty * Z) :=
  flat_map (fun cg => match kget pk_eqb (snd cg) (PK p) with Some g => [(fst cg, g)] | None => [] end) prev.

Fixpoint bp_allocate (da : Z -> Q) (votes : list (Cty * list (C * Q))) (prev : list (Cty * list (pk * Z)))
         (overall : list (pk * Z)) : bp_result :=
  match overall with
  | [] => BP_ok []
  | (PT _, _) :: t =>
      (* the Tie "party" has no votes anywhere: its allocation does not raise; the result carries Tie keys *)
      match bp_allocate da votes prev t with BP_value_error => BP_value_error | _ => BP_tie end
  | (PK p, np) :: t =>
      match HighestAverages.evaluate da (party_votes votes p) np (party_prev prev p) [] with
      | HA_value_error => BP_value_error
      | HA_ok gains tie =>
          match bp_allocate da votes prev t with
          | BP_ok l => match tie with
                       | None => BP_ok (map (fun cs => (fst cs, p, snd cs)) gains ++ l)
                       | Some _ => BP_tie
                       end
          | r => r
          end
      end
  end.

Definition by_party (dn da : Z -> Q) (votes : list (Cty * list (C * Q))) (h : Z) (prev : list (Cty * list (pk * Z)))
  : bp_result :=
  match ha_eval dn (qtotals votes) h with
  | Ok overall => bp_allocate da votes prev overall
  | _ => BP_value_error
  end.

(* AdjustedSeatCount(calculator, ByParty(dn, da)).evaluate(votes, n, prev_gains=prev) *)
Inductive asc_result :=
| ASC (adj : Z) (final : bp_result)
| ASC_calc (r : bc_result).               (* the calculator did not answer with a number *)

Definition adjusted_byc (dc : Z -> Q) (a : apportioner) (o : overall) (dn da : Z -> Q) (fuel : nat)
           (votes : list (Cty * list (C * Q))) (n : Z) (prev : list (Cty * list (pk * Z))) : asc_result :=
  match lobc_calculate dc a o fuel votes n prev with
  | BC_ok adj => ASC adj (by_party dn da votes (n + adj) prev)
  | r => ASC_calc r
  end.
