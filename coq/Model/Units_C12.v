(* Wire-level wrappers of property C12 added after the first round (STAR): decode arguments from sx, run the
   model, encode.  Dispatch.v routes the block of unit numbers 190..199 here; [k] is the offset inside the block. *)
From Coq Require Import ZArith QArith List Bool.
From VL Require Import Prelude.Sx Prelude.PyDict Model.GetNBest Model.Quota Model.Units Model.Cardinal Model.Star Model.AllocScore.
Import ListNotations.
Open Scope Z_scope.

(* args: (votes n) *)
Definition u_star (a : sx) : sx :=
  match a with
  | L [v; n] => match as_zsprofile v, as_nat n with
                | Some v, Some n => of_sres (star_auto v n)
                | _, _ => bad_input end
  | _ => bad_input
  end.

(* allocated score.  args: (mode quota orders votes n prev max)
   mode 0 = AllocatedScoreSelector (prev / max ignored), 1 = AllocatedScoreDistributor;
   orders = iteration orders of the Tie frozensets; votes = dict (sorted score ballot) -> weight.
   result: selector -> list of candidates / ties; distributor -> list of (candidate-or-tie seats) *)
Definition of_aerr (e : aerr) : sx :=
  match e with
  | AE_value => err E_VALUE | AE_index => err E_INDEX | AE_zerodiv => err E_ZERODIV | AE_fuel => err E_FUEL
  end.
Definition u_alloc (a : sx) : sx :=
  match a with
  | L [A mode; qs; o; v; n; pv; mx] =>
      match as_quota qs, as_listof (as_listof as_pos) o, as_sprofile v, as_nat n,
            as_dict as_pos as_Z pv, as_dict as_pos as_Z mx with
      | Some qs, Some o, Some v, Some n, Some pv, Some mx =>
          if (mode =? 0)%Z then
            match alloc_select qs o v n with
            | inl l => ok (L (map of_res l))
            | inr e => of_aerr e
            end
          else
            match alloc_distribute qs o v n pv mx with
            | inl el => ok (L (map (fun rk => L [of_res (fst rk); A (snd rk)]) el))
            | inr e => of_aerr e
            end
      | _, _, _, _, _, _ => bad_input
      end
  | _ => bad_input
  end.

(* ---- wave 6: the same units with the set of repairs applied (Model/Cardinal.v [repairs], Model/AllocScore.v [arepairs]) *)
Definition as_repairs (a : sx) : option repairs :=
  match a with
  | L [t; m; c] => match as_bool t, as_bool m, as_bool c with
                   | Some t, Some m, Some c => Some {| rp_trunc := t; rp_mj := m; rp_counted := c |}
                   | _, _, _ => None end
  | _ => None
  end.
Definition as_arepairs (a : sx) : option arepairs :=
  match a with
  | L [e; t] => match as_bool e, as_bool t with
                | Some e, Some t => Some {| ra_exhausted := e; ra_tieseats := t |}
                | _, _ => None end
  | _ => None
  end.

(* args: (repairs cfg votes n) *)
Definition u_score_voting_x (a : sx) : sx :=
  match a with
  | L [r; c; v; n] => match as_repairs r, as_score_cfg c, as_zsprofile v, as_nat n with
                      | Some r, Some c, Some v, Some n => of_sres (score_voting_x r c v n)
                      | _, _, _, _ => bad_input end
  | _ => bad_input
  end.
(* args: (repairs plus cfg votes n) *)
Definition u_mj_x (a : sx) : sx :=
  match a with
  | L [r; p; c; v; n] => match as_repairs r, as_bool p, as_score_cfg c, as_zsprofile v, as_nat n with
                         | Some r, Some p, Some c, Some v, Some n => of_sres (majority_judgment_x r p c v n)
                         | _, _, _, _, _ => bad_input end
  | _ => bad_input
  end.
(* args: (repairs cfg votes) -> aggregated simple votes *)
Definition u_score_to_simple_x (a : sx) : sx :=
  match a with
  | L [r; c; v] => match as_repairs r, as_score_cfg c, as_zsprofile v with
                   | Some r, Some c, Some v => match score_to_simple_x r c v with
                                               | inl d => ok (of_dict of_pos of_Q d)
                                               | inr e => of_serr e end
                   | _, _, _ => bad_input end
  | _ => bad_input
  end.
(* args: (repairs mode quota orders votes n prev max), as u_alloc *)
Definition u_alloc_x (a : sx) : sx :=
  match a with
  | L [r; A mode; qs; o; v; n; pv; mx] =>
      match as_arepairs r, as_quota qs, as_listof (as_listof as_pos) o, as_sprofile v, as_nat n,
            as_dict as_pos as_Z pv, as_dict as_pos as_Z mx with
      | Some r, Some qs, Some o, Some v, Some n, Some pv, Some mx =>
          if (mode =? 0)%Z then
            match alloc_select_x r qs o v n with
            | inl l => ok (L (map of_res l))
            | inr e => of_aerr e
            end
          else
            match alloc_distribute_x r qs o v n pv mx with
            | inl el => ok (L (map (fun rk => L [of_res (fst rk); A (snd rk)]) el))
            | inr e => of_aerr e
            end
      | _, _, _, _, _, _, _ => bad_input
      end
  | _ => bad_input
  end.

Definition u_c12 (k : Z) (a : sx) : sx :=
  match k with
  | 0 => u_star a
  | 1 => u_alloc a
  | 2 => u_score_voting_x a
  | 3 => u_mj_x a
  | 4 => u_alloc_x a
  | 5 => u_score_to_simple_x a
  | _ => bad_input
  end.
