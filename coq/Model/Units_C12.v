(* Wire-level wrappers of property C12 added after the first round (STAR): decode arguments from sx, run the
   model, encode.  Dispatch.v routes the block of unit numbers 190..199 here; [k] is the offset inside the block. *)
From Coq Require Import ZArith QArith List Bool.
From VL Require Import Prelude.Sx Model.Units Model.Cardinal Model.Star.
Import ListNotations.
Open Scope Z_scope.

(* args: (votes n) *)
Definition u_star (a : sx) : sx :=
  match a with
  | L [v; n] => match as_zsprofile v, as_nat n with
                | Some v, Some n => of_sres (star_auto v n)
                | _, _ => bad_input end
  | _ => bad_input
  end.

Definition u_c12 (k : Z) (a : sx) : sx :=
  match k with
  | 0 => u_star a
  | _ => bad_input
  end.
