(* C18 - instance state machines [step : state -> call -> state * out] of the votelib objects
   that keep state between calls.  Executable definitions only (proofs: Proofs/State_proofs.v).

   approval.py  ProportionalApproval  L43-62 (_coefs table, extended on demand), L64-118
   rankscore.py Borda                 L59-105 (n_candidates, _scores), used through
   convert.py   RankedToPositionalVotes.convert L358-380 (set_n_candidates before every use)
   auxiliary.py Sortitor / RandomUnrankedBallotSelector L55-101, util.py select_n_random L122-165,
   transfer.py  Hare L247-285: [random.seed(self.seed)] before every draw - the state is the
                process-wide generator of the [random] module, shared by ALL objects.
   sequential.py TransferableVoteDistributor keeps no cache between calls (nth_count rebuilds the
                allocation from the votes): nothing to model. *)
From Coq Require Import ZArith QArith List Bool Arith.
From VL Require Import Prelude.Sx Prelude.PyDict Prelude.GDict Model.GetNBest Model.Convert Model.Cardinal.
Import ListNotations.

(* ================================================================ generic machine *)
Section Machine.
  Context {St Call Out : Type}.
  Variable step : St -> Call -> St * Out.
  Definition run (init : St) (cs : list Call) : St := fold_left (fun s c => fst (step s c)) cs init.
  (* what the caller of call [c] sees after the object has already served the calls [cs] *)
  Definition out_after (init : St) (cs : list Call) (c : Call) : Out := snd (step (run init cs) c).
  (* outputs of a whole call sequence on one shared object *)
  Fixpoint outs (s : St) (cs : list Call) : list Out :=
    match cs with
    | [] => []
    | c :: t => snd (step s c) :: outs (fst (step s c)) t
    end.
End Machine.

(* ================================================================ ProportionalApproval *)
(* sum(Fraction(1, k + 1) for k in range(n)) *)
Definition harm (n : nat) : Q := harmonic n.
(* the extension step of evaluate (L58-62); [strict] = the comparison of the pinned tree
   (len(_coefs) < n_seats), repaired to <= by commit 664831f *)
Definition pav_extend (strict : bool) (coefs : list Q) (n : nat) : list Q :=
  let len := length coefs in
  if (if strict then Nat.ltb len n else Nat.leb len n)
  then coefs ++ map harm (seq len (n + 1 - len))
  else coefs.

(* |alt & alternative| counted over the (duplicate-free) alternative *)
Definition isect (alternative ballot : list C) : nat := length (filter (fun c => cmem c ballot) alternative).

(* _satisfaction: self._coefs[len(alt & alternative)] * n_votes ; None = IndexError *)
Definition sat_tbl (look : nat -> option Q) (votes : aprofile) (alt : list C) : option Q :=
  fold_left (fun acc bw => match acc, look (isect alt (fst bw)) with
                           | Some a, Some h => Some (a + h * snd bw)%Q
                           | _, _ => None
                           end) votes (Some 0%Q).

Fixpoint omap {X Y} (f : X -> option Y) (l : list X) : option (list Y) :=
  match l with
  | [] => Some []
  | x :: t => match f x, omap f t with Some y, Some ys => Some (y :: ys) | _, _ => None end
  end.

Inductive pav_out := PO_ok (r : list (res C)) | PO_nie | PO_index.

Definition pav_look (look : nat -> option Q) (votes : aprofile) (n : nat) : pav_out :=
  let cands := canon_set (flat_map fst votes) in
  match omap (fun a => match sat_tbl look votes a with Some s => Some (a, s) | None => None end) (combos cands n) with
  | None => PO_index
  | Some scored =>
      let best_alts :=
        match scored with
        | [] => []
        | (_, s0) :: _ =>
            let best := fold_left (fun b sa => if Qle_bool b (snd sa) then snd sa else b) scored s0 in
            map fst (filter (fun sa => Qeq_bool (snd sa) best) scored)
        end in
      match best_alts with
      | [alt] =>
          match omap (fun c => match sat_tbl look votes (filter (fun x => negb (ceqb x c)) alt) with
                               | Some s => Some (c, (- s)%Q) | None => None end) alt with
          | Some drops => PO_ok (get_n_best Qle_bool drops (length alt))
          | None => PO_index
          end
      | _ => PO_nie
      end
  end.

Definition pav_call := (aprofile * nat)%type.
Definition pav_init : list Q := [0%Q].
Definition pav_step (strict : bool) (coefs : list Q) (c : pav_call) : list Q * pav_out :=
  let coefs' := pav_extend strict coefs (snd c) in
  (coefs', pav_look (nth_error coefs') (fst c) (snd c)).

(* ================================================================ Borda scorer + RankedToPositionalVotes *)
Record borda_st := { b_n : option nat; b_scores : option (list Q) }.
Definition borda_init : borda_st := {| b_n := None; b_scores := None |}.
Definition borda_set_n (base : Z) (k : nat) : borda_st :=
  {| b_n := Some k;
     b_scores := Some (map (fun r => inject_Z (Z.of_nat k + base - 1 - Z.of_nat r)) (seq 0 k)) |}.
Inductive borda_err := BE_value | BE_runtime.
(* Borda.scores (L90-105) on the STORED fields *)
Definition borda_scores_st (s : borda_st) (n_ranked : nat) : list Q + borda_err :=
  match b_n s, b_scores s with
  | Some k, Some sc => if Nat.ltb k n_ranked then inr BE_value else inl (select_padded sc n_ranked)
  | _, _ => inr BE_runtime          (* n_ranked > None -> TypeError -> RuntimeError *)
  end.
Definition img_positional_st (s : borda_st) (r : ranked) : option (list (sx * Q)) :=
  match borda_scores_st s (length r) with
  | inl sc => Some (flat_map (fun isc : item * Q => map (fun c => (kc c, snd isc)) (members (fst isc))) (combine r sc))
  | inr _ => None
  end.

Inductive borda_call :=
| BSetN (k : nat)                              (* scorer.set_n_candidates(k) *)
| BScores (n : nat)                            (* scorer.scores(n) called directly *)
| BConvert (votes : list (ranked * Q)).        (* RankedToPositionalVotes(scorer).convert(votes) *)
Inductive borda_out :=
| BO_none | BO_scores (r : list Q + borda_err) | BO_conv (d : option (list (sx * Q))).

Definition borda_step (base : Z) (s : borda_st) (c : borda_call) : borda_st * borda_out :=
  match c with
  | BSetN k => (borda_set_n base k, BO_none)
  | BScores n => (s, BO_scores (borda_scores_st s n))
  | BConvert votes =>
      let s' := borda_set_n base (length (cands_ranked votes)) in
      (s', BO_conv (oconv (img_positional_st s') votes))
  end.
Definition is_convert (c : borda_call) : bool := match c with BConvert _ => true | _ => false end.

(* ================================================================ seeded random components *)
(* The generator of the [random] module is one process-wide state [G].  What [random.seed(s)]
   leaves behind and what a draw returns are ORACLES (Section variables), never axioms. *)
Section Seeded.
  Variable G : Type.
  Variable seedf : Z -> G.                        (* state after random.seed(s), s an int *)
  Variable entropy : G -> G.                      (* state after random.seed(None): anything *)
  Variable randrange : G -> Z -> Z -> Z * G.      (* random.randrange(lo, hi) *)

  (* any seeded component: its body draws from the generator it was handed *)
  Section AnyBody.
    Context {In Out : Type}.
    Variable body : G -> In -> Out * G.
    Inductive rcall :=
    | RSeeded (s : Z) (i : In)                    (* component constructed with seed=s *)
    | RUnseeded (i : In)                          (* seed=None *)
    | RForeign (f : G -> G).                      (* any other user of the random module *)
    Definition rstep (g : G) (c : rcall) : G * option Out :=
      match c with
      | RSeeded s i => let (o, g') := body (seedf s) i in (g', Some o)
      | RUnseeded i => let (o, g') := body (entropy g) i in (g', Some o)
      | RForeign f => (f g, None)
      end.
    Definition is_seeded (c : rcall) : bool := match c with RSeeded _ _ => true | _ => false end.
  End AnyBody.

  (* util._select_n_random_int (L143-161): cumulative integer weights, bisect_left, pop *)
  Fixpoint bisect_left_z (l : list Z) (x : Z) : nat :=
    match l with [] => O | y :: t => if (y <? x)%Z then S (bisect_left_z t x) else O end.
  Fixpoint cumsum (acc : Z) (l : list Z) : list Z :=
    match l with [] => [] | x :: t => (acc + x)%Z :: cumsum (acc + x)%Z t end.
  Fixpoint remove_nth {X} (i : nat) (l : list X) : list X :=
    match i, l with
    | _, [] => []
    | O, _ :: t => t
    | S i', x :: t => x :: remove_nth i' t
    end.
  Definition last_z (l : list Z) : Z := last l 0%Z.

  Inductive sel_out := SO_ok (chosen : list C) | SO_index | SO_value.

  Fixpoint select_loop (fuel : nat) (g : G) (cands : list C) (cum : list Z) (need : nat) (chosen : list C)
    : sel_out * G :=
    match need with
    | O => (SO_ok chosen, g)
    | S need' =>
        match fuel with
        | O => (SO_ok chosen, g)
        | S f =>
            match cum with
            | [] => (SO_index, g)                     (* cum_weights[-1] on an empty list *)
            | _ =>
                let hi := (last_z cum + 1)%Z in
                if (hi <=? 1)%Z then (SO_value, g)    (* randrange(1, 1): empty range *)
                else
                let (x, g') := randrange g 1 hi in
                let i := bisect_left_z cum x in
                match nth_error cands i, nth_error cum i with
                | Some c, Some w =>
                    let sub := if Nat.eqb i 0 then w
                               else match nth_error cum (i - 1) with Some p => (w - p)%Z | None => w end in
                    let cum' := firstn i cum ++ map (fun wt => (wt - sub)%Z) (skipn (S i) cum) in
                    select_loop f g' (remove_nth i cands) cum' need' (chosen ++ [c])
                | _, _ => (SO_index, g')
                end
            end
        end
    end.

  (* util.select_n_random for integer weights; votes sorted by value, descending, stable *)
  Definition select_n_random (g : G) (votes : list (C * Z)) (n : nat) : sel_out * G :=
    match votes with
    | [] => (SO_value, g)                              (* zip of an empty sequence cannot be unpacked: ValueError *)
    | _ =>
        let s := sort_desc Z.leb votes in
        let cands := map fst s in
        if Nat.ltb (length cands) n then (SO_ok cands, g)
        else select_loop n g cands (cumsum 0%Z (map snd s)) n []
    end.

  (* RandomUnrankedBallotSelector(seed).evaluate / Sortitor(seed).evaluate as bodies *)
  Definition ballot_body (g : G) (i : list (C * Z) * nat) : sel_out * G := select_n_random g (fst i) (snd i).
  Definition sortitor_body (g : G) (i : list (C * Z) * nat) : sel_out * G :=
    select_n_random g (map (fun cv => (fst cv, 1%Z)) (sort_desc Z.leb (fst i))) (snd i).
End Seeded.

(* the draws recorded on the implementation stand for the oracle in the correspondence run *)
Definition tape_randrange (g : list Z) (lo hi : Z) : Z * list Z :=
  match g with x :: t => (x, t) | [] => (lo, []) end.
