(* Models of votelib.evaluate.condorcet: pairwise_wins, beat_counts,
   CondorcetWinner, _smith_schwartz_set (SmithSet / SchwartzSet), Copeland,
   Schulze, MinimaxCondorcet, RankedPairs, KemenyYoung - mirroring the code,
   including its behaviour on sparse dictionaries.  Pairwise counts are
   integers; a pairwise dictionary is an insertion-ordered association list. *)
From Coq Require Import ZArith QArith List Bool Arith.
From VL Require Import Prelude.PyDict Model.GetNBest.
Import ListNotations.
Open Scope Z_scope.

Definition pair := (C * C)%type.
Definition pvotes := list (pair * Z).

Definition peqb (p q : pair) : bool := ceqb (fst p) (fst q) && ceqb (snd p) (snd q).
Fixpoint pget (v : pvotes) (p : pair) : option Z :=
  match v with
  | [] => None
  | (p', n) :: t => if peqb p p' then Some n else pget t p
  end.
Definition pget0 (v : pvotes) (p : pair) : Z := match pget v p with Some n => n | None => 0 end.
Definition swap (p : pair) : pair := (snd p, fst p).

(* candidates in order of first appearance (fst then snd of each pair) *)
Definition add_new (c : C) (l : list C) : list C := if cmem c l then l else l ++ [c].
Definition candidates (v : pvotes) : list C :=
  fold_left (fun acc pn => add_new (snd (fst pn)) (add_new (fst (fst pn)) acc)) v [].

(* pairwise_wins (L32-53) *)
Definition pairwise_wins (v : pvotes) (include_ties : bool) : list pair :=
  map fst (filter (fun pn =>
    let anti := pget0 v (swap (fst pn)) in
    (anti <? snd pn) || (include_ties && (anti =? snd pn))) v).

(* defaultdict(int) accumulation in insertion order *)
Definition dadd (d : list (C * Z)) (c : C) (k : Z) : list (C * Z) := dset d c (dget_or d c 0 + k).

Definition beat_counts (v : pvotes) : list (C * Z) :=
  fold_left (fun d p => dadd d (fst p) 1) (pairwise_wins v false) [].

Definition condorcet_winner (v : pvotes) : list C :=
  let need := Z.of_nat (length (candidates v)) - 1 in
  match find (fun cn => snd cn =? need) (beat_counts v) with
  | Some (c, _) => [c]
  | None => []
  end.

Definition copeland_scores (wins : list pair) : list (C * Z) :=
  fold_left (fun d p => dadd (dadd d (fst p) 1) (snd p) (-1)) wins [].

Definition zle_bool (a b : Z) : bool := a <=? b.

Fixpoint index_of (c : C) (l : list C) : nat :=
  match l with
  | [] => O
  | x :: t => if ceqb c x then O else S (index_of c t)
  end.

(* _smith_schwartz_set (L70-90) *)
Fixpoint ss_loop (order : list C) (wins : list pair) (end_i : nat) : nat :=
  match wins with
  | [] => end_i
  | (w, l) :: t =>
      if Nat.leb end_i (index_of w order) && Nat.ltb (index_of l order) end_i then
        let e := S (index_of w order) in
        if Nat.eqb (length order) e then e else ss_loop order t e
      else ss_loop order t end_i
  end.

(* {**{(c1, c2): 0 ...}, **votes}: every ordered pair of distinct candidates, absent = 0 *)
Definition complete (v : pvotes) : pvotes :=
  let cs := candidates v in
  flat_map (fun c1 => flat_map (fun c2 => if ceqb c1 c2 then [] else [((c1, c2), pget0 v (c1, c2))]) cs) cs.

Definition smith_schwartz (v0 : pvotes) (ties : bool) : list C :=
  let v := complete v0 in
  let wins := pairwise_wins v ties in
  let scores := copeland_scores wins in
  let order := map fst (sort_desc zle_bool scores) in
  let wins_sorted := map fst (sort_asc Nat.leb (map (fun p => (p, index_of (snd p) order)) wins)) in
  firstn (ss_loop order wins_sorted 1) order.

(* Copeland (L174-240) *)
Inductive cres := CR_ok (r : list (res C)) | CR_vse | CR_nie | CR_stop | CR_index.

Definition res_members (r : list (res C)) : list C :=
  flat_map (fun x => match x with TieR l => l | Cand _ => [] end) r.
Definition res_untied (r : list (res C)) : list (res C) :=
  filter (fun x => match x with Cand _ => true | TieR _ => false end) r.
Definition has_tie (r : list (res C)) : bool :=
  existsb (fun x => match x with TieR _ => true | Cand _ => false end) r.

Definition copeland (second_order : bool) (v : pvotes) (n : nat) : list (res C) :=
  let wins := pairwise_wins v false in
  (* every candidate of the dictionary starts from a zero score (setdefault) *)
  let scores := fold_left (fun d c => if dmem d c then d else d ++ [(c, 0)]) (candidates v) (copeland_scores wins) in
  let best := get_n_best zle_bool scores n in
  if second_order && has_tie best then
    let tied := res_members best in
    (* every tied candidate starts from a zero second-order score, in the order of the score dictionary *)
    let so0 := flat_map (fun cs : C * Z => if cmem (fst cs) tied then [(fst cs, 0)] else []) scores in
    let so := fold_left (fun d p => if cmem (fst p) tied then dadd d (fst p) (dget_or scores (snd p) 0) else d) wins so0 in
    let untied := res_untied best in
    untied ++ get_n_best zle_bool so (length best - length untied)
  else best.

(* Schulze (L243-292); [order] = iteration order of the candidate set *)
Definition pset (v : pvotes) (p : pair) (n : Z) : pvotes :=
  (fix go (l : pvotes) : pvotes :=
     match l with
     | [] => [(p, n)]
     | (p', n') :: t => if peqb p p' then (p', n) :: t else (p', n') :: go t
     end) v.

Definition widest_paths (v : pvotes) (order : list C) : pvotes :=
  let init := filter (fun pn => pget0 v (swap (fst pn)) <? snd pn) v in
  fold_left (fun paths c1 =>
    fold_left (fun paths c2 =>
      if ceqb c1 c2 then paths else
      fold_left (fun paths ca =>
        if ceqb ca c1 || ceqb ca c2 then paths else
        pset paths (c2, ca) (Z.max (pget0 paths (c2, ca)) (Z.min (pget0 paths (c2, c1)) (pget0 paths (c1, ca)))))
        order paths) order paths) order init.

Definition schulze (v : pvotes) (order : list C) (n : nat) : list (res C) :=
  let paths := widest_paths v order in
  let seeded := map (fun c => (c, 0)) (candidates v) in
  let scores := fold_left (fun d p => dadd (dadd d (fst p) 1) (snd p) 0) (pairwise_wins paths false) seeded in
  get_n_best zle_bool scores n.

(* pairwise win scorers (pairwin_scorer.py) *)
Inductive scorer := WinningVotes | Margins | PairwiseOpposition.
Definition score_pairs (s : scorer) (v : pvotes) : pvotes :=
  match s with
  | WinningVotes => map (fun pn => (fst pn, if pget0 v (swap (fst pn)) <? snd pn then snd pn else 0)) v
  | Margins => map (fun pn => (fst pn, snd pn - pget0 v (swap (fst pn)))) v
  | PairwiseOpposition => v
  end.

(* MinimaxCondorcet (L383-405): max_counterscore keyed by the loser position *)
Definition minimax (s : scorer) (v0 : pvotes) (n : nat) : list (res C) :=
  let v := complete v0 in
  let mc := fold_left (fun d pn =>
              let c := snd (fst pn) in
              match dget d c with
              | Some old => dset d c (Z.max old (snd pn))
              | None => dset d c (snd pn)
              end) (score_pairs s v) [] in
  get_n_best zle_bool (map (fun cs => (fst cs, - snd cs)) mc) n.

(* RankedPairs (L429-495) *)
Definition sort_desc_by {X} (key : X -> Z) (l : list X) : list X :=
  map fst (sort_desc zle_bool (map (fun x => (x, key x)) l)).

Fixpoint reach_pass (pairs : list pair) (visited : list C) : list C :=
  match pairs with
  | [] => visited
  | (f, t) :: r => if cmem f visited && negb (cmem t visited) then reach_pass r (visited ++ [t]) else reach_pass r visited
  end.
Fixpoint reach (fuel : nat) (pairs : list pair) (visited : list C) : list C :=
  match fuel with
  | O => visited
  | S f => let v' := reach_pass pairs visited in
           if Nat.eqb (length v') (length visited) then visited else reach f pairs v'
  end.
Definition is_path (pairs : list pair) (src snk : C) : bool :=
  cmem snk (reach (S (length pairs)) pairs [src]) && negb (ceqb src snk).

(* _schwartz_set (the repaired SchwartzSet, fixes/C06-schwartz-set): the candidates, in the Copeland order the Smith routine
   uses, that have a beat path (strict defeats only; RankedPairs._is_path) back to every candidate with a beat path to them *)
Definition schwartz_set (v0 : pvotes) : list C :=
  let v := complete v0 in
  let order := map fst (sort_desc zle_bool (copeland_scores (pairwise_wins v true))) in
  let defeats := pairwise_wins v false in
  filter (fun c => forallb (fun o => implb (is_path defeats o c) (is_path defeats c o)) order) order.

Definition lock_pairs (pairs : list pair) : list pair :=
  fold_left (fun locked p => if is_path locked (snd p) (fst p) then locked else locked ++ [p]) pairs [].

Fixpoint dedup_c (l : list C) : list C :=
  match l with
  | [] => []
  | x :: t => if cmem x t then dedup_c t else x :: dedup_c t
  end.

(* None = VotingSystemError (not exactly one source) *)
Fixpoint build_ranking (fuel : nat) (edges : list pair) (ranking : list C) : option (list C) :=
  match edges with
  | [] => Some ranking
  | _ =>
    match fuel with
    | O => None
    | S f =>
        let winners := dedup_c (map fst edges) in
        let losers := map snd edges in
        match filter (fun w => negb (cmem w losers)) winners with
        | [w] => build_ranking f (filter (fun e => negb (ceqb (fst e) w)) edges) (ranking ++ [w])
        | _ => None
        end
    end
  end.

Definition ranked_pairs (s : scorer) (v0 : pvotes) (n : nat) : cres :=
  let v := complete v0 in
  let scored := score_pairs s v in
  let keys := map fst v in
  let by_votes := sort_desc_by (fun p => pget0 v p) keys in
  let by_score := sort_desc_by (fun p => pget0 scored p) by_votes in
  let locked := lock_pairs by_score in
  match build_ranking (S (length locked)) locked [] with
  | None => CR_vse
  | Some ranking =>
      match find (fun c => negb (cmem c ranking)) (flat_map (fun p => [fst p; snd p]) locked) with
      | Some last => CR_ok (map Cand (firstn n (ranking ++ [last])))
      | None => CR_stop
      end
  end.

(* KemenyYoung (L311-357) *)
Fixpoint insert_all (x : C) (l : list C) : list (list C) :=
  match l with
  | [] => [[x]]
  | y :: t => (x :: y :: t) :: map (cons y) (insert_all x t)
  end.
Fixpoint permutations (l : list C) : list (list C) :=
  match l with
  | [] => [[]]
  | x :: t => flat_map (insert_all x) (permutations t)
  end.
Fixpoint kemeny_score (v : pvotes) (variant : list C) : Z :=
  match variant with
  | [] => 0
  | u :: t => fold_left (fun acc l => acc + pget0 v (u, l)) t 0 + kemeny_score v t
  end.
Fixpoint clist_eqb (a b : list C) : bool :=
  match a, b with
  | [], [] => true
  | x :: a', y :: b' => ceqb x y && clist_eqb a' b'
  | _, _ => false
  end.
Definition kemeny (v : pvotes) (n : nat) : cres :=
  let perms := permutations (candidates v) in
  let scored := map (fun p => (p, kemeny_score v p)) perms in
  let best := fold_left (fun b ps => Z.max b (snd ps)) scored 0 in
  (* {tuple(variant[:n_seats]) for variant in best_variants}: one common prefix, or Tie.tie_rankings (NotImplementedError) *)
  match map (fun ps => firstn n (fst ps)) (filter (fun ps => snd ps =? best) scored) with
  | [] => CR_nie
  | pre :: rest => if forallb (clist_eqb pre) rest then CR_ok (map Cand pre) else CR_nie
  end.
