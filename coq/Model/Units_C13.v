(* Wire-level wrappers of property C13 added after the first round (Model/Convert2.v): decode a converter code and the
   data it is applied to from sx, run the model, encode.  Dispatch.v routes the block of unit numbers 210..219 here;
   [k] is the offset inside the block. *)
From Coq Require Import ZArith QArith List Bool.
From VL Require Import Prelude.Sx Prelude.PyDict Prelude.GDict Model.Units Model.Convert Model.Convert2.
Import ListNotations.
Open Scope Z_scope.

Definition as_rmode (s : sx) : option rmode :=
  match s with
  | A 0 => Some RHalfUp | A 1 => Some RHalfDown | A 2 => Some RHalfEven | A 3 => Some RUp
  | A 4 => Some RDown | A 5 => Some RCeiling | A 6 => Some RFloor | A 7 => Some R05Up
  | _ => None
  end.

(* (kind cfg) with the kind numbers and configurations of unit 21 (u_convert) *)
Definition as_ckind (k cfg : sx) : option ckind :=
  match k with
  | A 1 => option_map KApprovalSimple (as_bool cfg)
  | A 2 => Some KFirst
  | A 3 => option_map KFirstN (as_nat cfg)
  | A 4 => Some KPresence
  | A 5 => Some KRankedApproval
  | A 6 => option_map KPositional (as_scorer_r cfg)
  | A 7 => option_map KCondorcet (as_bool cfg)
  | A 8 => option_map KScoreRanked (as_opt as_Q cfg)
  | A 9 => option_map KScoreApproval (as_Q cfg)
  | A 10 => Some KInvApproval
  | A 11 => option_map KParty (as_dict as_pos as_Z cfg)
  | A 12 => option_map KSubSimple (as_listof as_pos cfg)
  | A 13 => option_map KSubApproval (as_listof as_pos cfg)
  | A 14 => option_map KSubRanked (as_listof as_pos cfg)
  | A 15 => option_map KSubScore (as_listof as_pos cfg)
  | _ => None
  end.

Fixpoint as_ccode_fuel (f : nat) (s : sx) : option ccode :=
  match f with
  | O => None
  | S f' =>
      match s with
      | L [A 1; k; cfg] => option_map KConv (as_ckind k cfg)
      | L [A 2] => Some KInvSimple
      | L [A 3; m; A d] => match as_rmode m with Some m => Some (KRounded m d) | None => None end
      | L [A 13; dv; m; A d] => match as_bool dv, as_rmode m with
                                | Some dv, Some m => Some (KRoundedCode dv m d) | _, _ => None end
      | L [A 4] => Some KVoteTotals
      | L [A 5] => Some KConstTotals
      | L [A 6; pm] => option_map KGroupParty (as_dict as_pos as_Z pm)
      | L [A 7; pm] => option_map KPartyResult (as_dict as_pos as_Z pm)
      | L [A 8; am] => option_map KSelToDist (as_Q am)
      | L [A 9] => Some KMergedSel
      | L [A 10; c] => option_map KBy (as_ccode_fuel f' c)
      | L [A 11; L cs] => option_map KChain (opt_map (as_ccode_fuel f') cs)
      | _ => None
      end
  end.
Definition as_ccode := as_ccode_fuel 8.

Definition as_fdict (s : sx) : option fdict := as_dict Some as_Q s.
Definition as_vdata (s : sx) : option vdata :=
  match s with
  | L [A 0; d] => option_map VF (as_fdict d)
  | L [A 1; n] => option_map VN (as_dict Some as_fdict n)
  | L [A 2; L l] => Some (VS l)
  | L [A 3; n] => option_map VNS (as_dict Some as_list n)
  | _ => None
  end.

Definition of_fdict (d : fdict) : sx := L (map (fun kv => L [fst kv; of_Q (snd kv)]) d).
Definition of_vdata (v : vdata) : sx :=
  match v with
  | VF d => L [A 0; of_fdict d]
  | VN n => L [A 1; L (map (fun cd => L [fst cd; of_fdict (snd cd)]) n)]
  | VS l => L [A 2; L l]
  | VNS n => L [A 3; L (map (fun cl => L [fst cl; L (snd cl)]) n)]
  end.
Definition of_cres (r : cres) : sx :=
  match r with
  | COk v => ok (of_vdata v)
  | CErr e => err e
  | CUnmod => unmodelled
  end.

(* unit 210: (code data) -> converted data *)
Definition u_run_code (a : sx) : sx :=
  match a with
  | L [c; v] => match as_ccode c, as_vdata v with
                | Some c, Some v => of_cres (run_code c v)
                | _, _ => bad_input end
  | _ => bad_input
  end.

(* unit 211: (prec mode decimals count) -> (in the double-rounding class?  the [prec] digit quotient  round_code  round_q  in the exact class of the HALF modes?) *)
Definition of_rres (r : rres) : sx := match r with ROk x => ok (of_Q x) | RInvalid => err E_OTHER end.
Definition u_dr_class (a : sx) : sx :=
  match a with
  | L [p; m; d; x] => match as_nat p, as_rmode m, as_nat d, as_Q x with
                      | Some p, Some m, Some d, Some x =>
                          ok (L [A (if dr_class p m d x then 1 else 0); of_Q (sig_round p x); of_rres (round_code p true m d x); of_Q (round_q m d x);
                                 A (if dr_class_half p m d x then 1 else 0)])
                      | _, _, _, _ => bad_input end
  | _ => bad_input
  end.

(* unit 212: (code profile-a profile-b) -> the candidate-set side condition of Chain additivity *)
Definition u_same_cands (a : sx) : sx :=
  match a with
  | L [c; x; y] => match as_ccode c, as_fdict x, as_fdict y with
                   | Some c, Some x, Some y =>
                       match run_code c (VF x), run_code c (VF y) with
                       | CUnmod, _ | _, CUnmod => unmodelled        (* a ballot outside the modelled fragment: not compared *)
                       | _, _ => ok (A (if same_cands c x y then 1 else 0))
                       end
                   | _, _, _ => bad_input end
  | _ => bad_input
  end.

Definition u_c13 (k : Z) (a : sx) : sx :=
  match k with
  | 0 => u_run_code a
  | 1 => u_dr_class a
  | 2 => u_same_cands a
  | _ => bad_input
  end.
