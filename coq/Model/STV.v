(* Model of the transferable-vote count: votelib/evaluate/sequential.py
   (initial_allocation, allocation_totals, TransferableVoteDistributor.next_count /
   nth_count / _elect_by_quota / _correct_overcount / select_retained /
   _retained_count, TransferableVoteSelector) and votelib/component/transfer.py
   (ranked_next, SimpleVoteTransferer.subtract / transfer, Gregory).
   Fractional (Gregory) transfers only; the Hare transferer draws at random and is
   not modelled here. *)
From Coq Require Import ZArith QArith Qround List Bool Arith.
From VL Require Import Prelude.PyDict Model.GetNBest Model.Convert.
Import ListNotations.

Definition ballot := ranked.
Definition pile := list (ballot * Q).                      (* ballot -> weight resting here *)
Definition alloc := list (option C * pile).                (* None = exhausted pile *)

Definition item_eqb (a b : item) : bool :=
  match a, b with
  | IP x, IP y => ceqb x y
  | IS x, IS y => forallb (fun c => cmem c y) x && forallb (fun c => cmem c x) y
  | _, _ => false
  end.
Fixpoint ballot_eqb (a b : ballot) : bool :=
  match a, b with
  | [], [] => true
  | x :: a', y :: b' => item_eqb x y && ballot_eqb a' b'
  | _, _ => false
  end.
Definition okey_eqb (a b : option C) : bool :=
  match a, b with Some x, Some y => ceqb x y | None, None => true | _, _ => false end.

Fixpoint pile_add (p : pile) (b : ballot) (w : Q) : pile :=
  match p with
  | [] => [(b, w)]
  | (b', w') :: t => if ballot_eqb b b' then (b', Qred (w' + w)) :: t else (b', w') :: pile_add t b w
  end.
Fixpoint alloc_get (a : alloc) (k : option C) : option pile :=
  match a with
  | [] => None
  | (k', p) :: t => if okey_eqb k k' then Some p else alloc_get t k
  end.
(* allocation.setdefault(k, {})[b] += w *)
Fixpoint alloc_add (a : alloc) (k : option C) (b : ballot) (w : Q) : alloc :=
  match a with
  | [] => [(k, [(b, w)])]
  | (k', p) :: t => if okey_eqb k k' then (k', pile_add p b w) :: t else (k', p) :: alloc_add t k b w
  end.
Definition alloc_del (a : alloc) (k : option C) : alloc := filter (fun kp => negb (okey_eqb k (fst kp))) a.
Definition pile_sum (p : pile) : Q := Qred (fold_left Qplus (map snd p) 0%Q).
Definition totals (a : alloc) : list (option C * Q) := map (fun kp => (fst kp, pile_sum (snd kp))) a.

(* ranked_next (transfer.py L28-58): first later rank with an allowed candidate *)
Fixpoint next_after (rest : ballot) (allowed : list C) : list C :=
  match rest with
  | [] => []
  | IP c :: t => if cmem c allowed then [c] else next_after t allowed
  | IS l :: t => match filter (fun c => cmem c allowed) l with [] => next_after t allowed | l' => l' end
  end.
Fixpoint ranked_next (vote : ballot) (cand : C) (allowed : list C) : list C :=
  match vote with
  | [] => []
  | IP c :: t => if ceqb cand c then next_after t allowed else ranked_next t cand allowed
  | IS l :: t => if cmem cand l then next_after t allowed else ranked_next t cand allowed
  end.

Definition keys_some (a : alloc) : list C := flat_map (fun kp => match fst kp with Some c => [c] | None => [] end) a.

(* one ballot leaving a pile: to its next continuing candidate(s) (equal split) or the exhausted pile *)
Definition move_ballot (a : alloc) (targets : list C) (b : ballot) (w : Q) : alloc :=
  match targets with
  | [] => alloc_add a None b w
  | _ => let share := Qred (w / inject_Z (Z.of_nat (length targets))) in
         fold_left (fun a t => alloc_add a (Some t) b share) targets a
  end.

(* SimpleVoteTransferer.transfer with the Gregory equal split (transfer.py L163-203, L320-325) *)
Definition transfer (a : alloc) (elim : list C) : alloc :=
  let to_remove := filter (fun c => cmem c elim) (keys_some a) in
  let continuing := filter (fun c => negb (cmem c elim)) (keys_some a) in
  fold_left (fun a c =>
    let p := match alloc_get a (Some c) with Some p => p | None => [] end in
    alloc_del (fold_left (fun a bw => move_ballot a (ranked_next (fst bw) c continuing) (fst bw) (snd bw)) p a) (Some c))
    to_remove a.

(* Gregory._subtract (L304-318); None = RuntimeError (empty pile) *)
Definition gregory_subtract (p : pile) (n_sub : Q) : option pile :=
  let s := pile_sum p in
  if Qeq_bool s 0 then None
  else if Qle_bool s n_sub then Some []
  else let f := ((s - n_sub) / s)%Q in Some (map (fun bw => (fst bw, Qred (snd bw * f))) p).

Fixpoint subtract (a : alloc) (elected : list (C * Q)) : option alloc :=
  match elected with
  | [] => Some a
  | (c, amount) :: t =>
      match alloc_get a (Some c) with
      | None => None
      | Some p => match gregory_subtract p amount with
                  | None => None
                  | Some p' => subtract (map (fun kp => if okey_eqb (Some c) (fst kp) then (fst kp, p') else kp) a) t
                  end
      end
  end.

(* initial_allocation (sequential.py L352-397) *)
Definition all_ranked_candidates (votes : list (ballot * Q)) : list C :=
  (* util.all_ranked_candidates: rank position by rank position *)
  let maxlen := fold_left (fun m bw => Nat.max m (length (fst bw))) votes O in
  fold_left (fun acc i =>
    fold_left (fun acc bw => match nth_error (fst bw) i with
                             | Some it => fold_left (fun acc c => if cmem c acc then acc else acc ++ [c]) (members it) acc
                             | None => acc end) votes acc) (seq 0 maxlen) [].

Definition initial_allocation (votes : list (ballot * Q)) : alloc :=
  let cands := all_ranked_candidates votes in
  let base : alloc := map (fun c => (Some c, [])) cands in
  let direct := fold_left (fun a bw => match fst bw with
                                       | IP c :: _ => alloc_add a (Some c) (fst bw) (snd bw)
                                       | _ => a end) votes base in
  (* shared first ranks: transferred from a fictional eliminated candidate, continuing = everybody *)
  fold_left (fun a bw => match fst bw with
                         | IS _ :: _ => move_ballot a (next_after (fst bw) cands) (fst bw) (snd bw)
                         | _ => a end) votes direct.

(* ---- one count *)
Record cfg := {
  c_quota : option (Q -> Z -> Q);
  c_accept_equal : bool;
  c_mandatory : bool;
  c_step : Z                         (* eliminate_step *)
}.

Inductive stop := S_nie | S_vse | S_runtime | S_fuel.

Definition some_totals (t : list (option C * Q)) : list (C * Q) :=
  flat_map (fun kt => match fst kt with Some c => [(c, snd kt)] | None => [] end) t.

Definition qfloor_div (x q : Q) : Z := Qfloor (x / q).

(* _elect_by_quota + _correct_overcount (L273-318); max_seats absent = unbounded *)
Definition elect_by_quota (cf : cfg) (tot : list (option C * Q)) (quota : option Q) (n_rem : Z)
           (prev caps : list (C * Z)) : option (list (C * Z)) + stop :=
  match quota with
  | None => inl None
  | Some q =>
      let items := sort_desc Qle_bool (map (fun kt => (fst kt, snd kt)) tot) in
      let sel := flat_map (fun kt : option C * Q =>
                   match fst kt with
                   | None => []
                   | Some c =>
                       let mult := qfloor_div (snd kt) q in
                       let over := Qred (snd kt - inject_Z mult * q) in
                       if c_accept_equal cf || negb (Qeq_bool over 0) then
                         let capped := match dget caps c with Some m => Z.min mult m | None => mult end in
                         let actual := (capped - dget_or prev c 0)%Z in
                         if (0 <? actual)%Z then [(c, actual, over)] else []
                       else []
                   end) items in
      match sel with
      | [] => inl None
      | _ =>
          let awarded := map (fun x => (fst (fst x), snd (fst x))) sel in
          if (n_rem <? zsum (map snd awarded))%Z then
            let kept := get_n_best Qle_bool (map (fun x => (fst (fst x), snd x)) sel) (Z.to_nat n_rem) in
            if existsb (fun r => match r with TieR _ => true | _ => false end) kept then inr S_nie
            else
              let keptc := flat_map (fun r => match r with Cand c => [c] | _ => [] end) kept in
              inl (Some (flat_map (fun cs : C * Z =>
                           if cmem (fst cs) keptc then [cs]
                           else if (1 <? snd cs)%Z then [(fst cs, (snd cs - 1)%Z)] else []) awarded))
          else inl (Some awarded)
      end
  end.

Definition retained_count (cf : cfg) (n : nat) : nat :=
  if (c_step cf <? 0)%Z then Nat.max (Z.to_nat (Z.of_nat n + c_step cf)) 1
  else Nat.min (Z.to_nat (c_step cf)) (n - 1).

Inductive count_result :=
| CR_all (elected : list (C * Z))                       (* elect-all-remaining shortcut: ({}, avail_seats) *)
| CR_next (a : alloc) (elected : list (C * Z))
| CR_stop (s : stop).

Definition next_count (cf : cfg) (a : alloc) (n_seats : Z) (total_votes : Q)
           (prev caps : list (C * Z)) : count_result :=
  let n_rem := (n_seats - zsum (map snd prev))%Z in
  let tot := totals a in
  let by_total := sort_desc Qle_bool tot in
  let unbounded := existsb (fun kt => match fst kt with Some c => negb (dmem caps c) | None => false end) by_total in
  let avail := flat_map (fun kt => match fst kt with
                                   | Some c => [(c, (dget_or caps c 0 - dget_or prev c 0)%Z)]
                                   | None => [] end) by_total in
  if negb unbounded && (zsum (map snd avail) =? n_rem)%Z && negb (c_mandatory cf) then CR_all avail
  else
    let quota := match c_quota cf with
                 | Some qf => if Qeq_bool total_votes 0 || (n_seats =? 0)%Z then None else Some (qf total_votes n_seats)
                 | None => None end in
    match elect_by_quota cf tot quota n_rem prev caps with
    | inr s => CR_stop s
    | inl (Some el) =>
        match quota with
        | None => CR_stop S_runtime
        | Some q =>
            match subtract a (map (fun cs => (fst cs, (inject_Z (snd cs) * q)%Q)) el) with
            | None => CR_stop S_runtime
            | Some a' =>
                let elim := flat_map (fun cs : C * Z =>
                              match dget caps (fst cs) with
                              | Some m => if (m <=? snd cs + dget_or prev (fst cs) 0)%Z then [fst cs] else []
                              | None => [] end) el in
                CR_next (match elim with [] => a' | _ => transfer a' elim end) el
            end
        end
    | inl None =>
        let in_play := some_totals tot in
        let n_ret := retained_count cf (length in_play) in
        let retained := get_n_best Qle_bool in_play n_ret in
        if existsb (fun r => match r with TieR _ => true | _ => false end) retained then CR_stop S_nie
        else
          let keep := flat_map (fun r => match r with Cand c => [c] | _ => [] end) retained in
          let elim := filter (fun c => negb (cmem c keep)) (map fst in_play) in
          CR_next (match elim with [] => a | _ => transfer a elim end) []
    end.

Definition add_seats (seats : list (C * Z)) (el : list (C * Z)) : list (C * Z) :=
  fold_left (fun d cs => dset d (fst cs) (dget_or d (fst cs) 0 + snd cs)%Z) el seats.

Definition alloc_eqb (a b : alloc) : bool :=
  (* dictionaries compared as Python compares them: same keys, same piles (as dicts) *)
  let pile_sub (p q : pile) := forallb (fun bw => existsb (fun bw' => ballot_eqb (fst bw) (fst bw') && Qeq_bool (snd bw) (snd bw')) q) p in
  let sub (x y : alloc) := forallb (fun kp => match alloc_get y (fst kp) with
                                              | Some q => pile_sub (snd kp) q && pile_sub q (snd kp)
                                              | None => false end) x in
  sub a b && sub b a.

(* nth_count (L223-262): the trace of every count *)
Record trace := { t_counts : list (list (option C * Q) * list (C * Z)); t_seats : list (C * Z); t_stop : option stop }.

Fixpoint run (cf : cfg) (fuel : nat) (a : alloc) (n_seats : Z) (total_votes : Q)
         (seats caps : list (C * Z)) (acc : list (list (option C * Q) * list (C * Z))) : trace :=
  if (zsum (map snd seats) =? n_seats)%Z then Build_trace (rev acc) seats None else
  match fuel with
  | O => Build_trace (rev acc) seats (Some S_fuel)
  | S f =>
      match next_count cf a n_seats total_votes seats caps with
      | CR_stop s => Build_trace (rev acc) seats (Some s)
      | CR_all el => Build_trace (rev (([], el) :: acc)) (add_seats seats el) None
      | CR_next a' el =>
          match el with
          | [] => if alloc_eqb a' a then Build_trace (rev acc) seats (Some S_vse)
                  else run cf f a' n_seats total_votes seats caps ((totals a', el) :: acc)
          | _ => run cf f a' n_seats total_votes (add_seats seats el) caps ((totals a', el) :: acc)
          end
      end
  end.

Definition stv (cf : cfg) (votes : list (ballot * Q)) (n_seats : Z) (prev caps : list (C * Z)) : trace :=
  let a := initial_allocation votes in
  let total := Qred (fold_left Qplus (map snd votes) 0%Q) in
  run cf (4 * length (all_ranked_candidates votes) + 8) a n_seats total prev caps [].
