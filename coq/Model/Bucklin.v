(* Model of votelib.evaluate.sequential.PreferenceAddition (sequential.py L495-625): Bucklin voting
   (coefficients 1, 1, 1, ...) and the Oklahoma system (1, 1/2, 1/3, ...).  Executable definitions only.

   evaluate(votes, n_seats):
     votes        := _decouple_equal_rankings(votes)          if split_equal_rankings
     quota        := sum(votes.values()) / 2
     max_pref_len := max(len(ballot))                          ValueError for an empty profile
     for pref_i in range(max_pref_len):
        total_votes[c] += n_votes * coef(pref_i)  for the pref_i-th item of every ballot (skipping elected ones;
                                                  every member of a shared rank gets the whole amount)
        majority := the entries of sorted_votes(total_votes) strictly above quota
        best     := get_n_best(majority, n_seats - len(elected)); elected += best
        stop when len(elected) == n_seats, otherwise drop best from total_votes
     return Tie.reconcile(elected)
   There is no fallback when the preferences run out: fewer than n_seats winners are returned.

   Ranked ballots are [Convert.ranked] (IP c = plain rank, IS l = shared rank, l in the ITERATION order of
   the Python frozenset - it fixes the order in which itertools.permutations emits the variants and so
   the insertion order of candidates into total_votes).  Dictionaries are association lists in
   insertion order; ballot keys are compared structurally (two ballots of a Python dict never differ
   only in the listing order of a shared rank).  Domain: n_seats >= 1 (get_n_best(_, 0) indexes
   sorted_items[-1] in Python; not modelled: PA_unmodelled). *)
From Coq Require Import ZArith QArith List Bool Arith.
From VL Require Import Prelude.Sx Prelude.PyDict Prelude.GDict Model.GetNBest Model.Convert.
Import ListNotations.

Inductive pa_result :=
| PA_ok (l : list (res C))
| PA_value_error          (* max() of an empty sequence: empty profile *)
| PA_index_error          (* coefficients == [] : self.coefficients[-1] *)
| PA_nie                  (* Tie.reconcile: NotImplementedError *)
| PA_unmodelled.          (* n_seats = 0 *)

(* ---- coefficients: a list (its last element repeats) or the callable i -> 1/(i+1) *)
Inductive coefspec := CoefList (l : list Q) | CoefHarmonic.
Definition coef_fun (cs : coefspec) (i : nat) : Q :=
  match cs with
  | CoefList l => nth i l (last l 0%Q)
  | CoefHarmonic => 1 # Pos.of_nat (S i)
  end.
Definition coef_ok (cs : coefspec) : bool := match cs with CoefList [] => false | _ => true end.

(* ---- _decouple_equal_rankings (L565-599) *)
Definition is_shared (i : item) : bool := match i with IS _ => true | IP _ => false end.
Definition has_shared (r : ranked) : bool := existsb is_shared r.

(* every element with the remaining ones, in order *)
Fixpoint picks {X} (l : list X) : list (X * list X) :=
  match l with
  | [] => []
  | x :: t => (x, t) :: map (fun p => (fst p, x :: snd p)) (picks t)
  end.
(* itertools.permutations(l) in emission order (lexicographic in the positions) *)
Fixpoint perms_n (n : nat) (l : list C) : list (list C) :=
  match n with
  | O => [[]]
  | S n' => flat_map (fun p => map (cons (fst p)) (perms_n n' (snd p))) (picks l)
  end.
Definition perms (l : list C) : list (list C) := perms_n (length l) l.

(* the shared ranks of a ballot with their positions: equal_rank_tuples *)
Fixpoint shared_ranks_from (i : nat) (r : ranked) : list (nat * list C) :=
  match r with
  | [] => []
  | IP _ :: t => shared_ranks_from (S i) t
  | IS l :: t => (i, l) :: shared_ranks_from (S i) t
  end.
(* itertools.product: the first factor varies slowest *)
Fixpoint product {X} (ls : list (list X)) : list (list X) :=
  match ls with
  | [] => [[]]
  | l :: t => flat_map (fun x => map (cons x) (product t)) l
  end.
(* var_vote[:pos] + var_part + var_vote[pos+1:] *)
Definition splice (v : ranked) (pos : nat) (part : list C) : ranked :=
  firstn pos v ++ map IP part ++ skipn (S pos) v.
(* the splicing loop L586-594.  AS WRITTEN ([fx] = false): after a part of length k has replaced ONE item the later
   positions have moved by k - 1, but the code advances its offset by k.  From the second shared rank of a ballot on,
   the permuted members are therefore inserted one place too far to the right: the shared rank itself stays in the
   ballot and the item behind it is overwritten.  [fx] = true is the loop with the proposed repair
   (offset += len(var_part) - 1; fixes/C17-bucklin-splice-offset.diff); the check asks the implementation which of
   the two it has.  The offset is an integer: it is -1 after an empty shared rank in the repaired loop, but
   i + offset is never negative there. *)
Fixpoint splice_all (fx : bool) (v : ranked) (offset : Z) (idx : list nat) (parts : list (list C)) : ranked :=
  match idx, parts with
  | i :: idx', p :: parts' =>
      splice_all fx (splice v (Z.to_nat (Z.of_nat i + offset)) p)
                 (offset + Z.of_nat (length p) - (if fx then 1 else 0))%Z idx' parts'
  | _, _ => v
  end.
Definition variants (fx : bool) (r : ranked) : list ranked :=
  let sr := shared_ranks_from 0 r in
  map (splice_all fx r 0%Z (map fst sr)) (product (map (fun il => perms (snd il)) sr)).

Fixpoint list_eqb {X} (e : X -> X -> bool) (l m : list X) : bool :=
  match l, m with
  | [], [] => true
  | x :: l', y :: m' => e x y && list_eqb e l' m'
  | _, _ => false
  end.
Definition item_eqb (a b : item) : bool :=
  match a, b with
  | IP x, IP y => Pos.eqb x y
  | IS l, IS m => list_eqb Pos.eqb l m
  | _, _ => false
  end.
Definition ranked_eqb : ranked -> ranked -> bool := list_eqb item_eqb.

Definition rdel (d : list (ranked * Q)) (k : ranked) : list (ranked * Q) :=
  filter (fun kv => negb (ranked_eqb k (fst kv))) d.

Definition decouple_step (fx : bool) (new : list (ranked * Q)) (bw : ranked * Q) : list (ranked * Q) :=
  if has_shared (fst bw) then
    let vs := variants fx (fst bw) in
    let share := (snd bw / inject_Z (Z.of_nat (length vs)))%Q in
    fold_left (fun acc v => gadd ranked_eqb acc v share) vs (rdel new (fst bw))
  else new.
Definition decouple (fx : bool) (votes : list (ranked * Q)) : list (ranked * Q) := fold_left (decouple_step fx) votes votes.

(* ---- the rounds *)
Definition wsum (votes : list (ranked * Q)) : Q := fold_right (fun bw acc => (snd bw + acc)%Q) 0%Q votes.
Definition max_pref_len (votes : list (ranked * Q)) : nat :=
  fold_right (fun bw acc => Nat.max (length (fst bw)) acc) 0%nat votes.

(* cand in elected: a Tie object never equals a candidate *)
Definition elected_mem (c : C) (elected : list (res C)) : bool :=
  existsb (fun e => match e with Cand c' => ceqb c c' | TieR _ => false end) elected.

(* total_votes[c] += x on a defaultdict(int) *)
Definition tadd (totals : list (C * Q)) (c : C) (x : Q) : list (C * Q) :=
  dset totals c (dget_or totals c 0 + x)%Q.

Definition add_cand (elected : list (res C)) (x : Q) (totals : list (C * Q)) (c : C) : list (C * Q) :=
  if elected_mem c elected then totals else tadd totals c x.

(* _add_round_votes (L601-617) *)
Definition add_ballot (cf : Q) (r : nat) (elected : list (res C)) (totals : list (C * Q)) (bw : ranked * Q)
  : list (C * Q) :=
  match nth_error (fst bw) r with
  | None => totals
  | Some it => fold_left (add_cand elected (snd bw * cf)%Q) (members it) totals
  end.
Definition add_round (coef : nat -> Q) (votes : list (ranked * Q)) (r : nat) (elected : list (res C))
    (totals : list (C * Q)) : list (C * Q) :=
  fold_left (add_ballot (coef r) r elected) votes totals.

Definition majority_of (quota : Q) (totals : list (C * Q)) : list (C * Q) :=
  filter (fun cv => ltb Qle_bool quota (snd cv)) (sort_desc Qle_bool totals).

Definition drop_best (best : list (res C)) (totals : list (C * Q)) : list (C * Q) :=
  filter (fun cv => negb (elected_mem (fst cv) best)) totals.

Fixpoint pa_loop (coef : nat -> Q) (votes : list (ranked * Q)) (quota : Q) (n : nat) (rounds : list nat)
    (totals : list (C * Q)) (elected : list (res C)) : list (res C) :=
  match rounds with
  | [] => elected
  | r :: rest =>
      let totals1 := add_round coef votes r elected totals in
      let best := get_n_best Qle_bool (majority_of quota totals1) (n - length elected) in
      let elected1 := elected ++ best in
      if Nat.eqb (length elected1) n then elected1
      else pa_loop coef votes quota n rest (drop_best best totals1) elected1
  end.

(* ---- Tie.reconcile (core.py L40-63): NotImplementedError when some candidate's tie shares add up to a seat *)
Definition tie_places (elected : list (res C)) : list (C * Q) :=
  fold_left (fun acc e => match e with
                          | Cand _ => acc
                          | TieR l => fold_left (fun acc c => tadd acc c (1 # Pos.of_nat (length l))) l acc
                          end) elected [].
Definition reconcile (elected : list (res C)) : pa_result :=
  if existsb (fun cv => Qle_bool 1 (snd cv)) (tie_places elected) then PA_nie else PA_ok elected.

(* the evaluation on already decoupled (or deliberately not decoupled) votes *)
Definition pa_core (coef : nat -> Q) (votes : list (ranked * Q)) (n : nat) : list (res C) :=
  pa_loop coef votes (wsum votes * (1 # 2))%Q n (seq 0 (max_pref_len votes)) [] [].

(* PreferenceAddition(coefficients, split_equal_rankings).evaluate(votes, n) with the coefficients as a function;
   fx: which splicing loop (false = the code as written) *)
Definition pa_eval (fx : bool) (coef : nat -> Q) (split : bool) (votes : list (ranked * Q)) (n : nat) : pa_result :=
  match n with
  | O => PA_unmodelled
  | _ =>
      let votes1 := if split then decouple fx votes else votes in
      match votes1 with
      | [] => PA_value_error
      | _ => reconcile (pa_core coef votes1 n)
      end
  end.

(* ... and with the constructor argument as given *)
Definition pa_evaluate (fx : bool) (cs : coefspec) (split : bool) (votes : list (ranked * Q)) (n : nat) : pa_result :=
  match n with
  | O => PA_unmodelled
  | _ =>
      let votes1 := if split then decouple fx votes else votes in
      match votes1 with
      | [] => PA_value_error
      | _ => if coef_ok cs || Nat.eqb (max_pref_len votes1) 0 then pa_eval fx (coef_fun cs) split votes n
             else PA_index_error
      end
  end.

(* the presets (fx = false: the code as written) *)
Definition bucklin_coef : nat -> Q := fun _ => 1%Q.
Definition oklahoma_coef : nat -> Q := fun i => 1 # Pos.of_nat (S i).
Definition bucklin (fx : bool) (votes : list (ranked * Q)) (n : nat) : pa_result := pa_eval fx bucklin_coef true votes n.
Definition oklahoma (fx : bool) (votes : list (ranked * Q)) (n : nat) : pa_result := pa_eval fx oklahoma_coef true votes n.
