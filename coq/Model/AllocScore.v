(* Model of votelib.evaluate.cardinal.AllocatedScoreDistributor / AllocatedScoreSelector (cardinal.py L380-592)
   as coded: score sums weighted by the remaining ballot weights (_sum_scores), winner by get_n_best(.., 1)[0],
   quota from the total of the original votes, the 'strongest supporters' exhaustion loop
   (_fraction_out_elected / _find_best_votes, incl. its ValueError on an empty dict or an empty ballot), the
   elimination of a candidate that reached max_seats through SubsettedVotes(ScoreSubsetter) (ballots that become
   equal are merged, ballots that become EMPTY are kept), and the two tie branches of evaluate.
   Executable definitions only.

   Representation: a score ballot (a frozenset of (candidate, score) pairs) is an association list; the wire
   sends it sorted by candidate, one pair per candidate, and removing a candidate keeps that form, so equality of
   frozensets is equality of the lists ([sb_eqb], scores compared as numbers).  The remaining votes
   (current_votes: ballot -> Fraction) are an insertion-ordered list [wprofile] with distinct keys.
   The only place where the iteration order of a set reaches the result is `for cand in best` over a Tie
   (a frozenset): [orders] lists, per tied set, the order in which Python iterates it. *)
From Coq Require Import ZArith QArith Qround List Bool Arith.
From VL Require Import Prelude.PyDict Model.GetNBest Model.Convert Model.Quota.
Import ListNotations.

Definition wprofile := list (sballot * Q).
Definition elected := list (res C * Z).        (* defaultdict(int): candidate or Tie -> seats, insertion order *)

Inductive aerr := AE_value | AE_index | AE_zerodiv | AE_fuel.

(* ---------------------------------------------------------------- _sum_scores *)
Definition sum_scores (cur : wprofile) : list (C * Q) :=
  fold_left (fun d bw =>
    fold_left (fun d cs => dset d (fst cs) (Qred (dget_or d (fst cs) 0 + snd cs * snd bw))) (fst bw) d) cur [].

(* ---------------------------------------------------------------- _find_best_votes *)
Definition qmin (a b : Q) : Q := if Qle_bool b a then b else a.
Definition min_list (l : list Q) : option Q :=
  match l with [] => None | x :: t => Some (fold_left qmin t x) end.

(* min(min(score for cand, score in vote) for vote in current_votes):
   ValueError (None) on an empty dict and on an empty ballot *)
Fixpoint ballot_mins (cur : wprofile) : option (list Q) :=
  match cur with
  | [] => Some []
  | bw :: t => match min_list (map snd (fst bw)), ballot_mins t with
               | Some m, Some r => Some (m :: r)
               | _, _ => None
               end
  end.
Definition overall_min (cur : wprofile) : option Q :=
  match ballot_mins cur with Some l => min_list l | None => None end.

(* the scan: best_score only goes up, starting from the overall minimum score *)
Definition best_score (cur : wprofile) (c : C) (bs0 : Q) : Q :=
  fold_left (fun bs bw => match dget (fst bw) c with
                          | Some s => if Qle_bool s bs then bs else s
                          | None => bs
                          end) cur bs0.
(* best_votes = the ballots that score [c] exactly at the final best_score (a ballot appended at a lower level
   is dropped when a higher score resets the list; the keys of a dict are distinct) *)
Definition is_best (c : C) (bs : Q) (b : sballot) : bool :=
  match dget b c with Some s => Qeq_bool s bs | None => false end.

(* ---------------------------------------------------------------- _fraction_out_elected *)
Fixpoint fraction_out (fuel : nat) (cur : wprofile) (c : C) (ss : Q) : wprofile + aerr :=
  if Qle_bool ss 0 then inl cur else                          (* while subtract_size > 0 *)
  match fuel with
  | O => inr AE_fuel
  | S f =>
      match overall_min cur with
      | None => inr AE_value
      | Some bs0 =>
          let bs := best_score cur c bs0 in
          let size := Qred (qsum (map snd (filter (fun bw => is_best c bs (fst bw)) cur))) in
          if Qeq_bool size 0 then inl cur                      (* no more votes for the candidate *)
          else if Qle_bool size ss then                        (* remove all best votes, one more round *)
            fraction_out f (filter (fun bw => negb (is_best c bs (fst bw))) cur) c (Qred (ss - size))
          else
            let fr := Qred ((size - ss) / size) in             (* spread the subtraction across them equally *)
            inl (map (fun bw => if is_best c bs (fst bw) then (fst bw, Qred (snd bw * fr)) else bw) cur)
      end
  end.

(* ---------------------------------------------------------------- SubsettedVotes(ScoreSubsetter) *)
Fixpoint sb_eqb (a b : sballot) : bool :=
  match a, b with
  | [], [] => true
  | x :: a', y :: b' => ceqb (fst x) (fst y) && Qeq_bool (snd x) (snd y) && sb_eqb a' b'
  | _, _ => false
  end.
(* sub[sub_vote] += n_votes *)
Fixpoint wadd (d : wprofile) (b : sballot) (w : Q) : wprofile :=
  match d with
  | [] => [(b, w)]
  | bw :: t => if sb_eqb b (fst bw) then (fst bw, Qred (snd bw + w)) :: t else bw :: wadd t b w
  end.
Definition drop_cand (c : C) (b : sballot) : sballot := filter (fun p => negb (ceqb (fst p) c)) b.
(* every candidate but [c] is retained; a ballot left without scores stays as an empty ballot *)
Definition subset_out (c : C) (cur : wprofile) : wprofile :=
  fold_left (fun d bw => wadd d (drop_cand c (fst bw)) (snd bw)) cur [].

(* ---------------------------------------------------------------- _subtract_votes *)
Definition subtract_votes (cur : wprofile) (c : C) (gained : Z) (mx : option Z) (quota : Q) : wprofile + aerr :=
  match fraction_out (S (length cur)) cur c quota with
  | inr e => inr e
  | inl cur' =>
      match mx with
      | Some m => if (gained =? m)%Z then inl (subset_out c cur') else inl cur'
      | None => inl cur'
      end
  end.

(* ---------------------------------------------------------------- evaluate *)
Definition res_is (c : C) (r : res C) : bool := match r with Cand c' => ceqb c c' | TieR _ => false end.
Fixpoint eget (e : elected) (c : C) : Z :=
  match e with [] => 0%Z | rk :: t => if res_is c (fst rk) then snd rk else eget t c end.
Fixpoint eincr (e : elected) (c : C) : elected :=
  match e with
  | [] => [(Cand c, 1%Z)]
  | rk :: t => if res_is c (fst rk) then (fst rk, (snd rk + 1)%Z) :: t else rk :: eincr t c
  end.

Record acfg := { ac_quota : Q; ac_prev : list (C * Z); ac_max : list (C * Z); ac_orders : list (list C) }.

Definition same_set (a b : list C) : bool :=
  forallb (fun x => cmem x b) a && forallb (fun x => cmem x a) b.
(* `for cand in best`: the iteration order of the frozenset *)
Definition tie_iter (orders : list (list C)) (t : list C) : list C :=
  match find (same_set t) orders with Some o => o | None => t end.

(* electing one candidate: elected[cand] += 1, then _subtract_votes *)
Definition elect_one (cf : acfg) (cur : wprofile) (el : elected) (c : C) : (wprofile * elected) + aerr :=
  let el' := eincr el c in
  match subtract_votes cur c (eget el' c + dget_or (ac_prev cf) c 0)%Z (dget (ac_max cf) c) (ac_quota cf) with
  | inr e => inr e
  | inl cur' => inl (cur', el')
  end.

Fixpoint elect_all (cf : acfg) (tied : list C) (cur : wprofile) (el : elected) : (wprofile * elected) + aerr :=
  match tied with
  | [] => inl (cur, el)
  | c :: t => match elect_one cf cur el c with
              | inr e => inr e
              | inl (cur', el') => elect_all cf t cur' el'
              end
  end.

Inductive astep :=
| AS_next (cur : wprofile) (el : elected) (rem : nat)
| AS_done (el : elected)
| AS_err (e : aerr).

(* one pass of `while rem_seats > 0` *)
Definition alloc_step (cf : acfg) (cur : wprofile) (el : elected) (rem : nat) : astep :=
  match rem with
  | O => AS_done el
  | S _ =>
      match get_n_best Qle_bool (sum_scores cur) 1 with
      | [] => AS_err AE_index                                   (* get_n_best(..)[0] on an empty dict *)
      | TieR t :: _ =>
          if Nat.leb (length t) rem then                         (* tied best, electing all *)
            match elect_all cf (tie_iter (ac_orders cf) t) cur el with
            | inr e => AS_err e
            | inl (cur', el') => AS_next cur' el' (rem - length t)
            end
          else AS_done (el ++ [(TieR t, Z.of_nat rem)])          (* elected[best] += rem_seats; stop *)
      | Cand c :: _ =>
          match elect_one cf cur el c with
          | inr e => AS_err e
          | inl (cur', el') => AS_next cur' el' (rem - 1)
          end
      end
  end.

Fixpoint alloc_loop (fuel : nat) (cf : acfg) (cur : wprofile) (el : elected) (rem : nat) : elected + aerr :=
  match fuel with
  | O => inr AE_fuel
  | S f => match alloc_step cf cur el rem with
           | AS_done e => inl e
           | AS_err e => inr e
           | AS_next cur' el' rem' => alloc_loop f cf cur' el' rem'
           end
  end.

(* the named quota functions that divide by the number of seats raise ZeroDivisionError for no seats *)
Definition quota_divides_by_seats (qs : quota_spec) : bool :=
  match qs with QNamed i => (i =? 1)%Z || (i =? 2)%Z | QConst _ => false end.

Definition alloc_cfg (qs : quota_spec) (orders : list (list C)) (votes : wprofile) (n : nat)
    (prev mx : list (C * Z)) : acfg :=
  {| ac_quota := Qred (quota_fn qs (qsum (map snd votes)) (Z.of_nat n));
     ac_prev := prev; ac_max := mx; ac_orders := orders |}.

(* AllocatedScoreDistributor.evaluate(votes, n_seats, prev_gains, max_seats) *)
Definition alloc_distribute (qs : quota_spec) (orders : list (list C)) (votes : wprofile) (n : nat)
    (prev mx : list (C * Z)) : elected + aerr :=
  if quota_divides_by_seats qs && Nat.eqb n 0 then inr AE_zerodiv else
  alloc_loop (S n) (alloc_cfg qs orders votes n prev mx) votes [] n.

(* AllocatedScoreSelector.evaluate: max_seats = 1 for every scored candidate; list(dict) = the keys *)
Definition all_scored (votes : wprofile) : list C := flat_map (fun bw => map fst (fst bw)) votes.
Definition alloc_select (qs : quota_spec) (orders : list (list C)) (votes : wprofile) (n : nat)
    : list (res C) + aerr :=
  match alloc_distribute qs orders votes n [] (map (fun c => (c, 1%Z)) (all_scored votes)) with
  | inl el => inl (map fst el)
  | inr e => inr e
  end.

(* ================================================================ the repairs of wave 6 (fixes/C12-allocated-score-*.diff)
   The definitions above stay as they are: the code as pinned.  The [_x] definitions take the repairs applied:
   ra_exhausted  fixes/C12-allocated-score-exhausted  _find_best_votes starts from no best score (no ValueError on an
                 empty ballot / no ballots left); when no remaining ballot scores anybody the candidates that may still
                 gain a seat stand level at zero (no IndexError), and the loop ends when there is none
   ra_tieseats   fixes/C12-allocated-score-tie-seats  the selector lists a tie once per seat it contests *)
Record arepairs := { ra_exhausted : bool; ra_tieseats : bool }.
Definition apinned : arepairs := {| ra_exhausted := false; ra_tieseats := false |}.
Definition arepaired : arepairs := {| ra_exhausted := true; ra_tieseats := true |}.

(* best_score = None until the first ballot (in dict order) that scores the candidate *)
Definition first_score (cur : wprofile) (c : C) : option Q :=
  match flat_map (fun bw : sballot * Q => match dget (fst bw) c with Some s => [s] | None => [] end) cur with
  | [] => None
  | s :: _ => Some s
  end.

Fixpoint fraction_out_r (fuel : nat) (cur : wprofile) (c : C) (ss : Q) : wprofile + aerr :=
  if Qle_bool ss 0 then inl cur else
  match fuel with
  | O => inr AE_fuel
  | S f =>
      match first_score cur c with
      | None => inl cur                                         (* best_votes = []: current_size = 0 *)
      | Some bs0 =>
          let bs := best_score cur c bs0 in
          let size := Qred (qsum (map snd (filter (fun bw => is_best c bs (fst bw)) cur))) in
          if Qeq_bool size 0 then inl cur
          else if Qle_bool size ss then
            fraction_out_r f (filter (fun bw => negb (is_best c bs (fst bw))) cur) c (Qred (ss - size))
          else
            let fr := Qred ((size - ss) / size) in
            inl (map (fun bw => if is_best c bs (fst bw) then (fst bw, Qred (snd bw * fr)) else bw) cur)
      end
  end.

Definition fraction_out_x (ra : arepairs) (fuel : nat) (cur : wprofile) (c : C) (ss : Q) : wprofile + aerr :=
  if ra_exhausted ra then fraction_out_r fuel cur c ss else fraction_out fuel cur c ss.

Definition subtract_votes_x (ra : arepairs) (cur : wprofile) (c : C) (gained : Z) (mx : option Z) (quota : Q)
    : wprofile + aerr :=
  match fraction_out_x ra (S (length cur)) cur c quota with
  | inr e => inr e
  | inl cur' =>
      match mx with
      | Some m => if (gained =? m)%Z then inl (subset_out c cur') else inl cur'
      | None => inl cur'
      end
  end.

Definition elect_one_x (ra : arepairs) (cf : acfg) (cur : wprofile) (el : elected) (c : C) : (wprofile * elected) + aerr :=
  let el' := eincr el c in
  match subtract_votes_x ra cur c (eget el' c + dget_or (ac_prev cf) c 0)%Z (dget (ac_max cf) c) (ac_quota cf) with
  | inr e => inr e
  | inl cur' => inl (cur', el')
  end.

Fixpoint elect_all_x (ra : arepairs) (cf : acfg) (tied : list C) (cur : wprofile) (el : elected)
    : (wprofile * elected) + aerr :=
  match tied with
  | [] => inl (cur, el)
  | c :: t => match elect_one_x ra cf cur el c with
              | inr e => inr e
              | inl (cur', el') => elect_all_x ra cf t cur' el'
              end
  end.

(* max_seats.get(cand) is None or max_seats[cand] > elected.get(cand, 0) + prev_gains.get(cand, 0) *)
Definition may_gain (cf : acfg) (el : elected) (c : C) : bool :=
  match dget (ac_max cf) c with
  | None => true
  | Some m => (eget el c + dget_or (ac_prev cf) c 0 <? m)%Z
  end.

(* the score sums of a round; [cands] = the candidates scored by the original votes *)
Definition round_scores (ra : arepairs) (cands : list C) (cf : acfg) (cur : wprofile) (el : elected) : list (C * Q) :=
  match sum_scores cur with
  | [] => if ra_exhausted ra then map (fun c => (c, 0)) (filter (may_gain cf el) cands) else []
  | agg => agg
  end.

Definition alloc_step_x (ra : arepairs) (cands : list C) (cf : acfg) (cur : wprofile) (el : elected) (rem : nat) : astep :=
  match rem with
  | O => AS_done el
  | S _ =>
      match get_n_best Qle_bool (round_scores ra cands cf cur el) 1 with
      | [] => if ra_exhausted ra then AS_done el                 (* nobody may gain a seat any more: break *)
              else AS_err AE_index
      | TieR t :: _ =>
          if Nat.leb (length t) rem then
            match elect_all_x ra cf (tie_iter (ac_orders cf) t) cur el with
            | inr e => AS_err e
            | inl (cur', el') => AS_next cur' el' (rem - length t)
            end
          else AS_done (el ++ [(TieR t, Z.of_nat rem)])
      | Cand c :: _ =>
          match elect_one_x ra cf cur el c with
          | inr e => AS_err e
          | inl (cur', el') => AS_next cur' el' (rem - 1)
          end
      end
  end.

Fixpoint alloc_loop_x (ra : arepairs) (cands : list C) (fuel : nat) (cf : acfg) (cur : wprofile) (el : elected) (rem : nat)
    : elected + aerr :=
  match fuel with
  | O => inr AE_fuel
  | S f => match alloc_step_x ra cands cf cur el rem with
           | AS_done e => inl e
           | AS_err e => inr e
           | AS_next cur' el' rem' => alloc_loop_x ra cands f cf cur' el' rem'
           end
  end.

Definition alloc_distribute_x (ra : arepairs) (qs : quota_spec) (orders : list (list C)) (votes : wprofile) (n : nat)
    (prev mx : list (C * Z)) : elected + aerr :=
  if quota_divides_by_seats qs && Nat.eqb n 0 then inr AE_zerodiv else
  alloc_loop_x ra (cands_score votes) (S n) (alloc_cfg qs orders votes n prev mx) votes [] n.

(* repaired: [cand for cand, n in elected.items() for i in range(n)] *)
Definition alloc_select_x (ra : arepairs) (qs : quota_spec) (orders : list (list C)) (votes : wprofile) (n : nat)
    : list (res C) + aerr :=
  match alloc_distribute_x ra qs orders votes n [] (map (fun c => (c, 1%Z)) (all_scored votes)) with
  | inl el => inl (if ra_tieseats ra then flat_map (fun rk => repeat (fst rk) (Z.to_nat (snd rk))) el else map fst el)
  | inr e => inr e
  end.
