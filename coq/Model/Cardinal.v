(* Models of the approval and score family:
   approval.py  ProportionalApproval (L46-118), SequentialProportionalApproval (L138-168)
   convert.py   ScoreToSimpleVotes (L160-252) incl. _subtract_lowest (L30-41)
   cardinal.py  ScoreVoting (L63-75), MajorityJudgment (L142-252, both tie-breakers) *)
From Coq Require Import ZArith QArith Qround Qabs List Bool Arith.
From VL Require Import Prelude.PyDict Model.GetNBest Model.Convert.
Import ListNotations.

(* ================================================================ approval *)
Definition aprofile := list (list C * Q).

Fixpoint harmonic (k : nat) : Q := match k with O => 0 | S k' => harmonic k' + (1 # Pos.of_nat k) end.
Definition inter_size (a b : list C) : nat := length (filter (fun c => cmem c b) a).
Definition satisfaction (votes : aprofile) (alt : list C) : Q :=
  fold_left (fun acc bw => acc + harmonic (inter_size (fst bw) alt) * snd bw) votes 0.

(* itertools.combinations *)
Fixpoint combos (l : list C) (n : nat) : list (list C) :=
  match n with
  | O => [[]]
  | S n' => match l with
            | [] => []
            | x :: t => map (cons x) (combos t n') ++ combos t (S n')
            end
  end.

Inductive ares := AR_ok (r : list (res C)) | AR_nie.

Definition pav_best (votes : aprofile) (cands : list C) (n : nat) : list (list C) :=
  let alts := combos cands n in
  let scored := map (fun a => (a, satisfaction votes a)) alts in
  match scored with
  | [] => []
  | (_, s0) :: _ =>
      let best := fold_left (fun b sa => if Qle_bool b (snd sa) then snd sa else b) scored s0 in
      map fst (filter (fun sa => Qeq_bool (snd sa) best) scored)
  end.

Definition pav (votes : aprofile) (n : nat) : ares :=
  let cands := canon_set (flat_map fst votes) in
  match pav_best votes cands n with
  | [alt] =>
      let drops := map (fun c => (c, (- satisfaction votes (filter (fun x => negb (ceqb x c)) alt))%Q)) alt in
      AR_ok (get_n_best Qle_bool drops (length alt))
  | _ => AR_nie
  end.

(* sequential PAV: the round loop *)
Definition spav_round (votes : aprofile) (elected : list C) : list (C * Q) :=
  let all :=
    fold_left (fun d bw =>
      let k := inter_size (fst bw) elected in
      fold_left (fun d c => dset d c (dget_or d c 0 + snd bw / inject_Z (Z.of_nat (S k)))%Q) (fst bw) d) votes [] in
  filter (fun cv => negb (cmem (fst cv) elected)) all.

Fixpoint spav_loop (fuel : nat) (votes : aprofile) (n : nat) (elected : list C) : option (list C) :=
  if Nat.leb n (length elected) then Some elected else
  match fuel with
  | O => Some elected
  | S f =>
      match get_n_best Qle_bool (spav_round votes elected) 1 with
      | [] => Some elected
      | Cand c :: _ => spav_loop f votes n (elected ++ [c])
      | TieR _ :: _ => None            (* NotImplementedError('tie breaking in SPAV') *)
      end
  end.
Definition spav (votes : aprofile) (n : nat) : option (list C) := spav_loop n votes n [].

(* ================================================================ score aggregation *)
Definition sprofile := list (sballot * Z).          (* score ballot -> integer count *)
Definition cscores := list (Q * Z).                 (* score -> count, insertion-ordered *)

Fixpoint cs_get (d : cscores) (s : Q) : option Z :=
  match d with [] => None | (s', n) :: t => if Qeq_bool s s' then Some n else cs_get t s end.
Fixpoint cs_set (d : cscores) (s : Q) (n : Z) : cscores :=
  match d with [] => [(s, n)] | (s', n') :: t => if Qeq_bool s s' then (s', n) :: t else (s', n') :: cs_set t s n end.
Definition cs_del (d : cscores) (s : Q) : cscores := filter (fun sn => negb (Qeq_bool s (fst sn))) d.
Definition cs_total (d : cscores) : Z := fold_left Z.add (map snd d) 0%Z.
Definition expand (d : cscores) : list Q := flat_map (fun sn => repeat (fst sn) (Z.to_nat (snd sn))) d.

Inductive unscored := UNone | UConst (v : Q) | UMin.
Inductive aggfn := FMean | FSum | FMedianLow.
Record score_cfg := {
  sc_fn : aggfn; sc_unscored : unscored; sc_min_count : Z; sc_trunc : Q; sc_bottom : Q }.

Inductive serr := SE_zerodiv | SE_stats | SE_key | SE_value | SE_nie | SE_vse | SE_fuel.

(* sorted(scores.keys()) *)
Fixpoint insert_q (x : Q) (l : list Q) : list Q :=
  match l with [] => [x] | y :: t => if Qle_bool x y then x :: l else y :: insert_q x t end.
Definition sort_q (l : list Q) : list Q := fold_right insert_q [] l.

(* _subtract_lowest; the per-candidate dictionaries are defaultdict(int), so a key deleted by the
   first pass reads as 0 in the second pass (and is deleted again): it is skipped *)
Fixpoint subtract_lowest (d : cscores) (keys : list Q) (cutoff cut : Z) : option cscores :=
  match keys with
  | [] => Some d
  | s :: t =>
      match cs_get d s with
      | None => subtract_lowest d t cutoff cut
      | Some n => if (n <=? cutoff - cut)%Z then subtract_lowest (cs_del d s) t cutoff (cut + n)
                  else Some (cs_set d s (n - (cutoff - cut)))
      end
  end.

Definition list_min (l : list Q) : option Q :=
  match l with [] => None | x :: t => Some (fold_left (fun m y => if Qle_bool y m then y else m) t x) end.

Definition correct_scores (cf : score_cfg) (d : cscores) (n_votes : Z) : cscores + serr :=
  let n_scores := cs_total d in
  if (n_scores <? sc_min_count cf)%Z then inl [(sc_bottom cf, sc_min_count cf)] else
  let d1 : cscores + serr :=
    match sc_unscored cf with
    | UNone => inl d
    | UConst v => inl (cs_set d v (n_votes - n_scores + match cs_get d v with Some n => n | None => 0 end))
    | UMin => match list_min (expand d) with
              | Some v => inl (cs_set d v (n_votes - n_scores + match cs_get d v with Some n => n | None => 0 end))
              | None => inr SE_value
              end
    end in
  match d1 with
  | inr e => inr e
  | inl d1 =>
      if Qle_bool (sc_trunc cf) 0 then inl d1 else
      let cutoff := if Qle_bool 1 (sc_trunc cf) then Qfloor (sc_trunc cf)      (* an integer count *)
                    else Qfloor (inject_Z (if (n_votes =? 0)%Z then n_scores else n_votes) * sc_trunc cf) in
      let keys := sort_q (map fst d1) in
      match subtract_lowest d1 keys cutoff 0 with
      | None => inr SE_key
      | Some d2 => match subtract_lowest d2 (rev keys) cutoff 0 with
                   | None => inr SE_key
                   | Some d3 => inl d3
                   end
      end
  end.

Definition aggregate_one (fn : aggfn) (d : cscores) : Q + serr :=
  let l := expand d in
  match fn with
  | FSum => inl (Qred (fold_left Qplus l 0))
  | FMean => match l with [] => inr SE_zerodiv | _ => inl (Qred (fold_left Qplus l 0 / inject_Z (Z.of_nat (length l)))) end
  | FMedianLow => match l with
                  | [] => inr SE_stats
                  | _ => let s := sort_q l in
                         let n := length s in
                         inl (nth (if Nat.even n then n / 2 - 1 else n / 2) s 0)
                  end
  end.

(* corrected_scores: candidate -> corrected score counts (candidate order = first appearance) *)
Definition raw_scores (votes : sprofile) : list (C * cscores) :=
  fold_left (fun d bn =>
    fold_left (fun d cs =>
      let old := match dget d (fst cs) with Some x => x | None => [] end in
      dset d (fst cs) (cs_set old (snd cs) (match cs_get old (snd cs) with Some k => k | None => 0%Z end + snd bn)))
      (fst bn) d) votes [].

Fixpoint sequence {X Y} (l : list (X * (Y + serr))) : list (X * Y) + serr :=
  match l with
  | [] => inl []
  | (x, inl y) :: t => match sequence t with inl r => inl ((x, y) :: r) | inr e => inr e end
  | (_, inr e) :: _ => inr e
  end.

Definition corrected_scores (cf : score_cfg) (votes : sprofile) : list (C * cscores) + serr :=
  let n_votes := fold_left Z.add (map snd votes) 0%Z in
  sequence (map (fun cd => (fst cd, correct_scores cf (snd cd) n_votes)) (raw_scores votes)).

Definition aggregate (fn : aggfn) (sc : list (C * cscores)) : list (C * Q) + serr :=
  sequence (map (fun cd => (fst cd, aggregate_one fn (snd cd))) sc).

Definition score_to_simple (cf : score_cfg) (votes : sprofile) : list (C * Q) + serr :=
  match corrected_scores cf votes with
  | inr e => inr e
  | inl sc => aggregate (sc_fn cf) sc
  end.

Definition score_voting (cf : score_cfg) (votes : sprofile) (n : nat) : list (res C) + serr :=
  match score_to_simple cf votes with
  | inr e => inr e
  | inl agg => inl (get_n_best Qle_bool agg n)
  end.

(* ================================================================ majority judgment *)
Definition last_tie (order : list (res C)) : option (list C) :=
  match rev order with TieR l :: _ => Some l | _ => None end.
Definition count_tie (order : list (res C)) : nat :=
  length (filter (fun r => match r with TieR _ => true | _ => false end) order).

Definition counts_over (d : cscores) (thr : Q) : Z :=
  fold_left Z.add (map snd (filter (fun sn => Qle_bool thr (fst sn)) d)) 0%Z.

Definition mj_plus (sub : list (C * cscores)) (n : nat) : list (res C) + serr :=
  match sub with
  | [] => inr SE_stats
  | (_, d0) :: _ =>
      match aggregate_one FMedianLow d0 with
      | inr e => inr e
      | inl med => inl (get_n_best Qle_bool (map (fun cd => (fst cd, inject_Z (counts_over (snd cd) med))) sub) n)
      end
  end.

Definition closest_change (sub : list (C * cscores)) (medians : list (C * Q)) : Z :=
  let per := map (fun cd : C * cscores =>
               let m := dget_or medians (fst cd) 0%Q in
               let half := (inject_Z (cs_total (snd cd)) / 2)%Q in
               let lower := inject_Z (fold_left Z.add (map snd (filter (fun sn => Qle_bool m (fst sn)) (snd cd))) 0%Z) in
               let upper := inject_Z (fold_left Z.add (map snd (filter (fun sn => negb (Qle_bool (fst sn) m)) (snd cd))) 0%Z) in
               Z.min (Qceiling (Qabs (lower - half))) (Qceiling (Qabs (upper - half)))) sub in
  match per with [] => 0%Z | x :: t => fold_left Z.min t x end.

Fixpoint mj_default (fuel : nat) (sub : list (C * cscores)) (n : nat) : list (res C) + serr :=
  match fuel with
  | O => inr SE_fuel
  | S f =>
      let mx := fold_left Z.max (map (fun cd => cs_total (snd cd)) sub) 0%Z in
      if (mx <=? 0)%Z then inr SE_vse else
      match aggregate FMedianLow sub with
      | inr e => inr e
      | inl medians =>
          let best := get_n_best Qle_bool medians n in
          (* position of the first tie *)
          let untied := length (filter (fun r => match r with Cand _ => true | _ => false end) best) in
          if Nat.eqb (count_tie best) 0 then inl best
          else if Nat.ltb 0 untied then
            let winners := firstn untied best in
            let wc := flat_map (fun r => match r with Cand c => [c] | _ => [] end) winners in
            match mj_default f (filter (fun cd => negb (cmem (fst cd) wc)) sub) (n - untied) with
            | inl r => inl (winners ++ r)
            | inr e => inr e
            end
          else
            (* the lead is shared: only the level candidates stay in the contest for these seats *)
            let tied := match best with TieR l :: _ => l | _ => [] end in
            let sub1 := filter (fun cd => cmem (fst cd) tied) sub in
            let ch0 := closest_change sub1 medians in
            let ch := if (ch0 =? 0)%Z then 1%Z else ch0 in
            mj_default f (map (fun cd : C * cscores =>
                            let m := dget_or medians (fst cd) 0%Q in
                            (fst cd, cs_set (snd cd) m (match cs_get (snd cd) m with Some k => k | None => 0%Z end - ch))) sub1) n
      end
  end.

Definition majority_judgment (plus : bool) (cf : score_cfg) (votes : sprofile) (n : nat) : list (res C) + serr :=
  match corrected_scores cf votes with
  | inr e => inr e
  | inl sc =>
      match aggregate FMedianLow sc with
      | inr e => inr e
      | inl med =>
          let order := get_n_best Qle_bool med n in
          match last_tie order with
          | None => inl order
          | Some tied =>
              let k := count_tie order in
              let sub := filter (fun cd => cmem (fst cd) tied) sc in
              (* dict comprehension over the Tie (a frozenset): order of [sub] follows the tie members *)
              match (if plus then mj_plus sub k
                     else mj_default (Z.to_nat (fold_left Z.add (map (fun cd => cs_total (snd cd)) sub) 0%Z) + 2) sub k) with
              | inl r => inl (firstn (length order - k) order ++ r)
              | inr e => inr e
              end
          end
      end
  end.

(* ================================================================ the repairs of wave 6 (fixes/C12-*.diff)
   The definitions above stay as they are: the code as pinned.  The [_x] definitions below take the set of repairs
   that is applied; [pinned] (no repair) gives the definitions above back (Proofs/Repair_proofs.v), [repaired] is the
   code the harness runs against.
   rp_trunc   fixes/C12-truncation-middle    the cut-off never goes past the middle score(s) of the candidate
   rp_mj      fixes/C12-mj-default-exhausted a level candidate that has run out of scores ranks below the others
   rp_counted fixes/C12-score-counted        sum / mean / min / low median are computed from the (score -> count)
                                             dictionary, no list with one element per voter *)
Record repairs := { rp_trunc : bool; rp_mj : bool; rp_counted : bool }.
Definition pinned : repairs := {| rp_trunc := false; rp_mj := false; rp_counted := false |}.
Definition repaired : repairs := {| rp_trunc := true; rp_mj := true; rp_counted := true |}.

(* util._counted_sum *)
Definition cs_wsum (d : cscores) : Q := fold_left (fun acc sn => acc + fst sn * inject_Z (snd sn)) d 0.
(* the values with a positive count *)
Definition pos_keys (d : cscores) : list Q := map fst (filter (fun sn : Q * Z => (0 <? snd sn)%Z) d).

(* util._counted_middle over the sorted values with a positive count: [low] is fixed by the first value whose running
   count reaches half of the total, the answer is given at the first value whose running count passes it;
   None = StatisticsError (no value with a positive count passes half of the total) *)
Fixpoint counted_middle (d : cscores) (keys : list Q) (total running : Z) (low : option Q) : option (Q * Q) :=
  match keys with
  | [] => None
  | v :: t =>
      let running := (running + match cs_get d v with Some k => k | None => 0 end)%Z in
      let low := match low with
                 | Some l => Some l
                 | None => if (total <=? 2 * running)%Z then Some v else None
                 end in
      if (total <? 2 * running)%Z then match low with Some l => Some (l, v) | None => None end
      else counted_middle d t total running low
  end.

Definition aggregate_one_w (fn : aggfn) (d : cscores) : Q + serr :=
  match fn with
  | FSum => inl (Qred (cs_wsum d))
  | FMean => if (cs_total d =? 0)%Z then inr SE_zerodiv                  (* Fraction(total, 0) *)
             else inl (Qred (cs_wsum d / inject_Z (cs_total d)))
  | FMedianLow => match counted_middle d (sort_q (pos_keys d)) (cs_total d) 0%Z None with
                  | Some (l, _) => inl l
                  | None => inr SE_stats
                  end
  end.

Definition aggregate_one_x (rp : repairs) (fn : aggfn) (d : cscores) : Q + serr :=
  if rp_counted rp then aggregate_one_w fn d else aggregate_one fn d.

Definition correct_scores_x (rp : repairs) (cf : score_cfg) (d : cscores) (n_votes : Z) : cscores + serr :=
  let n_scores := cs_total d in
  if (n_scores <? sc_min_count cf)%Z then inl [(sc_bottom cf, sc_min_count cf)] else
  let d1 : cscores + serr :=
    match sc_unscored cf with
    | UNone => inl d
    | UConst v => inl (cs_set d v (n_votes - n_scores + match cs_get d v with Some n => n | None => 0 end))
    | UMin => match list_min (if rp_counted rp then pos_keys d else expand d) with
              | Some v => inl (cs_set d v (n_votes - n_scores + match cs_get d v with Some n => n | None => 0 end))
              | None => inr SE_value
              end
    end in
  match d1 with
  | inr e => inr e
  | inl d1 =>
      if Qle_bool (sc_trunc cf) 0 then inl d1 else
      let cutoff0 := if Qle_bool 1 (sc_trunc cf) then Qfloor (sc_trunc cf)
                     else Qfloor (inject_Z (if (n_votes =? 0)%Z then n_scores else n_votes) * sc_trunc cf) in
      (* cutoff = max(0, min(cutoff, (sum(scores.values()) - 1) // 2)) *)
      let cutoff := if rp_trunc rp then Z.max 0 (Z.min cutoff0 ((cs_total d1 - 1) / 2)) else cutoff0 in
      let keys := sort_q (map fst d1) in
      match subtract_lowest d1 keys cutoff 0 with
      | None => inr SE_key
      | Some d2 => match subtract_lowest d2 (rev keys) cutoff 0 with
                   | None => inr SE_key
                   | Some d3 => inl d3
                   end
      end
  end.

Definition corrected_scores_x (rp : repairs) (cf : score_cfg) (votes : sprofile) : list (C * cscores) + serr :=
  let n_votes := fold_left Z.add (map snd votes) 0%Z in
  sequence (map (fun cd => (fst cd, correct_scores_x rp cf (snd cd) n_votes)) (raw_scores votes)).

Definition aggregate_x (rp : repairs) (fn : aggfn) (sc : list (C * cscores)) : list (C * Q) + serr :=
  sequence (map (fun cd => (fst cd, aggregate_one_x rp fn (snd cd))) sc).

Definition score_to_simple_x (rp : repairs) (cf : score_cfg) (votes : sprofile) : list (C * Q) + serr :=
  match corrected_scores_x rp cf votes with
  | inr e => inr e
  | inl sc => aggregate_x rp (sc_fn cf) sc
  end.

Definition score_voting_x (rp : repairs) (cf : score_cfg) (votes : sprofile) (n : nat) : list (res C) + serr :=
  match score_to_simple_x rp cf votes with
  | inr e => inr e
  | inl agg => inl (get_n_best Qle_bool agg n)
  end.

Definition mj_plus_x (rp : repairs) (sub : list (C * cscores)) (n : nat) : list (res C) + serr :=
  match sub with
  | [] => inr SE_stats
  | (_, d0) :: _ =>
      match aggregate_one_x rp FMedianLow d0 with
      | inr e => inr e
      | inl med => inl (get_n_best Qle_bool (map (fun cd => (fst cd, inject_Z (counts_over (snd cd) med))) sub) n)
      end
  end.

(* the candidates that still hold a score *)
Definition mj_live (sub : list (C * cscores)) : list (C * cscores) :=
  filter (fun cd : C * cscores => negb (cs_total (snd cd) =? 0)%Z) sub.

Fixpoint mj_default_x (rp : repairs) (fuel : nat) (sub : list (C * cscores)) (n : nat) : list (res C) + serr :=
  match fuel with
  | O => inr SE_fuel
  | S f =>
      let mx := fold_left Z.max (map (fun cd => cs_total (snd cd)) sub) 0%Z in
      if (mx <=? 0)%Z then inr SE_vse else
      (* repaired: a candidate that has run out of scores ranks below those that still have some; when fewer live
         candidates than seats are left the cut falls among the exhausted ones: `break` -> VotingSystemError *)
      let sub := if rp_mj rp then mj_live sub else sub in
      if rp_mj rp && Nat.ltb (length sub) n then inr SE_vse else
      match aggregate_x rp FMedianLow sub with
      | inr e => inr e
      | inl medians =>
          let best := get_n_best Qle_bool medians n in
          let untied := length (filter (fun r => match r with Cand _ => true | _ => false end) best) in
          if Nat.eqb (count_tie best) 0 then inl best
          else if Nat.ltb 0 untied then
            let winners := firstn untied best in
            let wc := flat_map (fun r => match r with Cand c => [c] | _ => [] end) winners in
            match mj_default_x rp f (filter (fun cd => negb (cmem (fst cd) wc)) sub) (n - untied) with
            | inl r => inl (winners ++ r)
            | inr e => inr e
            end
          else
            let tied := match best with TieR l :: _ => l | _ => [] end in
            let sub1 := filter (fun cd => cmem (fst cd) tied) sub in
            let ch0 := closest_change sub1 medians in
            let ch := if (ch0 =? 0)%Z then 1%Z else ch0 in
            mj_default_x rp f (map (fun cd : C * cscores =>
                            let m := dget_or medians (fst cd) 0%Q in
                            (fst cd, cs_set (snd cd) m (match cs_get (snd cd) m with Some k => k | None => 0%Z end - ch))) sub1) n
      end
  end.

Definition majority_judgment_x (rp : repairs) (plus : bool) (cf : score_cfg) (votes : sprofile) (n : nat)
    : list (res C) + serr :=
  match corrected_scores_x rp cf votes with
  | inr e => inr e
  | inl sc =>
      match aggregate_x rp FMedianLow sc with
      | inr e => inr e
      | inl med =>
          let order := get_n_best Qle_bool med n in
          match last_tie order with
          | None => inl order
          | Some tied =>
              let k := count_tie order in
              let sub := filter (fun cd => cmem (fst cd) tied) sc in
              match (if plus then mj_plus_x rp sub k
                     else mj_default_x rp (Z.to_nat (fold_left Z.add (map (fun cd => cs_total (snd cd)) sub) 0%Z) + 2) sub k) with
              | inl r => inl (firstn (length order - k) order ++ r)
              | inr e => inr e
              end
          end
      end
  end.
