(* Wire-level wrappers of property C18: decode arguments from sx, run the model, encode.
   Dispatch.v routes a block of unit numbers here; [k] is the offset inside the block. *)
From Coq Require Import ZArith QArith List Bool.
From VL Require Import Prelude.Sx Prelude.PyDict Model.GetNBest Model.Convert Model.Cardinal Model.Units
     Model.State Model.Alias.
Import ListNotations.
Open Scope Z_scope.

Definition E_RUNTIME : Z := 16.

(* ---- unit 160: ProportionalApproval call sequence on ONE shared object
   args: (strict ((votes n) ...)) -> (0 (out ...)) *)
Definition of_pav_out (o : pav_out) : sx :=
  match o with
  | PO_ok r => ok (L (map of_res r))
  | PO_nie => err E_NIE
  | PO_index => err E_INDEX
  end.
Definition as_pav_call (s : sx) : option pav_call :=
  match s with
  | L [v; n] => match as_aprofile v, as_nat n with Some v, Some n => Some (v, n) | _, _ => None end
  | _ => None
  end.
Definition u_pav_seq (a : sx) : sx :=
  match a with
  | L [st; cs] =>
      match as_bool st, as_listof as_pav_call cs with
      | Some strict, Some calls => ok (L (map of_pav_out (outs (pav_step strict) pav_init calls)))
      | _, _ => bad_input
      end
  | _ => bad_input
  end.

(* ---- unit 161: Borda scorer shared by a RankedToPositionalVotes converter
   args: (base (call ...)) ; call = (0 votes) convert | (1 k) set_n_candidates | (2 n) scores *)
Definition as_borda_call (s : sx) : option borda_call :=
  match s with
  | L [A 0; v] => match as_rprofile v with Some v => Some (BConvert v) | None => None end
  | L [A 1; k] => match as_nat k with Some k => Some (BSetN k) | None => None end
  | L [A 2; n] => match as_nat n with Some n => Some (BScores n) | None => None end
  | _ => None
  end.
Definition of_borda_out (o : borda_out) : sx :=
  match o with
  | BO_none => ok (L [])
  | BO_scores (inl l) => ok (L (map of_Q l))
  | BO_scores (inr BE_value) => err E_VALUE
  | BO_scores (inr BE_runtime) => err E_RUNTIME
  | BO_conv (Some d) => of_gdict d
  | BO_conv None => err E_VALUE
  end.
Definition u_borda_seq (a : sx) : sx :=
  match a with
  | L [A base; cs] =>
      match as_listof as_borda_call cs with
      | Some calls => ok (L (map of_borda_out (outs (borda_step base) borda_init calls)))
      | None => bad_input
      end
  | _ => bad_input
  end.

(* ---- unit 162: seeded selection with the recorded draws as the generator oracle
   args: (kind votes n tape) ; kind 0 = RandomUnrankedBallotSelector, 1 = Sortitor
   -> (0 (chosen draws_left)) *)
Definition u_seeded_select (a : sx) : sx :=
  match a with
  | L [A kind; v; n; tp] =>
      match as_dict as_pos as_Z v, as_nat n, as_listof as_Z tp with
      | Some votes, Some n, Some tape =>
          let body := if (kind =? 0)%Z then ballot_body (list Z) tape_randrange else sortitor_body (list Z) tape_randrange in
          match body tape (votes, n) with
          | (SO_ok l, rest) => ok (L [L (map of_pos l); A (Z.of_nat (length rest))])
          | (SO_index, _) => err E_INDEX
          | (SO_value, _) => err E_VALUE
          end
      | _, _, _ => bad_input
      end
  | _ => bad_input
  end.

(* ---- unit 163: MultistageDistributor / UnusedVotesDistributor over the store
   args: (kind repaired depth prev (stage_result ...)) ; kind 0 multistage, 1 unused votes ;
         depth 1: dicts cand -> int ; depth 2: dicts constituency -> dict cand -> int
   -> (0 (result prev_gains_after_the_call)) *)
Definition flat_sdict (d : list (C * Z)) : sdict := map (fun kv => (fst kv, VInt (snd kv))) d.
Definition flat_wt (d : list (C * Z)) : wt := WOwn (map (fun kv => (fst kv, WInt (snd kv))) d).
Definition nested_wt (d : list (C * list (C * Z))) : wt := WOwn (map (fun kv => (fst kv, flat_wt (snd kv))) d).
(* inner dictionaries at locations 0..m-1, the outer one at m *)
Definition nested_store (d : list (C * list (C * Z))) : store * loc :=
  (map (fun kv => flat_sdict (snd kv)) d
     ++ [map (fun ikv => (fst (snd ikv), VRef (fst ikv))) (combine (seq 0 (length d)) d)],
   length d).

Definition of_outcome (depth : nat) (prev : loc) (r : outcome (store * wt)) : sx :=
  match r with
  | Ok (st', t') => ok (L [read_tree depth st' t'; read_tree depth st' (WAlias prev)])
  | Crash c => err c
  end.

Definition run_ms (kind : Z) (repaired : bool) (d : nat) (st : store) (prev : loc) (results : list wt)
  : outcome (store * wt) :=
  if (kind =? 0)%Z then ms_evaluate union_order (map (fun r => fun (_ : store) (_ : wt) => r) results) repaired d st prev
  else uv_evaluate union_order results false d st prev.

Definition u_multistage (a : sx) : sx :=
  match a with
  | L [A kind; rp; A 1; p; rs] =>
      match as_bool rp, as_dict as_pos as_Z p, as_listof (as_dict as_pos as_Z) rs with
      | Some repaired, Some prev, Some results =>
          of_outcome 1 0%nat (run_ms kind repaired 0 [flat_sdict prev] 0%nat (map flat_wt results))
      | _, _, _ => bad_input
      end
  | L [A kind; rp; A 2; p; rs] =>
      match as_bool rp, as_dict as_pos (as_dict as_pos as_Z) p,
            as_listof (as_dict as_pos (as_dict as_pos as_Z)) rs with
      | Some repaired, Some prev, Some results =>
          let (st, l) := nested_store prev in
          of_outcome 2 l (run_ms kind repaired 1 st l (map nested_wt results))
      | _, _, _ => bad_input
      end
  | _ => bad_input
  end.

Definition u_c18 (k : Z) (a : sx) : sx :=
  match k with
  | 0 => u_pav_seq a
  | 1 => u_borda_seq a
  | 2 => u_seeded_select a
  | 3 => u_multistage a
  | _ => bad_input
  end.
