(* Wire-level wrappers of property C18: decode arguments from sx, run the model, encode.
   Dispatch.v routes a block of unit numbers here; [k] is the offset inside the block. *)
From Coq Require Import ZArith QArith List Bool.
From VL Require Import Prelude.Sx.
Import ListNotations.
Open Scope Z_scope.

Definition u_c18 (k : Z) (a : sx) : sx :=
  match k with
  | _ => bad_input
  end.
