(* Model of votelib.evaluate.proportional.HighestAverages.evaluate
   (proportional.py L436-478), mirroring its control structure.

   The Python code keeps an ASCENDING quotient list and pops from its tail;
   the model keeps the same list REVERSED (descending, head = next seat).
   bisect_left on the ascending list (insert before equal elements) is
   "insert after all elements >= x" on the reversed list. *)
From Coq Require Import ZArith QArith List Bool.
From VL Require Import Prelude.PyDict Model.GetNBest.
Import ListNotations.
Open Scope Z_scope.

Section HA.
  Variable d : Z -> Q.                    (* divisor function *)

  Definition qitem := (C * Q)%type.

  (* re-insertion: after every element >= x (descending list) *)
  Fixpoint insert_after_ge (x : qitem) (l : list qitem) : list qitem :=
    match l with
    | [] => [x]
    | y :: t => if Qle_bool (snd x) (snd y) then y :: insert_after_ge x t else x :: y :: t
    end.

  Definition cap_of (caps : list (C * Z)) (n : Z) (c : C) : Z := dget_or caps c n.

  Definition initial_quotients (votes : list (C * Q)) (totals caps : list (C * Z)) (n : Z) : list qitem :=
    let items :=
      flat_map (fun cv : C * Q =>
        let (c, v) := cv in
        let t := dget_or totals c 0 in
        if Qle_bool (d t) 0 then [] else
        if t <? cap_of caps n c then [(c, (v / d t)%Q)] else []) votes in
    rev (sort_asc Qle_bool items).

  (* length of the maximal run of items level with the head *)
  Fixpoint run_length (m : Q) (l : list qitem) : nat :=
    match l with
    | [] => O
    | y :: t => if Qeq_bool (snd y) m then S (run_length m t) else O
    end.

  Definition incr := incr_t.

  (* pop the head k times, re-inserting each popped party when still under its cap *)
  Fixpoint pop_reinsert (votes : list (C * Q)) (caps : list (C * Z)) (n : Z)
           (totals : list (C * Z)) (k : nat) (qs : list qitem) : list qitem :=
    match k with
    | O => qs
    | S k' =>
        match qs with
        | [] => []
        | (c, _) :: rest =>
            let t := dget_or totals c 0 in
            let rest' :=
              if t <? cap_of caps n c
              then match dget votes c with
                   | Some v => insert_after_ge (c, (v / d t)%Q) rest
                   | None => rest
                   end
              else rest in
            pop_reinsert votes caps n totals k' rest'
        end
    end.

  Record state := mk_state {
    st_qs : list qitem;                (* descending quotients of eligible parties *)
    st_totals : list (C * Z);          (* seats held incl. prev_gains *)
    st_rem : Z;
    st_tie : option (list C * Z);      (* Tie key and its seats *)
    st_awards : list (C * Q)           (* ghost: every seat awarded so far with its quotient *)
  }.

  Definition step (votes : list (C * Q)) (caps : list (C * Z)) (n : Z) (s : state) : state :=
    match st_qs s with
    | [] => s
    | (c0, m) :: _ =>
        let k := run_length m (st_qs s) in
        let batch := firstn k (st_qs s) in
        if Z.of_nat k <=? st_rem s then
          (* to_elect = candidates[-n_elect:] : ascending order = reverse of the head run *)
          let totals' := fold_left incr (map fst (rev batch)) (st_totals s) in
          mk_state (pop_reinsert votes caps n totals' k (st_qs s)) totals'
                   (st_rem s - Z.of_nat k) None (st_awards s ++ rev batch)
        else
          mk_state (pop_reinsert votes caps n (st_totals s) k (st_qs s)) (st_totals s)
                   0 (Some (map fst (rev batch), st_rem s)) (st_awards s)
    end.

  Fixpoint loop (votes : list (C * Q)) (caps : list (C * Z)) (n : Z) (fuel : nat) (s : state) : state :=
    match fuel with
    | O => s
    | S f =>
        if (0 <? st_rem s) && negb (match st_qs s with [] => true | _ => false end)
        then loop votes caps n f (step votes caps n s)
        else s
    end.

  Inductive ha_result :=
  | HA_ok (gains : list (C * Z)) (tie : option (list C * Z))
  | HA_value_error.                      (* zip of an empty list: nobody eligible *)

  Definition init_state (votes : list (C * Q)) (n : Z) (prev caps : list (C * Z)) : state :=
    mk_state (initial_quotients votes prev caps n) prev
             (n - zsum (map snd prev)) None [].

  Definition final_state (votes : list (C * Q)) (n : Z) (prev caps : list (C * Z)) : state :=
    let s0 := init_state votes n prev caps in
    loop votes caps n (Z.to_nat (st_rem s0)) s0.

  Definition evaluate (votes : list (C * Q)) (n : Z) (prev caps : list (C * Z)) : ha_result :=
    match initial_quotients votes prev caps n with
    | [] => HA_value_error
    | _ =>
        let s := final_state votes n prev caps in
        HA_ok (flat_map (fun ct : C * Z =>
                 let (c, t) := ct in
                 let g := t - dget_or prev c 0 in
                 if 0 <? g then [(c, g)] else []) (st_totals s))
              (st_tie s)
    end.
End HA.
