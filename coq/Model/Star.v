(* Model of votelib.evaluate.cardinal.STAR (cardinal.py L343-370) with its default configuration:
   run-off of n_seats + 1 members chosen by the score sums (ScoreToSimpleVotes 'sum'), pairwise counts through
   ScoreToRankedVotes (unscored_value None) and RankedToCondorcetVotes (unranked_at_bottom), restricted to the
   run-off members, decided by Schulze.  Executable definitions only. *)
From Coq Require Import ZArith QArith List Bool.
From VL Require Import Prelude.PyDict Model.GetNBest Model.Convert Model.Cardinal Model.Condorcet.
Import ListNotations.

Definition star_cfg : score_cfg :=
  {| sc_fn := FSum; sc_unscored := UNone; sc_min_count := 0%Z; sc_trunc := 0%Q; sc_bottom := 0%Q |}.

(* the ranked image of a score ballot places x over y: x is scored, and y is scored strictly lower or not scored
   at all (RankedToCondorcetVotes counts the unranked candidates below every ranked one) *)
Definition prefers (b : sballot) (x y : C) : bool :=
  match dget b x with
  | None => false
  | Some vx => match dget b y with None => negb (ceqb x y) | Some vy => negb (Qle_bool vx vy) end
  end.

Definition padd (v : pvotes) (p : pair) (n : Z) : pvotes := pset v p (pget0 v p + n)%Z.

(* counts[upper, lower] += n_votes, kept only for pairs of run-off members *)
Definition star_pairwise (votes : sprofile) (members : list C) : pvotes :=
  fold_left (fun pv bw =>
     fold_left (fun pv x =>
        fold_left (fun pv y => if prefers (fst bw) x y then padd pv (x, y) (snd bw) else pv) members pv)
        members pv) votes [].

(* `cand in runoff_members`: a Tie object in the list equals no candidate *)
Definition star_members (runoff : list (res C)) : list C :=
  flat_map (fun r => match r with Cand c => [c] | TieR _ => [] end) runoff.

(* [order]: iteration order of the candidate set inside Schulze.widest_paths *)
Definition star (votes : sprofile) (order : list C) (n : nat) : list (res C) + serr :=
  match score_to_simple star_cfg votes with
  | inr e => inr e
  | inl agg =>
      let members := star_members (get_n_best Qle_bool agg (n + 1)) in
      inl (schulze (star_pairwise votes members) order n)
  end.

(* the order in which the candidates first appear in the pairwise dictionary *)
Definition star_auto (votes : sprofile) (n : nat) : list (res C) + serr :=
  match score_to_simple star_cfg votes with
  | inr e => inr e
  | inl agg =>
      let members := star_members (get_n_best Qle_bool agg (n + 1)) in
      star votes (candidates (star_pairwise votes members)) n
  end.
