(* Generated-vs-handwritten tie for the accumulating converters of votelib/convert.py (C13).

   tools/py2v.py (part 6) regenerates on every run the BODY of convert() of
     ApprovalToSimpleVotes (plain and split), RankedToFirstPreference, RankedToFirstNPreferences, RankedToApprovalVotes, ScoreToApprovalVotesThreshold,
     InvertedSimpleVotes, InvertedApprovalVotes, RankedToPresenceCounts, VoteTotals  and of  votelib.util.add_dict_to_dict
   into Gen/Convert.v: the loops over the ballots (and the loops nested in them) as fold_left, the defaultdict(int) / dict / set
   operations as the primitives of Prelude/PyConv.v.  This file proves that these generated functions ARE the models the C13
   theorems (Props/C13.v: per-ballot exactness, additivity, conservation) are about - the accumulating fold [dconv img] over the
   per-ballot images of Model/Convert.v, [inv_simple], [add_dict], [vote_totals] of Model/Convert2.v:

     GenTie_Convert_approval_simple   deq (ApprovalToSimpleVotes(split).convert votes)      (dconv (img_approval_simple split) votes)
     GenTie_Convert_first_preference  deq (RankedToFirstPreference().convert votes)         (dconv img_first votes)
     GenTie_Convert_first_n           oconv (img_first_n n) votes = Some o -> deq (RankedToFirstNPreferences(n).convert votes) o
                                      (the model's domain: no shared rank among the first n of a ballot)
     GenTie_Convert_ranked_approval   deq (RankedToApprovalVotes().convert votes)           (dconv img_ranked_approval votes)
     GenTie_Convert_score_approval    deq (ScoreToApprovalVotesThreshold(thr).convert votes) (dconv (img_score_approval thr) votes)
     GenTie_Convert_add_dict          deq (add_dict_to_dict(d1, d2): d1 afterwards)          (add_dict d1 d2)
     GenTie_Convert_vote_totals       deq (VoteTotals().convert votes)                       (vote_totals votes)
     GenTie_Convert_inverted_simple   InvertedSimpleVotes.convert votes = inv_simple votes   (the keys of a dictionary are distinct)
     GenTie_Convert_presence          dsim (RankedToPresenceCounts().convert votes) (dconv img_presence votes), for every function standing for
                                      util.all_rankings (not translated) that lists each (candidate, count) occurrence of the profile once
     GenTie_Convert_inverted_approval deq (InvertedApprovalVotes.convert votes) (dconv (img_inverted_approval (cands_approval votes)) votes)
                                      (distinct keys, each frozenset key in its canonical form: then the complements are distinct too)

   [deq] (Proofs/Convert2_proofs.v) is dictionary equality in the sense the C13 theorems use: the same keys in the same order with
   equal (==) counts.  All ballots, all counts, all profiles - no hypothesis except the distinct keys of an input dictionary where the
   code builds the result with a dictionary comprehension (a later equal key would overwrite).

   Frozensets: a frozenset VALUE is its ascending member list (Model/Convert.v), iterated in that order, frozenset(..) is canon_set
   (Prelude/PyConv.v) - the order parameter of the model; no result here depends on it except through the order of first insertion
   of the keys, which C13 does not observe.

   Proof style: one characterising lemma per loop shape ([deq_fold]: a loop over the ballots is the model's fold when one iteration is,
   pointwise; [inner_char]: a loop adding to output[key x] for the members x of the ballot; [flatten_char]: a loop collecting the
   candidates of a ranking), the loop bodies are only used through their pointwise behaviour (case analysis on the ballot), so that
   equivalent spellings of the source (renamed locals, swapped branches, the test written the other way round) leave the proofs intact. *)
From Coq Require Import ZArith QArith List Bool Lia Arith Permutation.
From VL Require Import Prelude.Sx Prelude.PyDict Prelude.GDict Prelude.PyNum Prelude.PyList Prelude.PyConv Model.GetNBest
     Model.Convert Model.Convert2 Proofs.Convert_proofs Proofs.Convert2_proofs Proofs.JR_proofs Proofs.ChainCands_proofs Proofs.GenConvert_proofs Proofs.GenConvert2_proofs Proofs.PySeq_proofs.
From VL Require Gen.Convert.
Import ListNotations.
Open Scope Q_scope.

(* ---- ApprovalToSimpleVotes.convert *)
Lemma tie_approval_simple split votes :
  deq (Gen.Convert.ApprovalToSimpleVotes_convert split votes) (dconv (img_approval_simple split) votes).
Proof.
  unfold Gen.Convert.ApprovalToSimpleVotes_convert. rewrite dconv_unfold. cbv zeta.
  apply deq_fold; [|constructor]. intros a b [bl w] Hab. cbn [fst snd]. unfold img_approval_simple.
  apply (inner_char kc _ (fun _ => if split then 1 # Pos.of_nat (length bl) else 1) w); [|exact Hab].
  intros c Hc. rewrite py_len_pos. destruct bl as [|c0 t]; [destruct Hc|].
  destruct split; cbn [andb].
  - unfold py_frac, py_len. cbn [length]. rewrite <- Pos.of_nat_succ.
    change (Z.of_nat (S (length t))) with (Z.pos (Pos.of_succ_nat (length t))). unfold Qdiv. rewrite Qmult_comm. reflexivity.
  - symmetry. apply Qmult_1_l.
Qed.

(* ---- RankedToFirstPreference.convert *)
Lemma tie_first_preference votes :
  deq (Gen.Convert.RankedToFirstPreference_convert votes) (dconv img_first votes).
Proof.
  unfold Gen.Convert.RankedToFirstPreference_convert. rewrite dconv_unfold. cbv zeta.
  apply deq_fold; [|constructor]. intros a b [r w] Hab. cbn [fst snd]. unfold img_first.
  destruct r as [|i r]; cbn [fold_left]; [exact Hab|]. unfold madd. cbn [fst snd].
  apply deq_dd_add; [exact Hab|]. symmetry. apply Qmult_1_l.
Qed.

(* ---- RankedToApprovalVotes.convert *)
Lemma tie_ranked_approval votes :
  deq (Gen.Convert.RankedToApprovalVotes_convert votes) (dconv img_ranked_approval votes).
Proof.
  unfold Gen.Convert.RankedToApprovalVotes_convert. rewrite dconv_unfold. cbv zeta.
  apply deq_fold; [|constructor]. intros a b [r w] Hab. cbn [fst snd]. unfold img_ranked_approval. cbn [fold_left].
  rewrite flatten_char by (intros vc [c|l]; reflexivity). cbn [app]. unfold madd, py_frozenset. cbn [fst snd].
  apply deq_dd_add; [exact Hab|]. symmetry. apply Qmult_1_l.
Qed.

(* ---- ScoreToApprovalVotesThreshold.convert *)
Lemma tie_score_approval thr votes :
  deq (Gen.Convert.ScoreToApprovalVotesThreshold_convert thr votes) (dconv (img_score_approval thr) votes).
Proof.
  unfold Gen.Convert.ScoreToApprovalVotesThreshold_convert. rewrite dconv_unfold. cbv zeta.
  apply deq_fold; [|constructor]. intros a b [bl w] Hab. cbn [fst snd]. unfold img_score_approval, py_frozenset, py_ge.
  rewrite py_len_pos.
  match goal with |- context [py_dd_add _ (kset (canon_set ?x))] =>
    change x with (map fst (filter (fun cs : C * Q => Qle_bool thr (snd cs)) bl)) end.
  set (appr := map fst (filter _ bl)). clearbody appr.
  destruct (canon_set appr) eqn:EC.
  - apply (proj1 (canon_set_nil_iff _)) in EC. rewrite EC. cbn [fold_left]. exact Hab.
  - destruct appr as [|x t]; [discriminate EC|]. cbn [fold_left]. unfold madd. cbn [fst snd]. rewrite <- EC.
    apply deq_dd_add; [exact Hab|]. symmetry. apply Qmult_1_l.
Qed.

(* ---- votelib.util.add_dict_to_dict, VoteTotals.convert *)
Lemma tie_add_dict d1 d1' d2 : deq d1 d1' -> deq (Gen.Convert.add_dict_to_dict d1 d2) (add_dict d1' d2).
Proof.
  intros H. unfold Gen.Convert.add_dict_to_dict, add_dict. cbv zeta.
  apply deq_fold; [|exact H]. intros a b [k v] Hab. cbn [fst snd]. apply deq_set_get; [exact Hab|reflexivity].
Qed.

Lemma tie_vote_totals votes : deq (Gen.Convert.VoteTotals_convert votes) (vote_totals votes).
Proof.
  unfold Gen.Convert.VoteTotals_convert, vote_totals. cbv zeta. rewrite fold_left_map'.
  apply deq_fold; [|constructor]. intros a b [c d] Hab. cbn [snd]. apply tie_add_dict, Hab.
Qed.

(* ---- InvertedSimpleVotes.convert: a dictionary comprehension over the items of a dictionary *)
Lemma gset_fresh (d : fdict) k x : ~ In k (keys d) -> gset sx_eqb d k x = d ++ [(k, x)].
Proof.
  induction d as [|[k1 v1] d IH]; intros H; cbn [gset app]; [reflexivity|].
  destruct (sx_eqb k k1) eqn:E.
  - apply sx_eqb_eq in E. subst k1. exfalso. apply H. left. reflexivity.
  - rewrite IH; [reflexivity|]. intros I. apply H. right. exact I.
Qed.

Lemma py_dict_of_from (l : list (sx * Q)) : forall acc, NoDup (keys acc ++ keys l) ->
  fold_left (fun d kv => py_dict_set d (fst kv) (snd kv)) l acc = acc ++ l.
Proof.
  induction l as [|[k v] l IH]; intros acc H; cbn [fold_left]; [rewrite app_nil_r; reflexivity|].
  unfold py_dict_set at 2. cbn [fst snd]. rewrite gset_fresh.
  - rewrite IH; [rewrite <- app_assoc; reflexivity|]. unfold keys in *. rewrite map_app. cbn [map fst]. rewrite <- app_assoc. exact H.
  - unfold keys in *. cbn [map fst] in H. apply NoDup_remove_2 in H. intros I. apply H. apply in_or_app. left. exact I.
Qed.

Lemma py_dict_of_nodup l : NoDup (keys l) -> py_dict_of l = l.
Proof. intros H. unfold py_dict_of. rewrite py_dict_of_from; [reflexivity|exact H]. Qed.

Lemma tie_inverted_simple votes : NoDup (keys votes) -> Gen.Convert.InvertedSimpleVotes_convert votes = inv_simple votes.
Proof.
  intros H. unfold Gen.Convert.InvertedSimpleVotes_convert, inv_simple. cbv zeta.
  rewrite py_dict_of_nodup; [reflexivity|]. unfold keys. rewrite map_map. cbn [fst]. exact H.
Qed.

(* ---- InvertedApprovalVotes.convert: a dictionary comprehension keyed by the complement of the ballot *)
Lemma cmem_in_iff c l : cmem c l = true <-> In c l.
Proof.
  induction l as [|x l IH]; cbn [cmem In]; [split; [discriminate|tauto]|].
  rewrite orb_true_iff, IH. unfold ceqb. rewrite Pos.eqb_eq. split; intros [H|H]; auto.
Qed.

Lemma in_set_diff x a b : In x (set_diff a b) <-> In x a /\ ~ In x b.
Proof.
  unfold set_diff. rewrite filter_In, negb_true_iff. split; intros [H1 H2]; (split; [exact H1|]).
  - intros I. apply cmem_in_iff in I. congruence.
  - destruct (cmem x b) eqn:E; [|reflexivity]. apply cmem_in_iff in E. contradiction.
Qed.

Lemma kset_inj l l' : kset l = kset l' -> l = l'.
Proof.
  unfold kset. intros H. injection H as H. revert l' H. induction l as [|x l IH]; intros [|y l'] H; try discriminate; [reflexivity|].
  cbn [map] in H. injection H as H1 H2. rewrite (IH _ H2). f_equal. congruence.
Qed.

(* the complement within [all] is injective on the canonical ballots inside [all] *)
Lemma complement_inj all b1 b2 : incl b1 all -> incl b2 all -> canon_set b1 = b1 -> canon_set b2 = b2 ->
  canon_set (set_diff all b1) = canon_set (set_diff all b2) -> b1 = b2.
Proof.
  intros I1 I2 C1 C2 H. rewrite <- C1, <- C2. apply canon_set_ext. intros x.
  assert (S : forall y, In y (set_diff all b1) <-> In y (set_diff all b2)).
  { intros y. rewrite <- (proj2 (canon_set_spec (set_diff all b1)) y), <- (proj2 (canon_set_spec (set_diff all b2)) y), H. reflexivity. }
  split; intros Hx.
  - destruct (cmem x b2) eqn:E; [apply cmem_in_iff, E|]. exfalso.
    assert (N : ~ In x b2) by (intros I; apply cmem_in_iff in I; congruence).
    assert (D : In x (set_diff all b2)) by (apply in_set_diff; split; [apply I1, Hx|exact N]).
    apply S, in_set_diff in D. destruct D as [_ D]. contradiction.
  - destruct (cmem x b1) eqn:E; [apply cmem_in_iff, E|]. exfalso.
    assert (N : ~ In x b1) by (intros I; apply cmem_in_iff in I; congruence).
    assert (D : In x (set_diff all b1)) by (apply in_set_diff; split; [apply I2, Hx|exact N]).
    apply S, in_set_diff in D. destruct D as [_ D]. contradiction.
Qed.

Lemma nodup_map_inj_on {X Y} (f : X -> Y) (l : list X) :
  NoDup l -> (forall x y, In x l -> In y l -> f x = f y -> x = y) -> NoDup (map f l).
Proof.
  induction 1 as [|x l Hx Hl IH]; intros Hf; cbn [map]; constructor.
  - intros I. apply in_map_iff in I. destruct I as (y & E & Iy). apply Hx.
    rewrite (Hf x y (or_introl eq_refl) (or_intror Iy) (eq_sym E)). exact Iy.
  - apply IH. intros a b Ia Ib. apply Hf; right; assumption.
Qed.

(* distinct one-key images: the accumulating fold lists them, in order *)
Lemma dconv_single_from {B} (key : B -> sx) (votes : list (B * Q)) : forall acc acc' : fdict,
  deq acc acc' -> NoDup (keys acc' ++ map (fun bw => key (fst bw)) votes) ->
  deq (acc ++ map (fun bw => (key (fst bw), snd bw)) votes)
      (fold_left (fun a bw => fold_left (madd (snd bw)) [(key (fst bw), 1)] a) votes acc').
Proof.
  induction votes as [|[b w] votes IH]; intros acc acc' Hd Hn; cbn [map fold_left fst snd].
  - rewrite app_nil_r. exact Hd.
  - unfold madd at 2. cbn [fst snd]. rewrite gadd_fresh.
    + change ((key b, w) :: map (fun bw => (key (fst bw), snd bw)) votes) with ([(key b, w)] ++ map (fun bw => (key (fst bw), snd bw)) votes).
      rewrite app_assoc. apply IH.
      * apply Forall2_app; [exact Hd|]. constructor; [|constructor]. split; [reflexivity|]. cbn [snd]. symmetry. apply Qmult_1_l.
      * unfold keys in *. rewrite map_app. cbn [map fst]. rewrite <- app_assoc. exact Hn.
    + cbn [map fst snd] in Hn. apply NoDup_remove_2 in Hn. intros I. apply Hn. apply in_or_app. left. exact I.
Qed.

Lemma tie_inverted_approval (votes : list (list C * Q)) :
  NoDup (map fst votes) -> Forall (fun bw => canon_set (fst bw) = fst bw) votes ->
  deq (Gen.Convert.InvertedApprovalVotes_convert votes) (dconv (img_inverted_approval (cands_approval votes)) votes).
Proof.
  intros Hn Hc. unfold Gen.Convert.InvertedApprovalVotes_convert. cbv zeta.
  assert (EA : forall f : list C -> list C, (forall v, f v = v) ->
               py_frozenset (flat_map f (map fst votes)) = cands_approval votes).
  { intros f Hf. unfold py_frozenset, cands_approval. f_equal. clear Hn Hc.
    induction votes as [|[b w] t IH]; cbn [map flat_map fst]; [reflexivity|]. rewrite Hf, IH. reflexivity. }
  match goal with |- context [py_frozenset (flat_map ?f (map fst votes))] =>
    rewrite (EA f) by (intros v; cbv beta; apply map_id) end. clear EA. set (all := cands_approval votes).
  assert (ND : NoDup (map (fun bw : list C * Q => kset (canon_set (set_diff all (fst bw)))) votes)).
  { rewrite <- (map_map fst (fun b => kset (canon_set (set_diff all b)))). apply nodup_map_inj_on; [exact Hn|].
    intros b1 b2 I1 I2 E. apply kset_inj in E.
    assert (SUB : forall b, In b (map fst votes) -> incl b all).
    { intros b Ib x Hx. unfold all, cands_approval. apply (proj2 (canon_set_spec _)). apply in_flat_map.
      apply in_map_iff in Ib. destruct Ib as (bw & Eb & Ibw). exists bw. split; [exact Ibw|rewrite Eb; exact Hx]. }
    assert (CAN : forall b, In b (map fst votes) -> canon_set b = b).
    { intros b Ib. apply in_map_iff in Ib. destruct Ib as (bw & Eb & Ibw). rewrite Forall_forall in Hc. rewrite <- Eb. apply Hc, Ibw. }
    apply (complement_inj all); auto. }
  rewrite py_dict_of_nodup.
  - rewrite dconv_unfold. unfold img_inverted_approval.
    apply (deq_trans _ ([] ++ map (fun bw : list C * Q => (kset (canon_set (set_diff all (fst bw))), snd bw)) votes)).
    + cbn [app]. unfold py_frozenset, set_diff.
      assert (E : forall l l' : fdict, l = l' -> deq l l') by (intros l l' ->; apply deq_refl). apply E. apply map_ext.
      intros [b w]. cbn [fst snd]. rewrite map_id. reflexivity.
    + apply (dconv_single_from (fun b => kset (canon_set (set_diff all b)))); [constructor|]. cbn [keys map app]. exact ND.
  - unfold keys. rewrite map_map. cbn [fst]. unfold py_frozenset.
    assert (E : forall l l' : list sx, l = l' -> NoDup l' -> NoDup l) by (intros l l' ->; auto). refine (E _ _ _ ND). apply map_ext. intros [b w]. cbn [fst]. rewrite map_id. reflexivity.
Qed.

(* ---- RankedToPresenceCounts.convert: one addition per item of util.all_rankings(votes), which is NOT translated (a generator with a
   while loop): a function parameter.  What is used of it: it lists every (candidate, count) occurrence of the profile once - in
   whatever order (the code goes rank by rank, the model ballot by ballot). *)
Definition presence_listing (votes : list (ranked * Q)) : list (C * Q) :=
  flat_map (fun bw => map (fun c => (c, snd bw)) (flatten (fst bw))) votes.

Lemma fold_left_ext' {X Y} (f g : Y -> X -> Y) l : (forall a x, f a x = g a x) -> forall a, fold_left f l a = fold_left g l a.
Proof. intros H. induction l as [|x l IH]; intros a; cbn [fold_left]; [reflexivity|]. rewrite H. apply IH. Qed.

Lemma tie_presence (f : list (ranked * Q) -> list (C * (Z * Q))) votes :
  Permutation (map (fun t => (fst t, snd (snd t))) (f votes)) (presence_listing votes) ->
  dsim (Gen.Convert.RankedToPresenceCounts_convert f votes) (dconv img_presence votes).
Proof.
  intros HP. set (single := fun c : C => [(kc c, 1)]). set (g := fun t : C * (Z * Q) => (fst t, snd (snd t))) in *.
  assert (D : deq (Gen.Convert.RankedToPresenceCounts_convert f votes) (dconv single (map g (f votes)))).
  { unfold Gen.Convert.RankedToPresenceCounts_convert. cbv zeta. rewrite dconv_unfold, fold_left_map'.
    apply deq_fold; [|constructor]. intros a b [c [rk w]] Hab. unfold g, single. cbn [fst snd fold_left]. unfold madd. cbn [fst snd].
    apply deq_dd_add; [exact Hab|]. symmetry. apply Qmult_1_l. }
  apply (dsim_trans _ (dconv single (map g (f votes)))).
  { apply deq_dsim; [exact D|]. rewrite (deq_keys _ _ D). apply nodup_conv. }
  apply (dsim_trans _ (dconv single (presence_listing votes))); [apply dconv_ballot_perm, HP|].
  assert (E : dconv single (presence_listing votes) = dconv img_presence votes).
  { rewrite !dconv_unfold. unfold presence_listing. rewrite fold_left_flat_map. apply fold_left_ext'. intros a [r w]. cbn [fst snd].
    unfold img_presence. rewrite !fold_left_map'. reflexivity. }
  rewrite E. apply dsim_refl, nodup_conv.
Qed.

(* ---- RankedToFirstNPreferences.convert: the first n ranks as one frozenset key.  The model (img_first_n) covers the ballots
   without a shared rank among the first n (elsewhere it is None: the key would be a frozenset containing frozensets); the generated
   code is total (py_key_itemset).  The tie is stated where the model speaks. *)
Lemma deq_fold_in {X} (f g : fdict -> X -> fdict) (l : list X) :
  (forall a b x, In x l -> deq a b -> deq (f a x) (g b x)) -> forall a b, deq a b -> deq (fold_left f l a) (fold_left g l b).
Proof.
  induction l as [|x l IH]; intros H a b Hab; cbn [fold_left]; [exact Hab|].
  apply IH; [intros a' b' y Hy; apply H; right; exact Hy|]. apply H; [left; reflexivity|exact Hab].
Qed.

Lemma all_plain_key (l : list item) :
  forallb (fun i => match i with IP _ => true | IS _ => false end) l = true -> py_key_itemset l = kset (canon_set (flatten l)).
Proof.
  intros H. assert (E : item_plains l = flatten l /\ item_sets l = []).
  { induction l as [|[c|s] l IH]; cbn [forallb andb] in H; [split; reflexivity| |discriminate H].
    destruct (IH H) as [E1 E2]. unfold item_plains, item_sets, flatten in *. cbn [flat_map members app]. rewrite E1, E2. split; reflexivity. }
  destruct E as [E1 E2]. unfold py_key_itemset, kset. rewrite E1, E2. cbn [canon_sets fold_left map]. rewrite app_nil_r. reflexivity.
Qed.

Lemma tie_first_n (n : nat) votes o :
  oconv (img_first_n n) votes = Some o -> deq (Gen.Convert.RankedToFirstNPreferences_convert (Z.of_nat n) votes) o.
Proof.
  unfold oconv. destruct (forallb _ votes) eqn:HF; [|discriminate]. intros E. injection E as <-.
  unfold Gen.Convert.RankedToFirstNPreferences_convert. rewrite dconv_unfold. cbv zeta.
  apply deq_fold_in; [|constructor]. intros a b [r w] Hin Hab. cbn [fst snd].
  rewrite forallb_forall in HF. specialize (HF _ Hin). cbn [fst] in HF. unfold img_first_n in *.
  destruct r as [|i r]; [cbn [fold_left]; exact Hab|].
  rewrite py_slice_to_nat.
  destruct (forallb (fun i0 => match i0 with IP _ => true | IS _ => false end) (firstn n (i :: r))) eqn:EP; [|discriminate HF].
  cbn [fold_left]. unfold madd. cbn [fst snd]. rewrite (all_plain_key _ EP).
  apply deq_dd_add; [exact Hab|]. symmetry. apply Qmult_1_l.
Qed.

(* ================= the tie theorems ================= *)
Theorem GenTie_Convert_approval_simple : forall (split : bool) (votes : list (list C * Q)),
  deq (Gen.Convert.ApprovalToSimpleVotes_convert split votes) (dconv (img_approval_simple split) votes).
Proof. exact tie_approval_simple. Qed.

Theorem GenTie_Convert_first_preference : forall votes : list (ranked * Q),
  deq (Gen.Convert.RankedToFirstPreference_convert votes) (dconv img_first votes).
Proof. exact tie_first_preference. Qed.

Theorem GenTie_Convert_ranked_approval : forall votes : list (ranked * Q),
  deq (Gen.Convert.RankedToApprovalVotes_convert votes) (dconv img_ranked_approval votes).
Proof. exact tie_ranked_approval. Qed.

Theorem GenTie_Convert_score_approval : forall (thr : Q) (votes : list (sballot * Q)),
  deq (Gen.Convert.ScoreToApprovalVotesThreshold_convert thr votes) (dconv (img_score_approval thr) votes).
Proof. exact tie_score_approval. Qed.

Theorem GenTie_Convert_add_dict : forall d1 d2 : fdict, deq (Gen.Convert.add_dict_to_dict d1 d2) (add_dict d1 d2).
Proof. intros d1 d2. apply tie_add_dict, deq_refl. Qed.

Theorem GenTie_Convert_vote_totals : forall votes : ndict, deq (Gen.Convert.VoteTotals_convert votes) (vote_totals votes).
Proof. exact tie_vote_totals. Qed.

Theorem GenTie_Convert_inverted_simple : forall votes : fdict, NoDup (keys votes) ->
  Gen.Convert.InvertedSimpleVotes_convert votes = inv_simple votes.
Proof. exact tie_inverted_simple. Qed.

Theorem GenTie_Convert_inverted_approval : forall votes : list (list C * Q),
  NoDup (map fst votes) -> Forall (fun bw => canon_set (fst bw) = fst bw) votes ->
  deq (Gen.Convert.InvertedApprovalVotes_convert votes) (dconv (img_inverted_approval (cands_approval votes)) votes).
Proof. exact tie_inverted_approval. Qed.

(* the hypotheses hold of a dictionary of frozensets: distinct keys, each in the canonical form *)
Example gen_convert_inverted_approval_hyp :
  let votes := [([1; 2]%positive, 3 # 1); ([2; 3]%positive, 1 # 1); ([], 2 # 1)] in
  NoDup (map fst votes) /\ Forall (fun bw : list C * Q => canon_set (fst bw) = fst bw) votes /\
  Gen.Convert.InvertedApprovalVotes_convert votes = [(kset [3]%positive, 3 # 1); (kset [1]%positive, 1 # 1); (kset [1; 2; 3]%positive, 2 # 1)].
Proof.
  cbv zeta. split; [|split; [|reflexivity]].
  - repeat constructor; cbn [In]; intros H; repeat destruct H as [H|H]; try discriminate H; exact H.
  - repeat constructor.
Qed.

Theorem GenTie_Convert_presence : forall (f : list (ranked * Q) -> list (C * (Z * Q))) (votes : list (ranked * Q)),
  Permutation (map (fun t => (fst t, snd (snd t))) (f votes)) (presence_listing votes) ->
  dsim (Gen.Convert.RankedToPresenceCounts_convert f votes) (dconv img_presence votes).
Proof. exact tie_presence. Qed.

(* the hypothesis holds of the rank-by-rank listing util.all_rankings produces (here written out for one profile) *)
Example gen_convert_presence_hyp :
  let votes := [([IS [1; 2]%positive; IP 3%positive], 2 # 1); ([IP 3%positive; IP 1%positive], 1 # 1)] in
  let f := fun _ : list (ranked * Q) => [(1, (0%Z, 2 # 1)); (2, (0%Z, 2 # 1)); (3, (0%Z, 1 # 1)); (3, (1%Z, 2 # 1)); (1, (1%Z, 1 # 1))]%positive in
  Permutation (map (fun t => (fst t, snd (snd t))) (f votes)) (presence_listing votes) /\
  Gen.Convert.RankedToPresenceCounts_convert f votes = [(kc 1%positive, 0 + (2 # 1) + (1 # 1)); (kc 2%positive, 0 + (2 # 1)); (kc 3%positive, 0 + (1 # 1) + (2 # 1))].
Proof.
  cbv zeta. split; [|reflexivity]. cbn.
  apply perm_skip, perm_skip. apply perm_trans with ((3%positive, 2 # 1) :: (3%positive, 1 # 1) :: [(1%positive, 1 # 1)]); [apply perm_swap|].
  apply Permutation_refl.
Qed.

Theorem GenTie_Convert_first_n : forall (n : nat) (votes : list (ranked * Q)) (o : list (sx * Q)),
  oconv (img_first_n n) votes = Some o -> deq (Gen.Convert.RankedToFirstNPreferences_convert (Z.of_nat n) votes) o.
Proof. exact tie_first_n. Qed.

(* the hypothesis is satisfiable (no shared rank among the first two); outside it the generated code still answers: the key holds a set *)
Example gen_convert_first_n_example :
  let votes := [([IP 3; IP 1; IS [2; 4]]%positive, 2 # 1); ([], 1 # 1); ([IP 1; IP 3]%positive, 4 # 1)] in
  oconv (img_first_n 2) votes = Some [(kset [1; 3]%positive, 1 * (2 # 1) + 1 * (4 # 1))] /\
  Gen.Convert.RankedToFirstNPreferences_convert 2 votes = [(kset [1; 3]%positive, 0 + (2 # 1) + (4 # 1))] /\
  Gen.Convert.RankedToFirstNPreferences_convert 3 votes
    = [(L [kc 1%positive; kc 3%positive; kset [2; 4]%positive], 0 + (2 # 1)); (kset [1; 3]%positive, 0 + (4 # 1))].
Proof. repeat split; reflexivity. Qed.

(* what [run_kind] of Model/Convert2.v answers for a decodable profile is the generated function (the four kinds translated here) *)
Corollary GenTie_Convert_run_kind : forall (d : fdict),
  (forall sp v, decode_all key_approval d = Some v ->
     exists o, run_kind (KApprovalSimple sp) d = COk (VF o) /\ deq (Gen.Convert.ApprovalToSimpleVotes_convert sp v) o) /\
  (forall v, decode_all key_ranked d = Some v ->
     exists o, run_kind KFirst d = COk (VF o) /\ deq (Gen.Convert.RankedToFirstPreference_convert v) o) /\
  (forall v, decode_all key_ranked d = Some v ->
     exists o, run_kind KRankedApproval d = COk (VF o) /\ deq (Gen.Convert.RankedToApprovalVotes_convert v) o) /\
  (forall th v, decode_all key_score d = Some v ->
     exists o, run_kind (KScoreApproval th) d = COk (VF o) /\ deq (Gen.Convert.ScoreToApprovalVotesThreshold_convert th v) o).
Proof.
  intros d. repeat split; intros; unfold run_kind, with_votes; rewrite H; eexists; (split; [reflexivity|]).
  - apply tie_approval_simple.
  - apply tie_first_preference.
  - apply tie_ranked_approval.
  - apply tie_score_approval.
Qed.

(* non-vacuity: shared ranks, an empty approval ballot under split, equal images, a key met twice *)
Example gen_convert_example :
  Gen.Convert.ApprovalToSimpleVotes_convert true [([1; 2]%positive, 3 # 1); ([], 5 # 1); ([2]%positive, 1 # 1)]
    = [(kc 1%positive, 0 + (3 # 1) / inject_Z 2); (kc 2%positive, 0 + (3 # 1) / inject_Z 2 + (1 # 1))] /\
  Gen.Convert.RankedToFirstPreference_convert [([IS [1; 2]%positive; IP 3%positive], 2 # 1); ([], 1 # 1); ([IP 3%positive], 4 # 1)]
    = [(kset [1; 2]%positive, 0 + (2 # 1)); (kc 3%positive, 0 + (4 # 1))] /\
  Gen.Convert.RankedToApprovalVotes_convert [([IP 3%positive; IS [1; 2]%positive], 2 # 1); ([IP 2%positive; IP 1%positive; IP 3%positive], 1 # 1)]
    = [(kset [1; 2; 3]%positive, 0 + (2 # 1) + (1 # 1))] /\
  Gen.Convert.ScoreToApprovalVotesThreshold_convert (2 # 1) [([(1%positive, 3 # 1); (2%positive, 1 # 1)], 2 # 1); ([(1%positive, 0 # 1)], 7 # 1)]
    = [(kset [1]%positive, 0 + (2 # 1))] /\
  Gen.Convert.VoteTotals_convert [(A 1, [(A 5, 1 # 1); (A 6, 2 # 1)]); (A 2, [(A 6, 3 # 1)])]
    = [(A 5, inject_Z 0 + (1 # 1)); (A 6, inject_Z 0 + (2 # 1) + (3 # 1))] /\
  Gen.Convert.InvertedSimpleVotes_convert [(A 5, 1 # 1); (A 6, 2 # 1)] = [(A 5, - (1 # 1)); (A 6, - (2 # 1))].
Proof. repeat split; reflexivity. Qed.

Print Assumptions GenTie_Convert_approval_simple.
Print Assumptions GenTie_Convert_first_preference.
Print Assumptions GenTie_Convert_ranked_approval.
Print Assumptions GenTie_Convert_score_approval.
Print Assumptions GenTie_Convert_add_dict.
Print Assumptions GenTie_Convert_vote_totals.
Print Assumptions GenTie_Convert_inverted_simple.
Print Assumptions GenTie_Convert_run_kind.
Print Assumptions GenTie_Convert_inverted_approval.
Print Assumptions GenTie_Convert_presence.
Print Assumptions GenTie_Convert_first_n.
