(* C09 - Plurality ranks by exact votes and reports boundary ties as ties.
   This file holds ONLY the property theorems (closed by [exact]) and their
   Print Assumptions.  Model: Model/GetNBest.v ; proofs: Proofs/GetNBest_proofs.v.

   Values are rationals (Python int / Fraction / Decimal are exact rationals);
   the comparison is Qle_bool, so "equal" means equal as rationals (1/2 = 2/4). *)
From Coq Require Import QArith List Arith Permutation Sorted.
From VL Require Import Model.GetNBest Proofs.GetNBest_proofs Proofs.QOrd.
Import ListNotations.
Close Scope Q_scope.

Section C09.
  Variable C : Type.
  Notation votes_t := (list (C * Q)).
  Notation gnb := (@get_n_best C Q Qle_bool).
  Notation qeqv := (eqv Qle_bool).
  Notation qltb := (ltb Qle_bool).
  Notation sorted := (@sorted_desc C Q Qle_bool).

  (* sorted_votes: a stable descending sort *)
  Theorem C09_sorted : forall votes : votes_t,
    Permutation (sort_desc Qle_bool votes) votes /\ sorted (sort_desc Qle_bool votes) /\
    forall thr, filter (fun it => qeqv (snd it) thr) (sort_desc Qle_bool votes)
              = filter (fun it => qeqv (snd it) thr) votes.
  Proof.
    intros votes. split; [|split].
    - exact (sort_desc_perm Qle_bool votes).
    - exact (sort_desc_sorted Qle_bool Qle_bool_total Qle_bool_trans votes).
    - exact (fun thr => sort_desc_filter_level Qle_bool Qle_bool_trans thr votes).
  Qed.

  (* the full statement: [above] = strictly more than the n-th total, in
     non-increasing order; [level] = exactly the n-th total. *)
  Theorem C09_spec : forall (votes : votes_t) (n : nat), 1 <= n ->
    let r := gnb votes n in
    (length votes <= n ->
       exists s, Permutation s votes /\ sorted s /\ r = map (fun it => Cand (fst it)) s) /\
    (n < length votes ->
       exists above level below thr,
         Permutation (above ++ level ++ below) votes /\
         sorted above /\
         Forall (fun it => qltb thr (snd it) = true) above /\
         Forall (fun it => qeqv (snd it) thr = true) level /\
         Forall (fun it => qltb (snd it) thr = true) below /\
         length above < n <= length above + length level /\
         (length above + length level = n ->
            r = map (fun it => Cand (fst it)) (above ++ level)) /\
         (n < length above + length level ->
            r = map (fun it => Cand (fst it)) above
                ++ repeat (TieR (map fst level)) (n - length above))).
  Proof. exact (get_n_best_spec Qle_bool Qle_bool_total Qle_bool_trans). Qed.

  (* a tie object names exactly the candidates level with one input total *)
  Theorem C09_tie_members : forall (votes : votes_t) n T,
    In (TieR T) (gnb votes n) ->
    exists thr, T = map fst (filter (fun it => qeqv (snd it) thr) votes) /\
                (exists c, In (c, thr) votes).
  Proof. exact (get_n_best_tie_members Qle_bool Qle_bool_trans). Qed.

  (* nobody with fewer votes is elected instead of one with more *)
  Theorem C09_no_inversion : forall (votes : votes_t) n, 1 <= n -> NoDup (map fst votes) ->
    forall c v c' v', In (c, v) votes -> In (c', v') votes -> qltb v v' = true ->
    In (Cand c) (gnb votes n) -> In (Cand c') (gnb votes n).
  Proof. exact (get_n_best_no_inversion Qle_bool Qle_bool_total Qle_bool_trans). Qed.
End C09.

(* non-vacuity: a concrete mapping with a tie at the cut *)
Example C09_example :
  get_n_best Qle_bool [(1%positive, 5#1); (2%positive, 7#2); (3%positive, 7#2); (4%positive, 14#4)]%Q 2
  = [Cand 1%positive; TieR [2%positive; 3%positive; 4%positive]].
Proof. vm_compute. reflexivity. Qed.

Print Assumptions C09_sorted.
Print Assumptions C09_spec.
Print Assumptions C09_tie_members.
Print Assumptions C09_no_inversion.
