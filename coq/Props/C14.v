(* C14 - Composition wrappers equal the explicit composition of their parts.
   Property theorems only.  Model: Model/Wrappers.v (deep embedding of the wrapper classes of
   votelib/evaluate/core.py; leaves and converters are ARBITRARY functions); proofs:
   Proofs/Wrappers_proofs.v, Proofs/TieBreak_proofs.v.

   run_impl = the code: Python calls (positional + keyword arguments) bound against each
   evaluate() signature, inspect-based accepts_seats / accepts_prev_gains dispatch.
   run_spec = the by-hand composition over semantic arguments, deciding what a part is given
   from what it semantically takes.  The shared parts (VoteTotals, SubsettedVotes,
   add_dict_to_dict, tie replacement) are one definition used by both - the theorem is about
   forwarding; the parts are characterised separately below and tied to the code by correspondence. *)
From Coq Require Import ZArith List Bool Lia.
From VL Require Import Model.Wrappers Proofs.Wrappers_proofs Proofs.TieBreak_proofs.
Import ListNotations.
Open Scope Z_scope.

(* ---- composition: any nesting, any depth, both call styles, every input *)
(* wrapper trees: PreConverted, PostConverted, FixedSeatCount, Conditioned, ByConstituency (fixed / delegated / distributor
   apportionment, the distributor possibly SEATLESS), PreApportioned, RemovedApportionment, ByParty (overall evaluator possibly
   seatless), MultistageDistributor, TieBreaking, PartyListEvaluator (closed / open), VotingSystem, UnusedVotesDistributor
   (any depth; quota functions arbitrary), AdjustedSeatCount (calculator arbitrary, or AllowOverhang / LevelOverhang over a
   tree).  [fits]: every supplied argument is one the tree takes; [seat_fits]: the seat count supplied (a number, a
   dictionary, None / omitted) is of a kind every seatless apportioner / overall evaluator it reaches can be called with. *)
Definition C14_compose_full_statement : Prop :=
  forall leaf conv t, wt t = true ->
  forall st sa votes, fits t sa = true -> seat_fits t sa = true ->
  run_impl leaf conv t votes (mk_call st sa) = run_spec leaf conv t votes sa.

(* proved under [faithful t]: wherever a wrapper inspects a part's signature, the answer of
   accepts_seats / accepts_prev_gains is what the part really takes *)
Theorem C14_compose_partial : forall leaf conv t, wt t = true -> faithful t = true ->
  forall st sa votes, fits t sa = true -> seat_fits t sa = true ->
  run_impl leaf conv t votes (mk_call st sa) = run_spec leaf conv t votes sa.
Proof. intros leaf conv t Hw Hf st sa votes Hs Hn. exact (compose leaf conv t Hw Hf st sa votes Hs Hn). Qed.

(* when every distributor apportioner and every overall evaluator takes a seat count ([seated], the typing of the first
   version of this theorem) no condition on the seat argument is needed *)
Theorem C14_compose_seated_partial : forall leaf conv t, wt t = true -> seated t = true -> faithful t = true ->
  forall st sa votes, fits t sa = true ->
  run_impl leaf conv t votes (mk_call st sa) = run_spec leaf conv t votes sa.
Proof. intros leaf conv t Hw Hse Hf st sa votes Hs. exact (compose_seated leaf conv t Hw Hse Hf st sa votes Hs). Qed.

(* the hypotheses are satisfiable by a depth-4 tree mixing six wrappers *)
Example C14_compose_nonvacuous :
  let t := Multi [ Cond (Leaf 1 LThr) (ByCons (Cond (Leaf 2 LThrP) (Leaf 3 LDist) 0) ANone) 1;
                   PreAppD (ByCons (Leaf 4 LDist) ANone) (Leaf 5 LDist);
                   ByParty (Leaf 6 LDist) (Leaf 7 LDist) ] 1 in
  wt t = true /\ faithful t = true /\
  fits t (KW (Some (VInt 5)) (Some (VDict [])) None None None None) = true /\
  seat_fits t (KW (Some (VInt 5)) (Some (VDict [])) None None None None) = true.
Proof. vm_compute. repeat split. Qed.

(* ... by the shape of the Czech 2021 system: PreApportioned(Conditioned(UnusedVotesDistributor([ByConstituency(quota),
   RemovedApportionment(ByParty(largest remainder))], [imperiali], depth 2), threshold, depth 2), apportioner) ... *)
Example C14_compose_nonvacuous_unused :
  let t := PreAppD (Cond (Leaf 1 LThr)
                         (Unused [ByCons (Leaf 2 LDist) ANone; RemApp (ByPartyS (Leaf 3 LDist))] [4%positive] 1) 1)
                   (Leaf 5 LDist) in
  wt t = true /\ faithful t = true /\ seated t = true /\
  fits t (KW (Some (VInt 200)) None None None None None) = true.
Proof. vm_compute. repeat split. Qed.

(* ... by the shape of the New Zealand system: MultistageDistributor([electorates, AdjustedSeatCount(AllowOverhang(pe), list)]),
   by a levelled variant behind a VotingSystem, and by tie-breaking inside per-constituency evaluation inside a post-conversion *)
Example C14_compose_nonvacuous_adjusted :
  let t := Multi [ PostConv (ByCons (TieBr (TieBr (Leaf 1 LSelD) (PreConv 2 (Leaf 3 LSelD))) (Leaf 4 LSelD)) (AInt 1)) 5;
                   AdjAllow (Leaf 6 LDist) (TieBr (Leaf 7 LDist) (Leaf 8 LSelD));
                   VSys (AdjLevel (Cond (Leaf 9 LThr) (Leaf 10 LDist) 0) (Leaf 11 LDist) 100);
                   AdjLeaf 12 (Leaf 13 LDist) ] 0 in
  wt t = true /\ faithful t = true /\ seated t = true /\
  fits t (KW (Some (VInt 120)) None None None None None) = true.
Proof. vm_compute. repeat split. Qed.

(* ... and by seatless parts: a seatless distributor apportioner (seat count omitted or a dictionary), a seatless overall
   evaluator of ByParty (seat count omitted), reached through Conditioned at depth 2 *)
Example C14_compose_nonvacuous_seatless :
  let t1 := Cond (Leaf 1 LThr) (ByConsD (Leaf 2 LDist) (Leaf 3 LSDist)) 1 in
  let t2 := ByParty (Leaf 4 LSDist) (Leaf 5 LDist) in
  wt t1 = true /\ faithful t1 = true /\ seated t1 = false /\
  seat_fits t1 kw_none = true /\ seat_fits t1 (KW (Some (VDict [(KC 101, VInt 2)])) None None None None None) = true /\
  seat_fits t1 (KW (Some (VInt 3)) None None None None None) = false /\
  wt t2 = true /\ faithful t2 = true /\ seated t2 = false /\
  seat_fits t2 kw_none = true /\ seat_fits t2 (KW (Some (VInt 3)) None None None None None) = false.
Proof. vm_compute. repeat split. Qed.

(* without faithfulness the statement is false: a generic (votes, *args, **kwargs) wrapper below
   ByConstituency hides that its inner distributor takes prev_gains - they are dropped *)
Definition echo_leaf (l : positive) (v : val) (args : list (option val)) : res val :=
  Ok (VList (map (fun o => match o with Some x => x | None => VNone end) args)).
Definition id_conv (c : positive) (v : val) : res val := Ok v.

Theorem C14_compose_unfaithful_refuted : ~ C14_compose_full_statement.
Proof.
  intro H.
  specialize (H echo_leaf id_conv (ByCons (TieBr (Leaf 1 LDist) (Leaf 2 LSelD)) ANone) eq_refl PosSeats
                (KW (Some (VInt 3)) (Some (VDict [(KC 101, VDict [(KC 1, VInt 2)])])) None None None None)
                (VDict [(KC 101, VDict [(KC 1, VInt 60)])]) eq_refl eq_refl).
  vm_compute in H. discriminate H.
Qed.

(* a seat count handed positionally to a part hidden behind a generic wrapper: Conditioned over
   PreConverted over a seatless distributor binds the seat count to prev_gains *)
Theorem C14_seatless_behind_generic_refuted :
  exists t sa votes, wt t = true /\ faithful t = false /\
    run_impl echo_leaf id_conv t votes (mk_call PosSeats sa) <> run_spec echo_leaf id_conv t votes sa.
Proof.
  exists (Cond (Leaf 1 LThr) (PreConv 2 (Leaf 3 LSDist)) 0),
         (KW (Some (VInt 3)) None None None None None), (VDict [(KC 1, VInt 60)]).
  split; [reflexivity|]. split; [reflexivity|]. vm_compute. intro H. discriminate H.
Qed.

(* [seat_fits] cannot be dropped: core.apportion hands a seat NUMBER to the apportioner positionally without looking at its
   signature - a seatless apportioner (VotesPerSeat) receives it as prev_gains, where the by-hand composition would refuse *)
Theorem C14_seat_number_to_seatless_refuted :
  exists t sa votes, wt t = true /\ faithful t = true /\ fits t sa = true /\ seat_fits t sa = false /\
    run_impl echo_leaf id_conv t votes (mk_call PosSeats sa) <> run_spec echo_leaf id_conv t votes sa.
Proof.
  exists (ByConsD (Leaf 1 LDist) (Leaf 2 LSDist)), (KW (Some (VInt 3)) None None None None None),
         (VDict [(KC 101, VDict [(KC 1, VInt 60)])]).
  repeat (split; [reflexivity|]). vm_compute. intro H. discriminate H.
Qed.

(* ByConstituency with every constituency at zero seats: StopIteration (known finding) *)
Theorem C14_all_zero_stop : exists t votes,
  wt t = true /\ faithful t = true /\
  run_impl echo_leaf id_conv t votes (mk_call AllKw kw_none) = Err (Exn E_STOP).
Proof.
  exists (ByCons (Leaf 1 LDist) (AInt 0)), (VDict [(KC 101, VDict [(KC 1, VInt 60)]); (KC 102, VDict [])]).
  repeat split.
Qed.

(* ---- tie-breaking *)
(* selections: _replace_sel_ties puts the i-th choice at the i-th place of the tie and raises
   ValueError when there are more choices than tied places *)
Theorem C14_tiebreak_selection : forall repl l t,
  (forall c, In c repl -> is_key c t = false) ->
  replace_sel l t repl =
  if Nat.leb (length repl) (count_tie l t) then Ok (subst_occ l t repl) else raise E_VALUE.
Proof. exact replace_sel_spec. Qed.

(* ... and changes nothing else: same length, every entry that is not this tie stays in place,
   the tied places receive exactly the tiebreaker's choices, in order *)
Theorem C14_tiebreak_selection_rest : forall l t repl,
  length (subst_occ l t repl) = length l /\
  (forall i x, nth_error l i = Some x -> is_key x t = false -> nth_error (subst_occ l t repl) i = Some x) /\
  ((length repl <= count_tie l t)%nat ->
   placed l (subst_occ l t repl) t = repl ++ repeat (VKey t) (count_tie l t - length repl)).
Proof.
  intros l t repl. split; [apply subst_occ_length|]. split; [apply subst_occ_others|apply subst_occ_placed].
Qed.

(* distributions: the tie entry disappears, each choice gains one seat, all other seats are kept *)
Theorem C14_tiebreak_distribution : forall r t repl, int_valued r -> (forall c, In c repl -> exists k, c = VKey k) ->
  exists out, replace_distr r t repl = Ok out /\
              (forall k, key_eqb t k = false -> seats out k = seats r k + count_key repl k) /\
              (forall k, seats out k = seats (ddel r t) k + count_key repl k).
Proof. exact replace_distr_spec. Qed.

(* the tiebreaker is asked about exactly the tied candidates: no other candidate is in its votes *)
Theorem C14_tiebreak_only_tied : forall d t sub,
  subset_votes (VDict d) (VKey (KT t)) = Ok sub ->
  exists ds, sub = VDict ds /\ forall k, In k (map fst ds) -> exists c, k = KC c /\ In c t.
Proof. exact tiebreaker_sees_only_tied. Qed.

(* a result without ties passes through TieBreaking unchanged, whatever the tiebreaker is *)
Theorem C14_tiebreak_untied : forall brk votes l,
  existsb (fun x => match x with VKey k => is_tie k | _ => false end) l = false ->
  break_ties brk votes (VList l) = Ok (VList l).
Proof. intros brk votes l H. unfold break_ties. rewrite H. reflexivity. Qed.

(* ---- closed party lists: a party that won n seats gets the first n candidates of its list *)
Theorem C14_partylist_closed : forall pl party n l,
  closed_list pl party (VInt n) = Ok l -> 0 <= n ->
  exists d ll, pl = VDict d /\ dget d party = Some (VList ll) /\ l = VList (firstn (Z.to_nat n) ll) /\
               length (firstn (Z.to_nat n) ll) = Nat.min (Z.to_nat n) (length ll).
Proof. exact closed_list_spec. Qed.

Print Assumptions C14_compose_partial.
Print Assumptions C14_compose_seated_partial.
Print Assumptions C14_seat_number_to_seatless_refuted.
Print Assumptions C14_compose_unfaithful_refuted.
Print Assumptions C14_seatless_behind_generic_refuted.
Print Assumptions C14_all_zero_stop.
Print Assumptions C14_tiebreak_selection.
Print Assumptions C14_tiebreak_selection_rest.
Print Assumptions C14_tiebreak_distribution.
Print Assumptions C14_tiebreak_only_tied.
Print Assumptions C14_tiebreak_untied.
Print Assumptions C14_partylist_closed.
