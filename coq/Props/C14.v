(* C14 - Composition wrappers equal the explicit composition of their parts.
   Property theorems only.  Model: Model/Wrappers.v (deep embedding of the wrapper classes of
   votelib/evaluate/core.py; leaves and converters are ARBITRARY functions); proofs:
   Proofs/Wrappers_proofs.v, Proofs/TieBreak_proofs.v.

   run_impl = the code: Python calls (positional + keyword arguments) bound against each
   evaluate() signature, inspect-based accepts_seats / accepts_prev_gains dispatch.
   run_spec = the by-hand composition over semantic arguments, deciding what a part is given
   from what it semantically takes.  VoteTotals and SubsettedVotes have a code-shaped definition
   (run_impl: nested add_dict_to_dict, defaultdict accumulation) and a declarative one (run_spec:
   sums in first-appearance order, a filter), proved equal on every value (C14_parts_agree), so the
   composition theorem speaks about them too; add_dict_to_dict at one level, the tie replacement and
   the unused-vote arithmetic are one definition used by both, characterised separately below and
   tied to the code by correspondence. *)
From Coq Require Import ZArith List Bool Lia.
From VL Require Model.Overhang Model.OverhangByC.
From VL Require Import Model.Wrappers Proofs.Wrappers_proofs Proofs.TieBreak_proofs Proofs.WrapParts_proofs
  Proofs.WrapOverhang_proofs Proofs.WrapOverhangByC_proofs.
Import ListNotations.
Open Scope Z_scope.

(* ---- composition: any nesting, any depth, both call styles, every input *)
(* wrapper trees: PreConverted, PostConverted, FixedSeatCount, Conditioned, ByConstituency (fixed / delegated / distributor
   apportionment, the distributor possibly SEATLESS), PreApportioned, RemovedApportionment, ByParty (overall evaluator possibly
   seatless), MultistageDistributor, TieBreaking, PartyListEvaluator (closed / open), VotingSystem, UnusedVotesDistributor
   (any depth; quota functions arbitrary), AdjustedSeatCount (calculator arbitrary, or AllowOverhang / LevelOverhang over a
   tree).  [fits]: every supplied argument is one the tree takes; [seat_fits]: the seat count supplied (a number, a
   dictionary, None / omitted) is of a kind every seatless apportioner / overall evaluator it reaches can be called with. *)
Definition C14_compose_full_statement : Prop :=
  forall leaf conv t, wt t = true ->
  forall st sa votes, fits t sa = true -> seat_fits t sa = true ->
  run_impl leaf conv t votes (mk_call st sa) = run_spec leaf conv t votes sa.

(* proved under [faithful t]: wherever a wrapper inspects a part's signature, the answer of
   accepts_seats / accepts_prev_gains is what the part really takes *)
Theorem C14_compose_partial : forall leaf conv t, wt t = true -> faithful t = true ->
  forall st sa votes, fits t sa = true -> seat_fits t sa = true ->
  run_impl leaf conv t votes (mk_call st sa) = run_spec leaf conv t votes sa.
Proof. intros leaf conv t Hw Hf st sa votes Hs Hn. exact (compose leaf conv t Hw Hf st sa votes Hs Hn). Qed.

(* when every distributor apportioner and every overall evaluator takes a seat count ([seated], the typing of the first
   version of this theorem) no condition on the seat argument is needed *)
Theorem C14_compose_seated_partial : forall leaf conv t, wt t = true -> seated t = true -> faithful t = true ->
  forall st sa votes, fits t sa = true ->
  run_impl leaf conv t votes (mk_call st sa) = run_spec leaf conv t votes sa.
Proof. intros leaf conv t Hw Hse Hf st sa votes Hs. exact (compose_seated leaf conv t Hw Hse Hf st sa votes Hs). Qed.

(* the hypotheses are satisfiable by a depth-4 tree mixing six wrappers *)
Example C14_compose_nonvacuous :
  let t := Multi [ Cond (Leaf 1 LThr) (ByCons (Cond (Leaf 2 LThrP) (Leaf 3 LDist) 0) ANone) 1;
                   PreAppD (ByCons (Leaf 4 LDist) ANone) (Leaf 5 LDist);
                   ByParty (Leaf 6 LDist) (Leaf 7 LDist) ] 1 in
  wt t = true /\ faithful t = true /\
  fits t (KW (Some (VInt 5)) (Some (VDict [])) None None None None) = true /\
  seat_fits t (KW (Some (VInt 5)) (Some (VDict [])) None None None None) = true.
Proof. vm_compute. repeat split. Qed.

(* ... by the shape of the Czech 2021 system: PreApportioned(Conditioned(UnusedVotesDistributor([ByConstituency(quota),
   RemovedApportionment(ByParty(largest remainder))], [imperiali], depth 2), threshold, depth 2), apportioner) ... *)
Example C14_compose_nonvacuous_unused :
  let t := PreAppD (Cond (Leaf 1 LThr)
                         (Unused [ByCons (Leaf 2 LDist) ANone; RemApp (ByPartyS (Leaf 3 LDist))] [4%positive] 1) 1)
                   (Leaf 5 LDist) in
  wt t = true /\ faithful t = true /\ seated t = true /\
  fits t (KW (Some (VInt 200)) None None None None None) = true.
Proof. vm_compute. repeat split. Qed.

(* ... by the shape of the New Zealand system: MultistageDistributor([electorates, AdjustedSeatCount(AllowOverhang(pe), list)]),
   by a levelled variant behind a VotingSystem, and by tie-breaking inside per-constituency evaluation inside a post-conversion *)
Example C14_compose_nonvacuous_adjusted :
  let t := Multi [ PostConv (ByCons (TieBr (TieBr (Leaf 1 LSelD) (PreConv 2 (Leaf 3 LSelD))) (Leaf 4 LSelD)) (AInt 1)) 5;
                   AdjAllow (Leaf 6 LDist) (TieBr (Leaf 7 LDist) (Leaf 8 LSelD));
                   VSys (AdjLevel (Cond (Leaf 9 LThr) (Leaf 10 LDist) 0) (Leaf 11 LDist) 100);
                   AdjLeaf 12 (Leaf 13 LDist) ] 0 in
  (* the shape of the German system: constituency seats, then ByParty with the seat count levelled by constituency *)
  let t2 := Fixed (Multi [ ByCons (Leaf 1 LSelD) (AInt 1);
                           PreConv 2 (AdjLevelC (ByConsD (Leaf 3 LDist) (Leaf 4 LDist)) (Leaf 5 LDist)
                                                (ByParty (Leaf 6 LDist) (Leaf 7 LDist)) 100);
                           AdjLevelC0 (ByConsP (Leaf 8 LDist) (ADict [(KC 101, VInt 2)]) (Leaf 9 LThr)) (ByPartyS (Leaf 10 LDist)) 100 ] 1)
                  (VInt 598) in
  wt t2 = true /\ faithful t2 = true /\ seated t2 = true /\ fits t2 kw_none = true /\
  wt t = true /\ faithful t = true /\ seated t = true /\
  fits t (KW (Some (VInt 120)) None None None None None) = true.
Proof. vm_compute. repeat split. Qed.

(* ... and by seatless parts: a seatless distributor apportioner (seat count omitted or a dictionary), a seatless overall
   evaluator of ByParty (seat count omitted), reached through Conditioned at depth 2 *)
Example C14_compose_nonvacuous_seatless :
  let t1 := Cond (Leaf 1 LThr) (ByConsD (Leaf 2 LDist) (Leaf 3 LSDist)) 1 in
  let t2 := ByParty (Leaf 4 LSDist) (Leaf 5 LDist) in
  wt t1 = true /\ faithful t1 = true /\ seated t1 = false /\
  seat_fits t1 kw_none = true /\ seat_fits t1 (KW (Some (VDict [(KC 101, VInt 2)])) None None None None None) = true /\
  seat_fits t1 (KW (Some (VInt 3)) None None None None None) = false /\
  wt t2 = true /\ faithful t2 = true /\ seated t2 = false /\
  seat_fits t2 kw_none = true /\ seat_fits t2 (KW (Some (VInt 3)) None None None None None) = false.
Proof. vm_compute. repeat split. Qed.

(* without faithfulness the statement is false: a generic (votes, *args, **kwargs) wrapper below
   ByConstituency hides that its inner distributor takes prev_gains - they are dropped *)
Definition echo_leaf (l : positive) (v : val) (args : list (option val)) : res val :=
  Ok (VList (map (fun o => match o with Some x => x | None => VNone end) args)).
Definition id_conv (c : positive) (v : val) : res val := Ok v.

Theorem C14_compose_unfaithful_refuted : ~ C14_compose_full_statement.
Proof.
  intro H.
  specialize (H echo_leaf id_conv (ByCons (TieBr (Leaf 1 LDist) (Leaf 2 LSelD)) ANone) eq_refl PosSeats
                (KW (Some (VInt 3)) (Some (VDict [(KC 101, VDict [(KC 1, VInt 2)])])) None None None None)
                (VDict [(KC 101, VDict [(KC 1, VInt 60)])]) eq_refl eq_refl).
  vm_compute in H. discriminate H.
Qed.

(* a seat count handed positionally to a part hidden behind a generic wrapper: Conditioned over
   PreConverted over a seatless distributor binds the seat count to prev_gains *)
Theorem C14_seatless_behind_generic_refuted :
  exists t sa votes, wt t = true /\ faithful t = false /\
    run_impl echo_leaf id_conv t votes (mk_call PosSeats sa) <> run_spec echo_leaf id_conv t votes sa.
Proof.
  exists (Cond (Leaf 1 LThr) (PreConv 2 (Leaf 3 LSDist)) 0),
         (KW (Some (VInt 3)) None None None None None), (VDict [(KC 1, VInt 60)]).
  split; [reflexivity|]. split; [reflexivity|]. vm_compute. intro H. discriminate H.
Qed.

(* [seat_fits] cannot be dropped: core.apportion hands a seat NUMBER to the apportioner positionally without looking at its
   signature - a seatless apportioner (VotesPerSeat) receives it as prev_gains, where the by-hand composition would refuse *)
Theorem C14_seat_number_to_seatless_refuted :
  exists t sa votes, wt t = true /\ faithful t = true /\ fits t sa = true /\ seat_fits t sa = false /\
    run_impl echo_leaf id_conv t votes (mk_call PosSeats sa) <> run_spec echo_leaf id_conv t votes sa.
Proof.
  exists (ByConsD (Leaf 1 LDist) (Leaf 2 LSDist)), (KW (Some (VInt 3)) None None None None None),
         (VDict [(KC 101, VDict [(KC 1, VInt 60)])]).
  repeat (split; [reflexivity|]). vm_compute. intro H. discriminate H.
Qed.

(* ByConstituency with every constituency at zero seats: StopIteration (known finding) *)
Theorem C14_all_zero_stop : exists t votes,
  wt t = true /\ faithful t = true /\
  run_impl echo_leaf id_conv t votes (mk_call AllKw kw_none) = Err (Exn E_STOP).
Proof.
  exists (ByCons (Leaf 1 LDist) (AInt 0)), (VDict [(KC 101, VDict [(KC 1, VInt 60)]); (KC 102, VDict [])]).
  repeat split.
Qed.

(* ---- tie-breaking *)
(* selections: _replace_sel_ties puts the i-th choice at the i-th place of the tie and raises
   ValueError when there are more choices than tied places *)
Theorem C14_tiebreak_selection : forall repl l t,
  (forall c, In c repl -> is_key c t = false) ->
  replace_sel l t repl =
  if Nat.leb (length repl) (count_tie l t) then Ok (subst_occ l t repl) else raise E_VALUE.
Proof. exact replace_sel_spec. Qed.

(* ... and changes nothing else: same length, every entry that is not this tie stays in place,
   the tied places receive exactly the tiebreaker's choices, in order *)
Theorem C14_tiebreak_selection_rest : forall l t repl,
  length (subst_occ l t repl) = length l /\
  (forall i x, nth_error l i = Some x -> is_key x t = false -> nth_error (subst_occ l t repl) i = Some x) /\
  ((length repl <= count_tie l t)%nat ->
   placed l (subst_occ l t repl) t = repl ++ repeat (VKey t) (count_tie l t - length repl)).
Proof.
  intros l t repl. split; [apply subst_occ_length|]. split; [apply subst_occ_others|apply subst_occ_placed].
Qed.

(* distributions: the tie entry disappears, each choice gains one seat, all other seats are kept *)
Theorem C14_tiebreak_distribution : forall r t repl, int_valued r -> (forall c, In c repl -> exists k, c = VKey k) ->
  exists out, replace_distr r t repl = Ok out /\
              (forall k, key_eqb t k = false -> seats out k = seats r k + count_key repl k) /\
              (forall k, seats out k = seats (ddel r t) k + count_key repl k).
Proof. exact replace_distr_spec. Qed.

(* the tiebreaker is asked about exactly the tied candidates: no other candidate is in its votes *)
Theorem C14_tiebreak_only_tied : forall d t sub,
  subset_votes (VDict d) (VKey (KT t)) = Ok sub ->
  exists ds, sub = VDict ds /\ forall k, In k (map fst ds) -> exists c, k = KC c /\ In c t.
Proof. exact tiebreaker_sees_only_tied. Qed.

(* a result without ties passes through TieBreaking unchanged, whatever the tiebreaker is *)
Theorem C14_tiebreak_untied : forall brk votes l,
  existsb (fun x => match x with VKey k => is_tie k | _ => false end) l = false ->
  break_ties brk votes (VList l) = Ok (VList l).
Proof. intros brk votes l H. unfold break_ties, break_ties_g. rewrite H. reflexivity. Qed.

(* ---- closed party lists: a party that won n seats gets the first n candidates of its list *)
Theorem C14_partylist_closed : forall pl party n l,
  closed_list pl party (VInt n) = Ok l -> 0 <= n ->
  exists d ll, pl = VDict d /\ dget d party = Some (VList ll) /\ l = VList (firstn (Z.to_nat n) ll) /\
               length (firstn (Z.to_nat n) ll) = Nat.min (Z.to_nat n) (length ll).
Proof. exact closed_list_spec. Qed.

(* ---- the shared parts: the code-shaped definitions compute the declarative ones *)
(* VoteTotals on integer counts: the candidates in the order of their first appearance, each with the sum of its counts *)
Theorem C14_totals_declarative : forall d, nested_int d = true ->
  vote_totals (VDict d) = Ok (VDict (totals_table (entries d))) /\
  forall k, dget (totals_table (entries d)) k =
            if memk k (keys_first (entries d)) then Some (VInt (total_of (entries d) k)) else None.
Proof. intros d H. split; [exact (totals_declarative d H)|intro k; apply totals_table_lookup]. Qed.

(* SubsettedVotes(SimpleSubsetter) on integer counts without repeated keys: the votes filtered to the subset *)
Theorem C14_subset_declarative : forall d s, int_dict d = true -> nodup_keys d = true -> subset_kind s = true ->
  subset_votes (VDict d) s = Ok (VDict (filter (fun kv => mem_b s (fst kv)) d)).
Proof. exact subset_declarative. Qed.

(* the declarative parts used by run_spec and the code-shaped parts used by run_impl agree on EVERY value *)
Theorem C14_parts_agree :
  (forall v, totals_s v = vote_totals v) /\ (forall v s, subset_s v s = subset_votes v s).
Proof. split; [exact totals_s_eq|exact subset_s_eq]. Qed.

Example C14_parts_nonvacuous :
  let v := VDict [(KC 101, VDict [(KC 1, VInt 60); (KC 2, VInt 30)]); (KC 102, VDict [(KC 3, VInt 5); (KC 1, VInt 10)])] in
  nested_int [(KC 101, VDict [(KC 1, VInt 60); (KC 2, VInt 30)]); (KC 102, VDict [(KC 3, VInt 5); (KC 1, VInt 10)])] = true /\
  totals_s v = Ok (VDict [(KC 1, VInt 70); (KC 2, VInt 30); (KC 3, VInt 5)]) /\
  subset_s (VDict [(KC 1, VInt 70); (KC 2, VInt 30); (KC 3, VInt 5)]) (VList [VKey (KC 3); VKey (KC 1)])
  = Ok (VDict [(KC 1, VInt 70); (KC 3, VInt 5)]).
Proof. vm_compute. repeat split. Qed.

(* ---- UnusedVotesDistributor: the seats still to give after a stage = the seats before minus the seats of THIS stage's
   result (previous gains and the running total do not enter) *)
Theorem C14_unused_seats_left : forall n res, int_dict res = true ->
  sub_gained 0 (VInt n) (VDict res) = Ok (VInt (n - sumz res)).
Proof. exact seats_left_after_stage. Qed.

(* ---- AdjustedSeatCount anywhere in a tree, around any wrapped evaluator, composed with the adjusters of Model/Overhang.v
   (the subject of C15): if the calculator's proportional evaluator [pe] (itself any wrapper tree) answers with integer
   distributions - seen as Model/Overhang.v's E - then AdjustedSeatCount(AllowOverhang(pe), e) / (LevelOverhang(pe), e) is
   e evaluated with n + the adjustment of Model/Overhang.v, previous gains and seat caps unchanged *)
Theorem C14_adjusted_allow : forall leaf conv pe e votes n prev mx E a, sees leaf conv pe votes mx E ->
  Overhang.allow_overhang E n prev = Some a ->
  run_spec leaf conv (AdjAllow pe e) votes (sa_npm (VInt n) (VDict (of_cz prev)) mx)
  = run_spec leaf conv e votes (sa_npm (VInt (n + a)) (VDict (of_cz prev)) mx).
Proof. exact adjusted_allow_tree. Qed.

Theorem C14_adjusted_level : forall leaf conv pe e fuel votes n prev mx E a, sees leaf conv pe votes mx E ->
  Overhang.level_overhang E fuel n prev = Some a ->
  run_spec leaf conv (AdjLevel pe e fuel) votes (sa_npm (VInt n) (VDict (of_cz prev)) mx)
  = run_spec leaf conv e votes (sa_npm (VInt (n + a)) (VDict (of_cz prev)) mx).
Proof. exact adjusted_level_tree. Qed.

(* satisfiable: a proportional evaluator that gives all seats to candidate 1, behind a converter and a VotingSystem; candidate 2
   holds 3 seats from an earlier round - 3 overhang seats (AllowOverhang), and no house size levels them (LevelOverhang: fuel) *)
Definition all_to_one (l : positive) (v : val) (args : list (option val)) : res val :=
  match args with Some (VInt h) :: _ => Ok (VDict [(KC 1, VInt h)]) | _ => raise E_TYPE end.
Example C14_adjusted_nonvacuous :
  let pe := VSys (PreConv 7 (Leaf 1 LDist)) in
  let E := fun h : Z => Some [(1%positive, h)] in
  sees all_to_one id_conv pe (VDict []) (VDict []) E /\
  Overhang.allow_overhang E 5 [(2%positive, 3)] = Some 3 /\
  run_spec all_to_one id_conv (AdjAllow pe (Leaf 2 LDist)) (VDict []) (sa_npm (VInt 5) (VDict (of_cz [(2%positive, 3)])) (VDict []))
  = Ok (VDict [(KC 1, VInt 8)]).
Proof.
  split; [|split; reflexivity].
  intros h p H. inversion H; subst p. reflexivity.
Qed.

(* ... and by constituency, composed with Model/OverhangByC.v (C15): AdjustedSeatCount(LevelOverhangByConstituency(ce, oe), e),
   ce and oe any wrapper trees answering with integer distributions (result keys may be Ties), is e evaluated with
   n + bc_calculate's adjustment *)
Theorem C14_adjusted_level_byc : forall leaf conv ce oe e fuel votes nat n res prev mx OEm a,
  totals_s votes = Ok nat ->
  run_spec leaf conv ce votes (KW (Some (VInt n)) None (Some mx) None None None) = Ok (VDict (of_nested res)) ->
  (forall h pr, OEm h = OverhangByC.Ok pr ->
                run_spec leaf conv oe nat (KW (Some (VInt h)) None (Some mx) None None None) = Ok (VDict (of_kz pr))) ->
  OverhangByC.bc_calculate key_eqb OEm (OverhangByC.Ok res) fuel n prev = OverhangByC.BC_ok a ->
  run_spec leaf conv (AdjLevelC ce oe e fuel) votes (sa_npm (VInt n) (VDict (of_nested prev)) mx)
  = run_spec leaf conv e votes (sa_npm (VInt (n + a)) (VDict (of_nested prev)) mx).
Proof. exact adjusted_levelc_tree. Qed.

(* satisfiable: one constituency where party 1 gets 2 proportional seats and holds 1, party 2 holds 3 seats without any
   second round vote; the overall evaluator gives every seat to party 1 - the house of 4 grows by one seat *)
Definition byc_leaf (l : positive) (v : val) (args : list (option val)) : res val :=
  match l with
  | 1%positive => Ok (VDict [(KC 101, VDict [(KC 1, VInt 2)])])
  | _ => match args with Some (VInt h) :: _ => Ok (VDict [(KC 1, VInt h)]) | _ => raise E_TYPE end
  end.
Example C14_adjusted_byc_nonvacuous :
  let votes := VDict [(KC 101, VDict [(KC 1, VInt 10)])] in
  let res := [(101%positive, [(KC 1, 2)])] in
  let prev := [(101%positive, [(KC 1, 1); (KC 2, 3)])] in
  let OEm := fun h : Z => OverhangByC.Ok [(KC 1, h)] in
  totals_s votes = Ok (VDict [(KC 1, VInt 10)]) /\
  run_spec byc_leaf id_conv (Leaf 1 LDist) votes (KW (Some (VInt 4)) None (Some (VDict [])) None None None) = Ok (VDict (of_nested res)) /\
  (forall h pr, OEm h = OverhangByC.Ok pr ->
                run_spec byc_leaf id_conv (VSys (Leaf 2 LDist)) (VDict [(KC 1, VInt 10)]) (KW (Some (VInt h)) None (Some (VDict [])) None None None)
                = Ok (VDict (of_kz pr))) /\
  OverhangByC.bc_calculate key_eqb OEm (OverhangByC.Ok res) 10 4 prev = OverhangByC.BC_ok 1.
Proof.
  split; [reflexivity|]. split; [reflexivity|]. split; [|reflexivity].
  intros h pr H. inversion H; subst pr. reflexivity.
Qed.

Print Assumptions C14_compose_partial.
Print Assumptions C14_adjusted_level_byc.
Print Assumptions C14_adjusted_allow.
Print Assumptions C14_adjusted_level.
Print Assumptions C14_totals_declarative.
Print Assumptions C14_subset_declarative.
Print Assumptions C14_parts_agree.
Print Assumptions C14_unused_seats_left.
Print Assumptions C14_compose_seated_partial.
Print Assumptions C14_seat_number_to_seatless_refuted.
Print Assumptions C14_compose_unfaithful_refuted.
Print Assumptions C14_seatless_behind_generic_refuted.
Print Assumptions C14_all_zero_stop.
Print Assumptions C14_tiebreak_selection.
Print Assumptions C14_tiebreak_selection_rest.
Print Assumptions C14_tiebreak_distribution.
Print Assumptions C14_tiebreak_only_tied.
Print Assumptions C14_tiebreak_untied.
Print Assumptions C14_partylist_closed.
