(* approval.QuotaSelector.evaluate on top of the GENERATED get_n_best (C09: "Plurality, QuotaSelector(select) ..").
   Gen/CoreQsel.v is approval.py QuotaSelector.evaluate translated once more, its closing
   `return votelib.evaluate.core.get_n_best(over_quota, n_seats)` handing over to Gen.Core.get_n_best (the translated
   core.py) instead of being read as the model.  For every quota function, both settings of accept_equal, the two
   documented settings of on_more_over_quota, every mapping and every n_seats >= 0 the whole chain
   approval.py -> core.py -> util.py, as translated, IS [qsel_evaluate] (Model/QuotaDistributor.v): VotingSystemError exactly
   when more candidates pass the quota than there are seats and the setting is 'error', else the model's get_n_best of the
   passing candidates - and no IndexError / TypeError from inside get_n_best.  (Gen/Approval.v + Props/GenTie_Approval.v,
   obligations of C16, tie the same method with get_n_best read as the model.) *)
From Coq Require Import String.
From Coq Require Import ZArith QArith List Bool Lia.
From VL Require Import Prelude.PyDict Prelude.PyNum Prelude.PyList Prelude.PySeq Model.GetNBest Model.QuotaDistributor Proofs.QBool_tac.
From VL Require Gen.Core Gen.CoreQsel.
From VL Require Import Props.GenTie_Core.
Import ListNotations.
Close Scope Q_scope.

Definition qsel_setting (select : bool) : String.string := if select then "select"%string else "error"%string.
Definition qsel_result_of (r : qsel_result) : list (res C) + pyexn :=
  match r with QS_ok l => inl l | QS_vse => inr PyVotingSystemError end.

Lemma tie_coreqsel : forall quota ae select votes n, (0 <=? n)%Z = true ->
  Gen.CoreQsel.QuotaSelector_evaluate quota ae (qsel_setting select) votes n = qsel_result_of (qsel_evaluate quota ae select votes n).
Proof.
  intros quota ae select votes n Hn. unfold Gen.CoreQsel.QuotaSelector_evaluate, qsel_evaluate. cbv zeta.
  change (py_sum_values votes) with (qsumv votes).
  match goal with |- context [filter ?p votes] =>
    rewrite (filter_ext p (fun cv => fulfills ae (snd cv) (quota (qsumv votes) n))) by (intros [c v]; cbn [fst snd]; q_bool) end.
  unfold py_len. set (over := filter _ votes).
  rewrite (GenTie_Core_get_n_best over n Hn).
  destruct select; cbn [qsel_setting negb andb];
    repeat match goal with |- context [String.eqb ?a ?b] => let v := eval vm_compute in (String.eqb a b) in change (String.eqb a b) with v end;
    cbn [negb]; destruct (n <? Z.of_nat (length over))%Z; reflexivity.
Qed.
Print Assumptions tie_coreqsel.

Theorem GenTie_CoreQsel : forall quota ae select votes n, (0 <=? n)%Z = true ->
  Gen.CoreQsel.QuotaSelector_evaluate quota ae (qsel_setting select) votes n = qsel_result_of (qsel_evaluate quota ae select votes n).
Proof. exact tie_coreqsel. Qed.

Example gen_coreqsel_example :
  Gen.CoreQsel.QuotaSelector_evaluate (fun v n => v / 4)%Q true "select"%string
    [(1%positive, 40#1); (2%positive, 30#1); (3%positive, 30#1)]%Q 2 = inl [Cand 1%positive; TieR [2%positive; 3%positive]] /\
  Gen.CoreQsel.QuotaSelector_evaluate (fun v n => v / 4)%Q true "error"%string
    [(1%positive, 40#1); (2%positive, 30#1); (3%positive, 30#1)]%Q 2 = inr PyVotingSystemError.
Proof. vm_compute. split; reflexivity. Qed.

Print Assumptions GenTie_CoreQsel.
