(* Generated-vs-handwritten tie for RankedToCondorcetVotes.convert (votelib/convert.py; C13), both unranked_at_bottom settings.

   tools/py2v.py (part 6) regenerates the BODY of convert() into Gen/ConvertPairs.v on every run: the loop over the ballots, the
   loop that flags the shared ranks and flattens the ranking, the conditional definition of `unranked`, and the four nested loops
   over upper rank / upper candidate / lower rank / lower candidate (and over the unranked candidates).  The source is dynamically
   typed (an item is used as a candidate or as a set depending on is_bulk[i]; upper_item holds an item or a 1-tuple of it): the
   generated code works on [item] / [pyv] values with the operations that may raise (is_bulk[i]: IndexError, iterating a plain
   candidate: TypeError, reading `unranked` when it was not bound: UnboundLocalError) recorded in an exception flag that is part of
   every loop state (Prelude/PyConv.v).  votelib.util.all_ranked_candidates (a generator with a while loop) is NOT translated: it
   is a function parameter [f] of the generated definition, and the theorem holds for every f:

     GenTie_ConvertPairs_condorcet  for every f, both flags, every profile: the generated converter raises nothing and returns a
                                    dictionary o with  dsim o (dconv (img_condorcet bottom (canon_set (f votes))) votes)
     GenTie_ConvertPairs_run_kind   if f lists exactly the candidates of the profile (canon_set (f v) = cands_ranked v), o is what
                                    run_kind (KCondorcet bottom) of Model/Convert2.v answers for a decodable profile

   [dsim] (Proofs/ChainCands_proofs.v) is equality of dictionaries as Python compares them - and as the C13 correspondence and the
   C13 theorems (value .. k == ..) read them: distinct keys, the same key set, equal counts; the order of first insertion is not
   compared.  It differs here: the code adds, for each upper candidate, the lower ranked candidates and then the unranked ones; the
   model lists all ranked pairs of a ballot first.  In between stands [deq] (same order) with the image in the order of the code
   ([imgc], lemma ks_ballot_img) - the model's image is a permutation of it (imgc_perm).
   Frozensets are iterated in ascending order of their canonical member list, all_cands.difference(ranked) is a filter of it
   (the order parameter of the model).

   Proof: [gen_condorcet_keys] - top-down, one characterising lemma per loop ([ballots_char], [loopA_char], [fold_keys]: a loop
   whose every iteration adds to a list of keys and leaves the exception flag alone), the index facts from [enum_in] /
   [py_index_map]; then list algebra. *)
From Coq Require Import ZArith QArith List Bool Lia Arith Permutation.
From VL Require Import Prelude.Sx Prelude.PyDict Prelude.GDict Prelude.PyNum Prelude.PyList Prelude.PySeq Prelude.PyConv Model.GetNBest
     Model.Convert Model.Convert2 Proofs.Convert_proofs Proofs.Convert2_proofs Proofs.JR_proofs Proofs.ChainCands_proofs Proofs.GenConvert_proofs.
From VL Require Gen.ConvertPairs.
Import ListNotations.
Open Scope Q_scope.

(* [adds w ks c]: c[k] += w for the keys k of ks, in order *)
Definition adds (w : Q) (ks : list sx) (c : pydict) : pydict := fold_left (fun c k => py_dd_add c k w) ks c.

Lemma adds_app w a b c : adds w (a ++ b) c = adds w b (adds w a c).
Proof. unfold adds. apply fold_left_app. Qed.

(* a loop whose every iteration adds to the keys [ks x] and leaves the exception flag alone *)
Lemma fold_keys {X} (F : pydict * option cvexn -> X -> pydict * option cvexn) (ks : X -> list sx) (w : Q) (l : list X) :
  (forall x, In x l -> forall c e, F (c, e) x = (adds w (ks x) c, e)) ->
  forall c e, fold_left F l (c, e) = (adds w (flat_map ks l) c, e).
Proof.
  induction l as [|x l IH]; intros H c e; cbn [fold_left flat_map]; [reflexivity|].
  rewrite H by (left; reflexivity). rewrite IH by (intros y Hy; apply H; right; exact Hy). rewrite adds_app. reflexivity.
Qed.

Lemma enum_in_from {X} (l : list X) : forall k j y,
  In (j, y) (combine (map Z.of_nat (seq k (length l))) l) -> exists n, j = Z.of_nat (k + n) /\ nth_error l n = Some y.
Proof.
  induction l as [|x l IH]; intros k j y H; cbn [length seq map combine In] in H; [destruct H|].
  destruct H as [H|H].
  - injection H as <- <-. exists 0%nat. split; [f_equal; lia|reflexivity].
  - destruct (IH _ _ _ H) as (n & E & N). exists (S n). split; [rewrite E; f_equal; lia|exact N].
Qed.

Lemma enum_in {X} (l : list X) j y : In (j, y) (py_enumerate l) -> exists n, j = Z.of_nat n /\ nth_error l n = Some y.
Proof.
  unfold py_enumerate, py_range, py_len. rewrite Nat2Z.id. intros H. destruct (enum_in_from l 0 j y H) as (n & E & N).
  exists n. split; [exact E|exact N].
Qed.

Lemma py_index_map {X Y} (f : X -> Y) (l : list X) n y : nth_error l n = Some y -> py_index (map f l) (Z.of_nat n) = Some (f y).
Proof.
  intros H. unfold py_index. destruct (0 <=? Z.of_nat n)%Z eqn:E; [|apply Z.leb_gt in E; lia].
  rewrite Nat2Z.id. rewrite nth_error_map, H. reflexivity.
Qed.

Lemma nth_error_skipn' {X} (l : list X) : forall k n, nth_error (skipn k l) n = nth_error l (k + n).
Proof. induction l as [|x l IH]; intros [|k] n; cbn [skipn nth_error plus]; try reflexivity; [destruct n; reflexivity|apply IH]. Qed.

(* the first loop over the ranking, whatever its body: the flags, the flattened ranking (as plain items), the exception flag untouched *)
Lemma loopA_char (F : list bool * (list item * option cvexn) -> item -> list bool * (list item * option cvexn)) (r : ranked) :
  (forall b rk e it, F (b, (rk, e)) it = (b ++ [py_is_set it], (rk ++ map IP (members it), e))) ->
  forall b rk e, fold_left F r (b, (rk, e)) = (b ++ map py_is_set r, (rk ++ map IP (flatten r), e)).
Proof.
  intros H. induction r as [|i r IH]; intros b rk e; cbn [fold_left map flatten flat_map]; [rewrite !app_nil_r; reflexivity|].
  rewrite H, IH, map_app, <- !app_assoc. reflexivity.
Qed.

Lemma diff_items all l : py_set_difference_items all (map IP l) = set_diff all l.
Proof.
  unfold py_set_difference_items, set_diff. apply filter_ext. intros c. f_equal.
  induction l as [|x l IH]; cbn [map existsb cmem]; [reflexivity|]. rewrite IH. reflexivity.
Qed.

Definition pair_key (u l : C) : sx := L [kc u; kc l].

Lemma ballots_char (F : pydict * option cvexn -> ranked * Q -> pydict * option cvexn) (ks : ranked -> list sx) votes :
  (forall r w c e, F (c, e) (r, w) = (adds w (ks r) c, e)) ->
  forall c e, fold_left F votes (c, e) = (fold_left (fun c bw => adds (snd bw) (ks (fst bw)) c) votes c, e).
Proof.
  intros H. induction votes as [|[r w] votes IH]; intros c e; cbn [fold_left fst snd]; [reflexivity|]. rewrite H, IH. reflexivity.
Qed.

Lemma py_try_some {X} e (v : X) x : py_try e (Some v) x = e.
Proof. destruct e; reflexivity. Qed.

Lemma py_slice_from_nat {X} (l : list X) n : py_slice_from l (Z.of_nat n + 1) = skipn (n + 1) l.
Proof.
  unfold py_slice_from. destruct (0 <=? Z.of_nat n + 1)%Z eqn:E; [|apply Z.leb_gt in E; lia].
  f_equal. lia.
Qed.

(* the keys one ballot adds to, in the order of the code *)
Definition ks_low (r : ranked) (u : item) (i : Z) : list sx :=
  flat_map (fun jy : Z * item => flat_map (fun l => [py_key_tuple2 (kitem u) (kitem l)]) (map IP (members (snd jy))))
           (py_enumerate (py_slice_from r (i + 1))).
Definition ks_up (bottom : bool) (unr : list C) (r : ranked) (ix : Z * item) : list sx :=
  flat_map (fun u => ks_low r u (fst ix) ++ (if bottom then flat_map (fun c => [py_key_tuple2 (kitem u) (kc c)]) unr else []))
           (map IP (members (snd ix))).
Definition ks_ballot (bottom : bool) (all : list C) (r : ranked) : list sx :=
  flat_map (ks_up bottom (set_diff all (flatten r)) r) (py_enumerate r).

Ltac nrm := cbv beta iota zeta; cbn [fst snd].

Lemma gen_condorcet_keys f bottom votes :
  Gen.ConvertPairs.RankedToCondorcetVotes_convert f bottom votes =
  inl (fold_left (fun c bw => adds (snd bw) (ks_ballot bottom (py_frozenset (f votes)) (fst bw)) c) votes []).
Proof.
  unfold Gen.ConvertPairs.RankedToCondorcetVotes_convert. cbv zeta.
  match goal with |- context [fold_left ?F votes ?st] =>
    rewrite (ballots_char F (ks_ballot bottom (py_frozenset (f votes))) votes) end; [reflexivity|].
  intros r w c e. nrm.
  match goal with |- context [fold_left ?F r (?b0, (?r0, ?e0))] => rewrite (loopA_char F r) end.
  2:{ intros b rk e1 [cc|ll]; nrm; cbn [py_is_set py_item_iter py_val members map]; [reflexivity|]. rewrite py_try_some. reflexivity. }
  nrm. cbn [app]. rewrite diff_items.
  unfold ks_ballot. set (unr := set_diff (py_frozenset (f votes)) (flatten r)).
  (* the exception flag stays as it is: every index is in range, every iterated value is iterable, unranked is bound when read *)
  assert (L5 : forall (u : item) (n : nat) (F : pydict * option cvexn -> Z * item -> pydict * option cvexn),
     (forall jy c2 e2, F (c2, e2) jy =
        (let '(lower_item, exn4) :=
           if negb (py_val (py_index (map py_is_set r) (Z.of_nat n + 1 + fst jy)) false)
           then (VT [snd jy], py_try e2 (py_index (map py_is_set r) (Z.of_nat n + 1 + fst jy)) CvIndexError)
           else (VI (snd jy), py_try e2 (py_index (map py_is_set r) (Z.of_nat n + 1 + fst jy)) CvIndexError) in
         let '(counts2, exn5) :=
           fold_left (fun (st5_ : pydict * option cvexn) (it5_ : item) =>
                        let '(counts2, exn5) := st5_ in (py_dd_add counts2 (py_key_tuple2 (kitem u) (kitem it5_)) w, exn5))
                     (py_val (py_iter_v lower_item) []) (c2, py_try exn4 (py_iter_v lower_item) CvTypeError) in
         (counts2, exn5))) ->
     forall c1 e1, fold_left F (py_enumerate (py_slice_from r (Z.of_nat n + 1))) (c1, e1) = (adds w (ks_low r u (Z.of_nat n)) c1, e1)).
  { intros u n F HF c1 e1. unfold ks_low. apply fold_keys. intros [j y] Hj c2 e2. rewrite HF. nrm.
    destruct (enum_in _ _ _ Hj) as (m & -> & Hm). rewrite py_slice_from_nat, nth_error_skipn' in Hm.
    replace (Z.of_nat n + 1 + Z.of_nat m)%Z with (Z.of_nat (n + 1 + m)) by lia.
    rewrite (py_index_map py_is_set r _ y Hm), py_try_some. cbn [py_val].
    destruct y as [cy|ly]; cbn [py_is_set negb]; nrm; cbn [py_iter_v py_item_iter py_val members map]; rewrite py_try_some.
    - rewrite (fold_keys _ (fun l => [py_key_tuple2 (kitem u) (kitem l)]) w); [reflexivity|]. intros l _ c3 e3. reflexivity.
    - rewrite (fold_keys _ (fun l => [py_key_tuple2 (kitem u) (kitem l)]) w); [reflexivity|]. intros l _ c3 e3. reflexivity. }
  destruct bottom; nrm.
  - match goal with |- context [fold_left ?F (py_enumerate r) (c, e)] =>
      rewrite (fold_keys F (ks_up true unr r) w (py_enumerate r)) end; [reflexivity|].
    intros [i x] Hin c0 e0. nrm. destruct (enum_in _ _ _ Hin) as (n & -> & Hn).
    rewrite (py_index_map py_is_set r n x Hn), py_try_some. cbn [py_val]. unfold ks_up. cbn [fst snd].
    destruct x as [cx|lx]; cbn [py_is_set negb]; nrm; cbn [py_iter_v py_item_iter py_val members map]; rewrite py_try_some.
    all: match goal with |- context [fold_left ?F ?l (?cc0, ?ee0)] =>
      rewrite (fold_keys F (fun u => ks_low r u (Z.of_nat n) ++ flat_map (fun c => [py_key_tuple2 (kitem u) (kc c)]) unr) w l) end; [reflexivity|].
    all: intros u _ c1 e1; nrm.
    all: match goal with |- context [fold_left ?F (py_enumerate _) (?cc1, ?ee1)] => rewrite (L5 u n F) by (intros [j y] c2 e2; reflexivity) end; nrm.
    all: cbn [py_val]; rewrite py_try_some.
    all: rewrite (fold_keys _ (fun c => [py_key_tuple2 (kitem u) (kc c)]) w) by (intros l _ c3 e3; reflexivity).
    all: rewrite adds_app; reflexivity.
  - match goal with |- context [fold_left ?F (py_enumerate r) (c, e)] =>
      rewrite (fold_keys F (ks_up false unr r) w (py_enumerate r)) end; [reflexivity|].
    intros [i x] Hin c0 e0. nrm. destruct (enum_in _ _ _ Hin) as (n & -> & Hn).
    rewrite (py_index_map py_is_set r n x Hn), py_try_some. cbn [py_val]. unfold ks_up. cbn [fst snd].
    destruct x as [cx|lx]; cbn [py_is_set negb]; nrm; cbn [py_iter_v py_item_iter py_val members map]; rewrite py_try_some.
    all: match goal with |- context [fold_left ?F ?l (?cc0, ?ee0)] =>
      rewrite (fold_keys F (fun u => ks_low r u (Z.of_nat n) ++ []) w l) end; [reflexivity|].
    all: intros u _ c1 e1; nrm.
    all: match goal with |- context [fold_left ?F (py_enumerate _) (?cc1, ?ee1)] => rewrite (L5 u n F) by (intros [j y] c2 e2; reflexivity) end; nrm.
    all: rewrite app_nil_r; reflexivity.
Qed.

(* ---- the key list of one ballot, as a per-ballot image in the order of the code *)
Lemma adds_deq w ks a b : deq a b -> deq (adds w ks a) (fold_left (madd w) (map (fun k => (k, 1)) ks) b).
Proof.
  unfold adds. intros H. apply (inner_char (fun k : sx => k) (fun _ => w) (fun _ => 1) w ks); [|exact H].
  intros x _. symmetry. apply Qmult_1_l.
Qed.

Definition P (u : C) (ls : list C) : list (sx * Q) := map (fun l => (pair_key u l, 1)) ls.
Fixpoint imgc (bottom : bool) (unr : list C) (r : ranked) : list (sx * Q) :=
  match r with
  | [] => []
  | x :: t => flat_map (fun u => P u (flatten t) ++ (if bottom then P u unr else [])) (members x) ++ imgc bottom unr t
  end.

Lemma fm_map {X Y Z} (f : Y -> list Z) (g : X -> Y) l : flat_map f (map g l) = flat_map (fun x => f (g x)) l.
Proof. induction l as [|x l IH]; cbn [map flat_map]; [reflexivity|]. rewrite IH. reflexivity. Qed.
Lemma map_fm {X Y Z} (h : Y -> Z) (f : X -> list Y) l : map h (flat_map f l) = flat_map (fun x => map h (f x)) l.
Proof. induction l as [|x l IH]; cbn [map flat_map]; [reflexivity|]. rewrite map_app, IH. reflexivity. Qed.
Lemma fm_single {X Y} (f : X -> Y) l : flat_map (fun x => [f x]) l = map f l.
Proof. induction l as [|x l IH]; cbn [map flat_map app]; [reflexivity|]. rewrite IH. reflexivity. Qed.
Lemma fm_ext {X Y} (f g : X -> list Y) l : (forall x, f x = g x) -> flat_map f l = flat_map g l.
Proof. intros H. induction l as [|x l IH]; cbn [flat_map]; [reflexivity|]. rewrite H, IH. reflexivity. Qed.

Lemma enum_snd {X Y} (g : X -> list Y) (t : list X) : forall L : list Z, length L = length t ->
  flat_map (fun jy : Z * X => g (snd jy)) (combine L t) = flat_map g t.
Proof.
  induction t as [|y t IH]; intros [|z L] H; cbn [combine flat_map snd]; try reflexivity; try discriminate H.
  rewrite IH; [reflexivity|]. cbn [length] in H. lia.
Qed.

Lemma ks_low_simpl r u n : ks_low r (IP u) (Z.of_nat n) = map (pair_key u) (flatten (skipn (n + 1) r)).
Proof.
  unfold ks_low. rewrite py_slice_from_nat. set (t := skipn (n + 1) r). unfold py_enumerate.
  rewrite (enum_snd (fun y => flat_map (fun l => [py_key_tuple2 (kitem (IP u)) (kitem l)]) (map IP (members y))) t).
  - unfold flatten. rewrite map_fm. apply fm_ext. intros y. rewrite fm_map, fm_single. reflexivity.
  - unfold py_range, py_len. rewrite map_length, seq_length, Nat2Z.id. reflexivity.
Qed.

Lemma skipn_prefix {X} (p : list X) x t : skipn (length p + 1) (p ++ x :: t) = t.
Proof. induction p as [|y p IH]; cbn [length plus app skipn]; [reflexivity|exact IH]. Qed.

Lemma ks_ballot_from bottom unr : forall r' p,
  map (fun k : sx => (k, 1)) (flat_map (ks_up bottom unr (p ++ r')) (combine (map Z.of_nat (seq (length p) (length r'))) r'))
  = imgc bottom unr r'.
Proof.
  induction r' as [|x t IH]; intros p; cbn [length seq map combine flat_map imgc]; [reflexivity|].
  rewrite map_app. f_equal.
  - unfold ks_up. cbn [fst snd]. rewrite fm_map, map_fm. apply fm_ext. intros u.
    rewrite ks_low_simpl, skipn_prefix, map_app. unfold P. rewrite map_map. f_equal.
    destruct bottom; [|reflexivity]. rewrite fm_single, map_map. reflexivity.
  - replace (p ++ x :: t) with ((p ++ [x]) ++ t) by (rewrite <- app_assoc; reflexivity).
    replace (S (length p)) with (length (p ++ [x])) by (rewrite app_length; cbn [length]; lia). apply IH.
Qed.

Lemma ks_ballot_img bottom all r :
  map (fun k : sx => (k, 1)) (ks_ballot bottom all r) = imgc bottom (set_diff all (flatten r)) r.
Proof.
  unfold ks_ballot, py_enumerate, py_range, py_len. rewrite Nat2Z.id. exact (ks_ballot_from bottom _ r []).
Qed.

(* the image in the order of the code is a permutation of the model's image (all ranked pairs first, then the unranked ones) *)
Lemma imgc_perm bottom unr r :
  Permutation (imgc bottom unr r)
              (img_pairs_from r ++ (if bottom then flat_map (fun u => map (fun l => (L [kc u; kc l], 1)) unr) (flatten r) else [])).
Proof.
  destruct bottom.
  - induction r as [|x t IH]; cbn [imgc img_pairs_from flatten flat_map app]; [constructor|].
    fold (flatten t). rewrite flat_map_app. rewrite IH.
    rewrite (flat_map_app_perm (fun u => P u (flatten t)) (fun u => P u unr) (members x)).
    unfold P, pair_key.
    set (a := flat_map (fun u => map (fun l => (L [kc u; kc l], 1)) (flatten t)) (members x)).
    set (b := flat_map (fun u => map (fun l => (L [kc u; kc l], 1)) unr) (members x)).
    set (c := img_pairs_from t). set (d := flat_map (fun u => map (fun l => (L [kc u; kc l], 1)) unr) (flatten t)).
    rewrite <- !app_assoc. apply Permutation_app_head. rewrite !app_assoc. apply Permutation_app_tail, Permutation_app_comm.
  - rewrite app_nil_r. induction r as [|x t IH]; cbn [imgc img_pairs_from]; [constructor|].
    apply Permutation_app; [|exact IH].
    assert (E : forall l, flat_map (fun u => P u (flatten t) ++ []) l = flat_map (fun u => map (fun l0 => (L [kc u; kc l0], 1)) (flatten t)) l).
    { intros l. apply fm_ext. intros u. rewrite app_nil_r. reflexivity. }
    rewrite E. apply Permutation_refl.
Qed.

Lemma img_code_perm bottom all r :
  Permutation (map (fun k : sx => (k, 1)) (ks_ballot bottom all r)) (img_condorcet bottom all r).
Proof. rewrite ks_ballot_img. unfold img_condorcet. apply imgc_perm. Qed.

(* ================= the tie theorem ================= *)
Lemma tie_condorcet f bottom votes :
  exists o, Gen.ConvertPairs.RankedToCondorcetVotes_convert f bottom votes = inl o /\
            dsim o (dconv (img_condorcet bottom (canon_set (f votes))) votes).
Proof.
  rewrite gen_condorcet_keys. eexists. split; [reflexivity|].
  set (all := py_frozenset (f votes)). change (canon_set (f votes)) with all.
  set (imgk := fun r : ranked => map (fun k : sx => (k, 1)) (ks_ballot bottom all r)).
  assert (D : deq (fold_left (fun c (bw : ranked * Q) => adds (snd bw) (ks_ballot bottom all (fst bw)) c) votes []) (dconv imgk votes)).
  { rewrite dconv_unfold. apply deq_fold; [|constructor]. intros a b [r w] Hab. cbn [fst snd]. apply adds_deq, Hab. }
  apply (dsim_trans _ (dconv imgk votes)).
  - apply deq_dsim; [exact D|]. rewrite (deq_keys _ _ D). apply nodup_conv.
  - apply dconv_perm_images. intros r. apply img_code_perm.
Qed.

Theorem GenTie_ConvertPairs_condorcet : forall (f : list (ranked * Q) -> list C) (bottom : bool) (votes : list (ranked * Q)),
  exists o, Gen.ConvertPairs.RankedToCondorcetVotes_convert f bottom votes = inl o /\
            dsim o (dconv (img_condorcet bottom (canon_set (f votes))) votes).
Proof. exact tie_condorcet. Qed.

(* with any reading of votelib.util.all_ranked_candidates that lists exactly the candidates of the profile, the generated converter
   answers what [run_kind (KCondorcet bottom)] of Model/Convert2.v answers for a decodable profile *)
Corollary GenTie_ConvertPairs_run_kind : forall (f : list (ranked * Q) -> list C) (bottom : bool) (d : fdict) (v : list (ranked * Q)),
  canon_set (f v) = cands_ranked v -> decode_all key_ranked d = Some v ->
  exists o m, Gen.ConvertPairs.RankedToCondorcetVotes_convert f bottom v = inl o /\ run_kind (KCondorcet bottom) d = COk (VF m) /\ dsim o m.
Proof.
  intros f bottom d v Hf Hd. destruct (tie_condorcet f bottom v) as (o & E & S). exists o. eexists. split; [exact E|].
  unfold run_kind, with_votes. rewrite Hd. split; [reflexivity|]. rewrite <- Hf. exact S.
Qed.

(* the rank-major listing of util.all_ranked_candidates (first every first rank, then every second rank ..) is such a reading *)
Definition all_ranked_listing (votes : list (ranked * Q)) : list C := flat_map (fun bw => flatten (fst bw)) votes.

Example gen_condorcet_example :
  let votes := [([IS [1; 2]%positive; IP 3%positive], 2 # 1); ([IP 3%positive; IP 1%positive], 1 # 1)] in
  Gen.ConvertPairs.RankedToCondorcetVotes_convert all_ranked_listing true votes
    = inl [(L [kc 1%positive; kc 3%positive], 0 + (2 # 1)); (L [kc 2%positive; kc 3%positive], 0 + (2 # 1));
           (L [kc 3%positive; kc 1%positive], 0 + (1 # 1)); (L [kc 3%positive; kc 2%positive], 0 + (1 # 1));
           (L [kc 1%positive; kc 2%positive], 0 + (1 # 1))] /\
  Gen.ConvertPairs.RankedToCondorcetVotes_convert all_ranked_listing false votes
    = inl [(L [kc 1%positive; kc 3%positive], 0 + (2 # 1)); (L [kc 2%positive; kc 3%positive], 0 + (2 # 1));
           (L [kc 3%positive; kc 1%positive], 0 + (1 # 1))].
Proof. split; reflexivity. Qed.

Print Assumptions GenTie_ConvertPairs_condorcet.
Print Assumptions GenTie_ConvertPairs_run_kind.
