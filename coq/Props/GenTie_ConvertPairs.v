From Coq Require Import ZArith QArith List Bool Lia Arith Permutation.
From VL Require Import Prelude.Sx Prelude.PyDict Prelude.GDict Prelude.PyNum Prelude.PyList Prelude.PySeq Prelude.PyConv Model.GetNBest
     Model.Convert Model.Convert2 Proofs.Convert_proofs Proofs.Convert2_proofs Proofs.JR_proofs Proofs.ChainCands_proofs.
From VL Require Gen.ConvertPairs.
Import ListNotations.
Open Scope Q_scope.

(* [adds w ks c]: c[k] += w for the keys k of ks, in order *)
Definition adds (w : Q) (ks : list sx) (c : pydict) : pydict := fold_left (fun c k => py_dd_add c k w) ks c.

Lemma adds_app w a b c : adds w (a ++ b) c = adds w b (adds w a c).
Proof. unfold adds. apply fold_left_app. Qed.

(* a loop whose every iteration adds to the keys [ks x] and leaves the exception flag alone *)
Lemma fold_keys {X} (F : pydict * option cvexn -> X -> pydict * option cvexn) (ks : X -> list sx) (w : Q) (l : list X) :
  (forall x, In x l -> forall c e, F (c, e) x = (adds w (ks x) c, e)) ->
  forall c e, fold_left F l (c, e) = (adds w (flat_map ks l) c, e).
Proof.
  induction l as [|x l IH]; intros H c e; cbn [fold_left flat_map]; [reflexivity|].
  rewrite H by (left; reflexivity). rewrite IH by (intros y Hy; apply H; right; exact Hy). rewrite adds_app. reflexivity.
Qed.

Lemma enum_in_from {X} (l : list X) : forall k j y,
  In (j, y) (combine (map Z.of_nat (seq k (length l))) l) -> exists n, j = Z.of_nat (k + n) /\ nth_error l n = Some y.
Proof.
  induction l as [|x l IH]; intros k j y H; cbn [length seq map combine In] in H; [destruct H|].
  destruct H as [H|H].
  - injection H as <- <-. exists 0%nat. split; [f_equal; lia|reflexivity].
  - destruct (IH _ _ _ H) as (n & E & N). exists (S n). split; [rewrite E; f_equal; lia|exact N].
Qed.

Lemma enum_in {X} (l : list X) j y : In (j, y) (py_enumerate l) -> exists n, j = Z.of_nat n /\ nth_error l n = Some y.
Proof.
  unfold py_enumerate, py_range, py_len. rewrite Nat2Z.id. intros H. destruct (enum_in_from l 0 j y H) as (n & E & N).
  exists n. split; [exact E|exact N].
Qed.

Lemma py_index_map {X Y} (f : X -> Y) (l : list X) n y : nth_error l n = Some y -> py_index (map f l) (Z.of_nat n) = Some (f y).
Proof.
  intros H. unfold py_index. destruct (0 <=? Z.of_nat n)%Z eqn:E; [|apply Z.leb_gt in E; lia].
  rewrite Nat2Z.id. rewrite nth_error_map, H. reflexivity.
Qed.

Lemma nth_error_skipn' {X} (l : list X) : forall k n, nth_error (skipn k l) n = nth_error l (k + n).
Proof. induction l as [|x l IH]; intros [|k] n; cbn [skipn nth_error plus]; try reflexivity; [destruct n; reflexivity|apply IH]. Qed.

(* the first loop over the ranking, whatever its body: the flags, the flattened ranking (as plain items), the exception flag untouched *)
Lemma loopA_char (F : list bool * (list item * option cvexn) -> item -> list bool * (list item * option cvexn)) (r : ranked) :
  (forall b rk e it, F (b, (rk, e)) it = (b ++ [py_is_set it], (rk ++ map IP (members it), e))) ->
  forall b rk e, fold_left F r (b, (rk, e)) = (b ++ map py_is_set r, (rk ++ map IP (flatten r), e)).
Proof.
  intros H. induction r as [|i r IH]; intros b rk e; cbn [fold_left map flatten flat_map]; [rewrite !app_nil_r; reflexivity|].
  rewrite H, IH, map_app, <- !app_assoc. reflexivity.
Qed.

Lemma diff_items all l : py_set_difference_items all (map IP l) = set_diff all l.
Proof.
  unfold py_set_difference_items, set_diff. apply filter_ext. intros c. f_equal.
  induction l as [|x l IH]; cbn [map existsb cmem]; [reflexivity|]. rewrite IH. reflexivity.
Qed.

Definition pair_key (u l : C) : sx := L [kc u; kc l].

Lemma ballots_char (F : pydict * option cvexn -> ranked * Q -> pydict * option cvexn) (ks : ranked -> list sx) votes :
  (forall r w c e, F (c, e) (r, w) = (adds w (ks r) c, e)) ->
  forall c e, fold_left F votes (c, e) = (fold_left (fun c bw => adds (snd bw) (ks (fst bw)) c) votes c, e).
Proof.
  intros H. induction votes as [|[r w] votes IH]; intros c e; cbn [fold_left fst snd]; [reflexivity|]. rewrite H, IH. reflexivity.
Qed.

Lemma py_try_some {X} e (v : X) x : py_try e (Some v) x = e.
Proof. destruct e; reflexivity. Qed.

Lemma py_slice_from_nat {X} (l : list X) n : py_slice_from l (Z.of_nat n + 1) = skipn (n + 1) l.
Proof.
  unfold py_slice_from. destruct (0 <=? Z.of_nat n + 1)%Z eqn:E; [|apply Z.leb_gt in E; lia].
  f_equal. lia.
Qed.

(* the keys one ballot adds to, in the order of the code *)
Definition ks_low (r : ranked) (u : item) (i : Z) : list sx :=
  flat_map (fun jy : Z * item => flat_map (fun l => [py_key_tuple2 (kitem u) (kitem l)]) (map IP (members (snd jy))))
           (py_enumerate (py_slice_from r (i + 1))).
Definition ks_up (bottom : bool) (unr : list C) (r : ranked) (ix : Z * item) : list sx :=
  flat_map (fun u => ks_low r u (fst ix) ++ (if bottom then flat_map (fun c => [py_key_tuple2 (kitem u) (kc c)]) unr else []))
           (map IP (members (snd ix))).
Definition ks_ballot (bottom : bool) (all : list C) (r : ranked) : list sx :=
  flat_map (ks_up bottom (set_diff all (flatten r)) r) (py_enumerate r).

Ltac nrm := cbv beta iota zeta; cbn [fst snd].

Lemma gen_condorcet_keys f bottom votes :
  Gen.ConvertPairs.RankedToCondorcetVotes_convert f bottom votes =
  inl (fold_left (fun c bw => adds (snd bw) (ks_ballot bottom (py_frozenset (f votes)) (fst bw)) c) votes []).
Proof.
  unfold Gen.ConvertPairs.RankedToCondorcetVotes_convert. cbv zeta.
  match goal with |- context [fold_left ?F votes ?st] =>
    rewrite (ballots_char F (ks_ballot bottom (py_frozenset (f votes))) votes) end; [reflexivity|].
  intros r w c e. nrm.
  match goal with |- context [fold_left ?F r (?b0, (?r0, ?e0))] => rewrite (loopA_char F r) end.
  2:{ intros b rk e1 [cc|ll]; nrm; cbn [py_is_set py_item_iter py_val members map]; [reflexivity|]. rewrite py_try_some. reflexivity. }
  nrm. cbn [app]. rewrite diff_items.
  unfold ks_ballot. set (unr := set_diff (py_frozenset (f votes)) (flatten r)).
  (* the exception flag stays as it is: every index is in range, every iterated value is iterable, unranked is bound when read *)
  assert (L5 : forall (u : item) (n : nat) (F : pydict * option cvexn -> Z * item -> pydict * option cvexn),
     (forall jy c2 e2, F (c2, e2) jy =
        (let '(lower_item, exn4) :=
           if negb (py_val (py_index (map py_is_set r) (Z.of_nat n + 1 + fst jy)) false)
           then (VT [snd jy], py_try e2 (py_index (map py_is_set r) (Z.of_nat n + 1 + fst jy)) CvIndexError)
           else (VI (snd jy), py_try e2 (py_index (map py_is_set r) (Z.of_nat n + 1 + fst jy)) CvIndexError) in
         let '(counts2, exn5) :=
           fold_left (fun (st5_ : pydict * option cvexn) (it5_ : item) =>
                        let '(counts2, exn5) := st5_ in (py_dd_add counts2 (py_key_tuple2 (kitem u) (kitem it5_)) w, exn5))
                     (py_val (py_iter_v lower_item) []) (c2, py_try exn4 (py_iter_v lower_item) CvTypeError) in
         (counts2, exn5))) ->
     forall c1 e1, fold_left F (py_enumerate (py_slice_from r (Z.of_nat n + 1))) (c1, e1) = (adds w (ks_low r u (Z.of_nat n)) c1, e1)).
  { intros u n F HF c1 e1. unfold ks_low. apply fold_keys. intros [j y] Hj c2 e2. rewrite HF. nrm.
    destruct (enum_in _ _ _ Hj) as (m & -> & Hm). rewrite py_slice_from_nat, nth_error_skipn' in Hm.
    replace (Z.of_nat n + 1 + Z.of_nat m)%Z with (Z.of_nat (n + 1 + m)) by lia.
    rewrite (py_index_map py_is_set r _ y Hm), py_try_some. cbn [py_val].
    destruct y as [cy|ly]; cbn [py_is_set negb]; nrm; cbn [py_iter_v py_item_iter py_val members map]; rewrite py_try_some.
    - rewrite (fold_keys _ (fun l => [py_key_tuple2 (kitem u) (kitem l)]) w); [reflexivity|]. intros l _ c3 e3. reflexivity.
    - rewrite (fold_keys _ (fun l => [py_key_tuple2 (kitem u) (kitem l)]) w); [reflexivity|]. intros l _ c3 e3. reflexivity. }
  destruct bottom; nrm.
  - match goal with |- context [fold_left ?F (py_enumerate r) (c, e)] =>
      rewrite (fold_keys F (ks_up true unr r) w (py_enumerate r)) end; [reflexivity|].
    intros [i x] Hin c0 e0. nrm. destruct (enum_in _ _ _ Hin) as (n & -> & Hn).
    rewrite (py_index_map py_is_set r n x Hn), py_try_some. cbn [py_val]. unfold ks_up. cbn [fst snd].
    destruct x as [cx|lx]; cbn [py_is_set negb]; nrm; cbn [py_iter_v py_item_iter py_val members map]; rewrite py_try_some.
    all: match goal with |- context [fold_left ?F ?l (?cc0, ?ee0)] =>
      rewrite (fold_keys F (fun u => ks_low r u (Z.of_nat n) ++ flat_map (fun c => [py_key_tuple2 (kitem u) (kc c)]) unr) w l) end; [reflexivity|].
    all: intros u _ c1 e1; nrm.
    all: match goal with |- context [fold_left ?F (py_enumerate _) (?cc1, ?ee1)] => rewrite (L5 u n F) by (intros [j y] c2 e2; reflexivity) end; nrm.
    all: cbn [py_val]; rewrite py_try_some.
    all: rewrite (fold_keys _ (fun c => [py_key_tuple2 (kitem u) (kc c)]) w) by (intros l _ c3 e3; reflexivity).
    all: rewrite adds_app; reflexivity.
  - match goal with |- context [fold_left ?F (py_enumerate r) (c, e)] =>
      rewrite (fold_keys F (ks_up false unr r) w (py_enumerate r)) end; [reflexivity|].
    intros [i x] Hin c0 e0. nrm. destruct (enum_in _ _ _ Hin) as (n & -> & Hn).
    rewrite (py_index_map py_is_set r n x Hn), py_try_some. cbn [py_val]. unfold ks_up. cbn [fst snd].
    destruct x as [cx|lx]; cbn [py_is_set negb]; nrm; cbn [py_iter_v py_item_iter py_val members map]; rewrite py_try_some.
    all: match goal with |- context [fold_left ?F ?l (?cc0, ?ee0)] =>
      rewrite (fold_keys F (fun u => ks_low r u (Z.of_nat n) ++ []) w l) end; [reflexivity|].
    all: intros u _ c1 e1; nrm.
    all: match goal with |- context [fold_left ?F (py_enumerate _) (?cc1, ?ee1)] => rewrite (L5 u n F) by (intros [j y] c2 e2; reflexivity) end; nrm.
    all: rewrite app_nil_r; reflexivity.
Qed.
