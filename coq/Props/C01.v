(* C01 - Highest-averages apportionment is the exact divisor-method solution.
   Property theorems only (closed by [exact]); model: Model/HighestAverages.v,
   proofs: Proofs/HA_proofs.v, Proofs/Divisor_proofs.v.

   Setting: votes : list (C * Q) with distinct keys and non-negative totals
   (unbounded rationals: no float, no 2^53 limit), n seats, prev_gains >= 0,
   caps (default cap = n, as in the code), a divisor d that is positive and
   non-decreasing on seat counts >= 0 (proved for all five built-ins and for
   modified_first_coef wrappers with 0 < c <= f 1).  [fin] is the state in
   which the loop of HighestAverages.evaluate stops; [st_awards] is the ghost
   list of every (party, quotient) seat awarded; tot = prev_gains + awarded. *)
From Coq Require Import ZArith QArith List Permutation.
From VL Require Import Prelude.PyDict Model.Divisor Model.HighestAverages
     Proofs.Dict_proofs Proofs.HA_proofs Proofs.Divisor_proofs Proofs.Mono_proofs Proofs.HAUnique_proofs.
Import ListNotations.
Open Scope Z_scope.

Section C01.
  Variable d : Z -> Q.
  Variable votes : list (C * Q).
  Variables caps prev : list (C * Z).
  Variable n : Z.
  Hypothesis Hd : divisor_ok d.
  Hypothesis Hvotes : forall c v, In (c, v) votes -> (0 <= v)%Q.
  Hypothesis Hnd : NoDup (map fst votes).
  Hypothesis Hprev : forall c, 0 <= dget_or prev c 0.

  Notation fin := (final_state d votes n prev caps).
  Notation cap := (cap_of caps n).
  Notation total c := (dget_or (st_totals fin) c 0).

  (* never lifts a party above its cap *)
  Theorem C01_caps : forall c, dget_or prev c 0 <= cap c -> total c <= cap c.
  Proof. exact (ha_caps d votes caps prev n (proj1 Hd) (proj2 Hd) Hvotes Hnd Hprev). Qed.

  (* no unseated claim is stronger than a seated one: the next exact quotient
     of every party still under its cap is at most the quotient of every
     awarded seat *)
  Theorem C01_optimal : forall c v a, In (c, v) votes -> total c < cap c -> In a (st_awards fin) ->
    (v / d (total c) <= snd a)%Q.
  Proof. exact (ha_optimal d votes caps prev n (proj1 Hd) (proj2 Hd) Hvotes Hnd Hprev). Qed.

  (* the awarded quotients are the real ones: votes / d(j) for a seat index j
     between the previous gains and the final total of that party, and the
     final totals are previous gains plus the seats awarded *)
  Theorem C01_awards_genuine : forall a, In a (st_awards fin) ->
    exists v j, In (fst a, v) votes /\ snd a = (v / d j)%Q /\ dget_or prev (fst a) 0 <= j < total (fst a).
  Proof. exact (ha_awards_genuine d votes caps prev n (proj1 Hd) (proj2 Hd) Hvotes Hnd Hprev). Qed.

  Theorem C01_account : forall c, total c = dget_or prev c 0 + count c (map fst (st_awards fin)).
  Proof. exact (ha_account d votes caps prev n (proj1 Hd) (proj2 Hd) Hvotes Hnd Hprev). Qed.

  (* exactly the open seats are handed out (definite seats + tie seats), or
     the list ran dry with every party at its cap *)
  Theorem C01_total : 0 <= n - zsum (map snd prev) ->
    st_rem fin + Z.of_nat (length (st_awards fin))
      + (match st_tie fin with Some (_, r) => r | None => 0 end) = n - zsum (map snd prev) /\
    (st_rem fin = 0 \/
     (st_qs fin = [] /\ 0 <= st_rem fin /\ forall c v, In (c, v) votes -> cap c <= total c)).
  Proof. exact (ha_total d votes caps prev n (proj1 Hd) (proj2 Hd) Hvotes Hnd Hprev). Qed.

  (* a reported tie: fills all remaining seats, has more members than seats,
     and its members are exactly the eligible parties whose current quotient
     equals the maximal current quotient *)
  Theorem C01_ties : forall T r, st_tie fin = Some (T, r) ->
    st_rem fin = 0 /\ 0 < r < Z.of_nat (length T) /\
    exists m, (exists c0, In (c0, m) (st_qs fin)) /\
              Forall (fun y => (snd y <= m)%Q) (st_qs fin) /\
              Permutation T (map fst (filter (fun y => Qeq_bool (snd y) m) (st_qs fin))).
  Proof. exact (ha_tie d votes caps prev n (proj1 Hd) (proj2 Hd) Hvotes Hnd Hprev). Qed.

  (* the state invariant named in the anchors: the quotient list is sorted,
     duplicate-free and lists the current exact quotients of eligible parties *)
  Theorem C01_sorted_inv : NoDup (map fst (st_qs fin)) /\ sortedq (st_qs fin) /\
    Forall (fun it => exists v, In (fst it, v) votes /\ snd it = (v / d (total (fst it)))%Q /\
                                0 <= total (fst it) < cap (fst it)) (st_qs fin).
  Proof. exact (ha_queue d votes caps prev n (proj1 Hd) (proj2 Hd) Hvotes Hnd Hprev). Qed.
End C01.

(* UNIQUENESS: the loop computes THE divisor-method apportionment.  With a strictly increasing divisor, positive votes,
   no previous gains and no caps, any allocation s of exactly n seats whose min-max inequality is strict (nobody's next
   quotient reaches anybody's last awarded quotient: no tie at the cut) is what the loop ends with - no tie reported,
   no seat left, totals = s. *)
Theorem C01_unique : forall (d : Z -> Q) (votes : list (C * Q)) (n : Z) (s : C -> Z),
  divisor_ok d -> divisor_strict d ->
  (forall c v, In (c, v) votes -> (0 < v)%Q) -> NoDup (map fst votes) ->
  (forall c, In c (map fst votes) -> 0 <= s c) ->
  zsum (map s (map fst votes)) = n ->
  (forall c v c' v', In (c, v) votes -> In (c', v') votes -> 0 < s c' -> (v / d (s c) < v' / d (s c' - 1)%Z)%Q) ->
  let fin := final_state d votes n [] [] in
  st_tie fin = None /\ st_rem fin = 0 /\ forall c, In c (map fst votes) -> dget_or (st_totals fin) c 0 = s c.
Proof.
  intros d votes n s [Hpos _] Hstrict Hv Hnd Hs0 Hsum Hmm.
  exact (ha_unique d votes n Hpos Hstrict Hv Hnd s Hs0 Hsum Hmm).
Qed.

(* the hypotheses on the divisor hold for every built-in and every wrapper *)
Theorem C01_builtin_divisors : forall i, divisor_ok (divisor_by_id i).
Proof. exact builtin_ok. Qed.
Theorem C01_modified_divisors : forall f c, divisor_ok f -> (0 < c)%Q -> (c <= f 1%Z)%Q ->
  divisor_ok (modified_first_coef f c).
Proof. exact modified_ok. Qed.

(* non-vacuity of C01_unique: 60/30/10 votes, D'Hondt, 6 seats: 4/2/0 satisfies the strict inequality *)
Example C01_unique_example :
  let votes := [(1%positive, 60#1); (2%positive, 30#1); (3%positive, 10#1)]%Q in
  let s := fun c : C => if Pos.eqb c 1 then 4 else if Pos.eqb c 2 then 2 else 0 in
  zsum (map s (map fst votes)) = 6 /\
  forallb (fun cv => forallb (fun cv' => negb (0 <? s (fst cv')) ||
     negb (Qle_bool (snd cv' / d_hondt (s (fst cv') - 1)) (snd cv / d_hondt (s (fst cv))))) votes) votes = true.
Proof. vm_compute. split; reflexivity. Qed.

(* non-vacuity: a concrete run with a tie under a cap *)
Example C01_example_run :
  evaluate d_hondt [(1%positive, 60#1); (2%positive, 30#1); (3%positive, 30#1)]%Q 3 [] []
  = HA_ok [(1%positive, 1)] (Some ([1%positive; 2%positive; 3%positive], 2)).
Proof. vm_compute. reflexivity. Qed.

Print Assumptions C01_caps.
Print Assumptions C01_optimal.
Print Assumptions C01_awards_genuine.
Print Assumptions C01_account.
Print Assumptions C01_total.
Print Assumptions C01_ties.
Print Assumptions C01_unique.
Print Assumptions C01_sorted_inv.
Print Assumptions C01_builtin_divisors.
Print Assumptions C01_modified_divisors.
