(* C07 - Biproportional result meets both marginals and is divisor-consistent.
   Property theorems only.  Model: Model/Biprop.v; proofs: Proofs/Biprop_proofs.v.

   Level of the claim: translation validation.  Tie-and-transfer itself is not proved to reach a
   fixed point (Pukelsheim's termination argument is out of reach here); instead EVERY output of
   BiproportionalEvaluator.evaluate is validated by the certificate checker [cert_ok], which is
   proved below to be sound and complete for the declarative statement [biprop_spec]:

     district totals = district apportionment, party totals = party apportionment, no seat without
     votes, and positive district and party multipliers exist such that every cell is a divisor-rule
     rounding of votes x district multiplier x party multiplier

   for every divisor sequence d (d k = the divisor at which seat k+1 is earned; d_hondt, sainte_lague,
   ... of Model/Divisor.v, tied to votelib/component/divisor.py by Props/GenTie_Divisor.v).  The
   multipliers come from the implementation's own state (verif hook) or from an exact solver in the
   harness; either way they are only a certificate. *)
From Coq Require Import ZArith QArith List Bool Lia.
From VL Require Import Prelude.PyDict Model.Divisor Model.HighestAverages Model.Biprop
     Proofs.Dict_proofs Proofs.Divisor_proofs Proofs.Biprop_proofs.
Import ListNotations.
Open Scope Z_scope.

(* the checker accepts only results for which the declarative statement holds, with the given
   multipliers as witnesses *)
Theorem C07_cert_sound : forall d ds ps votes dseats pseats res rho gamma,
  cert_ok d ds ps votes dseats pseats res rho gamma = true ->
  spec_with d ds ps votes dseats pseats res (mul rho) (mul gamma) /\
  biprop_spec d ds ps votes dseats pseats res.
Proof.
  intros d ds ps votes dseats pseats res rho gamma H.
  pose proof (cert_sound d ds ps votes dseats pseats res rho gamma H) as S.
  split; [exact S|]. exists (mul rho), (mul gamma). exact S.
Qed.

(* ... and every result for which the statement holds with the given multipliers is accepted; if the
   statement holds at all, some certificate is accepted *)
Theorem C07_cert_complete : forall d ds ps votes dseats pseats res rho gamma,
  spec_with d ds ps votes dseats pseats res (mul rho) (mul gamma) ->
  cert_ok d ds ps votes dseats pseats res rho gamma = true.
Proof. exact cert_complete. Qed.

Theorem C07_cert_complete_ex : forall d ds ps votes dseats pseats res,
  biprop_spec d ds ps votes dseats pseats res ->
  exists rho gamma, cert_ok d ds ps votes dseats pseats res rho gamma = true.
Proof. exact cert_complete_ex. Qed.

(* the boolean rounding test is the rounding rule; a cell without votes rounds to 0 only *)
Theorem C07_rounds_reflect : forall d x s, rounds_b d x s = true <-> rounds d x s.
Proof. exact rounds_b_iff. Qed.
Theorem C07_zero_cell : forall d s, divisor_ok d -> rounds d 0 s -> s = 0.
Proof. intros d s [Hp _]. apply rounds_zero. exact Hp. Qed.

Print Assumptions C07_cert_sound.
Print Assumptions C07_cert_complete.
Print Assumptions C07_cert_complete_ex.
Print Assumptions C07_rounds_reflect.
Print Assumptions C07_zero_cell.
