(* C07 - Biproportional result meets both marginals and is divisor-consistent.
   Property theorems only.  Model: Model/Biprop.v; proofs: Proofs/Biprop_proofs.v.

   Level of the claim: translation validation.  Tie-and-transfer itself is not proved to reach a
   fixed point (Pukelsheim's termination argument is out of reach here); instead EVERY output of
   BiproportionalEvaluator.evaluate is validated by the certificate checker [cert_ok], which is
   proved below to be sound and complete for the declarative statement [biprop_spec]:

     district totals = district apportionment, party totals = party apportionment, no seat without
     votes, and positive district and party multipliers exist such that every cell is a divisor-rule
     rounding of votes x district multiplier x party multiplier

   for every divisor sequence d (d k = the divisor at which seat k+1 is earned; d_hondt, sainte_lague,
   ... of Model/Divisor.v, tied to votelib/component/divisor.py by Props/GenTie_Divisor.v).  The
   multipliers come from the implementation's own state (verif hook) or from an exact solver in the
   harness; either way they are only a certificate. *)
From Coq Require Import ZArith QArith List Bool Lia.
From VL Require Import Prelude.PyDict Model.Divisor Model.HighestAverages Model.Biprop
     Proofs.Dict_proofs Proofs.Divisor_proofs Proofs.Biprop_proofs Proofs.Biprop_steps Proofs.BipropRow_proofs.
Import ListNotations.
Open Scope Z_scope.

(* the checker accepts only results for which the declarative statement holds, with the given
   multipliers as witnesses *)
Theorem C07_cert_sound : forall d ds ps votes dseats pseats res rho gamma,
  cert_ok d ds ps votes dseats pseats res rho gamma = true ->
  spec_with d ds ps votes dseats pseats res (mul rho) (mul gamma) /\
  biprop_spec d ds ps votes dseats pseats res.
Proof.
  intros d ds ps votes dseats pseats res rho gamma H.
  pose proof (cert_sound d ds ps votes dseats pseats res rho gamma H) as S.
  split; [exact S|]. exists (mul rho), (mul gamma). exact S.
Qed.

(* ... and every result for which the statement holds with the given multipliers is accepted; if the
   statement holds at all, some certificate is accepted *)
Theorem C07_cert_complete : forall d ds ps votes dseats pseats res rho gamma,
  spec_with d ds ps votes dseats pseats res (mul rho) (mul gamma) ->
  cert_ok d ds ps votes dseats pseats res rho gamma = true.
Proof. exact cert_complete. Qed.

Theorem C07_cert_complete_ex : forall d ds ps votes dseats pseats res,
  biprop_spec d ds ps votes dseats pseats res ->
  exists rho gamma, cert_ok d ds ps votes dseats pseats res rho gamma = true.
Proof. exact cert_complete_ex. Qed.

(* the boolean rounding test is the rounding rule; a cell without votes rounds to 0 only *)
Theorem C07_rounds_reflect : forall d x s, rounds_b d x s = true <-> rounds d x s.
Proof. exact rounds_b_iff. Qed.
Theorem C07_zero_cell : forall d s, divisor_ok d -> rounds d 0 s -> s = 0.
Proof. intros d s [Hp _]. apply rounds_zero. exact Hp. Qed.

(* the party (and, for a seat total, the district) marginal the checker compares with IS the
   tie-free answer of the highest-averages model of C01 on the overall totals *)
Theorem C07_marginal_is_highest_averages : forall d tv n g, ha_marginal d tv n = Some g ->
  HighestAverages.evaluate d tv n [] [] = HA_ok g None.
Proof. exact ha_marginal_spec. Qed.

(* ---- invariants of the tie-and-transfer updates (proof-level support) ---- *)

(* _augment_result along ANY path (the path comes out of set.pop(): an oracle): whenever the transfer
   does not hit a KeyError, every party total is unchanged and the district totals change by +1 at the
   start of the path and -1 at its end, nowhere else *)
Theorem C07_augment_inv : forall m start hops m' ds ps,
  augment m start hops = Some m' -> NoDup ds -> NoDup ps -> In start ds ->
  (forall p d', In (p, d') hops -> In p ps /\ In d' ds) ->
  (forall j, colsum m' ds j = colsum m ds j) /\
  (forall i, rowsum m' ps i = rowsum m ps i + (if ceqb i start then 1 else 0)
                              - (if ceqb i (path_end start hops) then 1 else 0)).
Proof. exact augment_totals. Qed.

(* the multiplier update: with a = _adj_coef(...) accepted by the caller (0 < a <= 1; a = 0 and
   a >= 1 are refused), scaling labelled districts by a and labelled parties by 1/a keeps every cell
   between its signposts *)
Theorem C07_scale_inv : forall q res DL PL quots a,
  adj_coef q quots res DL PL = Adj a -> (0 < a)%Q -> (a <= 1)%Q ->
  (forall cell, In cell (cells_of quots) -> within q (snd cell) (mget res (fst (fst cell)) (snd (fst cell)))) ->
  forall cell, In cell (cells_of quots) ->
    within q (scaled DL PL a cell) (mget res (fst (fst cell)) (snd (fst cell))).
Proof. exact scale_keeps_cells. Qed.
Theorem C07_scale_is_multiplier_update : forall v r g a, ~ (a == 0)%Q ->
  (quot v (r * a) g == quot v r g * a)%Q /\ (quot v r (g / a) == quot v r g / a)%Q.
Proof. intros v r g a H. split; [apply quot_scale_rho|apply quot_scale_gamma, H]. Qed.

(* the implementation's cell invariant (signposts s - q) is the divisor-rule rounding of the checker:
   D'Hondt as it stands, Sainte-Lague after doubling the quotient (absorbed by a multiplier) *)
Theorem C07_units : forall x s, 0 <= s ->
  (within 0 x s -> rounds d_hondt x s) /\ (within (1 # 2) x s -> rounds sainte_lague (2 * x) s).
Proof. intros x s Hs. split; [apply within_rounds_d_hondt, Hs|apply within_rounds_sainte_lague, Hs]. Qed.

(* ---- the feasibility reference behind "refuses only when no seat matrix exists" ---- *)
Theorem C07_feasible_ref_sound : forall ds ps sup r c,
  match feasible_ref ds ps sup r c with
  | FeasMatrix m => matrix_spec ds ps sup r c m
  | FeasCut cut => forall m, ~ matrix_spec ds ps sup r c m
  | FeasUnknown => True
  end.
Proof. exact feasible_ref_sound. Qed.
Theorem C07_cut_sound : forall ds ps sup r c cut, cut_ok ds ps sup r c cut = true ->
  forall m, ~ matrix_spec ds ps sup r c m.
Proof. exact cut_sound. Qed.
Theorem C07_matrix_ok_reflect : forall ds ps sup r c m,
  matrix_ok ds ps sup r c m = true <-> matrix_spec ds ps sup r c m.
Proof. exact matrix_ok_iff. Qed.
(* completeness of the reference (it never answers FeasUnknown) is not proved: it is observed per
   instance - an Unknown answer makes the check fail as a broken harness obligation *)
Definition C07_feasible_ref_complete_full_statement : Prop := forall ds ps sup r c,
  NoDup ds -> NoDup ps -> (forall i, In i ds -> 0 <= r i) -> (forall j, In j ps -> 0 <= c j) ->
  feasible_ref ds ps sup r c <> FeasUnknown.

(* ---- a certified row is a divisor-method apportionment (link to C01) ---- *)
(* min-max form, the statement of C01_optimal: in every district, with the party multipliers as vote
   weights, nobody's next quotient exceeds anybody's last awarded quotient *)
Theorem C07_row_divisor_apportionment : forall d ds ps votes dseats pseats res rho gamma,
  divisor_ok d -> (forall i j, 0 <= mget votes i j) ->
  spec_with d ds ps votes dseats pseats res rho gamma ->
  forall i, In i ds -> forall j j', In j ps -> In j' ps -> (0 < mget res i j')%Z ->
    (inject_Z (mget votes i j) * gamma j / d (mget res i j)
     <= inject_Z (mget votes i j') * gamma j' / d (mget res i j' - 1)%Z)%Q.
Proof. intros d ds ps votes dseats pseats res rho gamma [Hp _]. apply spec_row_minmax. exact Hp. Qed.
(* when no two of these quotients are equal, the HighestAverages MODEL (C01) run on the district's votes weighted by
   the party multipliers returns exactly the row, without a tie.  Parties without votes in the district are left out
   of the run (they hold no seat on either side), and the district holds at least one seat (with 0 seats the
   HighestAverages code raises on its empty eligible list). Rests on the uniqueness theorem C01_unique. *)
Theorem C07_row_is_highest_averages : forall d ds ps votes dseats pseats res rho gamma, divisor_strict d -> divisor_ok d ->
  (forall i j, 0 <= mget votes i j) -> NoDup ps ->
  spec_with d ds ps votes dseats pseats res rho gamma ->
  forall i, In i ds -> 0 < dget_or dseats i 0 ->
  (forall j j', In j ps -> In j' ps -> 0 < mget res i j' ->
     (inject_Z (mget votes i j) * gamma j / d (mget res i j)
      < inject_Z (mget votes i j') * gamma j' / d (mget res i j' - 1)%Z)%Q) ->
  exists gains, HighestAverages.evaluate d (wrow votes gamma ps i) (dget_or dseats i 0) [] [] = HA_ok gains None /\
                forall j, In j ps -> dget_or gains j 0 = mget res i j.
Proof.
  intros d ds ps votes dseats pseats res rho gamma Hs Hok Hv Hps Hspec i Hi Hseats Hmm.
  exact (row_is_highest_averages d ds ps votes dseats pseats res rho gamma Hok Hs Hv Hps Hspec i Hi Hseats Hmm).
Qed.

(* the index lists the checker sums over (keys of the vote matrix in first-occurrence order) are
   duplicate-free and contain every cell with votes; hence under the statement no seat lies outside
   them and the sums are the full district and party totals *)
Theorem C07_index_covers_support : forall votes,
  NoDup (parties votes) /\
  forall i j, mget votes i j <> 0 -> In i (districts votes) /\ In j (parties votes).
Proof. intros votes. split; [apply parties_nodup|apply support_in_index]. Qed.
Theorem C07_no_seat_outside : forall d votes dseats pseats res rho gamma,
  spec_with d (districts votes) (parties votes) votes dseats pseats res rho gamma ->
  forall i j, mget res i j <> 0 -> In i (districts votes) /\ In j (parties votes).
Proof.
  intros d votes dseats pseats res rho gamma S i j H. apply support_in_index.
  intros Hv. apply H. apply (sp_zero _ _ _ _ _ _ _ _ _ S i j Hv).
Qed.

(* ---- non-vacuity ---- *)
Definition ex_votes : mat := [(1%positive, [(1%positive, 10); (2%positive, 20)]); (2%positive, [(1%positive, 30); (2%positive, 5)])].
Definition ex_res : mat := [(1%positive, [(1%positive, 1); (2%positive, 2)]); (2%positive, [(1%positive, 2)])].
Example C07_example_cert :
  ha_marginal d_hondt (party_totals ex_votes) 5 = Some [(1%positive, 3); (2%positive, 2)] /\
  ha_marginal d_hondt (district_totals ex_votes) 5 = Some [(2%positive, 3); (1%positive, 2)] /\
  cert_ok d_hondt (districts ex_votes) (parties ex_votes) ex_votes [(2%positive, 3); (1%positive, 2)]
          [(1%positive, 3); (2%positive, 2)] [(1%positive, [(2%positive, 2)]); (2%positive, [(1%positive, 3)])]
          [(1%positive, 1#1); (2%positive, 1#1)]%Q [(1%positive, 1#10); (2%positive, 1#10)]%Q = true.
Proof. vm_compute. repeat split. Qed.
Example C07_example_transfer :
  augment ex_res 2%positive [(2%positive, 1%positive)]
  = Some [(1%positive, [(1%positive, 1); (2%positive, 1)]); (2%positive, [(1%positive, 2); (2%positive, 1)])].
Proof. vm_compute. reflexivity. Qed.
Example C07_example_infeasible :
  feasible_ref [1%positive; 2%positive] [1%positive; 2%positive]
    (fun i j => match i, j with 1%positive, 1%positive => true | 2%positive, 1%positive => true | _, _ => false end)
    (fun i => 1) (fun j => 1) = FeasCut [2%positive; 1%positive].
Proof. vm_compute. reflexivity. Qed.

Print Assumptions C07_cert_sound.
Print Assumptions C07_cert_complete.
Print Assumptions C07_cert_complete_ex.
Print Assumptions C07_rounds_reflect.
Print Assumptions C07_zero_cell.
Print Assumptions C07_marginal_is_highest_averages.
Print Assumptions C07_augment_inv.
Print Assumptions C07_scale_inv.
Print Assumptions C07_scale_is_multiplier_update.
Print Assumptions C07_units.
Print Assumptions C07_feasible_ref_sound.
Print Assumptions C07_cut_sound.
Print Assumptions C07_matrix_ok_reflect.
Print Assumptions C07_row_divisor_apportionment.
Print Assumptions C07_row_is_highest_averages.
Print Assumptions C07_index_covers_support.
Print Assumptions C07_no_seat_outside.
