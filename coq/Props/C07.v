(* C07 - Biproportional result meets both marginals and is divisor-consistent.
   Property theorems only.  Model: Model/Biprop.v; proofs: Proofs/Biprop_proofs.v.

   Level of the claim: proof about a model of the whole evaluate (Model/BipropLoop.v: partial correctness, C07_evaluate_partial_correct;
   termination, C07_terminates; the opening refusal, C07_no_votes_refusal), tied to the code by correspondence; besides,
   EVERY output of BiproportionalEvaluator.evaluate is validated by the certificate checker [cert_ok], which is
   proved below to be sound and complete for the declarative statement [biprop_spec]:

     district totals = district apportionment, party totals = party apportionment, no seat without
     votes, and positive district and party multipliers exist such that every cell is a divisor-rule
     rounding of votes x district multiplier x party multiplier

   for every divisor sequence d (d k = the divisor at which seat k+1 is earned; d_hondt, sainte_lague,
   ... of Model/Divisor.v, tied to votelib/component/divisor.py by Props/GenTie_Divisor.v).  The
   multipliers come from the implementation's own state (verif hook) or from an exact solver in the
   harness; either way they are only a certificate. *)
From Coq Require Import ZArith QArith List Bool Lia Lqa.
From VL Require Import Prelude.PyDict Model.Divisor Model.HighestAverages Model.Biprop Model.BipropLoop
     Proofs.Dict_proofs Proofs.Divisor_proofs Proofs.Biprop_proofs Proofs.Biprop_steps Proofs.BipropRow_proofs
     Proofs.BipropLoop_proofs Proofs.BipropInit_proofs Proofs.BipropProgress_proofs Proofs.BipropTerm_proofs Proofs.BipropFlow_proofs Proofs.BipropRefusal_proofs Proofs.BipropNoKey_proofs.
Import ListNotations.
Open Scope Z_scope.

(* the checker accepts only results for which the declarative statement holds, with the given
   multipliers as witnesses *)
Theorem C07_cert_sound : forall d ds ps votes dseats pseats res rho gamma,
  cert_ok d ds ps votes dseats pseats res rho gamma = true ->
  spec_with d ds ps votes dseats pseats res (mul rho) (mul gamma) /\
  biprop_spec d ds ps votes dseats pseats res.
Proof.
  intros d ds ps votes dseats pseats res rho gamma H.
  pose proof (cert_sound d ds ps votes dseats pseats res rho gamma H) as S.
  split; [exact S|]. exists (mul rho), (mul gamma). exact S.
Qed.

(* ... and every result for which the statement holds with the given multipliers is accepted; if the
   statement holds at all, some certificate is accepted *)
Theorem C07_cert_complete : forall d ds ps votes dseats pseats res rho gamma,
  spec_with d ds ps votes dseats pseats res (mul rho) (mul gamma) ->
  cert_ok d ds ps votes dseats pseats res rho gamma = true.
Proof. exact cert_complete. Qed.

Theorem C07_cert_complete_ex : forall d ds ps votes dseats pseats res,
  biprop_spec d ds ps votes dseats pseats res ->
  exists rho gamma, cert_ok d ds ps votes dseats pseats res rho gamma = true.
Proof. exact cert_complete_ex. Qed.

(* the boolean rounding test is the rounding rule; a cell without votes rounds to 0 only *)
Theorem C07_rounds_reflect : forall d x s, rounds_b d x s = true <-> rounds d x s.
Proof. exact rounds_b_iff. Qed.
Theorem C07_zero_cell : forall d s, divisor_ok d -> rounds d 0 s -> s = 0.
Proof. intros d s [Hp _]. apply rounds_zero. exact Hp. Qed.

(* the party (and, for a seat total, the district) marginal the checker compares with IS the
   tie-free answer of the highest-averages model of C01 on the overall totals *)
Theorem C07_marginal_is_highest_averages : forall d tv n g, ha_marginal d tv n = Some g ->
  HighestAverages.evaluate d tv n [] [] = HA_ok g None.
Proof. exact ha_marginal_spec. Qed.

(* ---- invariants of the tie-and-transfer updates (proof-level support) ---- *)

(* _augment_result along ANY path (the path comes out of set.pop(): an oracle): whenever the transfer
   does not hit a KeyError, every party total is unchanged and the district totals change by +1 at the
   start of the path and -1 at its end, nowhere else *)
Theorem C07_augment_inv : forall m start hops m' ds ps,
  augment m start hops = Some m' -> NoDup ds -> NoDup ps -> In start ds ->
  (forall p d', In (p, d') hops -> In p ps /\ In d' ds) ->
  (forall j, colsum m' ds j = colsum m ds j) /\
  (forall i, rowsum m' ps i = rowsum m ps i + (if ceqb i start then 1 else 0)
                              - (if ceqb i (path_end start hops) then 1 else 0)).
Proof. exact augment_totals. Qed.

(* the multiplier update: with a = _adj_coef(...) accepted by the caller (0 < a <= 1; a = 0 and
   a >= 1 are refused), scaling labelled districts by a and labelled parties by 1/a keeps every cell
   between its signposts *)
Theorem C07_scale_inv : forall q res DL PL quots a,
  adj_coef q quots res DL PL = Adj a -> (0 < a)%Q -> (a <= 1)%Q ->
  (forall cell, In cell (cells_of quots) -> within q (snd cell) (mget res (fst (fst cell)) (snd (fst cell)))) ->
  forall cell, In cell (cells_of quots) ->
    within q (scaled DL PL a cell) (mget res (fst (fst cell)) (snd (fst cell))).
Proof. exact scale_keeps_cells. Qed.
Theorem C07_scale_is_multiplier_update : forall v r g a, ~ (a == 0)%Q ->
  (quot v (r * a) g == quot v r g * a)%Q /\ (quot v r (g / a) == quot v r g / a)%Q.
Proof. intros v r g a H. split; [apply quot_scale_rho|apply quot_scale_gamma, H]. Qed.

(* the implementation's cell invariant (signposts s - q) is the divisor-rule rounding of the checker:
   D'Hondt as it stands, Sainte-Lague after doubling the quotient (absorbed by a multiplier) *)
Theorem C07_units : forall x s, 0 <= s ->
  (within 0 x s -> rounds d_hondt x s) /\ (within (1 # 2) x s -> rounds sainte_lague (2 * x) s).
Proof. intros x s Hs. split; [apply within_rounds_d_hondt, Hs|apply within_rounds_sainte_lague, Hs]. Qed.

(* ---- the feasibility reference behind "refuses only when no seat matrix exists" ---- *)
Theorem C07_feasible_ref_sound : forall ds ps sup r c,
  match feasible_ref ds ps sup r c with
  | FeasMatrix m => matrix_spec ds ps sup r c m
  | FeasCut cut => forall m, ~ matrix_spec ds ps sup r c m
  | FeasUnknown => True
  end.
Proof. exact feasible_ref_sound. Qed.
Theorem C07_cut_sound : forall ds ps sup r c cut, cut_ok ds ps sup r c cut = true ->
  forall m, ~ matrix_spec ds ps sup r c m.
Proof. exact cut_sound. Qed.
Theorem C07_matrix_ok_reflect : forall ds ps sup r c m,
  matrix_ok ds ps sup r c m = true <-> matrix_spec ds ps sup r c m.
Proof. exact matrix_ok_iff. Qed.
(* completeness of the reference (wave 6): with duplicate-free index lists and non-negative marginals it never answers
   FeasUnknown - labels closed after |rows| + |columns| + 1 sweeps, predecessor labels ranked so that the augmenting path is
   walked within its fuel, closed labels without spare demand violate Hall's condition, one unit of flow per round
   (Proofs/BipropFlow_proofs.v).  The harness still fails the check on an Unknown answer (there is none) *)
Definition C07_feasible_ref_complete_full_statement : Prop := forall ds ps sup r c,
  NoDup ds -> NoDup ps -> (forall i, In i ds -> 0 <= r i) -> (forall j, In j ps -> 0 <= c j) ->
  feasible_ref ds ps sup r c <> FeasUnknown.
Theorem C07_feasible_ref_complete : C07_feasible_ref_complete_full_statement.
Proof. intros ds ps sup r c Hds Hps Hr Hc. exact (feasible_ref_complete ds ps sup r c Hds Hps Hr Hc). Qed.
(* hence the reference DECIDES whether a seat matrix with the marginals and the support exists *)
Theorem C07_feasible_ref_decides : forall ds ps sup r c,
  NoDup ds -> NoDup ps -> (forall i, In i ds -> 0 <= r i) -> (forall j, In j ps -> 0 <= c j) ->
  ((exists m, matrix_spec ds ps sup r c m) <-> exists m, feasible_ref ds ps sup r c = FeasMatrix m) /\
  ((forall m, ~ matrix_spec ds ps sup r c m) <-> exists cut, feasible_ref ds ps sup r c = FeasCut cut).
Proof.
  intros ds ps sup r c Hds Hps Hr Hc.
  pose proof (feasible_ref_sound ds ps sup r c) as S. pose proof (feasible_ref_complete ds ps sup r c Hds Hps Hr Hc) as K.
  destruct (feasible_ref ds ps sup r c) as [m|cut|]; [| |congruence].
  - split; [split; [intros _; exists m; reflexivity|intros _; exists m; exact S]|].
    split; [intros H; exfalso; apply (H m S)|intros (cut & E); discriminate].
  - split; [split; [intros (m & H); exfalso; apply (S m H)|intros (m & E); discriminate]|].
    split; [intros _; exists cut; reflexivity|intros _; exact S].
Qed.

(* ---- a certified row is a divisor-method apportionment (link to C01) ---- *)
(* min-max form, the statement of C01_optimal: in every district, with the party multipliers as vote
   weights, nobody's next quotient exceeds anybody's last awarded quotient *)
Theorem C07_row_divisor_apportionment : forall d ds ps votes dseats pseats res rho gamma,
  divisor_ok d -> (forall i j, 0 <= mget votes i j) ->
  spec_with d ds ps votes dseats pseats res rho gamma ->
  forall i, In i ds -> forall j j', In j ps -> In j' ps -> (0 < mget res i j')%Z ->
    (inject_Z (mget votes i j) * gamma j / d (mget res i j)
     <= inject_Z (mget votes i j') * gamma j' / d (mget res i j' - 1)%Z)%Q.
Proof. intros d ds ps votes dseats pseats res rho gamma [Hp _]. apply spec_row_minmax. exact Hp. Qed.
(* when no two of these quotients are equal, the HighestAverages MODEL (C01) run on the district's votes weighted by
   the party multipliers returns exactly the row, without a tie.  Parties without votes in the district are left out
   of the run (they hold no seat on either side), and the district holds at least one seat (with 0 seats the
   HighestAverages code raises on its empty eligible list). Rests on the uniqueness theorem C01_unique. *)
Theorem C07_row_is_highest_averages : forall d ds ps votes dseats pseats res rho gamma, divisor_strict d -> divisor_ok d ->
  (forall i j, 0 <= mget votes i j) -> NoDup ps ->
  spec_with d ds ps votes dseats pseats res rho gamma ->
  forall i, In i ds -> 0 < dget_or dseats i 0 ->
  (forall j j', In j ps -> In j' ps -> 0 < mget res i j' ->
     (inject_Z (mget votes i j) * gamma j / d (mget res i j)
      < inject_Z (mget votes i j') * gamma j' / d (mget res i j' - 1)%Z)%Q) ->
  exists gains, HighestAverages.evaluate d (wrow votes gamma ps i) (dget_or dseats i 0) [] [] = HA_ok gains None /\
                forall j, In j ps -> dget_or gains j 0 = mget res i j.
Proof.
  intros d ds ps votes dseats pseats res rho gamma Hs Hok Hv Hps Hspec i Hi Hseats Hmm.
  exact (row_is_highest_averages d ds ps votes dseats pseats res rho gamma Hok Hs Hv Hps Hspec i Hi Hseats Hmm).
Qed.

(* the index lists the checker sums over (keys of the vote matrix in first-occurrence order) are
   duplicate-free and contain every cell with votes; hence under the statement no seat lies outside
   them and the sums are the full district and party totals *)
Theorem C07_index_covers_support : forall votes,
  NoDup (parties votes) /\
  forall i j, mget votes i j <> 0 -> In i (districts votes) /\ In j (parties votes).
Proof. intros votes. split; [apply parties_nodup|apply support_in_index]. Qed.
Theorem C07_no_seat_outside : forall d votes dseats pseats res rho gamma,
  spec_with d (districts votes) (parties votes) votes dseats pseats res rho gamma ->
  forall i j, mget res i j <> 0 -> In i (districts votes) /\ In j (parties votes).
Proof.
  intros d votes dseats pseats res rho gamma S i j H. apply support_in_index.
  intros Hv. apply H. apply (sp_zero _ _ _ _ _ _ _ _ _ S i j Hv).
Qed.

(* ---- PARTIAL CORRECTNESS of the whole of BiproportionalEvaluator.evaluate (Model/BipropLoop.v) ----
   The model mirrors _initial_solution (HighestAverages = the C01 model; a tie inside a column spread over the first
   tied districts), _initial_party_coefs, _districts_unsat, _calc_quots, _labeled, the path walk of _augment_result,
   _adj_coef and the multiplier update, iterated on explicit fuel.  [q] is signpost_q, [d] the divisor function; the
   evaluator knows q for d_hondt (0) and sainte_lague (1/2), i.e. d s = k (s + 1 - q) with k = 1 / k = 2.
   Hypotheses: the vote matrix is a dict of dicts (keys without repetition) of non-negative integers;
   n >= 0; [dorder] (the iteration order of the frozenset of district names, which is where Python's set
   order reaches the algorithm) lists every district.  Running out of fuel (and every refusal: BP_no_votes, BP_refused,
   BP_zero_division, BP_key_error, BP_value_error, a tied marginal) is a different constructor; that the fuel of 7' (e)
   is never exhausted is the termination theorem C07_terminates. *)

(* 1. the loop invariant (party totals, no seat without votes, positive multipliers, every cell between its
      signposts s - q <= votes x rho x gamma <= s + 1 - q) is kept by ONE iteration, whatever it does *)
Theorem C07_step_keeps_invariant : forall q votes pseats tgt dorder s, (0 <= q)%Q -> (q < 1)%Q -> wf_votes votes ->
  BInv q votes pseats s ->
  match bstep q votes tgt dorder s with Next s' => BInv q votes pseats s' | _ => True end.
Proof. intros q votes pseats tgt dorder s Hq0 Hq Hwf. exact (bstep_inv q Hq0 Hq votes Hwf pseats tgt dorder s). Qed.

(* 2. from ANY state satisfying the invariant: if the loop returns a matrix, the certificate checker accepts it with the
      final multipliers (district multipliers times k: the checker works in the units of the divisor function) *)
Theorem C07_loop_partial_correct : forall d q k votes pseats tgt dorder fuel s res rho gamma,
  (0 <= q)%Q -> (q < 1)%Q -> (0 < k)%Q -> (forall z, d z == k * (inject_Z z + 1 - q))%Q ->
  wf_votes votes -> incl (districts votes) dorder -> BInv q votes pseats s ->
  bloop q votes tgt dorder fuel s = BP_ok res rho gamma ->
  cert_ok d (districts votes) (parties votes) votes tgt pseats res (scale_k k rho) gamma = true.
Proof.
  intros d q k votes pseats tgt dorder fuel s res rho gamma Hq0 Hq1 Hk Hd Hwf Hdo I H.
  exact (proj1 (bloop_partial d q k Hq0 Hq1 Hk Hd votes Hwf pseats tgt dorder Hdo fuel s res rho gamma I H)).
Qed.

(* 3. the state in which evaluate enters the loop satisfies the invariant, and its party totals are the tie-free answer
      of the HighestAverages model on the overall party votes *)
Theorem C07_initial_state_invariant : forall d q k votes n s,
  (0 <= q)%Q -> (q < 1)%Q -> (0 < k)%Q -> (forall z, d z == k * (inject_Z z + 1 - q))%Q ->
  wf_votes votes -> (forall i j, 0 <= mget votes i j) -> (exists i j, 0 < mget votes i j) -> 0 <= n ->
  binit d q votes n = inr s ->
  exists pseats, HighestAverages.evaluate d (party_totals votes) n [] [] = HA_ok pseats None /\ BInv q votes pseats s.
Proof. intros d q k votes n s Hq0 Hq1 Hk Hd Hwf Hv Hs Hn. exact (binit_inv d q k Hq0 Hq1 Hk Hd votes Hwf Hv Hs n Hn s). Qed.

(* 4. the whole evaluate, district seats given (a dictionary, or whatever a custom apportioner returned).  The code as it
      stands ([strict] = true: an election without a single vote is refused, fixes/C07-all-zero.diff) needs no hypothesis
      about positive votes any more *)
Theorem C07_evaluate_partial_correct : forall d q k votes n tgt dorder fuel res rho gamma,
  (0 <= q)%Q -> (q < 1)%Q -> (0 < k)%Q -> (forall z, d z == k * (inject_Z z + 1 - q))%Q ->
  wf_votes votes -> (forall i j, 0 <= mget votes i j) -> 0 <= n ->
  incl (districts votes) dorder ->
  evaluate_core d q votes tgt dorder true n fuel = BP_ok res rho gamma ->
  exists pseats, ha_marginal d (party_totals votes) n = Some pseats /\
    cert_ok d (districts votes) (parties votes) votes tgt pseats res (scale_k k rho) gamma = true /\
    biprop_spec d (districts votes) (parties votes) votes tgt pseats res.
Proof.
  intros d q k votes n tgt dorder fuel res rho gamma Hq0 Hq1 Hk Hd Hwf Hv Hn Hdo H.
  destruct (evaluate_core_partial d q k Hq0 Hq1 Hk Hd votes Hwf Hv n Hn dorder Hdo true tgt fuel res rho gamma (or_introl eq_refl) H) as (pseats & Hp & Hc).
  exists pseats. split; [exact Hp|]. split; [exact Hc|]. exact (proj2 (C07_cert_sound _ _ _ _ _ _ _ _ _ Hc)).
Qed.

(* 5. ... and seats given as a total: the districts are apportioned by the same HighestAverages model *)
Theorem C07_evaluate_total_partial_correct : forall d q k votes n dorder fuel res rho gamma,
  (0 <= q)%Q -> (q < 1)%Q -> (0 < k)%Q -> (forall z, d z == k * (inject_Z z + 1 - q))%Q ->
  wf_votes votes -> (forall i j, 0 <= mget votes i j) -> 0 <= n ->
  incl (districts votes) dorder ->
  evaluate_total d q votes true n dorder fuel = BP_ok res rho gamma ->
  exists pseats dseats, ha_marginal d (party_totals votes) n = Some pseats /\
    ha_marginal d (district_totals votes) n = Some dseats /\
    cert_ok d (districts votes) (parties votes) votes dseats pseats res (scale_k k rho) gamma = true /\
    biprop_spec d (districts votes) (parties votes) votes dseats pseats res.
Proof.
  intros d q k votes n dorder fuel res rho gamma Hq0 Hq1 Hk Hd Hwf Hv Hn Hdo H.
  destruct (evaluate_total_partial d q k Hq0 Hq1 Hk Hd votes Hwf Hv n Hn dorder Hdo true fuel res rho gamma (or_introl eq_refl) H) as (pseats & dseats & Hp & Hds & Hc).
  exists pseats, dseats. split; [exact Hp|]. split; [exact Hds|]. split; [exact Hc|]. exact (proj2 (C07_cert_sound _ _ _ _ _ _ _ _ _ Hc)).
Qed.

(* 5'. the pinned tree ([strict] = false: no test for an empty election) satisfies the same under the old hypothesis that
       some vote is positive; C07_all_zero_refuted below shows that it needs it *)
Theorem C07_evaluate_pinned_partial_correct : forall d q k votes n tgt dorder fuel res rho gamma,
  (0 <= q)%Q -> (q < 1)%Q -> (0 < k)%Q -> (forall z, d z == k * (inject_Z z + 1 - q))%Q ->
  wf_votes votes -> (forall i j, 0 <= mget votes i j) -> (exists i j, 0 < mget votes i j) -> 0 <= n ->
  incl (districts votes) dorder ->
  evaluate_core d q votes tgt dorder false n fuel = BP_ok res rho gamma ->
  exists pseats, ha_marginal d (party_totals votes) n = Some pseats /\
    cert_ok d (districts votes) (parties votes) votes tgt pseats res (scale_k k rho) gamma = true.
Proof.
  intros d q k votes n tgt dorder fuel res rho gamma Hq0 Hq1 Hk Hd Hwf Hv Hs Hn Hdo H.
  exact (evaluate_core_partial d q k Hq0 Hq1 Hk Hd votes Hwf Hv n Hn dorder Hdo false tgt fuel res rho gamma (or_intror Hs) H).
Qed.

(* 5''. the refusal that opens evaluate is exactly "no vote is cast" and it is justified: then no seat matrix has the party
        marginal and empty cells where there are no votes, whatever the district seats (the property's "refuses only when
        no seat matrix with those marginals and zero cells exists") *)
Theorem C07_no_votes_refusal : forall d q votes tgt dorder n fuel,
  (evaluate_core d q votes tgt dorder true n fuel = BP_no_votes <-> has_votes votes = false) /\
  (evaluate_total d q votes true n dorder fuel = BP_no_votes <-> has_votes votes = false) /\
  (wf_votes votes -> (has_votes votes = false <-> forall i j, mget votes i j = 0)).
Proof.
  intros d q votes tgt dorder n fuel. split; [apply evaluate_core_no_votes|]. split; [apply evaluate_total_no_votes|].
  intros Hwf. split; [apply has_votes_false|]. intros Hz. destruct (has_votes votes) eqn:E; [|reflexivity].
  destruct (has_votes_true votes Hwf E) as (i & j & H). exfalso. apply H, Hz.
Qed.
Theorem C07_no_votes_refusal_justified : forall d q k votes n pseats,
  (0 <= q)%Q -> (q < 1)%Q -> (0 < k)%Q -> (forall z, d z == k * (inject_Z z + 1 - q))%Q ->
  (forall i j, 0 <= mget votes i j) -> 0 <= n ->
  has_votes votes = false -> ha_marginal d (party_totals votes) n = Some pseats ->
  forall dseats res, ~ biprop_spec d (districts votes) (parties votes) votes dseats pseats res.
Proof.
  intros d q k votes n pseats Hq0 Hq1 Hk Hd Hv Hn. exact (no_votes_infeasible d q k Hq1 Hk Hd votes Hv n Hn pseats).
Qed.

(* 5c. THE OTHER REFUSAL SITE - VotingSystemError "invalid adjustment coefficient" - IS JUSTIFIED AS WELL, for the two rounding
       rules the evaluator supports (signpost_q = 0: D'Hondt, 1/2: Sainte-Lague): whenever the whole-loop model answers
       [BP_refused a], no seat matrix with the district seats, the party seats (the tie-free HighestAverages answer) and
       empty cells where there are no votes exists - with or without multipliers.  [dorder] lists exactly the districts
       (the target dictionary has no foreign key).  Proof: with closed labels the coefficient is < 1 (a candidate equal to
       1 is a tied cell the labelling search would have followed), so the refused coefficient is 0; then the labelled
       districts hold more seats than they are due, all in the columns of the labelled parties, which have no votes
       elsewhere: Hall's condition fails (Proofs/BipropRefusal_proofs.v).  Together with C07_no_votes_refusal_justified this is
       the property's "refuses with a voting-system error only when no seat matrix with those marginals and zero cells
       exists" for ALL inputs of the model *)
Theorem C07_refusal_justified : forall d q k votes n tgt dorder fuel a,
  (0 <= q)%Q -> (q < 1)%Q -> (q == 0 \/ q == 1 # 2)%Q -> (0 < k)%Q -> (forall z, d z == k * (inject_Z z + 1 - q))%Q ->
  wf_votes votes -> (forall i j, 0 <= mget votes i j) -> 0 <= n ->
  NoDup dorder -> incl (districts votes) dorder -> incl dorder (districts votes) ->
  evaluate_core d q votes tgt dorder true n fuel = BP_refused a ->
  exists pseats, ha_marginal d (party_totals votes) n = Some pseats /\
    (forall M, ~ matrix_spec (districts votes) (parties votes) (fun i j => 0 <? mget votes i j)
                             (fun i => dget_or tgt i 0) (fun j => dget_or pseats j 0) M) /\
    (forall res, ~ biprop_spec d (districts votes) (parties votes) votes tgt pseats res).
Proof.
  intros d q k votes n tgt dorder fuel a Hq0 Hq1 Hq Hk Hd Hwf Hv Hn Hdo Hdo1 Hdo2 H.
  destruct (evaluate_core_refused d q k Hq0 Hq1 Hq Hk Hd votes Hwf Hv n Hn dorder Hdo Hdo1 Hdo2 true tgt fuel a (or_introl eq_refl) H) as (pseats & Hp & Hinf).
  exists pseats. split; [exact Hp|]. split; [exact Hinf|].
  intros res S. apply (Hinf res). apply (spec_matrix d votes tgt pseats res Hv S).
Qed.
Theorem C07_total_refusal_justified : forall d q k votes n dorder fuel a,
  (0 <= q)%Q -> (q < 1)%Q -> (q == 0 \/ q == 1 # 2)%Q -> (0 < k)%Q -> (forall z, d z == k * (inject_Z z + 1 - q))%Q ->
  wf_votes votes -> (forall i j, 0 <= mget votes i j) -> 0 <= n ->
  NoDup dorder -> incl (districts votes) dorder -> incl dorder (districts votes) ->
  evaluate_total d q votes true n dorder fuel = BP_refused a ->
  exists pseats dseats, ha_marginal d (party_totals votes) n = Some pseats /\
    ha_marginal d (district_totals votes) n = Some dseats /\
    (forall M, ~ matrix_spec (districts votes) (parties votes) (fun i j => 0 <? mget votes i j)
                             (fun i => dget_or dseats i 0) (fun j => dget_or pseats j 0) M) /\
    (forall res, ~ biprop_spec d (districts votes) (parties votes) votes dseats pseats res).
Proof.
  intros d q k votes n dorder fuel a Hq0 Hq1 Hq Hk Hd Hwf Hv Hn Hdo Hdo1 Hdo2 H.
  destruct (evaluate_total_refused d q k Hq0 Hq1 Hq Hk Hd votes Hwf Hv n Hn dorder Hdo Hdo1 Hdo2 true fuel a (or_introl eq_refl) H) as (pseats & dseats & Hp & Hds & Hinf).
  exists pseats, dseats. split; [exact Hp|]. split; [exact Hds|]. split; [exact Hinf|].
  intros res S. apply (Hinf res). apply (spec_matrix d votes dseats pseats res Hv S).
Qed.
(* the step-level statement: from ANY state satisfying the loop invariant the refused coefficient is 0 (never >= 1) and the
   refusal is justified *)
Theorem C07_step_refusal_justified : forall q votes pseats tgt dorder s a,
  (0 <= q)%Q -> (q < 1)%Q -> (q == 0 \/ q == 1 # 2)%Q -> wf_votes votes -> (forall i j, 0 <= mget votes i j) ->
  NoDup dorder -> incl (districts votes) dorder -> incl dorder (districts votes) ->
  BInv q votes pseats s -> bstep q votes tgt dorder s = Stop (BP_refused a) ->
  (a == 0)%Q /\
  forall M, ~ matrix_spec (districts votes) (parties votes) (fun i j => 0 <? mget votes i j)
                          (fun i => dget_or tgt i 0) (fun j => dget_or pseats j 0) M.
Proof.
  intros q votes pseats tgt dorder s a Hq0 Hq1 Hq Hwf Hv Hdo Hdo1 Hdo2 I H. split.
  - destruct (bstep_refused q votes tgt dorder s a H) as (_ & LD & LP & El & Hnu & Ha & Hc).
    assert (Hov : NoDup (snd (unsat dorder (b_res s) tgt))) by (unfold unsat; cbn [snd]; apply NoDup_filter, Hdo).
    pose proof (coef_lt_1 q Hq0 Hq1 Hq votes Hwf pseats s _ _ LD LP a I Hov El Hnu Ha) as Hlt.
    apply orb_true_iff in Hc. destruct Hc as [Hc|Hc]; [apply Qeq_bool_iff, Hc|apply Qle_bool_iff in Hc; exfalso; apply (Qlt_not_le _ _ Hlt Hc)].
  - exact (step_refused_infeasible q Hq0 Hq1 Hq votes Hwf Hv pseats tgt dorder Hdo Hdo1 Hdo2 s a I H).
Qed.

(* 6. the two configurations the evaluator supports *)
Theorem C07_d_hondt_partial_correct : forall votes n dorder fuel res rho gamma,
  wf_votes votes -> (forall i j, 0 <= mget votes i j) -> 0 <= n ->
  incl (districts votes) dorder ->
  evaluate_total d_hondt 0 votes true n dorder fuel = BP_ok res rho gamma ->
  exists pseats dseats, ha_marginal d_hondt (party_totals votes) n = Some pseats /\
    ha_marginal d_hondt (district_totals votes) n = Some dseats /\
    cert_ok d_hondt (districts votes) (parties votes) votes dseats pseats res (scale_k 1 rho) gamma = true /\
    biprop_spec d_hondt (districts votes) (parties votes) votes dseats pseats res.
Proof.
  intros votes n dorder fuel res rho gamma. apply (C07_evaluate_total_partial_correct d_hondt 0 1);
    [apply Qle_refl|reflexivity|reflexivity|exact d_hondt_signposts].
Qed.
Theorem C07_sainte_lague_partial_correct : forall votes n dorder fuel res rho gamma,
  wf_votes votes -> (forall i j, 0 <= mget votes i j) -> 0 <= n ->
  incl (districts votes) dorder ->
  evaluate_total sainte_lague (1 # 2) votes true n dorder fuel = BP_ok res rho gamma ->
  exists pseats dseats, ha_marginal sainte_lague (party_totals votes) n = Some pseats /\
    ha_marginal sainte_lague (district_totals votes) n = Some dseats /\
    cert_ok sainte_lague (districts votes) (parties votes) votes dseats pseats res (scale_k 2 rho) gamma = true /\
    biprop_spec sainte_lague (districts votes) (parties votes) votes dseats pseats res.
Proof.
  intros votes n dorder fuel res rho gamma. apply (C07_evaluate_total_partial_correct sainte_lague (1 # 2) 2);
    [discriminate|reflexivity|reflexivity|exact sainte_lague_signposts].
Qed.

(* 7. the progress measure of the transfers: the flaw count - the sum over the districts of |seats held - seats due| -
      drops by exactly 2 with every seat transfer, which leaves the multipliers alone; a multiplier update leaves the seat
      matrix, hence the flaw count, alone.  At most flaw/2 transfers can happen; the number of consecutive multiplier
      updates is bounded in 7' (every update labels one more row or column) *)
Theorem C07_transfer_progress : forall q votes pseats tgt dorder s s', (q < 1)%Q -> wf_votes votes -> NoDup dorder ->
  BInv q votes pseats s -> bstep q votes tgt dorder s = Next s' ->
  (flaw tgt dorder (b_res s') = flaw tgt dorder (b_res s) - 2 /\ b_rho s' = b_rho s /\ b_gamma s' = b_gamma s) \/
  b_res s' = b_res s.
Proof. intros q votes pseats tgt dorder s s' Hq1 Hwf Hdo. exact (bstep_progress q Hq1 votes Hwf pseats tgt dorder Hdo s s'). Qed.
Definition C07_termination_full_statement : Prop := forall d q k votes n tgt dorder,
  (0 <= q)%Q -> (q < 1)%Q -> (0 < k)%Q -> (forall z, d z == k * (inject_Z z + 1 - q))%Q ->
  wf_votes votes -> (forall i j, 0 <= mget votes i j) -> NoDup dorder ->
  exists fuel, evaluate_core d q votes tgt dorder true n fuel <> BP_out_of_fuel.

(* 7'. TERMINATION.  (a) What the labelling search computes: exactly the districts / parties reachable from the
       over-represented districts along tied cells ([Reach]: a labelled district reaches a party through a cell that can
       give a seat away, a labelled party reaches a district through a cell that can take one), whenever it ends without
       touching an under-represented district (the case in which the multipliers are updated) *)
Theorem C07_labelling_is_reachability : forall q quots res ps ds under over LD LP, NoDup over ->
  labeled q ps ds quots res under over = Lab LD LP ->
  sort_pos (filter (fun i => dmem LD i) under) = [] ->
  NoDup (map fst LD) /\ NoDup (map fst LP) /\
  (forall i, In i (map fst LD) <-> Reach q quots res (sort_pos ps) ds over (inl i)) /\
  (forall p, In p (map fst LP) <-> Reach q quots res (sort_pos ps) ds over (inr p)).
Proof.
  intros q quots res ps ds under over LD LP Hov H Hn.
  unfold labeled in H. change (map (fun i => (i, @None C)) over) with (LD0 over) in H.
  destruct (lab_loop_spec q quots res (sort_pos ps) ds under over _ _ _ _ _ (LInv_init q quots res (sort_pos ps) ds over Hov) H) as [I Cl].
  specialize (Cl (no_under_labelled LD under Hn)).
  split; [apply (li_ndD _ _ _ _ _ _ _ _ I)|]. split; [apply (li_ndP _ _ _ _ _ _ _ _ I)|]. split.
  - intros i. split; [apply (li_reachD _ _ _ _ _ _ _ _ I)|apply (closed_complete _ _ _ _ _ _ _ _ I Cl (inl i))].
  - intros p. split; [apply (li_reachP _ _ _ _ _ _ _ _ I)|apply (closed_complete _ _ _ _ _ _ _ _ I Cl (inr p))].
Qed.

(* (b) the progress of a multiplier update: the accepted adjustment coefficient is attained at a cell, which the update puts
       exactly on a signpost, while cells between two labelled lines keep their quotient - so every label survives and, if
       the next iteration is an accepted update again, it labels strictly more lines (otherwise its coefficient would be
       >= 1: a refusal).  At most |districts| + |parties| + 1 updates follow one another *)
Theorem C07_update_progress : forall q votes pseats s under over LD LP a LD' LP' a',
  (q < 1)%Q -> wf_votes votes -> BInv q votes pseats s -> NoDup over ->
  labeled q (parties votes) (districts votes) (calc_quots votes (b_rho s) (b_gamma s)) (b_res s) under over = Lab LD LP ->
  sort_pos (filter (fun i => dmem LD i) under) = [] ->
  adj_coef q (calc_quots votes (b_rho s) (b_gamma s)) (b_res s) (map fst LD) (map fst LP) = Adj a ->
  Qeq_bool a 0 || Qle_bool 1 a = false ->
  let rho' := scale_rho_r (map fst LD) a (b_rho s) in
  let gamma' := scale_gamma_r (map fst LP) a (b_gamma s) in
  labeled q (parties votes) (districts votes) (calc_quots votes rho' gamma') (b_res s) under over = Lab LD' LP' ->
  sort_pos (filter (fun i => dmem LD' i) under) = [] ->
  adj_coef q (calc_quots votes rho' gamma') (b_res s) (map fst LD') (map fst LP') = Adj a' ->
  Qeq_bool a' 0 || Qle_bool 1 a' = false ->
  (length LD + length LP < length LD' + length LP')%nat /\
  (length over <= length LD + length LP)%nat /\
  (length LD' + length LP' <= length over + length (districts votes) + length (parties votes))%nat.
Proof.
  intros q votes pseats s under over LD LP a LD' LP' a' Hq1 Hwf I Hov El Hn Ha Hc rho' gamma' El' Hn' Ha' Hc'.
  split; [exact (update_progress q Hq1 votes Hwf pseats s under over LD LP a LD' LP' a' I Hov El Hn Ha Hc El' Hn' Ha' Hc')|].
  pose proof (labeled_count q votes _ _ _ _ _ _ Hov El) as [H1 _].
  pose proof (labeled_count q votes _ _ _ _ _ _ Hov El') as [_ H2]. unfold K in H2. split; [exact H1|]. lia.
Qed.

(* (c) neither the labelling search nor the path walk exhausts its own fuel: an iteration never stops with the out-of-fuel
       answer *)
Theorem C07_step_never_out_of_fuel : forall q votes tgt dorder s, NoDup dorder ->
  bstep q votes tgt dorder s <> Stop BP_out_of_fuel.
Proof. intros q votes tgt dorder s Hdo. exact (bstep_fuel q votes tgt dorder Hdo s). Qed.

(* (d) from ANY state satisfying the loop invariant the loop ends within (flaw / 2 + 1) * (|districts| + |parties| + 2)
       iterations: with that much fuel the out-of-fuel answer is unreachable *)
Theorem C07_loop_terminates : forall q votes pseats tgt dorder fuel s,
  (0 <= q)%Q -> (q < 1)%Q -> wf_votes votes -> NoDup dorder -> BInv q votes pseats s ->
  ((Z.to_nat (flaw tgt dorder (b_res s) / 2) + 1) * (length (districts votes) + length (parties votes) + 2) <= fuel)%nat ->
  bloop q votes tgt dorder fuel s <> BP_out_of_fuel.
Proof.
  intros q votes pseats tgt dorder fuel s Hq0 Hq1 Hwf Hdo I Hf.
  apply (bloop_terminates q Hq0 Hq1 votes Hwf pseats tgt dorder Hdo fuel s 0%nat I (upd_min_0 q votes tgt dorder Hdo s)); [lia|].
  unfold K. nia.
Qed.

(* (e) the whole evaluate (the code as it stands: [strict] = true) terminates: [fuel_bound] = (flaw of the initial
       solution / 2 + 1) * (|districts| + |parties| + 2) iterations suffice, for every vote matrix of non-negative integers,
       every n (also negative), every target dictionary and every iteration order without repetition *)
Theorem C07_terminates : forall d q k votes n tgt dorder fuel,
  (0 <= q)%Q -> (q < 1)%Q -> (0 < k)%Q -> (forall z, d z == k * (inject_Z z + 1 - q))%Q ->
  wf_votes votes -> (forall i j, 0 <= mget votes i j) -> NoDup dorder ->
  (fuel_bound d q votes tgt dorder n <= fuel)%nat ->
  evaluate_core d q votes tgt dorder true n fuel <> BP_out_of_fuel.
Proof.
  intros d q k votes n tgt dorder fuel Hq0 Hq1 Hk Hd Hwf Hv Hdo Hf.
  exact (evaluate_core_terminates d q k Hq0 Hq1 Hk Hd votes Hwf Hv dorder Hdo true tgt n fuel (or_introl eq_refl) Hf).
Qed.
Theorem C07_total_terminates : forall d q k votes n dorder fuel,
  (0 <= q)%Q -> (q < 1)%Q -> (0 < k)%Q -> (forall z, d z == k * (inject_Z z + 1 - q))%Q ->
  wf_votes votes -> (forall i j, 0 <= mget votes i j) -> NoDup dorder ->
  (fuel_bound_total d q votes dorder n <= fuel)%nat ->
  evaluate_total d q votes true n dorder fuel <> BP_out_of_fuel.
Proof.
  intros d q k votes n dorder fuel Hq0 Hq1 Hk Hd Hwf Hv Hdo Hf.
  exact (evaluate_total_terminates d q k Hq0 Hq1 Hk Hd votes Hwf Hv dorder Hdo true n fuel (or_introl eq_refl) Hf).
Qed.
(* ... so the termination clause, kept as a full statement until wave 6, is a theorem *)
Theorem C07_termination : C07_termination_full_statement.
Proof.
  intros d q k votes n tgt dorder Hq0 Hq1 Hk Hd Hwf Hv Hdo. exists (fuel_bound d q votes tgt dorder n).
  apply (C07_terminates d q k votes n tgt dorder _ Hq0 Hq1 Hk Hd Hwf Hv Hdo). apply le_n.
Qed.

(* 7''. NO KeyError (wave 6): with a target dictionary without foreign keys ([dorder] within the districts) the model of
        evaluate never answers [BP_key_error] - the labelling search only reads rows of districts, the label dictionaries
        point backwards (the party that labelled a district was labelled from a district of lower rank), so the path walk of
        _augment_result pops every set once, visits no district twice and ends at an over-represented district, and every cell
        that loses a seat on the way is stored; the initial solution has a row for every district
        (Proofs/BipropNoKey_proofs.v).  No hypothesis on the invariant is needed. *)
Theorem C07_no_key_error : forall d q k votes n tgt dorder strict fuel,
  (q < 1)%Q -> (0 < k)%Q -> (forall z, d z == k * (inject_Z z + 1 - q))%Q ->
  wf_votes votes -> (forall i j, 0 <= mget votes i j) -> NoDup dorder -> incl dorder (districts votes) ->
  evaluate_core d q votes tgt dorder strict n fuel <> BP_key_error.
Proof.
  intros d q k votes n tgt dorder strict fuel Hq1 Hk Hd Hwf Hv Hdo Hdo2.
  exact (evaluate_core_nokey d q k votes tgt dorder strict n fuel Hq1 Hk Hd Hwf Hv Hdo Hdo2).
Qed.

(* 7'''. TOTAL CORRECTNESS of the model of evaluate (the code as it stands), in one statement: with the fuel of C07_terminates,
         for the two rounding rules the evaluator supports and a target dictionary over exactly the districts, the answer is
           - a seat matrix certified by the final multipliers (both marginals, zero cells, every cell a rounding), or
           - a refusal (VotingSystemError: no votes / invalid adjustment coefficient) and then NO seat matrix with the
             marginals and empty cells where there are no votes exists, or
           - the Tie / ValueError of the apportionment of the party seats, and then there is no tie-free party marginal
             (outside the property's quantifier);
         never a KeyError, a ZeroDivisionError, nor the out-of-fuel answer *)
Theorem C07_total_correct : forall d q k votes n tgt dorder fuel,
  (0 <= q)%Q -> (q < 1)%Q -> (q == 0 \/ q == 1 # 2)%Q -> (0 < k)%Q -> (forall z, d z == k * (inject_Z z + 1 - q))%Q ->
  wf_votes votes -> (forall i j, 0 <= mget votes i j) -> 0 <= n ->
  NoDup dorder -> incl (districts votes) dorder -> incl dorder (districts votes) ->
  (fuel_bound d q votes tgt dorder n <= fuel)%nat ->
  match evaluate_core d q votes tgt dorder true n fuel with
  | BP_ok res rho gamma =>
      exists pseats, ha_marginal d (party_totals votes) n = Some pseats /\
        cert_ok d (districts votes) (parties votes) votes tgt pseats res (scale_k k rho) gamma = true /\
        biprop_spec d (districts votes) (parties votes) votes tgt pseats res
  | BP_no_votes =>
      forall pseats, ha_marginal d (party_totals votes) n = Some pseats ->
        forall dseats res, ~ biprop_spec d (districts votes) (parties votes) votes dseats pseats res
  | BP_refused a =>
      exists pseats, ha_marginal d (party_totals votes) n = Some pseats /\
        forall res, ~ biprop_spec d (districts votes) (parties votes) votes tgt pseats res
  | BP_party_tie | BP_value_error => ha_marginal d (party_totals votes) n = None
  | BP_zero_division | BP_key_error | BP_district_tie | BP_out_of_fuel => False
  end.
Proof.
  intros d q k votes n tgt dorder fuel Hq0 Hq1 Hq Hk Hd Hwf Hv Hn Hdo Hdo1 Hdo2 Hf.
  assert (Hd0 : (0 < d 0%Z)%Q) by (rewrite Hd; change (inject_Z 0) with 0%Q; nra).
  destruct (evaluate_core d q votes tgt dorder true n fuel) as [res rho gamma|a| | | | | | |] eqn:E.
  - exact (C07_evaluate_partial_correct d q k votes n tgt dorder fuel res rho gamma Hq0 Hq1 Hk Hd Hwf Hv Hn Hdo1 E).
  - destruct (C07_refusal_justified d q k votes n tgt dorder fuel a Hq0 Hq1 Hq Hk Hd Hwf Hv Hn Hdo Hdo1 Hdo2 E) as (pseats & Hp & _ & Hinf).
    exists pseats. split; [exact Hp|exact Hinf].
  - exact (evaluate_core_no_zerodiv d q k votes tgt dorder true n fuel Hq0 Hq1 Hk Hd Hwf Hv Hn (or_introl eq_refl) E).
  - exact (C07_no_key_error d q k votes n tgt dorder true fuel Hq1 Hk Hd Hwf Hv Hdo Hdo2 E).
  - apply (evaluate_core_marginal_errors d q votes tgt dorder true n fuel Hd0). left. exact E.
  - apply (evaluate_core_marginal_errors d q votes tgt dorder true n fuel Hd0). right. exact E.
  - exact (evaluate_core_no_district_tie d q votes tgt dorder true n fuel E).
  - intros pseats Hp. apply (C07_no_votes_refusal_justified d q k votes n pseats Hq0 Hq1 Hk Hd Hv Hn); [|exact Hp].
    apply (proj1 (proj1 (C07_no_votes_refusal d q votes tgt dorder n fuel)) E).
  - exact (C07_terminates d q k votes n tgt dorder fuel Hq0 Hq1 Hk Hd Hwf Hv Hdo Hf E).
Qed.

(* ... and with the seats given as a total (districts apportioned by the same HighestAverages model) *)
Theorem C07_total_correct_seats_total : forall d q k votes n dorder fuel,
  (0 <= q)%Q -> (q < 1)%Q -> (q == 0 \/ q == 1 # 2)%Q -> (0 < k)%Q -> (forall z, d z == k * (inject_Z z + 1 - q))%Q ->
  wf_votes votes -> (forall i j, 0 <= mget votes i j) -> 0 <= n ->
  NoDup dorder -> incl (districts votes) dorder -> incl dorder (districts votes) ->
  (fuel_bound_total d q votes dorder n <= fuel)%nat ->
  match evaluate_total d q votes true n dorder fuel with
  | BP_ok res rho gamma =>
      exists pseats dseats, ha_marginal d (party_totals votes) n = Some pseats /\
        ha_marginal d (district_totals votes) n = Some dseats /\
        cert_ok d (districts votes) (parties votes) votes dseats pseats res (scale_k k rho) gamma = true /\
        biprop_spec d (districts votes) (parties votes) votes dseats pseats res
  | BP_no_votes =>
      forall pseats, ha_marginal d (party_totals votes) n = Some pseats ->
        forall dseats res, ~ biprop_spec d (districts votes) (parties votes) votes dseats pseats res
  | BP_refused a =>
      exists pseats dseats, ha_marginal d (party_totals votes) n = Some pseats /\
        ha_marginal d (district_totals votes) n = Some dseats /\
        forall res, ~ biprop_spec d (districts votes) (parties votes) votes dseats pseats res
  | BP_party_tie | BP_value_error | BP_district_tie =>
      ha_marginal d (party_totals votes) n = None \/ ha_marginal d (district_totals votes) n = None
  | BP_zero_division | BP_key_error | BP_out_of_fuel => False
  end.
Proof.
  intros d q k votes n dorder fuel Hq0 Hq1 Hq Hk Hd Hwf Hv Hn Hdo Hdo1 Hdo2 Hf.
  pose proof (fun tgt f Hb => C07_total_correct d q k votes n tgt dorder f Hq0 Hq1 Hq Hk Hd Hwf Hv Hn Hdo Hdo1 Hdo2 Hb) as TC.
  unfold evaluate_total. unfold fuel_bound_total in Hf.
  destruct (refuses_empty votes true) eqn:Er.
  - specialize (TC [] (fuel_bound d q votes [] dorder n) (le_n _)). unfold evaluate_core in TC. rewrite Er in TC. exact TC.
  - destruct (binit d q votes n) as [e|s] eqn:Ei.
    + specialize (TC [] fuel). unfold evaluate_core, fuel_bound in TC. rewrite Er, Ei in TC. specialize (TC (Nat.le_0_l _)).
      destruct e; try exact TC; try (left; exact TC);
        exfalso; unfold binit in Ei; destruct (initial_solution d votes n); discriminate.
    + destruct (evaluate d (district_totals votes) n [] []) as [tgt [t|]|] eqn:Et.
      * right. unfold ha_marginal. rewrite Et. reflexivity.
      * specialize (TC tgt fuel Hf).
        assert (Hds : ha_marginal d (district_totals votes) n = Some tgt) by (unfold ha_marginal; rewrite Et; reflexivity).
        destruct (evaluate_core d q votes tgt dorder true n fuel) as [res rho gamma|a| | | | | | |]; try exact TC; try (left; exact TC); try (exfalso; exact TC).
        -- destruct TC as (pseats & Hp & Hc & Hs). exists pseats, tgt. auto.
        -- destruct TC as (pseats & Hp & Hinf). exists pseats, tgt. auto.
      * right. unfold ha_marginal. rewrite Et. reflexivity.
Qed.

(* 8. what the wire unit 105 runs (one pass that returns the trace and the outcome) IS the model of the theorems above *)
Theorem C07_unit_runs_the_model : forall d q votes tgt dorder strict n fuel,
  snd (run_core d q votes tgt dorder strict n fuel) = evaluate_core d q votes tgt dorder strict n fuel /\
  snd (run_total d q votes strict n dorder fuel) = evaluate_total d q votes strict n dorder fuel /\
  fst (run_core d q votes tgt dorder strict n fuel) =
    if refuses_empty votes strict then [] else
    match binit d q votes n with inr s => btrace q votes tgt dorder fuel s | inl _ => [] end.
Proof.
  intros d q votes tgt dorder strict n fuel. destruct (run_core_spec d q votes tgt dorder strict n fuel) as [H1 H2].
  split; [exact H1|]. split; [apply run_total_spec|exact H2].
Qed.

(* the PINNED tree ([strict] = false; finding C07-all-zero, repaired by fixes/C07-all-zero.diff): on a matrix without a single
   vote it returned a matrix with a seat in a cell without votes - for it the hypothesis "some vote is positive" of
   C07_evaluate_pinned_partial_correct cannot be dropped.  The code as it stands refuses that election. *)
Definition zero_votes : mat := [(1%positive, [(1%positive, 0)]); (2%positive, [(1%positive, 0)])].
Theorem C07_all_zero_refuted : exists votes tgt res rho gamma,
  evaluate_core d_hondt 0 votes tgt [1%positive; 2%positive] false 1 5 = BP_ok res rho gamma /\
  wf_votes votes /\ (forall i j, mget votes i j = 0) /\
  entries_ok votes res = false /\
  evaluate_core d_hondt 0 votes tgt [1%positive; 2%positive] true 1 5 = BP_no_votes.
Proof.
  exists zero_votes, [(1%positive, 1)]. eexists. eexists. eexists.
  split; [vm_compute; reflexivity|]. split; [|split].
  - split; [repeat constructor; simpl; intuition discriminate|].
    intros row [<-|[<-|[]]]; simpl; repeat constructor; simpl; tauto.
  - intros i j. unfold mget, dget_or.
    destruct (dget zero_votes i) as [r|] eqn:E; [|reflexivity].
    destruct (dget r j) as [z|] eqn:E2; [|reflexivity]. apply dget_In in E. apply dget_In in E2.
    destruct E as [E|[E|[]]]; injection E as <- <-; destruct E2 as [E2|[]]; injection E2 as <- <-; reflexivity.
  - split; vm_compute; reflexivity.
Qed.

(* ---- non-vacuity ---- *)
Definition ex_votes : mat := [(1%positive, [(1%positive, 10); (2%positive, 20)]); (2%positive, [(1%positive, 30); (2%positive, 5)])].
Definition ex_res : mat := [(1%positive, [(1%positive, 1); (2%positive, 2)]); (2%positive, [(1%positive, 2)])].
Example C07_example_cert :
  ha_marginal d_hondt (party_totals ex_votes) 5 = Some [(1%positive, 3); (2%positive, 2)] /\
  ha_marginal d_hondt (district_totals ex_votes) 5 = Some [(2%positive, 3); (1%positive, 2)] /\
  cert_ok d_hondt (districts ex_votes) (parties ex_votes) ex_votes [(2%positive, 3); (1%positive, 2)]
          [(1%positive, 3); (2%positive, 2)] [(1%positive, [(2%positive, 2)]); (2%positive, [(1%positive, 3)])]
          [(1%positive, 1#1); (2%positive, 1#1)]%Q [(1%positive, 1#10); (2%positive, 1#10)]%Q = true.
Proof. vm_compute. repeat split. Qed.
Example C07_example_transfer :
  augment ex_res 2%positive [(2%positive, 1%positive)]
  = Some [(1%positive, [(1%positive, 1); (2%positive, 1)]); (2%positive, [(1%positive, 2); (2%positive, 1)])].
Proof. vm_compute. reflexivity. Qed.
Example C07_example_infeasible :
  feasible_ref [1%positive; 2%positive] [1%positive; 2%positive]
    (fun i j => match i, j with 1%positive, 1%positive => true | 2%positive, 1%positive => true | _, _ => false end)
    (fun i => 1) (fun j => 1) = FeasCut [2%positive; 1%positive].
Proof. vm_compute. reflexivity. Qed.

(* the hypotheses of the partial-correctness theorems hold for the example matrix, and the whole-loop model returns on it
   after one seat transfer (D'Hondt, 5 seats) *)
Example C07_example_hypotheses :
  wf_votes ex_votes /\ (forall i j, 0 <= mget ex_votes i j) /\ (exists i j, 0 < mget ex_votes i j) /\
  incl (districts ex_votes) [1%positive; 2%positive] /\ has_votes ex_votes = true.
Proof.
  split; [|split; [|split; [|split; [|reflexivity]]]].
  - split; [repeat constructor; simpl; intuition discriminate|].
    intros row [<-|[<-|[]]]; simpl; repeat constructor; simpl; intuition discriminate.
  - intros i j. unfold mget, dget_or.
    destruct (dget ex_votes i) as [r|] eqn:E; [|lia].
    destruct (dget r j) as [z|] eqn:E2; [|lia]. apply dget_In in E. apply dget_In in E2.
    destruct E as [E|[E|[]]]; injection E as <- <-; (destruct E2 as [E2|[E2|[]]]; injection E2 as <- <-; lia).
  - exists 1%positive, 1%positive. vm_compute. reflexivity.
  - intros x H. exact H.
Qed.
Example C07_example_whole_loop :
  evaluate_total d_hondt 0 ex_votes true 5 [1%positive; 2%positive] 10
  = BP_ok [(1%positive, [(2%positive, 2)]); (2%positive, [(1%positive, 3)])]
          [(1%positive, 1); (2%positive, 1)]%Q [(1%positive, 1 # 10); (2%positive, 1 # 8)]%Q /\
  length (btrace 0 ex_votes [(2%positive, 3); (1%positive, 2)] [1%positive; 2%positive] 10
            (mk_bstate [(1%positive, [(1%positive, 1); (2%positive, 2)]); (2%positive, [(1%positive, 2)])]
                       [(1%positive, 1); (2%positive, 1)]%Q [(1%positive, 1 # 10); (2%positive, 1 # 8)]%Q)) = 2%nat.
Proof. vm_compute. split; reflexivity. Qed.

(* the fuel bound of the termination theorem on the example: (2 / 2 + 1) * (2 + 2 + 2) = 12 iterations suffice (the run takes 2) *)
Example C07_example_fuel_bound :
  fuel_bound d_hondt 0 ex_votes [(2%positive, 3); (1%positive, 2)] [1%positive; 2%positive] 5 = 12%nat /\
  fuel_bound_total d_hondt 0 ex_votes [1%positive; 2%positive] 5 = 12%nat /\
  NoDup [1%positive; 2%positive].
Proof. split; [vm_compute; reflexivity|]. split; [vm_compute; reflexivity|]. repeat constructor; simpl; intuition discriminate. Qed.

(* the refusal theorem C07_refusal_justified is not vacuous: a district without votes that is due a seat - the model (like the
   code: VotingSystemError "invalid adjustment coefficient 0" after two transfers' worth of updates) refuses, the party
   marginal is tie-free, the iteration order lists exactly the districts *)
Definition empty_district_votes : mat :=
  [(1%positive, [(1%positive, 10); (2%positive, 20)]); (2%positive, [(1%positive, 0); (2%positive, 0)])].
Example C07_example_refused :
  evaluate_core d_hondt 0 empty_district_votes [(1%positive, 2); (2%positive, 1)] [1%positive; 2%positive] true 3 20 = BP_refused 0 /\
  ha_marginal d_hondt (party_totals empty_district_votes) 3 = Some [(2%positive, 2); (1%positive, 1)] /\
  districts empty_district_votes = [1%positive; 2%positive].
Proof. vm_compute. repeat split. Qed.

(* the refusal theorems are not vacuous: a matrix without votes whose party marginal is tie-free, refused by the model *)
Example C07_example_no_votes :
  has_votes zero_votes = false /\ ha_marginal d_hondt (party_totals zero_votes) 1 = Some [(1%positive, 1)] /\
  evaluate_total d_hondt 0 zero_votes true 1 [1%positive; 2%positive] 5 = BP_no_votes.
Proof. vm_compute. repeat split. Qed.

Print Assumptions C07_cert_sound.
Print Assumptions C07_cert_complete.
Print Assumptions C07_cert_complete_ex.
Print Assumptions C07_rounds_reflect.
Print Assumptions C07_zero_cell.
Print Assumptions C07_marginal_is_highest_averages.
Print Assumptions C07_augment_inv.
Print Assumptions C07_scale_inv.
Print Assumptions C07_scale_is_multiplier_update.
Print Assumptions C07_units.
Print Assumptions C07_feasible_ref_sound.
Print Assumptions C07_cut_sound.
Print Assumptions C07_matrix_ok_reflect.
Print Assumptions C07_feasible_ref_complete.
Print Assumptions C07_feasible_ref_decides.
Print Assumptions C07_row_divisor_apportionment.
Print Assumptions C07_row_is_highest_averages.
Print Assumptions C07_index_covers_support.
Print Assumptions C07_no_seat_outside.
Print Assumptions C07_step_keeps_invariant.
Print Assumptions C07_loop_partial_correct.
Print Assumptions C07_initial_state_invariant.
Print Assumptions C07_evaluate_partial_correct.
Print Assumptions C07_evaluate_total_partial_correct.
Print Assumptions C07_evaluate_pinned_partial_correct.
Print Assumptions C07_no_votes_refusal.
Print Assumptions C07_no_votes_refusal_justified.
Print Assumptions C07_refusal_justified.
Print Assumptions C07_total_refusal_justified.
Print Assumptions C07_step_refusal_justified.
Print Assumptions C07_d_hondt_partial_correct.
Print Assumptions C07_sainte_lague_partial_correct.
Print Assumptions C07_all_zero_refuted.
Print Assumptions C07_transfer_progress.
Print Assumptions C07_labelling_is_reachability.
Print Assumptions C07_update_progress.
Print Assumptions C07_step_never_out_of_fuel.
Print Assumptions C07_loop_terminates.
Print Assumptions C07_terminates.
Print Assumptions C07_total_terminates.
Print Assumptions C07_termination.
Print Assumptions C07_no_key_error.
Print Assumptions C07_total_correct.
Print Assumptions C07_total_correct_seats_total.
Print Assumptions C07_unit_runs_the_model.
