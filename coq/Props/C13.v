(* C13 - Vote converters are per-ballot exact and additive: no vote lost or doubled.
   Property theorems only.  Models: Prelude/GDict.v (the accumulating fold [conv]) and
   Model/Convert.v (the per-ballot images); proofs: Proofs/Convert_proofs.v.

   Every modelled converter is [dconv image] for a per-ballot [image]; the theorems
   below hold for ANY image, hence for all of them at once, for every profile (a list
   of weighted ballots, any size, rational weights) and every output key. *)
From Coq Require Import ZArith QArith List Bool Permutation.
From VL Require Import Prelude.Sx Prelude.PyDict Prelude.GDict Model.Convert Proofs.Convert_proofs.
Import ListNotations.
Open Scope Q_scope.

Notation value := (gget sx_eqb).

(* converting the union of two profiles equals the sum of their conversions *)
Theorem C13_additive : forall (B : Type) (image : B -> list (sx * Q)) (a b : list (B * Q)) (k : sx),
  value (dconv image (a ++ b)) k == value (dconv image a) k + value (dconv image b) k.
Proof. intros B image. exact (conv_additive sx_eqb sx_eqb_spec image). Qed.

(* a single ballot converts to exactly its image, times its weight *)
Theorem C13_single_ballot : forall (B : Type) (image : B -> list (sx * Q)) (b : B) (w : Q) (k : sx),
  value (dconv image [(b, w)]) k == w * coef sx_eqb (image b) k.
Proof. intros B image. exact (conv_single sx_eqb sx_eqb_spec image). Qed.

(* every converted count is the weighted sum of the images: nothing lost, nothing doubled *)
Theorem C13_value : forall (B : Type) (image : B -> list (sx * Q)) (votes : list (B * Q)) (k : sx),
  value (dconv image votes) k == total sx_eqb image votes k.
Proof. intros B image. exact (conv_value sx_eqb sx_eqb_spec image). Qed.

(* ballot order is irrelevant *)
Theorem C13_order_free : forall (B : Type) (image : B -> list (sx * Q)) (a b : list (B * Q)) (k : sx),
  Permutation a b -> value (dconv image a) k == value (dconv image b) k.
Proof. intros B image. exact (conv_perm sx_eqb sx_eqb_spec image). Qed.

(* total weight is conserved wherever the image is one item per ballot *)
Theorem C13_weight_conserved : forall (B : Type) (image : B -> list (sx * Q)) (votes : list (B * Q)),
  (forall b, isum (image b) == 1) ->
  gsum (dconv image votes) == fold_right (fun bw acc => snd bw + acc) 0 votes.
Proof. intros B image. exact (conv_conserves sx_eqb image). Qed.

(* the one-item images of the modelled converters *)
Theorem C13_one_item_images :
  (forall r, isum (img_ranked_approval r) == 1) /\
  (forall u cs b, isum (img_score_ranked u cs b) == 1) /\
  (forall cs b, isum (img_inverted_approval cs b) == 1) /\
  (forall s b, isum (img_sub_approval s b) == 1) /\
  (forall s r, isum (img_sub_ranked s r) == 1) /\
  (forall s b, isum (img_sub_score s b) == 1).
Proof. repeat split; intros; reflexivity. Qed.

(* profile-dependent images (candidate set of the profile): additive for a fixed candidate set *)
Corollary C13_condorcet_additive : forall bottom cs (a b : list (ranked * Q)) k,
  value (dconv (img_condorcet bottom cs) (a ++ b)) k ==
  value (dconv (img_condorcet bottom cs) a) k + value (dconv (img_condorcet bottom cs) b) k.
Proof. intros bottom cs. exact (C13_additive ranked (img_condorcet bottom cs)). Qed.

(* non-vacuity: two rankings of the same candidates add up in the approval conversion *)
Example C13_example :
  dconv img_ranked_approval [([IP 1%positive; IP 2%positive], 3); ([IP 2%positive; IP 1%positive], 2)]
  = [(L [A 1; A 2], 5)].
Proof. vm_compute. reflexivity. Qed.

Print Assumptions C13_additive.
Print Assumptions C13_single_ballot.
Print Assumptions C13_value.
Print Assumptions C13_order_free.
Print Assumptions C13_weight_conserved.
Print Assumptions C13_one_item_images.
Print Assumptions C13_condorcet_additive.
