(* C13 - Vote converters are per-ballot exact and additive: no vote lost or doubled.
   Property theorems only.  Models: Prelude/GDict.v (the accumulating fold [conv]) and
   Model/Convert.v (the per-ballot images); proofs: Proofs/Convert_proofs.v.

   Every modelled converter is [dconv image] for a per-ballot [image]; the theorems
   below hold for ANY image, hence for all of them at once, for every profile (a list
   of weighted ballots, any size, rational weights) and every output key. *)
From Coq Require Import ZArith QArith Qabs List Bool Permutation Sorted.
From VL Require Import Prelude.Sx Prelude.PyDict Prelude.GDict Model.Convert Proofs.Convert_proofs.
From VL Require Import Model.Convert2 Proofs.Convert2_proofs Proofs.Round_proofs.
From VL Require Import Proofs.ChainCands_proofs Proofs.RoundClass_proofs Proofs.ScoreSum_proofs Proofs.MergedSel_proofs.
From VL Require Model.Cardinal Model.Validate Model.State Proofs.State_proofs Proofs.Eliminate_proofs Proofs.ScoreDict_proofs Proofs.ScoreOrder_proofs Proofs.MJ_proofs.
Import ListNotations.
Open Scope Q_scope.


(* converting the union of two profiles equals the sum of their conversions *)
Theorem C13_additive : forall (B : Type) (image : B -> list (sx * Q)) (a b : list (B * Q)) (k : sx),
  value (dconv image (a ++ b)) k == value (dconv image a) k + value (dconv image b) k.
Proof. intros B image. exact (conv_additive sx_eqb sx_eqb_spec image). Qed.

(* a single ballot converts to exactly its image, times its weight *)
Theorem C13_single_ballot : forall (B : Type) (image : B -> list (sx * Q)) (b : B) (w : Q) (k : sx),
  value (dconv image [(b, w)]) k == w * coef sx_eqb (image b) k.
Proof. intros B image. exact (conv_single sx_eqb sx_eqb_spec image). Qed.

(* every converted count is the weighted sum of the images: nothing lost, nothing doubled *)
Theorem C13_value : forall (B : Type) (image : B -> list (sx * Q)) (votes : list (B * Q)) (k : sx),
  value (dconv image votes) k == total sx_eqb image votes k.
Proof. intros B image. exact (conv_value sx_eqb sx_eqb_spec image). Qed.

(* ballot order is irrelevant *)
Theorem C13_order_free : forall (B : Type) (image : B -> list (sx * Q)) (a b : list (B * Q)) (k : sx),
  Permutation a b -> value (dconv image a) k == value (dconv image b) k.
Proof. intros B image. exact (conv_perm sx_eqb sx_eqb_spec image). Qed.

(* total weight is conserved wherever the image is one item per ballot *)
Theorem C13_weight_conserved : forall (B : Type) (image : B -> list (sx * Q)) (votes : list (B * Q)),
  (forall b, isum (image b) == 1) ->
  gsum (dconv image votes) == fold_right (fun bw acc => snd bw + acc) 0 votes.
Proof. intros B image. exact (conv_conserves sx_eqb image). Qed.

(* the one-item images of the modelled converters *)
Theorem C13_one_item_images :
  (forall r, isum (img_ranked_approval r) == 1) /\
  (forall u cs b, isum (img_score_ranked u cs b) == 1) /\
  (forall cs b, isum (img_inverted_approval cs b) == 1) /\
  (forall s b, isum (img_sub_approval s b) == 1) /\
  (forall s r, isum (img_sub_ranked s r) == 1) /\
  (forall s b, isum (img_sub_score s b) == 1).
Proof. repeat split; intros; reflexivity. Qed.

(* profile-dependent images (candidate set of the profile): additive for a fixed candidate set *)
Corollary C13_condorcet_additive : forall bottom cs (a b : list (ranked * Q)) k,
  value (dconv (img_condorcet bottom cs) (a ++ b)) k ==
  value (dconv (img_condorcet bottom cs) a) k + value (dconv (img_condorcet bottom cs) b) k.
Proof. intros bottom cs. exact (C13_additive ranked (img_condorcet bottom cs)). Qed.

(* non-vacuity: two rankings of the same candidates add up in the approval conversion *)
Example C13_example :
  dconv img_ranked_approval [([IP 1%positive; IP 2%positive], 3); ([IP 2%positive; IP 1%positive], 2)]
  = [(L [A 1; A 2], 5)].
Proof. vm_compute. reflexivity. Qed.


(* ===================================================================================================================
   Second part: the converters that are not (only) accumulating folds - Model/Convert2.v.
   Profiles given as dictionaries are united by util.add_dict_to_dict ([add_dict]: equal ballots pool their counts),
   nested profiles either by taking the constituencies of both ([++]) or constituency by constituency ([nmerge]).
   [coef d k] is the sum of the entries of d under key k (the entry itself when keys are distinct: coef_value).
   =================================================================================================================== *)

(* ---- every accumulating converter, profiles united as dictionaries *)
Theorem C13_additive_merge : forall (g : sx -> list (sx * Q)) (a b : fdict) (k : sx),
  value (dconv g (add_dict a b)) k == value (dconv g a) k + value (dconv g b) k.
Proof. exact conv_add_dict. Qed.

(* ---- VoteTotals / MergedDistributions *)
Theorem C13_vote_totals_value : forall (n : ndict) (k : sx),
  value (vote_totals n) k == fold_right (fun cd acc => coef sx_eqb (snd cd) k + acc) 0 n.
Proof. exact vote_totals_value. Qed.

Theorem C13_vote_totals_additive : forall (a b : ndict) (k : sx),
  value (vote_totals (a ++ b)) k == value (vote_totals a) k + value (vote_totals b) k.
Proof. exact vote_totals_additive. Qed.

Theorem C13_vote_totals_merge : forall (n1 n2 : ndict) (k : sx),
  value (vote_totals (nmerge n1 n2)) k == value (vote_totals n1) k + value (vote_totals n2) k.
Proof. exact vote_totals_merge. Qed.

Theorem C13_vote_totals_single : forall (c : sx) (d : fdict) (k : sx), NoDup (keys d) ->
  value (vote_totals [(c, d)]) k == value d k.
Proof. exact vote_totals_single. Qed.

Theorem C13_vote_totals_order_free : forall (a b : ndict) (k : sx), Permutation a b ->
  value (vote_totals a) k == value (vote_totals b) k.
Proof. exact vote_totals_order_free. Qed.

Theorem C13_vote_totals_conserves : forall n : ndict,
  gsum (vote_totals n) == fold_right (fun cd s => gsum (snd cd) + s) 0 n.
Proof. exact vote_totals_conserves. Qed.

(* ---- ConstituencyTotals / PartyTotals *)
Theorem C13_const_totals_union : forall a b : ndict, const_totals (a ++ b) = const_totals a ++ const_totals b.
Proof. exact const_totals_app. Qed.

Theorem C13_const_totals_merge : forall (n1 n2 : ndict) (c : sx), NoDup (keys n2) ->
  value (const_totals (nmerge n1 n2)) c == value (const_totals n1) c + value (const_totals n2) c.
Proof. exact const_totals_merge. Qed.

Theorem C13_const_totals_single : forall (c : sx) (d : fdict),
  const_totals [(c, d)] = [(c, dtotal d)] /\ dtotal d == gsum d.
Proof. intros c d. split; [reflexivity|apply dtotal_gsum]. Qed.

Theorem C13_const_totals_conserves : forall n : ndict, gsum (const_totals n) == gsum (vote_totals n).
Proof. exact const_totals_conserves. Qed.

(* ---- InvertedSimpleVotes: the documented law is the sign flip, count by count (no other handling in the code) *)
Theorem C13_inv_simple_image : forall (d : fdict) (k : sx),
  value (inv_simple d) k == - value d k /\ keys (inv_simple d) = keys d.
Proof. intros d k. split; [apply inv_simple_value|apply inv_simple_keys]. Qed.

Theorem C13_inv_simple_involutive : forall d : fdict, inv_simple (inv_simple d) = d.
Proof. exact inv_simple_involutive. Qed.

Theorem C13_inv_simple_additive : forall (a b : fdict) (k : sx), NoDup (keys b) ->
  value (inv_simple (add_dict a b)) k == value (inv_simple a) k + value (inv_simple b) k.
Proof. exact inv_simple_additive. Qed.

Theorem C13_inv_simple_total : forall d : fdict, gsum (inv_simple d) == - gsum d.
Proof. exact inv_simple_total. Qed.

(* ---- GroupVotesByParty, IndividualToPartyResult, SelectionToDistribution *)
Theorem C13_group_party_totals : forall (pm : list (C * Z)) (votes : list (C * Q)) (p : sx), NoDup (map fst votes) ->
  value (const_totals (group_by_party pm votes)) p == value (dconv (img_party pm) votes) p.
Proof. exact group_party_totals. Qed.

Theorem C13_group_single : forall (pm : list (C * Z)) (c : C) (w : Q),
  group_by_party pm [(c, w)] = match party_key pm c with Some p => [(p, [(kc c, w)])] | None => [] end.
Proof. exact group_single. Qed.

Theorem C13_party_result_additive : forall (pm : list (C * Z)) (a b : list C) (k : sx),
  value (party_result pm (a ++ b)) k == value (party_result pm a) k + value (party_result pm b) k.
Proof. intros pm a b k. unfold party_result. rewrite map_app. apply C13_additive. Qed.

Theorem C13_sel_to_dist_image : forall (amount : Q) (elected : list sx) (c : sx),
  value (sel_to_dist amount elected) c == if existsb (sx_eqb c) elected then amount else 0.
Proof. exact sel_to_dist_value. Qed.

(* ---- ByConstituency: constituency by constituency *)
Theorem C13_by_constituency_union : forall (c : ccode) (n1 n2 r1 r2 : ndict),
  run_code (KBy c) (VN n1) = COk (VN r1) -> run_code (KBy c) (VN n2) = COk (VN r2) ->
  run_code (KBy c) (VN (n1 ++ n2)) = COk (VN (r1 ++ r2)).
Proof. intros c n1 n2 r1 r2. exact (by_flat_app (fun d => run_code c (VF d)) n1 n2 r1 r2). Qed.

Theorem C13_by_constituency_image : forall (c : ccode) (n r : ndict),
  run_code (KBy c) (VN n) = COk (VN r) ->
  Forall2 (fun cd co => fst cd = fst co /\ run_code c (VF (snd cd)) = COk (VF (snd co))) n r.
Proof. intros c n r. exact (by_flat_image (fun d => run_code c (VF d)) n r). Qed.

(* ---- Chain: the image is the composition; additivity is inherited from additive links *)
Theorem C13_chain_composition : forall (l1 l2 : list ccode) (v : vdata),
  run_code (KChain (l1 ++ l2)) v = bind (run_code (KChain l1) v) (run_code (KChain l2)).
Proof. exact run_chain_app. Qed.

Theorem C13_chain_single_and_nested : forall (c : ccode) (l1 l2 : list ccode) (v : vdata),
  run_code (KChain [c]) v = run_code c v /\
  run_code (KChain (KChain l1 :: l2)) v = run_code (KChain (l1 ++ l2)) v.
Proof. intros c l1 l2 v. split; [apply run_chain_single|apply run_chain_nested]. Qed.

(* two accumulating converters in a row are the accumulating converter of the composed image *)
Theorem C13_compose : forall (B : Type) (f : B -> list (sx * Q)) (g : sx -> list (sx * Q)) (votes : list (B * Q)) (k : sx),
  value (dconv g (dconv f votes)) k == value (dconv (compose f g) votes) k.
Proof. intros B. exact (@conv_compose B). Qed.

(* [kernels c = Some gs]: c is built from InvertedSimpleVotes, the accumulating converters whose image does not read the candidate set
   of the profile, and Chains of those; gs are their per-ballot images *)
Theorem C13_chain_image : forall (c : ccode) (gs : list kern) (d out : fdict) (k : sx),
  kernels c = Some gs -> NoDup (keys d) -> run_code c (VF d) = COk (VF out) ->
  value out k == value (dconv (compose_all gs) d) k.
Proof. exact chain_image. Qed.

Theorem C13_chain_additive : forall (c : ccode) (gs : list kern) (a b oa ob oab : fdict) (k : sx),
  kernels c = Some gs -> NoDup (keys a) -> NoDup (keys b) ->
  run_code c (VF a) = COk (VF oa) -> run_code c (VF b) = COk (VF ob) -> run_code c (VF (add_dict a b)) = COk (VF oab) ->
  value oab k == value oa k + value ob k.
Proof. exact chain_additive. Qed.

(* the hypotheses are met by a real chain: ranked ballots -> approval sets -> split simple votes -> inverted *)
Example C13_chain_example :
  let c := KChain [KConv KRankedApproval; KChain [KConv (KApprovalSimple true); KInvSimple]] in
  let a := [(L [A 1; A 2], 3); (L [A 2], 1)] in
  let b := [(L [A 2; A 1], 1 # 2); (L [A 3], 2)] in
  (exists gs, kernels c = Some gs) /\ NoDup (keys a) /\ NoDup (keys b) /\
  run_code c (VF a) = COk (VF [(A 1, - (3 # 2)); (A 2, - (5 # 2))]) /\
  run_code c (VF (add_dict a b)) = COk (VF [(A 1, - (7 # 4)); (A 2, - (11 # 4)); (A 3, - (2))]).
Proof.
  cbv zeta. split; [eexists; reflexivity|]. split; [repeat constructor; simpl; intuition discriminate|].
  split; [repeat constructor; simpl; intuition discriminate|]. split; vm_compute; reflexivity.
Qed.

(* with RoundedVotes as a link the Chain is not additive: the hypothesis on the links is necessary *)
Theorem C13_chain_rounded_refuted :
  exists c a b oa ob oab k,
    NoDup (keys a) /\ NoDup (keys b) /\
    run_code c (VF a) = COk (VF oa) /\ run_code c (VF b) = COk (VF ob) /\ run_code c (VF (add_dict a b)) = COk (VF oab) /\
    ~ value oab k == value oa k + value ob k.
Proof. exact chain_rounded_not_additive. Qed.

(* C13-approval-split-empty (repaired by a fix: commit): an empty approval ballot, alone or produced by InvertedApprovalVotes from a
   voter who names every candidate, contributes nothing to the split approval counts (it used to end in ZeroDivisionError) *)
Theorem C13_approval_split_empty :
  run_code (KConv (KApprovalSimple true)) (VF [(L [], 3); (L [A 1; A 2], 1)]) = COk (VF [(A 1, 1 # 2); (A 2, 1 # 2)]) /\
  run_code (KChain [KConv KInvApproval; KConv (KApprovalSimple true)]) (VF [(L [A 1; A 2], 2); (L [A 1], 1)]) = COk (VF [(A 2, 1)]).
Proof. exact approval_split_empty_ok. Qed.

(* ---- RoundedVotes: exact rounding of a rational count to d decimals (round_q), mode by mode *)
Theorem C13_rounded_image : forall (m : rmode) (d : nat) (votes : fdict) (k : sx),
  keys (rounded_votes m d votes) = keys votes /\
  value (rounded_votes m d votes) k == if existsb (fun kv => sx_eqb k (fst kv)) votes then round_q m d (value votes k) else 0.
Proof. intros m d votes k. split; [apply rounded_keys|apply rounded_get]. Qed.

Theorem C13_rounded_on_grid : forall (m : rmode) (d : nat) (x : Q), exists n : Z, round_q m d x == inject_Z n / pow10 d.
Proof. exact round_q_on_grid. Qed.

(* ROUND_HALF_UP / ROUND_HALF_DOWN / ROUND_HALF_EVEN: at most half a unit of the last kept decimal *)
Theorem C13_rounded_half_error : forall (m : rmode) (d : nat) (x : Q), half_mode m = true ->
  Qabs (round_q m d x - x) <= (1 # 2) / pow10 d.
Proof. exact round_q_half_error. Qed.

(* all eight modes: less than one unit *)
Theorem C13_rounded_error : forall (m : rmode) (d : nat) (x : Q), Qabs (round_q m d x - x) < 1 / pow10 d.
Proof. exact round_q_error. Qed.

Theorem C13_rounded_fixpoint : forall (m : rmode) (d : nat) (x : Q) (k : Z), x == inject_Z k / pow10 d -> round_q m d x == x.
Proof. exact round_q_fix. Qed.

Theorem C13_rounded_idempotent : forall (m : rmode) (d : nat) (x : Q), round_q m d (round_q m d x) == round_q m d x.
Proof. exact round_q_idempotent. Qed.

(* the tie rules as documented by the decimal module, on a count exactly half way between k / 10^d and (k + 1) / 10^d *)
Theorem C13_rounded_tie : forall (d : nat) (x : Q) (k : Z), 0 <= x -> x * pow10 d == inject_Z k + (1 # 2) ->
  round_q RHalfUp d x == inject_Z (k + 1) / pow10 d /\
  round_q RHalfDown d x == inject_Z k / pow10 d /\
  round_q RHalfEven d x == inject_Z (if Z.even k then k else k + 1) / pow10 d /\
  round_q RUp d x == inject_Z (k + 1) / pow10 d /\
  round_q RDown d x == inject_Z k / pow10 d /\
  round_q RCeiling d x == inject_Z (k + 1) / pow10 d /\
  round_q RFloor d x == inject_Z k / pow10 d /\
  round_q R05Up d x == inject_Z (if (k mod 5 =? 0)%Z then k + 1 else k) / pow10 d.
Proof. exact round_q_tie. Qed.

(* 0.125 and 0.135 to two decimals (k = 12 even, k = 13 odd), and their mirror images *)
Example C13_rounded_tie_example :
  (1 # 8) * pow10 2 == inject_Z 12 + (1 # 2) /\
  map (fun m => Qred (round_q m 2 (1 # 8))) [RHalfUp; RHalfDown; RHalfEven; RUp; RDown; RCeiling; RFloor; R05Up]
    = [13 # 100; 3 # 25; 3 # 25; 13 # 100; 3 # 25; 13 # 100; 3 # 25; 3 # 25] /\
  map (fun m => Qred (round_q m 2 (27 # 200))) [RHalfUp; RHalfDown; RHalfEven]
    = [7 # 50; 13 # 100; 7 # 50] /\
  map (fun m => Qred (round_q m 2 (- (1 # 8)))) [RHalfUp; RHalfDown; RHalfEven; RUp; RDown; RCeiling; RFloor; R05Up]
    = [- (13 # 100); - (3 # 25); - (3 # 25); - (13 # 100); - (3 # 25); - (3 # 25); - (13 # 100); - (3 # 25)].
Proof. vm_compute. repeat split; reflexivity. Qed.

(* negative counts round as the mirror image (ceiling and floor trade places): with C13_rounded_tie, ties of negative counts *)
Theorem C13_rounded_sign : forall (m : rmode) (d : nat) (x : Q), round_q m d (- x) == - round_q (mirror m) d x.
Proof. exact round_q_opp. Qed.

Theorem C13_rounded_monotone : forall (m : rmode) (d : nat) (x y : Q), x <= y -> round_q m d x <= round_q m d y.
Proof. exact round_q_monotone. Qed.

Theorem C13_rounded_compat : forall (m : rmode) (d : nat) (x y : Q), x == y -> round_q m d x == round_q m d y.
Proof. exact round_q_compat. Qed.

(* rounding is not additive (which is why it is no link of C13_chain_additive) *)
Theorem C13_rounded_additive_refuted :
  exists m d a b k,
    ~ value (rounded_votes m d (add_dict a b)) k == value (rounded_votes m d a) k + value (rounded_votes m d b) k.
Proof. exact rounded_not_additive. Qed.

(* the library computes Decimal(numerator) / Decimal(denominator) at 28 significant digits before it rounds (round_code, via = true for
   Fraction counts): wherever that quotient is exact - every count that has at most 28 significant digits - the result is the exact
   rounding, or InvalidOperation when it would need more than 28 digits *)
Theorem C13_rounded_code_exact : forall (prec : nat) (via : bool) (m : rmode) (d : nat) (x : Q),
  sig_round prec x == x \/ via = false ->
  round_code prec via m d x = RInvalid \/ exists r, round_code prec via m d x = ROk r /\ r == round_q m d x.
Proof. exact round_code_exact. Qed.

Example C13_rounded_code_hypothesis :
  Qeq_bool (sig_round 28 (123456789 # 1000)) (123456789 # 1000) = true /\
  Qeq_bool (sig_round 28 (1 # 3)) (1 # 3) = false /\
  round_code 28 true RHalfEven 2 (1 # 3) = ROk (33 # 100).
Proof. vm_compute. repeat split; reflexivity. Qed.

(* outside that domain the count is rounded twice and the result can be the wrong neighbour *)
Theorem C13_rounded_double_rounding_refuted :
  exists x, round_code 28 true RHalfDown 0 x = ROk 0 /\ round_q RHalfDown 0 x == 1 /\ (1 # 2) < x.
Proof. exact round_code_double_rounding. Qed.

(* ===================================================================================================================
   Third part (wave 5): the converter clauses that had no theorem.
   =================================================================================================================== *)

(* ---- MergedSelections: "the candidates are ordered by their positions in the district-wide result lists".
   [appearances el c] = in how many partial results c is listed, [ranksum el c] = the sum of its reversed ranks len(list) - 1 - index;
   both are sums over the partial results (additive over the union of two sets of results).  The result is the list of the distinct
   candidates in order of first appearance, sorted stably by (appearances, ranksum), larger first. *)
Theorem C13_merged_sel_defining : forall el : list (list sx),
  merged_selections el = map fst (isort (tagged el (firsts el))).
Proof. exact merged_selections_defining. Qed.

(* nobody lost, nobody doubled *)
Theorem C13_merged_sel_members : forall (el : list (list sx)) (c : sx),
  NoDup (merged_selections el) /\ (In c (merged_selections el) <-> exists l, In l el /\ In c l).
Proof. intros el c. split; [apply merged_selections_NoDup|apply merged_selections_In]. Qed.

(* more appearances first, then the larger sum of reversed ranks *)
Theorem C13_merged_sel_sorted : forall el : list (list sx),
  StronglySorted (fun a b => ms_before (MergedSel_proofs.tally el a) (MergedSel_proofs.tally el b)) (merged_selections el).
Proof. exact merged_selections_sorted. Qed.

(* candidates level on both counts keep the order of their first appearance *)
Theorem C13_merged_sel_stable : forall (el : list (list sx)) (k : Z * Z),
  filter (fun c => keqb (MergedSel_proofs.tally el c) k) (merged_selections el) =
  filter (fun c => keqb (MergedSel_proofs.tally el c) k) (firsts el).
Proof. exact merged_selections_stable. Qed.

(* the two tallies are additive; one partial result without repetitions converts to itself *)
Theorem C13_merged_sel_tallies_additive : forall (a b : list (list sx)) (c : sx),
  (appearances (a ++ b) c = appearances a c + appearances b c)%Z /\ (ranksum (a ++ b) c = ranksum a c + ranksum b c)%Z.
Proof. intros a b c. split; [apply appearances_app|apply ranksum_app]. Qed.

Theorem C13_merged_sel_single : forall l : list sx, NoDup l -> merged_selections [l] = l.
Proof. exact merged_selections_single. Qed.

Example C13_merged_sel_example :
  merged_selections [[A 1; A 2; A 3]; [A 4; A 2]; [A 5; A 1]] = [A 1; A 2; A 4; A 5; A 3].
Proof. vm_compute. reflexivity. Qed.

(* ---- Chain additivity in general.  [same_cands c a b] (Model/Convert2.v, a boolean): c is built from the fifteen accumulating converters,
   InvertedSimpleVotes and Chains, and at every link the two sub-profiles have been converted to profiles over the same candidates -
   the only thing positional scores, pairwise counts with unranked_at_bottom, ScoreToRankedVotes(unscored_value) and InvertedApprovalVotes
   read off a profile besides its ballots. *)
Theorem C13_chain_additive_same_cands : forall (c : ccode) (a b oa ob oab : fdict) (k : sx),
  NoDup (keys a) -> NoDup (keys b) -> same_cands c a b = true ->
  run_code c (VF a) = COk (VF oa) -> run_code c (VF b) = COk (VF ob) -> run_code c (VF (add_dict a b)) = COk (VF oab) ->
  value oab k == value oa k + value ob k /\ (In k (keys oab) <-> In k (keys oa) \/ In k (keys ob)).
Proof.
  intros c a b oa ob oab k Ha Hb Hs Ra Rb Rab.
  split; [exact (chain_additive_same_cands c a b oa ob oab k Ha Hb Hs Ra Rb Rab)|exact (chain_additive_keys c a b oa ob oab k Ha Hb Hs Ra Rb Rab)].
Qed.

(* the composition lemma behind it: links as accumulating folds ([stage]), dictionaries compared as Python compares them ([dsim]) *)
Theorem C13_chain_composition_lemma : forall (ls : list link) (x a b : fdict), NoDup (keys a) -> NoDup (keys b) ->
  dsim x (add_dict a b) -> same_cands_stages ls a b ->
  dsim (stages ls x) (add_dict (stages ls a) (stages ls b)).
Proof. exact stages_additive. Qed.

(* one link: every accumulating converter on two profiles over the same candidates *)
Theorem C13_link_additive_same_cands : forall (k : ckind) (a b oa ob oab : fdict) (key : sx),
  NoDup (keys a) -> NoDup (keys b) -> kind_cands k (keys a) = kind_cands k (keys b) ->
  run_kind k a = COk (VF oa) -> run_kind k b = COk (VF ob) -> run_kind k (add_dict a b) = COk (VF oab) ->
  value oab key == value oa key + value ob key.
Proof. exact kind_additive_same_cands. Qed.

(* the hypothesis is met by a Chain through three profile-dependent links: score ballots -> rankings (unscored candidates last) -> Borda
   counts -> inverted *)
Example C13_chain_same_cands_example :
  let c := KChain [KConv (KScoreRanked (Some 0)); KChain [KConv (KPositional (Borda 1)); KInvSimple]] in
  let a := [(L [L [A 1; A 3]; L [A 2; A 1]], 2); (L [L [A 3; A 2]], 1)] in
  let b := [(L [L [A 2; A 5]; L [A 3; A 1]], 1); (L [L [A 1; A 1]], 3)] in
  NoDup (keys a) /\ NoDup (keys b) /\ same_cands c a b = true /\
  run_code c (VF a) = COk (VF [(A 1, - (8)); (A 2, - (6)); (A 3, - (5))]) /\
  run_code c (VF (add_dict a b)) = COk (VF [(A 1, - (18)); (A 2, - (15)); (A 3, - (13))]).
Proof.
  cbv zeta. split; [repeat constructor; simpl; intuition discriminate|]. split; [repeat constructor; simpl; intuition discriminate|].
  split; [vm_compute; reflexivity|]. split; vm_compute; reflexivity.
Qed.

(* the side condition is needed: a Borda count depends on how many candidates the profile names *)
Theorem C13_chain_same_cands_needed_refuted :
  exists c a b oa ob oab k,
    NoDup (keys a) /\ NoDup (keys b) /\ same_cands c a b = false /\
    run_code c (VF a) = COk (VF oa) /\ run_code c (VF b) = COk (VF ob) /\ run_code c (VF (add_dict a b)) = COk (VF oab) /\
    ~ value oab k == value oa k + value ob k.
Proof. exact same_cands_needed. Qed.

(* ---- ScoreToSimpleVotes (Model/Cardinal.v score_to_simple; plain configuration: no unscored_value, min_count <= 0, no truncation;
   ballot counts >= 0).  [psum phi c votes] = sum over the ballots (b, n) of n * sum over the pairs (c, s) of b of phi(s). *)
(* `sum`: the per-ballot image of a score ballot is its own (candidate, score) pairs *)
Theorem C13_score_sum_value : forall (cf : Cardinal.score_cfg) (votes : Cardinal.sprofile) (c : C),
  Cardinal.sc_fn cf = Cardinal.FSum -> plain_cfg cf = true -> counts_nonneg votes = true ->
  exists out, Cardinal.score_to_simple cf votes = inl out /\
    dget_or out c 0 == psum (fun s => s) c votes /\
    NoDup (map fst out) /\ (In c (map fst out) <-> exists b n s, In (b, n) votes /\ In (c, s) b).
Proof.
  intros cf votes c Hf Hc Hv. exists (sum_out votes). split; [exact (score_sum_runs cf votes Hf Hc Hv)|].
  split; [exact (sum_out_value votes c Hv)|]. rewrite sum_out_keys. split; [apply MJ_proofs.raw_scores_nodup|apply raw_scores_keys].
Qed.

Theorem C13_score_sum_additive : forall (cf : Cardinal.score_cfg) (a b : Cardinal.sprofile) oa ob oab (c : C),
  Cardinal.sc_fn cf = Cardinal.FSum -> plain_cfg cf = true -> counts_nonneg a = true -> counts_nonneg b = true ->
  Cardinal.score_to_simple cf a = inl oa -> Cardinal.score_to_simple cf b = inl ob -> Cardinal.score_to_simple cf (a ++ b) = inl oab ->
  dget_or oab c 0 == dget_or oa c 0 + dget_or ob c 0.
Proof.
  intros cf a b oa ob oab c Hf Hc Ha Hb Ra Rb Rab.
  assert (Hab : counts_nonneg (a ++ b) = true) by (unfold counts_nonneg in *; rewrite forallb_app, Ha, Hb; reflexivity).
  rewrite (score_sum_runs cf a Hf Hc Ha) in Ra. rewrite (score_sum_runs cf b Hf Hc Hb) in Rb.
  rewrite (score_sum_runs cf (a ++ b) Hf Hc Hab) in Rab.
  injection Ra as <-. injection Rb as <-. injection Rab as <-.
  rewrite !sum_out_value by assumption. apply psum_app.
Qed.

Theorem C13_score_sum_single : forall (cf : Cardinal.score_cfg) (b : sballot) (n : Z) out (c : C),
  Cardinal.sc_fn cf = Cardinal.FSum -> plain_cfg cf = true -> (0 <= n)%Z ->
  Cardinal.score_to_simple cf [(b, n)] = inl out ->
  dget_or out c 0 == inject_Z n * bsum (fun s => s) c b.
Proof.
  intros cf b n out c Hf Hc Hn R.
  assert (Hv : counts_nonneg [(b, n)] = true) by (unfold counts_nonneg; cbn [forallb snd]; apply Z.leb_le in Hn; rewrite Hn; reflexivity).
  rewrite (score_sum_runs cf _ Hf Hc Hv) in R. injection R as <-. rewrite (sum_out_value _ c Hv). apply psum_single.
Qed.

(* `sum` with a constant unscored_value v (profile_ok: counts >= 0, no ballot scores a candidate twice): every ballot also gives v to each candidate
   OF THE PROFILE it does not score - a profile-dependent image like the positional one: additive on every candidate both profiles score *)
Theorem C13_score_sum_unscored_value : forall (cf : Cardinal.score_cfg) (v : Q) (votes : Cardinal.sprofile) (c : C),
  const_cfg cf v -> ScoreDict_proofs.profile_ok votes -> In c (map fst (Cardinal.raw_scores votes)) ->
  exists out, Cardinal.score_to_simple cf votes = inl out /\ map fst out = map fst (Cardinal.raw_scores votes) /\
    dget_or out c 0 == psum (fun s => s) c votes + v * (ptotal votes - psum (fun _ => 1) c votes).
Proof.
  intros cf v votes c Hc Hv Hin. exists (const_out v votes). split; [exact (score_const_runs cf v votes Hc Hv)|].
  split; [apply const_out_keys|exact (const_out_value v votes c Hv Hin)].
Qed.

Theorem C13_score_sum_unscored_additive : forall (cf : Cardinal.score_cfg) (v : Q) (a b : Cardinal.sprofile) oa ob oab (c : C),
  const_cfg cf v -> ScoreDict_proofs.profile_ok a -> ScoreDict_proofs.profile_ok b ->
  In c (map fst (Cardinal.raw_scores a)) -> In c (map fst (Cardinal.raw_scores b)) ->
  Cardinal.score_to_simple cf a = inl oa -> Cardinal.score_to_simple cf b = inl ob -> Cardinal.score_to_simple cf (a ++ b) = inl oab ->
  dget_or oab c 0 == dget_or oa c 0 + dget_or ob c 0.
Proof. exact score_const_additive. Qed.

Theorem C13_score_sum_unscored_same_cands_needed_refuted :
  exists cf a b oa ob oab c,
    const_cfg cf 1 /\ ScoreDict_proofs.profile_ok a /\ ScoreDict_proofs.profile_ok b /\
    Cardinal.score_to_simple cf a = inl oa /\ Cardinal.score_to_simple cf b = inl ob /\ Cardinal.score_to_simple cf (a ++ b) = inl oab /\
    ~ dget_or oab c 0 == dget_or oa c 0 + dget_or ob c 0.
Proof. exact score_const_needs_same_cands. Qed.

(* the tallies every aggregate is computed from are additive, whatever the aggregate *)
Theorem C13_score_tallies_additive : forall (phi : Q -> Q) (c : C) (a b : Cardinal.sprofile), phi_ok phi ->
  wq phi (ScoreOrder_proofs.look (Cardinal.raw_scores (a ++ b)) c) ==
  wq phi (ScoreOrder_proofs.look (Cardinal.raw_scores a) c) + wq phi (ScoreOrder_proofs.look (Cardinal.raw_scores b) c).
Proof. intros phi c a b Hp. rewrite !(wq_raw phi c _ Hp). apply psum_app. Qed.

(* `mean`: the quotient of two additive tallies - the sum of the scores and the number of scores given to the candidate *)
Theorem C13_score_mean_value : forall (cf : Cardinal.score_cfg) (votes : Cardinal.sprofile) out (c : C) (x : Q),
  Cardinal.sc_fn cf = Cardinal.FMean -> plain_cfg cf = true -> counts_nonneg votes = true ->
  Cardinal.score_to_simple cf votes = inl out -> In (c, x) out ->
  0 < psum (fun _ => 1) c votes /\ x * psum (fun _ => 1) c votes == psum (fun s => s) c votes.
Proof. exact score_mean_value. Qed.

(* `median_low`: fewer than half of the scores lie below it, at least half do not exceed it (this fixes it up to ==) *)
Theorem C13_score_median_value : forall (cf : Cardinal.score_cfg) (votes : Cardinal.sprofile) out (c : C) (m : Q),
  Cardinal.sc_fn cf = Cardinal.FMedianLow -> plain_cfg cf = true -> counts_nonneg votes = true ->
  Cardinal.score_to_simple cf votes = inl out -> In (c, m) out ->
  2 * psum (below m) c votes < psum (fun _ => 1) c votes /\ psum (fun _ => 1) c votes <= 2 * psum (atmost m) c votes.
Proof. exact score_median_value. Qed.

(* ... and neither is additive: the clause "the union converts to the sum" of the property is about the converters that HAVE a per-ballot
   image; for mean / median the additive objects are the tallies above *)
Theorem C13_score_mean_additive_refuted :
  exists a b oa ob oab c,
    plain_cfg (cfg_of Cardinal.FMean) = true /\ counts_nonneg a = true /\ counts_nonneg b = true /\
    Cardinal.score_to_simple (cfg_of Cardinal.FMean) a = inl oa /\ Cardinal.score_to_simple (cfg_of Cardinal.FMean) b = inl ob /\
    Cardinal.score_to_simple (cfg_of Cardinal.FMean) (a ++ b) = inl oab /\
    ~ dget_or oab c 0 == dget_or oa c 0 + dget_or ob c 0.
Proof. exact score_mean_not_additive. Qed.

Theorem C13_score_median_additive_refuted :
  exists a b oa ob oab c,
    plain_cfg (cfg_of Cardinal.FMedianLow) = true /\ counts_nonneg a = true /\ counts_nonneg b = true /\
    Cardinal.score_to_simple (cfg_of Cardinal.FMedianLow) a = inl oa /\ Cardinal.score_to_simple (cfg_of Cardinal.FMedianLow) b = inl ob /\
    Cardinal.score_to_simple (cfg_of Cardinal.FMedianLow) (a ++ b) = inl oab /\
    ~ dget_or oab c 0 == dget_or oa c 0 + dget_or ob c 0.
Proof. exact score_median_not_additive. Qed.

Example C13_score_sum_example :
  let votes := [([(1%positive, 3); (2%positive, 0)], 2%Z); ([(2%positive, 5)], 3%Z)] in
  plain_cfg (cfg_of Cardinal.FSum) = true /\ counts_nonneg votes = true /\
  Cardinal.score_to_simple (cfg_of Cardinal.FSum) votes = inl [(1%positive, 6); (2%positive, 15)] /\
  psum (fun s => s) 2%positive votes == 15.
Proof. vm_compute. repeat split; reflexivity. Qed.

(* ---- InvalidVoteEliminator (Model/Validate.v eliminate): a filter.  Each ballot is judged on its own; the union converts to the union;
   what passes is the sub-profile of the accepted ballots with their counts: the weight of the valid ballots is conserved *)
Theorem C13_eliminator_single : forall (validate : Validate.pyobj -> Validate.vresult) (b : Validate.pyobj) (n : Z),
  Validate.eliminate validate [(b, n)] =
  match validate b with
  | Validate.VOk => Validate.EOk [(b, n)] | Validate.VVoteError => Validate.EOk []
  | Validate.VCandError => Validate.ECandError | Validate.VCrash => Validate.ECrash
  end.
Proof. exact Eliminate_proofs.eliminate_single. Qed.

Theorem C13_eliminator_additive : forall (validate : Validate.pyobj -> Validate.vresult) (a b : list (Validate.pyobj * Z)),
  (forall ka kb, Validate.eliminate validate a = Validate.EOk ka -> Validate.eliminate validate b = Validate.EOk kb ->
     Validate.eliminate validate (a ++ b) = Validate.EOk (ka ++ kb)) /\
  (forall k, Validate.eliminate validate (a ++ b) = Validate.EOk k ->
     exists ka kb, Validate.eliminate validate a = Validate.EOk ka /\ Validate.eliminate validate b = Validate.EOk kb /\ k = ka ++ kb).
Proof.
  intros validate a b. split; [intros ka kb; apply Eliminate_proofs.eliminate_app|intros k; apply Eliminate_proofs.eliminate_app_inv].
Qed.

Theorem C13_eliminator_filter : forall (validate : Validate.pyobj -> Validate.vresult) (votes kept : list (Validate.pyobj * Z)),
  Validate.eliminate validate votes = Validate.EOk kept ->
  kept = filter (Eliminate_proofs.passes validate) votes /\
  Eliminate_proofs.weight kept = Eliminate_proofs.weight (filter (Eliminate_proofs.passes validate) votes).
Proof.
  intros validate votes kept H. split; [exact (Eliminate_proofs.eliminate_filter validate votes kept H)|exact (Eliminate_proofs.eliminate_weight validate votes kept H)].
Qed.

Theorem C13_eliminator_valid_conserved : forall (validate : Validate.pyobj -> Validate.vresult) (votes : list (Validate.pyobj * Z)),
  (forall bn, In bn votes -> validate (fst bn) = Validate.VOk) -> Validate.eliminate validate votes = Validate.EOk votes.
Proof. exact Eliminate_proofs.eliminate_valid. Qed.

(* ---- reuse: a converter object that converted anything before answers as a fresh one.  The only modelled converter that keeps state is
   RankedToPositionalVotes with a Borda scorer (Model/State.v: the scorer remembers n_candidates and the score table): after ANY history of
   calls on the shared scorer / converter - set_n_candidates, scores(), conversions of other profiles - a conversion is the stateless
   model [run_kind (KPositional (Borda base))] all C13 theorems are about *)
Theorem C13_reuse_positional : forall (base : Z) (cs : list State.borda_call) (votes : list (ranked * Q)),
  State.out_after (State.borda_step base) State.borda_init cs (State.BConvert votes) =
  State.BO_conv (oconv (img_positional (Borda base) (length (cands_ranked votes))) votes).
Proof. intros base cs votes. unfold State.out_after. apply State_proofs.borda_convert_is_C13_model. Qed.

Theorem C13_reuse_positional_run_kind : forall (base : Z) (cs : list State.borda_call) (d : fdict) (votes : list (ranked * Q)),
  decode_all key_ranked d = Some votes ->
  run_kind (KPositional (Borda base)) d =
  match State.out_after (State.borda_step base) State.borda_init cs (State.BConvert votes) with
  | State.BO_conv (Some o) => ok_f o
  | State.BO_conv None => CErr E_VALUE
  | _ => CUnmod
  end.
Proof.
  intros base cs d votes H. rewrite C13_reuse_positional. cbn [run_kind]. unfold with_votes. rewrite H. reflexivity.
Qed.

(* every other modelled converter is a function of its configuration and the profile alone: as a state machine its state is the unit *)
Theorem C13_reuse_stateless : forall (c : ccode) (cs : list vdata) (v : vdata),
  State.out_after (fun (s : unit) (x : vdata) => (s, run_code c x)) tt cs v = run_code c v.
Proof. reflexivity. Qed.

Example C13_reuse_example :
  State.out_after (State.borda_step 1) State.borda_init
    [State.BConvert [([IP 1%positive; IP 2%positive; IP 3%positive; IP 4%positive], 1)]; State.BSetN 7; State.BScores 2]
    (State.BConvert [([IP 1%positive; IP 2%positive], 3)])
  = State.BO_conv (Some [(A 1, 6); (A 2, 3)]).
Proof. vm_compute. reflexivity. Qed.

(* ---- RoundedVotes beyond 28 significant digits: the exact class where the library's two roundings can go wrong.
   [dr_class prec m d x] (Model/Convert2.v, a boolean): the quotient v = sig_round prec x differs from x AND a boundary of mode m - an exact half
   (2 n + 1) / (2 10^d) for the three HALF modes, a grid point n / 10^d for the five directed modes - lies in the closed interval between
   x and v.  Outside it the library's computation is the exact rounding (or InvalidOperation); C13_rounded_code_exact is the special case v == x *)
Theorem C13_rounded_code_outside_class : forall (prec : nat) (via : bool) (m : rmode) (d : nat) (x : Q),
  dr_class prec m d x = false \/ via = false ->
  round_code prec via m d x = RInvalid \/ exists r, round_code prec via m d x = ROk r /\ r == round_q m d x.
Proof. exact round_code_outside_class. Qed.

Theorem C13_rounded_no_boundary_between : forall (m : rmode) (d : nat) (x v : Q),
  crosses m d x v = false -> round_q m d x == round_q m d v.
Proof. exact crosses_false_round. Qed.

Theorem C13_rounded_exact_quotient_outside_class : forall (prec : nat) (m : rmode) (d : nat) (x : Q),
  sig_round prec x == x -> dr_class prec m d x = false.
Proof. exact exact_outside_class. Qed.

(* inside the class the HALF modes do go wrong whenever the half lies strictly between the count and its quotient *)
Theorem C13_rounded_half_between_refuted : forall (prec : nat) (m : rmode) (d : nat) (x : Q) (n : Z), half_mode m = true ->
  (x * (2 * pow10 d) < inject_Z (2 * n + 1) /\ inject_Z (2 * n + 1) < sig_round prec x * (2 * pow10 d)) \/
  (sig_round prec x * (2 * pow10 d) < inject_Z (2 * n + 1) /\ inject_Z (2 * n + 1) < x * (2 * pow10 d)) ->
  ~ round_q m d (sig_round prec x) == round_q m d x.
Proof. exact half_strictly_between_differs. Qed.

(* for the three HALF modes the class EXACTLY: [dr_class_half] = a half strictly between the count and its quotient, or one of the two IS a
   half and the tie rule of the mode sends it away from the other; the library returns the wrong neighbour on this class and nowhere else *)
Theorem C13_rounded_half_class_exact : forall (prec : nat) (m : rmode) (d : nat) (x : Q), half_mode m = true ->
  (dr_class_half prec m d x = true <-> ~ round_q m d (sig_round prec x) == round_q m d x).
Proof. exact dr_class_half_exact. Qed.

Theorem C13_rounded_code_half_exact : forall (prec : nat) (m : rmode) (d : nat) (x r : Q), half_mode m = true ->
  round_code prec true m d x = ROk r -> (r == round_q m d x <-> dr_class_half prec m d x = false).
Proof. exact round_code_half_exact. Qed.

Example C13_rounded_half_class_example :
  let x := (1#2) + (1 # 10 ^ 30) in
  dr_class_half 28 RHalfDown 0 x = true /\ dr_class_half 28 RHalfUp 0 x = false /\ dr_class 28 RHalfUp 0 x = true /\
  dr_class_half 28 RHalfEven 0 ((3#2) - (1 # 10 ^ 30)) = true /\ dr_class_half 28 RHalfEven 0 ((5#2) - (1 # 10 ^ 30)) = false.
Proof. vm_compute. repeat split; reflexivity. Qed.

(* inside and wrong (HALF_DOWN, UP), inside and right all the same (HALF_UP: the quotient IS the half, the tie rule decides), outside although
   the quotient is inexact (1/3 to two decimals) *)
Example C13_rounded_class_witnesses :
  let x := (1#2) + (1 # 10 ^ 30) in
  dr_class 28 RHalfDown 0 x = true /\ round_code 28 true RHalfDown 0 x = ROk 0 /\ round_q RHalfDown 0 x == 1 /\
  dr_class 28 RHalfUp 0 x = true /\ round_code 28 true RHalfUp 0 x = ROk 1 /\ round_q RHalfUp 0 x == 1 /\
  dr_class 28 RHalfEven 2 (1#3) = false /\ Qeq_bool (sig_round 28 (1#3)) (1#3) = false /\
  dr_class 28 RUp 0 (1 + (1 # 10 ^ 30)) = true /\ round_code 28 true RUp 0 (1 + (1 # 10 ^ 30)) = ROk 1 /\
  round_q RUp 0 (1 + (1 # 10 ^ 30)) == 2.
Proof. exact dr_class_witnesses. Qed.


(* ---- wave 6 (fixes/C12-score-counted, C12-truncation-middle; Model/Cardinal.v score_to_simple_x, the unit the correspondence now runs):
   with the counted aggregates - and the truncation repair as long as no truncation is configured, which is the case in every
   configuration the theorems above speak about - the repaired converter IS score_to_simple on profiles with counts >= 0 that score
   no candidate twice, so C13_score_* hold of it as they stand *)
From VL Require Proofs.ScaleMJRepair_proofs.
Theorem C13_score_to_simple_repaired : forall rp (cf : Cardinal.score_cfg) (votes : Cardinal.sprofile),
  (Cardinal.rp_trunc rp = false \/ Qle_bool (Cardinal.sc_trunc cf) 0 = true) -> ScoreDict_proofs.profile_ok votes ->
  Cardinal.score_to_simple_x rp cf votes = Cardinal.score_to_simple cf votes.
Proof. intros rp cf votes Ht Hv. exact (ScaleMJRepair_proofs.score_to_simple_x_eq rp cf votes Ht Hv). Qed.

Print Assumptions C13_additive.
Print Assumptions C13_single_ballot.
Print Assumptions C13_value.
Print Assumptions C13_order_free.
Print Assumptions C13_weight_conserved.
Print Assumptions C13_one_item_images.
Print Assumptions C13_condorcet_additive.
Print Assumptions C13_additive_merge.
Print Assumptions C13_vote_totals_value.
Print Assumptions C13_vote_totals_additive.
Print Assumptions C13_vote_totals_merge.
Print Assumptions C13_vote_totals_single.
Print Assumptions C13_vote_totals_order_free.
Print Assumptions C13_vote_totals_conserves.
Print Assumptions C13_const_totals_union.
Print Assumptions C13_const_totals_merge.
Print Assumptions C13_const_totals_single.
Print Assumptions C13_const_totals_conserves.
Print Assumptions C13_inv_simple_image.
Print Assumptions C13_inv_simple_involutive.
Print Assumptions C13_inv_simple_additive.
Print Assumptions C13_inv_simple_total.
Print Assumptions C13_group_party_totals.
Print Assumptions C13_group_single.
Print Assumptions C13_party_result_additive.
Print Assumptions C13_sel_to_dist_image.
Print Assumptions C13_by_constituency_union.
Print Assumptions C13_by_constituency_image.
Print Assumptions C13_chain_composition.
Print Assumptions C13_chain_single_and_nested.
Print Assumptions C13_compose.
Print Assumptions C13_chain_image.
Print Assumptions C13_chain_additive.
Print Assumptions C13_chain_rounded_refuted.
Print Assumptions C13_approval_split_empty.
Print Assumptions C13_rounded_image.
Print Assumptions C13_rounded_on_grid.
Print Assumptions C13_rounded_half_error.
Print Assumptions C13_rounded_error.
Print Assumptions C13_rounded_fixpoint.
Print Assumptions C13_rounded_idempotent.
Print Assumptions C13_rounded_tie.
Print Assumptions C13_rounded_sign.
Print Assumptions C13_rounded_monotone.
Print Assumptions C13_rounded_compat.
Print Assumptions C13_rounded_additive_refuted.
Print Assumptions C13_rounded_code_exact.
Print Assumptions C13_rounded_double_rounding_refuted.
Print Assumptions C13_merged_sel_defining.
Print Assumptions C13_merged_sel_members.
Print Assumptions C13_merged_sel_sorted.
Print Assumptions C13_merged_sel_stable.
Print Assumptions C13_merged_sel_tallies_additive.
Print Assumptions C13_merged_sel_single.
Print Assumptions C13_chain_additive_same_cands.
Print Assumptions C13_chain_composition_lemma.
Print Assumptions C13_link_additive_same_cands.
Print Assumptions C13_chain_same_cands_needed_refuted.
Print Assumptions C13_score_sum_value.
Print Assumptions C13_score_sum_additive.
Print Assumptions C13_score_sum_single.
Print Assumptions C13_score_tallies_additive.
Print Assumptions C13_score_mean_value.
Print Assumptions C13_score_median_value.
Print Assumptions C13_score_mean_additive_refuted.
Print Assumptions C13_score_median_additive_refuted.
Print Assumptions C13_eliminator_single.
Print Assumptions C13_eliminator_additive.
Print Assumptions C13_eliminator_filter.
Print Assumptions C13_eliminator_valid_conserved.
Print Assumptions C13_reuse_positional.
Print Assumptions C13_reuse_positional_run_kind.
Print Assumptions C13_reuse_stateless.
Print Assumptions C13_rounded_code_outside_class.
Print Assumptions C13_rounded_no_boundary_between.
Print Assumptions C13_rounded_exact_quotient_outside_class.
Print Assumptions C13_rounded_half_between_refuted.
Print Assumptions C13_rounded_half_class_exact.
Print Assumptions C13_rounded_code_half_exact.
Print Assumptions C13_score_sum_unscored_value.
Print Assumptions C13_score_sum_unscored_additive.
Print Assumptions C13_score_sum_unscored_same_cands_needed_refuted.
Print Assumptions C13_score_to_simple_repaired.
