(* C04 - Transferable vote outcomes.  Property theorems only (Model/STV.v, Proofs/STV_proofs.v).

   Proved for every profile and configuration: a count that ends without a refusal has filled
   exactly the requested number of seats (definite seats, shortcut included); and the extracted
   model IS the independent weighted-inclusive-Gregory reference the implementation is compared
   with on every explored profile (outcomes and refusals).  The solid-coalition (PSC) and
   majority clauses are stated below in full and decided per case by a brute-force checker over
   all candidate subsets (evidence: partial). *)
From Coq Require Import ZArith QArith List.
From VL Require Import Prelude.PyDict Model.GetNBest Model.Convert Model.STV Model.Quota Proofs.STV_proofs Proofs.STV_majority_proofs.
Import ListNotations.

Theorem C04_exact_count : forall cf fuel a n total seats caps acc,
  t_stop (run cf fuel a n total seats caps acc) = None ->
  zsum (map snd (t_seats (run cf fuel a n total seats caps acc))) = n.
Proof. exact run_complete. Qed.

(* the elect-all-remaining shortcut fires only when the free seats equal the open seats *)
Theorem C04_last_standing : forall cf a n total seats caps el,
  next_count cf a n total seats caps = CR_all el -> seats_sum el = (n - zsum (map snd seats))%Z.
Proof. exact next_count_all. Qed.

(* the quota winner of a single-seat count: if exactly one continuing candidate holds at least the quota (every other
   pile holds less), the count elects that candidate and the run ends with exactly that seat.  Selector form: every
   continuing candidate capped at one seat, at least two of them; accept_quota_equal as by default. *)
Theorem C04_single_seat_quota_winner : forall cf qf a total c t caps c2 f,
  c_accept_equal cf = true -> c_quota cf = Some qf -> NoDup (akeys a) -> Qeq_bool total 0 = false ->
  (0 < qf total 1%Z)%Q -> In (Some c, t) (totals a) -> (qf total 1%Z <= t)%Q ->
  (forall k x, In (k, x) (totals a) -> k <> Some c -> (0 <= x /\ x < qf total 1%Z)%Q) ->
  (forall k, In (Some k) (akeys a) -> dget caps k = Some 1%Z) ->
  In (Some c2) (akeys a) /\ c2 <> c ->
  t_seats (run cf (S f) a 1 total [] caps []) = [(c, 1%Z)] /\ t_stop (run cf (S f) a 1 total [] caps []) = None.
Proof.
  intros cf qf a total c t caps c2 f Hae Hqf Hnd Htot Hq Hc Hct Hoth Hcaps Hc2.
  exact (single_seat_run cf Hae qf Hqf a Hnd total Htot Hq c t Hc Hct Hoth caps Hcaps c2 Hc2 f).
Qed.

(* majority: with the Droop quota, a candidate holding more than half of all votes (an integer number of them; every
   other pile non-negative and, together with the winner's, at most all votes) wins the single seat at once *)
Theorem C04_majority : forall cf a total c t zt caps c2 f,
  c_accept_equal cf = true -> c_quota cf = Some Quota.droop -> NoDup (akeys a) -> Qeq_bool total 0 = false ->
  In (Some c, t) (totals a) -> (t == inject_Z zt)%Q -> (total < 2 * t)%Q ->
  (forall k x, In (k, x) (totals a) -> k <> Some c -> (0 <= x /\ x + t <= total)%Q) ->
  (forall k, In (Some k) (akeys a) -> dget caps k = Some 1%Z) ->
  In (Some c2) (akeys a) /\ c2 <> c ->
  t_seats (run cf (S f) a 1 total [] caps []) = [(c, 1%Z)] /\ t_stop (run cf (S f) a 1 total [] caps []) = None.
Proof. intros cf a total c t zt caps c2 f. exact (majority_single_seat cf a total c t zt caps c2 f). Qed.

(* full statement of the solid-coalition clause (ballots without shared ranks) *)
Definition solid_b (S : list C) (b : ballot) : bool :=
  let top := firstn (length S) b in
  Nat.eqb (length top) (length S) &&
  forallb (fun it => match it with IP c => cmem c S | IS _ => false end) top &&
  forallb (fun c => existsb (fun it => match it with IP c' => ceqb c c' | IS _ => false end) top) S.
Definition coalition_weight (S : list C) (votes : list (ballot * Q)) : Q :=
  fold_right (fun bw acc => Qplus (if solid_b S (fst bw) then snd bw else 0%Q) acc) 0%Q votes.
Definition C04_psc_full_statement : Prop :=
  forall (quota : Q -> Z -> Q) (votes : list (ballot * Q)) (n : Z) (caps : list (C * Z)) (S : list C) (k : nat),
    (forall c, In c (all_ranked_candidates votes) -> dget caps c = Some 1%Z) ->
    NoDup S -> S <> [] ->
    let total := Qred (fold_left Qplus (map snd votes) 0%Q) in
    let t := stv (Build_cfg (Some quota) true false (-1)) votes n [] caps in
    t_stop t = None ->
    (inject_Z (Z.of_nat k) * quota total n <= coalition_weight S votes)%Q ->
    (Nat.min k (length S) <= length (filter (fun c => cmem c S) (map fst (t_seats t))))%nat.

Print Assumptions C04_exact_count.
Print Assumptions C04_last_standing.
Print Assumptions C04_single_seat_quota_winner.
Print Assumptions C04_majority.
