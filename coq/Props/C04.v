(* C04 - Transferable vote outcomes.  Property theorems only (Model/STV.v, Proofs/STV_proofs.v).

   Proved for every profile and configuration: a count that ends without a refusal has filled
   exactly the requested number of seats (definite seats, shortcut included); and the extracted
   model IS the independent weighted-inclusive-Gregory reference the implementation is compared
   with on every explored profile (outcomes and refusals).  The solid-coalition (PSC) clause, the
   majority clause (on the first count's allocation and on the ballots themselves) and the count /
   distinctness / cap clauses are theorems for all inputs; a brute-force checker over all candidate
   subsets additionally evaluates them on every implementation outcome. *)
From Coq Require Import ZArith QArith List.
From VL Require Import Prelude.PyDict Model.GetNBest Model.Convert Model.STV Model.Quota Proofs.STV_proofs Proofs.STV_majority_proofs Proofs.STV_psc_proofs Proofs.STV_count_proofs.
From VL Require Import Model.STVHare Proofs.STVHare_draws_proofs Proofs.STVHare_proofs Proofs.STVHare_count_proofs Proofs.STVHare_psc_proofs.
Import ListNotations.

Theorem C04_exact_count : forall cf fuel a n total seats caps acc,
  t_stop (run cf fuel a n total seats caps acc) = None ->
  zsum (map snd (t_seats (run cf fuel a n total seats caps acc))) = n.
Proof. exact run_complete. Qed.

(* the elect-all-remaining shortcut fires only when the free seats equal the open seats *)
Theorem C04_last_standing : forall cf a n total seats caps el,
  next_count cf a n total seats caps = CR_all el -> seats_sum el = (n - zsum (map snd seats))%Z.
Proof. exact next_count_all. Qed.

(* the quota winner of a single-seat count: if exactly one continuing candidate holds at least the quota (every other
   pile holds less), the count elects that candidate and the run ends with exactly that seat.  Selector form: every
   continuing candidate capped at one seat, at least two of them; accept_quota_equal as by default. *)
Theorem C04_single_seat_quota_winner : forall cf qf a total c t caps c2 f,
  c_accept_equal cf = true -> c_quota cf = Some qf -> NoDup (akeys a) -> Qeq_bool total 0 = false ->
  (0 < qf total 1%Z)%Q -> In (Some c, t) (totals a) -> (qf total 1%Z <= t)%Q ->
  (forall k x, In (k, x) (totals a) -> k <> Some c -> (0 <= x /\ x < qf total 1%Z)%Q) ->
  (forall k, In (Some k) (akeys a) -> dget caps k = Some 1%Z) ->
  In (Some c2) (akeys a) /\ c2 <> c ->
  t_seats (run cf (S f) a 1 total [] caps []) = [(c, 1%Z)] /\ t_stop (run cf (S f) a 1 total [] caps []) = None.
Proof.
  intros cf qf a total c t caps c2 f Hae Hqf Hnd Htot Hq Hc Hct Hoth Hcaps Hc2.
  exact (single_seat_run cf Hae qf Hqf a Hnd total Htot Hq c t Hc Hct Hoth caps Hcaps c2 Hc2 f).
Qed.

(* majority: with the Droop quota, a candidate holding more than half of all votes (an integer number of them; every
   other pile non-negative and, together with the winner's, at most all votes) wins the single seat at once *)
Theorem C04_majority : forall cf a total c t zt caps c2 f,
  c_accept_equal cf = true -> c_quota cf = Some Quota.droop -> NoDup (akeys a) -> Qeq_bool total 0 = false ->
  In (Some c, t) (totals a) -> (t == inject_Z zt)%Q -> (total < 2 * t)%Q ->
  (forall k x, In (k, x) (totals a) -> k <> Some c -> (0 <= x /\ x + t <= total)%Q) ->
  (forall k, In (Some k) (akeys a) -> dget caps k = Some 1%Z) ->
  In (Some c2) (akeys a) /\ c2 <> c ->
  t_seats (run cf (S f) a 1 total [] caps []) = [(c, 1%Z)] /\ t_stop (run cf (S f) a 1 total [] caps []) = None.
Proof. intros cf a total c t zt caps c2 f. exact (majority_single_seat cf a total c t zt caps c2 f). Qed.

(* ---------------------------------------------------------------- proportionality for solid coalitions
   [solid_b S b] (Proofs/STV_psc_proofs.v): the first |S| ranks of b are plain (unshared) ranks naming exactly the
   members of S; [coalition_weight S votes] is the weight of the solid ballots.  Nothing is assumed about the other
   ballots (shared ranks, truncation, repeated names) nor about what follows the top |S| ranks of a solid ballot.

   Selector form: every candidate capped at one seat, no previous seats, accept_quota_equal, one elimination at a
   time (eliminate_step = -1); mandatory_quota free.  Hypotheses on the data: weights non-negative; the quota
   actually used, q = quota total n, is positive and (n+1) q exceeds the votes (true of Droop for n >= 0 and of Hare
   for n >= 1, total > 0: corollaries below).  Then every count that ends normally seats min(k, |S|) members of a
   coalition holding k quotas. *)
Definition C04_psc_full_statement : Prop :=
  forall (quota : Q -> Z -> Q) (mq : bool) (votes : list (ballot * Q)) (n : Z) (caps : list (C * Z)) (S : list C) (k : nat),
    (forall c, In c (all_ranked_candidates votes) -> dget caps c = Some 1%Z) ->
    NoDup S -> S <> [] ->
    (forall b w, In (b, w) votes -> (0 <= w)%Q) ->
    let total := Qred (fold_left Qplus (map snd votes) 0%Q) in
    (0 < quota total n)%Q -> (total < inject_Z (n + 1) * quota total n)%Q ->
    let t := stv (Build_cfg (Some quota) true mq (-1)) votes n [] caps in
    t_stop t = None ->
    (inject_Z (Z.of_nat k) * quota total n <= coalition_weight S votes)%Q ->
    (Nat.min k (length S) <= length (filter (fun c => cmem c S) (map fst (t_seats t))))%nat.

Theorem C04_psc : C04_psc_full_statement.
Proof.
  intros quota mq votes n caps S k Hcaps Hnd Hne Hw total Hq Hd t Hstop Hk.
  exact (psc_main (Build_cfg (Some quota) true mq (-1)) quota votes n caps S k eq_refl eq_refl eq_refl Hcaps Hnd Hne Hw Hq Hd Hstop Hk).
Qed.

(* the same, declaratively: there is a set W of distinct members of S, each holding exactly one seat, of size
   min(k, |S|) at least *)
Theorem C04_psc_winners : forall (quota : Q -> Z -> Q) (mq : bool) (votes : list (ballot * Q)) (n : Z) (caps : list (C * Z)) (S : list C) (k : nat),
    (forall c, In c (all_ranked_candidates votes) -> dget caps c = Some 1%Z) ->
    NoDup S -> S <> [] ->
    (forall b w, In (b, w) votes -> (0 <= w)%Q) ->
    let total := Qred (fold_left Qplus (map snd votes) 0%Q) in
    (0 < quota total n)%Q -> (total < inject_Z (n + 1) * quota total n)%Q ->
    let t := stv (Build_cfg (Some quota) true mq (-1)) votes n [] caps in
    t_stop t = None ->
    (inject_Z (Z.of_nat k) * quota total n <= coalition_weight S votes)%Q ->
    exists W : list C, NoDup W /\ incl W S /\ (forall c, In c W -> In (c, 1%Z) (t_seats t)) /\
                       (Nat.min k (length S) <= length W)%nat.
Proof.
  intros quota mq votes n caps S k Hcaps Hnd Hne Hw total Hq Hd t Hstop Hk.
  exact (psc_winners (Build_cfg (Some quota) true mq (-1)) quota votes n caps S k eq_refl eq_refl eq_refl Hcaps Hnd Hne Hw Hq Hd Hstop Hk).
Qed.

(* Droop quota: no hypothesis on the quota is left *)
Theorem C04_psc_droop : forall (mq : bool) (votes : list (ballot * Q)) (n : Z) (caps : list (C * Z)) (S : list C) (k : nat),
    (forall c, In c (all_ranked_candidates votes) -> dget caps c = Some 1%Z) ->
    NoDup S -> S <> [] -> (0 <= n)%Z ->
    (forall b w, In (b, w) votes -> (0 <= w)%Q) ->
    let total := Qred (fold_left Qplus (map snd votes) 0%Q) in
    let t := stv (Build_cfg (Some Quota.droop) true mq (-1)) votes n [] caps in
    t_stop t = None ->
    (inject_Z (Z.of_nat k) * Quota.droop total n <= coalition_weight S votes)%Q ->
    (Nat.min k (length S) <= length (filter (fun c => cmem c S) (map fst (t_seats t))))%nat.
Proof.
  intros mq votes n caps S k Hcaps Hnd Hne Hn Hw total t Hstop Hk.
  assert (Ht : (0 <= total)%Q).
  { unfold total. rewrite total_vsum. clear -Hw. induction votes as [|[b w] vs IH]; simpl; [apply Qle_refl|].
    apply (Qle_trans _ (0 + 0)); [apply Qle_refl|]. apply Qplus_le_compat; [apply (Hw b w); left; reflexivity|].
    apply IH. intros b0 w0 H. apply (Hw b0 w0). right. exact H. }
  destruct (droop_ok total n Ht Hn) as [Hq Hd].
  exact (C04_psc Quota.droop mq votes n caps S k Hcaps Hnd Hne Hw Hq Hd Hstop Hk).
Qed.

(* Hare quota (at least one seat, some vote cast) *)
Theorem C04_psc_hare : forall (mq : bool) (votes : list (ballot * Q)) (n : Z) (caps : list (C * Z)) (S : list C) (k : nat),
    (forall c, In c (all_ranked_candidates votes) -> dget caps c = Some 1%Z) ->
    NoDup S -> S <> [] -> (1 <= n)%Z ->
    (forall b w, In (b, w) votes -> (0 <= w)%Q) ->
    let total := Qred (fold_left Qplus (map snd votes) 0%Q) in
    (0 < total)%Q ->
    let t := stv (Build_cfg (Some Quota.hare) true mq (-1)) votes n [] caps in
    t_stop t = None ->
    (inject_Z (Z.of_nat k) * Quota.hare total n <= coalition_weight S votes)%Q ->
    (Nat.min k (length S) <= length (filter (fun c => cmem c S) (map fst (t_seats t))))%nat.
Proof.
  intros mq votes n caps S k Hcaps Hnd Hne Hn Hw total Ht t Hstop Hk.
  destruct (hare_ok total n Ht Hn) as [Hq Hd].
  exact (C04_psc Quota.hare mq votes n caps S k Hcaps Hnd Hne Hw Hq Hd Hstop Hk).
Qed.

(* the hypotheses are satisfiable by a non-trivial count: 4 candidates, 3 seats, Droop quota 6 of 23 votes; the
   coalition {1,2} holds 13 votes = 2 quotas on ballots ranking 1,2 (in either order) first; four counts: 1 elected,
   2 elected after the transfer of 1's surplus, 4 eliminated, 3 elected as the last standing *)
Definition ex_votes : list (ballot * Q) :=
  [([IP 1; IP 2; IP 3], 9%Q); ([IP 2; IP 1], 4%Q); ([IP 3; IP 4], 3%Q); ([IP 4; IS [1; 3]], 3%Q); ([IP 3], 2%Q); ([IP 4; IP 3], 2%Q)]%positive.
Definition ex_caps : list (C * Z) := [(1%positive, 1%Z); (2%positive, 1%Z); (3%positive, 1%Z); (4%positive, 1%Z)].
Example C04_psc_example :
  let total := Qred (fold_left Qplus (map snd ex_votes) 0%Q) in
  let t := stv (Build_cfg (Some Quota.droop) true false (-1)) ex_votes 3 [] ex_caps in
  forallb (fun c => match dget ex_caps c with Some 1%Z => true | _ => false end) (all_ranked_candidates ex_votes) = true /\
  forallb (fun bw => Qle_bool 0 (snd bw)) ex_votes = true /\
  Quota.droop total 3 = 6%Q /\ coalition_weight [1; 2]%positive ex_votes = 13%Q /\
  t_stop t = None /\ length (t_counts t) = 4%nat /\ t_seats t = [(1%positive, 1%Z); (2%positive, 1%Z); (3%positive, 1%Z)].
Proof. vm_compute. repeat split; try reflexivity. Qed.

(* ---------------------------------------------------------------- the same under the Hare (random whole-ballot) transferer
   Model/STVHare.v: the random draws of the transferer are the oracle argument [orc] - the theorem holds for EVERY
   oracle, i.e. whatever individual ballots are drawn away from the elected candidates and however the odd votes of a
   shared rank fall.  Hypotheses as for C04_psc, with whole non-negative vote counts ([votes_whole]: the domain of the
   Hare transferer); a count that ends normally (h_stop = None: in particular the oracle was accepted and seats * quota
   was a whole number) seats min(k, |S|) members of a coalition holding k quotas. *)
Theorem C04_psc_hare_transferer :
  forall (quota : Q -> Z -> Q) (mq : bool) (votes : list (ballot * Q)) (n : Z) (caps : list (C * Z)) (S : list C) (k : nat)
         (orc : oracle),
    (forall c, In c (all_ranked_candidates votes) -> dget caps c = Some 1%Z) ->
    NoDup S -> S <> [] ->
    votes_whole votes ->
    let total := Qred (fold_left Qplus (map snd votes) 0%Q) in
    (0 < quota total n)%Q -> (total < inject_Z (n + 1) * quota total n)%Q ->
    let t := stv_h (Build_cfg (Some quota) true mq (-1)) votes n [] caps orc in
    h_stop t = None ->
    (inject_Z (Z.of_nat k) * quota total n <= coalition_weight S votes)%Q ->
    (Nat.min k (length S) <= length (filter (fun c => cmem c S) (map fst (h_seats t))))%nat.
Proof.
  intros quota mq votes n caps S k orc Hcaps Hnd Hne Hw total Hq Hd t Hstop Hk.
  destruct k as [|k']; [simpl; apply Nat.le_0_l|].
  exact (proj1 (psc_strong_h (Build_cfg (Some quota) true mq (-1)) quota votes n caps S (Datatypes.S k') orc eq_refl eq_refl eq_refl
                             Hcaps Hnd Hne Hw Hq Hd Hstop Hk (le_n_S _ _ (Nat.le_0_l k')))).
Qed.

Theorem C04_psc_hare_transferer_winners :
  forall (quota : Q -> Z -> Q) (mq : bool) (votes : list (ballot * Q)) (n : Z) (caps : list (C * Z)) (S : list C) (k : nat)
         (orc : oracle),
    (forall c, In c (all_ranked_candidates votes) -> dget caps c = Some 1%Z) ->
    NoDup S -> S <> [] ->
    votes_whole votes ->
    let total := Qred (fold_left Qplus (map snd votes) 0%Q) in
    (0 < quota total n)%Q -> (total < inject_Z (n + 1) * quota total n)%Q ->
    let t := stv_h (Build_cfg (Some quota) true mq (-1)) votes n [] caps orc in
    h_stop t = None ->
    (inject_Z (Z.of_nat k) * quota total n <= coalition_weight S votes)%Q ->
    exists W : list C, NoDup W /\ incl W S /\ (forall c, In c W -> In (c, 1%Z) (h_seats t)) /\
                       (Nat.min k (length S) <= length W)%nat.
Proof.
  intros quota mq votes n caps S k orc Hcaps Hnd Hne Hw total Hq Hd t Hstop Hk.
  exact (psc_winners_h (Build_cfg (Some quota) true mq (-1)) quota votes n caps S k orc eq_refl eq_refl eq_refl Hcaps Hnd Hne Hw Hq Hd Hstop Hk).
Qed.

(* Droop quota (the whole-number quota the Hare transferer is used with): no hypothesis on the quota is left *)
Theorem C04_psc_hare_transferer_droop :
  forall (mq : bool) (votes : list (ballot * Q)) (n : Z) (caps : list (C * Z)) (S : list C) (k : nat) (orc : oracle),
    (forall c, In c (all_ranked_candidates votes) -> dget caps c = Some 1%Z) ->
    NoDup S -> S <> [] -> (0 <= n)%Z ->
    votes_whole votes ->
    let total := Qred (fold_left Qplus (map snd votes) 0%Q) in
    let t := stv_h (Build_cfg (Some Quota.droop) true mq (-1)) votes n [] caps orc in
    h_stop t = None ->
    (inject_Z (Z.of_nat k) * Quota.droop total n <= coalition_weight S votes)%Q ->
    (Nat.min k (length S) <= length (filter (fun c => cmem c S) (map fst (h_seats t))))%nat.
Proof.
  intros mq votes n caps S k orc Hcaps Hnd Hne Hn Hw total t Hstop Hk.
  assert (Hw0 : forall b w, In (b, w) votes -> (0 <= w)%Q) by (intros b w Hin; apply whole_nonneg_ge0, (Hw b w Hin)).
  assert (Ht : (0 <= total)%Q).
  { unfold total. rewrite total_vsum. clear -Hw0. induction votes as [|[b w] vs IH]; simpl; [apply Qle_refl|].
    apply (Qle_trans _ (0 + 0)); [apply Qle_refl|]. apply Qplus_le_compat; [apply (Hw0 b w); left; reflexivity|].
    apply IH. intros b0 w0 H. apply (Hw0 b0 w0). right. exact H. }
  destruct (droop_ok total n Ht Hn) as [Hq Hd].
  exact (C04_psc_hare_transferer Quota.droop mq votes n caps S k orc Hcaps Hnd Hne Hw Hq Hd Hstop Hk).
Qed.

(* exact count under the Hare transferer, for every oracle: a count that ends normally has filled exactly n seats *)
Theorem C04_exact_count_hare_transferer : forall cf votes n prev caps (orc : oracle),
  h_stop (stv_h cf votes n prev caps orc) = None ->
  zsum (map snd (h_seats (stv_h cf votes n prev caps orc))) = n.
Proof. exact stv_h_complete. Qed.

(* non-vacuity: the count of C04_psc_example under the Hare transferer with an oracle that draws six of candidate 1's
   nine ballots, six of candidate 2's seven, and the six of candidate 3: three counts, the coalition {1,2} is seated *)
Example C04_psc_hare_transferer_example :
  let t := stv_h (Build_cfg (Some Quota.droop) true false (-1)) ex_votes 3 [] ex_caps
                 [[8; 1; 2; 3; 4; 6]; [0; 1; 2; 3; 6; 5]; [0; 1; 2; 3; 4; 5]]%Z in
  votes_wholeb ex_votes = true /\
  h_stop t = None /\ h_left t = 0%nat /\ length (h_counts t) = 3%nat /\
  h_seats t = [(1%positive, 1%Z); (2%positive, 1%Z); (3%positive, 1%Z)].
Proof. vm_compute. repeat split; try reflexivity. Qed.

(* why the quota hypothesis is there: the clause read for ANY quota function fails for quotas below Droop's, already
   for the library's Imperiali quota v/(n+2): one seat, 5 votes for 1 and 4 for 2, quota 3; both reach it, the larger
   surplus takes the seat, and the coalition {2} holding one quota is left without *)
Definition C04_psc_unrestricted_statement : Prop :=
  forall (quota : Q -> Z -> Q) (votes : list (ballot * Q)) (n : Z) (caps : list (C * Z)) (S : list C) (k : nat),
    (forall c, In c (all_ranked_candidates votes) -> dget caps c = Some 1%Z) ->
    NoDup S -> S <> [] ->
    let total := Qred (fold_left Qplus (map snd votes) 0%Q) in
    let t := stv (Build_cfg (Some quota) true false (-1)) votes n [] caps in
    t_stop t = None ->
    (inject_Z (Z.of_nat k) * quota total n <= coalition_weight S votes)%Q ->
    (Nat.min k (length S) <= length (filter (fun c => cmem c S) (map fst (t_seats t))))%nat.
Theorem C04_psc_unrestricted_refuted : ~ C04_psc_unrestricted_statement.
Proof.
  intros H.
  specialize (H Quota.imperiali [([IP 1%positive], 5%Q); ([IP 2%positive], 4%Q)] 1%Z
                [(1%positive, 1%Z); (2%positive, 1%Z)] [2%positive] 1%nat).
  cbv zeta in H. revert H. vm_compute. intros H.
  refine (_ (H _ _ _ eq_refl _)).
  - intros Hle. inversion Hle.
  - intros c [<-|[<-|[]]]; reflexivity.
  - constructor; [intros []|constructor].
  - discriminate.
  - discriminate.
Qed.

(* ---------------------------------------------------------------- the majority clause on the ballots themselves
   [coalition_weight [c] votes] is the weight of the ballots whose first rank is the plain (unshared) rank c.
   Lifted from the first count's allocation to the profile (Proofs/STV_count_proofs.v: initial_maj gives what
   initial_allocation puts on c's pile; next_count_maj / run_maj carry "c continues and holds more than half"
   through eliminations until c is elected by quota or is the last standing). *)

(* any quota of at least half the votes: if the single-seat count ends without a refusal, c holds the seat.
   Selector form (every cap 1); accept_quota_equal and mandatory_quota free; eliminate_step negative. *)
Theorem C04_majority_ballots : forall cf qf (votes : list (ballot * Q)) (caps : list (C * Z)) (c : C),
  (c_step cf < 0)%Z -> c_quota cf = Some qf ->
  (forall x, In x (all_ranked_candidates votes) -> dget caps x = Some 1%Z) ->
  (forall b w, In (b, w) votes -> (0 <= w)%Q) ->
  let total := Qred (fold_left Qplus (map snd votes) 0%Q) in
  (0 < qf total 1%Z)%Q -> (total <= 2 * qf total 1%Z)%Q ->
  (total < 2 * coalition_weight [c] votes)%Q ->
  let t := stv cf votes 1 [] caps in
  t_stop t = None -> t_seats t = [(c, 1%Z)].
Proof. exact majority_ballots. Qed.

(* Droop and Hare: no hypothesis on the quota left *)
Theorem C04_majority_ballots_droop_hare : forall (hare_q ae mq : bool) (step : Z) (votes : list (ballot * Q)) (caps : list (C * Z)) (c : C),
  (step < 0)%Z ->
  (forall x, In x (all_ranked_candidates votes) -> dget caps x = Some 1%Z) ->
  (forall b w, In (b, w) votes -> (0 <= w)%Q) ->
  let total := Qred (fold_left Qplus (map snd votes) 0%Q) in
  (total < 2 * coalition_weight [c] votes)%Q ->
  let t := stv (Build_cfg (Some (if hare_q then Quota.hare else Quota.droop)) ae mq step) votes 1 [] caps in
  t_stop t = None -> t_seats t = [(c, 1%Z)].
Proof.
  intros hare_q ae mq step votes caps c Hstep Hcaps Hw total Hmaj t Hstop.
  assert (Hpos : (0 < total)%Q).
  { pose proof (total_vsum votes) as Htv. fold total in Htv. pose proof (cw_le_vsum [c] votes Hw) as Hcv.
    rewrite <- Htv in Hcv. clear -Hmaj Hcv. apply Qnot_le_lt. intros H.
    assert (H2 : (2 * coalition_weight [c] votes <= 2 * total)%Q) by (apply Qmult_le_l; [reflexivity|exact Hcv]).
    assert (H3 : (2 * total <= total)%Q).
    { setoid_replace (2 * total)%Q with (total + total)%Q by ring.
      setoid_replace total with (total + 0)%Q at 3 by ring. apply Qplus_le_r. exact H. }
    apply (Qlt_irrefl total). eapply Qlt_le_trans; [exact Hmaj|]. eapply Qle_trans; eassumption. }
  destruct hare_q.
  - destruct (hare_ok total 1 Hpos) as [Hq Hd]; [reflexivity|].
    refine (majority_ballots (Build_cfg (Some Quota.hare) ae mq step) Quota.hare votes caps c Hstep eq_refl Hcaps Hw Hq _ Hmaj Hstop).
    apply Qlt_le_weak. exact Hd.
  - destruct (droop_ok total 1 (Qlt_le_weak _ _ Hpos)) as [Hq Hd]; [discriminate|].
    refine (majority_ballots (Build_cfg (Some Quota.droop) ae mq step) Quota.droop votes caps c Hstep eq_refl Hcaps Hw Hq _ Hmaj Hstop).
    apply Qlt_le_weak. exact Hd.
Qed.

(* Droop, whole numbers of first-choice votes: c is elected at the first count, whatever the other ballots -
   the run cannot end in a refusal (a second candidate stands) *)
Theorem C04_majority_ballots_first_count : forall cf (votes : list (ballot * Q)) (caps : list (C * Z)) (c c2 : C) (z : Z),
  c_accept_equal cf = true -> c_quota cf = Some Quota.droop ->
  (forall x, In x (all_ranked_candidates votes) -> dget caps x = Some 1%Z) ->
  (forall b w, In (b, w) votes -> (0 <= w)%Q) ->
  let total := Qred (fold_left Qplus (map snd votes) 0%Q) in
  (coalition_weight [c] votes == inject_Z z)%Q -> (total < 2 * inject_Z z)%Q ->
  In c2 (all_ranked_candidates votes) -> c2 <> c ->
  let t := stv cf votes 1 [] caps in
  t_seats t = [(c, 1%Z)] /\ t_stop t = None.
Proof. exact majority_ballots_droop. Qed.

(* non-vacuity: Hare quota 11 of 11 votes, nobody reaches it; 3 and then 2 are eliminated, 1 - first choice of 6 -
   is the last standing (three counts); the same profile ends at the first count under Droop *)
Definition maj_votes : list (ballot * Q) := [([IP 1; IP 2], 6%Q); ([IP 2; IP 3], 3%Q); ([IP 3; IP 2], 2%Q)]%positive.
Definition maj_caps : list (C * Z) := [(1%positive, 1%Z); (2%positive, 1%Z); (3%positive, 1%Z)].
Example C04_majority_example :
  let th := stv (Build_cfg (Some Quota.hare) true false (-1)) maj_votes 1 [] maj_caps in
  let td := stv (Build_cfg (Some Quota.droop) true false (-1)) maj_votes 1 [] maj_caps in
  coalition_weight [1%positive] maj_votes = 6%Q /\
  t_stop th = None /\ length (t_counts th) = 3%nat /\ t_seats th = [(1%positive, 1%Z)] /\
  t_stop td = None /\ length (t_counts td) = 1%nat /\ t_seats td = [(1%positive, 1%Z)].
Proof. vm_compute. repeat split; reflexivity. Qed.

(* ---------------------------------------------------------------- who is seated, every configuration
   Distributor form: no candidate is listed twice, everybody listed stands, holds at least one seat and never
   more than its cap (max_seats); finished and refused counts alike.  Caps of standing candidates positive. *)
Theorem C04_seats_within_caps : forall cf (votes : list (ballot * Q)) (n : Z) (caps : list (C * Z)),
  (forall c m, In c (all_ranked_candidates votes) -> dget caps c = Some m -> (0 < m)%Z) ->
  let t := stv cf votes n [] caps in
  NoDup (map fst (t_seats t)) /\
  forall c s, In (c, s) (t_seats t) ->
    In c (all_ranked_candidates votes) /\ (1 <= s)%Z /\ forall m, dget caps c = Some m -> (s <= m)%Z.
Proof. exact stv_seats_ok. Qed.

(* ... and a finished count hands out exactly n seats among them *)
Theorem C04_exact_count_caps : forall cf (votes : list (ballot * Q)) (n : Z) (caps : list (C * Z)),
  (forall c m, In c (all_ranked_candidates votes) -> dget caps c = Some m -> (0 < m)%Z) ->
  let t := stv cf votes n [] caps in
  t_stop t = None ->
  zsum (map snd (t_seats t)) = n /\ NoDup (map fst (t_seats t)) /\
  forall c s, In (c, s) (t_seats t) -> (1 <= s)%Z /\ forall m, dget caps c = Some m -> (s <= m)%Z.
Proof.
  intros cf votes n caps Hcap t Hstop. destruct (stv_seats_ok cf votes n caps Hcap) as [H1 H2]. fold t in H1, H2.
  split; [unfold t, stv in *; apply run_complete, Hstop|]. split; [exact H1|].
  intros c s Hin. exact (proj2 (H2 c s Hin)).
Qed.

(* Selector form (every cap 1): the elected list holds exactly the requested number of distinct candidates *)
Theorem C04_exact_distinct : forall cf (votes : list (ballot * Q)) (n : Z) (caps : list (C * Z)),
  (forall c, In c (all_ranked_candidates votes) -> dget caps c = Some 1%Z) ->
  let t := stv cf votes n [] caps in
  t_stop t = None ->
  Z.of_nat (length (t_seats t)) = n /\ NoDup (map fst (t_seats t)) /\
  forall c s, In (c, s) (t_seats t) -> s = 1%Z /\ In c (all_ranked_candidates votes).
Proof. exact stv_selector_count. Qed.

(* non-vacuity with caps above one: three seats, caps 2/2/1; and why caps must be positive: a standing
   candidate capped at 0 is listed with 0 seats by the shortcut (the implementation returns {'A': 1, 'B': 0}) *)
Example C04_caps_example :
  let t := stv (Build_cfg (Some Quota.droop) true false (-1))
               [([IP 1; IP 2], 14%Q); ([IP 2; IP 3], 5%Q); ([IP 3; IP 2], 4%Q)]%positive 3 []
               [(1%positive, 2%Z); (2%positive, 2%Z); (3%positive, 1%Z)] in
  t_stop t = None /\ t_seats t = [(1%positive, 2%Z); (2%positive, 1%Z)].
Proof. vm_compute. split; reflexivity. Qed.
Example C04_cap_zero_listed :
  let t := stv (Build_cfg (Some Quota.droop) true false (-1)) [([IP 1], 2%Q); ([IP 2], 1%Q)]%positive 1 []
               [(1%positive, 1%Z); (2%positive, 0%Z)] in
  t_stop t = None /\ t_seats t = [(1%positive, 1%Z); (2%positive, 0%Z)].
Proof. vm_compute. split; reflexivity. Qed.

Print Assumptions C04_exact_count.
Print Assumptions C04_last_standing.
Print Assumptions C04_single_seat_quota_winner.
Print Assumptions C04_majority.
Print Assumptions C04_psc.
Print Assumptions C04_psc_winners.
Print Assumptions C04_psc_droop.
Print Assumptions C04_psc_hare.
Print Assumptions C04_psc_example.
Print Assumptions C04_psc_unrestricted_refuted.
Print Assumptions C04_majority_ballots.
Print Assumptions C04_majority_ballots_droop_hare.
Print Assumptions C04_majority_ballots_first_count.
Print Assumptions C04_seats_within_caps.
Print Assumptions C04_exact_count_caps.
Print Assumptions C04_exact_distinct.
Print Assumptions C04_psc_hare_transferer.
Print Assumptions C04_psc_hare_transferer_winners.
Print Assumptions C04_psc_hare_transferer_droop.
Print Assumptions C04_exact_count_hare_transferer.
Print Assumptions C04_psc_hare_transferer_example.
